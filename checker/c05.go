package main

import (
	"fmt"
	"go/token"
	"go/types"
	"strings"

	"golang.org/x/tools/go/ssa"
)

func init() {
	props["C05"] = func(c *Ctx) {
		c.R.Expl = "Structural conditions of full reclamation: (F1) unlink-to-zero truncates to 0 before freeing the inode and every Resize result that asks for background freeing starts the shrinker; (F2) frees reach the in-memory allocators exactly at commit, allocations are returned exactly at abort; (F3) no double return of allocations; (F4) half-freed objects are finished before reuse or resize; (F5) link-count balance; (F6) shrinker accounting under its mutex."
		c.R.NotDec = "equality of the used set with the reachable set on any state; the arithmetic of Shrink/indshrink."
		ruleF1(c, "C05.F1")
		ruleF2(c, "C05.F2")
		ruleF3(c, "C05.F3")
		ruleF4(c, "C05.F4")
		ruleS3(c, "C05.F5")
		ruleF6(c, "C05.F6")
		ruleF8(c, "C05.F8")
		ruleRefused(c, "C05.F9")
		ruleF10(c, "C05.F10")
		ruleS4(c, "C05.F11")
		ruleColdRead(c, "C05.F12")
		ruleZ10(c, "C05.F13")
		ruleF14(c, "C05.F14")
		ruleK5(c, "C05.F15")
		ruleF16(c, "C05.F16")
		ruleF17(c, "C05.F17")
		// a shrink transaction larger than the log is refused on every retry: the truncation never finishes
		ruleShrinkReserve(c, "C05.F18")
		ruleBmapFlag(c, "C05.F19")
		// a READ that maps blocks behind the end of the file links blocks no truncation will ever look at
		ruleReadClamp(c, "C05.F20")
		ruleW1(c, "C05.F7")
		ruleR3(c, "C05.R3")
		ruleR6(c, "C05.R6")
		// what a transaction allocated goes back through PostAbort or stays through PostCommit: every transaction
		// ends in a terminator (giving the locks back by hand skips both - the numbers stay taken until a restart)
		ruleL2(c, "C05.F21")
	}
}

func ruleF1(c *Ctx, id string) {
	V, P, R := c.V, c.P, c.R
	R.Rule(id, "FreeInode is preceded by Resize(0) of the same inode; the boolean result of every Inode.Resize call is consumed by a branch whose true side starts the shrinker for that inode; the result of every Inode.Shrink call is handed on", 5)
	start := c.fn(id, "shrinker.(*ShrinkerSt).StartShrinker")
	if V.Resize == nil || V.FreeInode == nil || start == nil {
		return
	}
	for _, fn := range P.RepoFuncs("nfs", "dir", "inode", "fstxn", "shrinker") {
		for _, call := range P.CallsIn(fn, funcIs(V.FreeInode)) {
			ip := recvOf(call)
			isR0 := func(in ssa.Instruction) bool {
				if !callTo(V.Resize)(in) || recvOf(in) != ip {
					return false
				}
				k, ok := constInt(argN(in, 1))
				return ok && k == 0
			}
			R.Check(MustBefore(fn, isR0)(call), id, FuncName(fn)+"|Resize(0) before FreeInode", P.Pos(call.Pos()), "the inode's blocks are released (Resize to 0) on every path before the inode is freed", "must-precede on the same inode", "an inode is freed with its blocks still attached: the blocks are leaked")
		}
		for _, call := range P.CallsIn(fn, funcIs(V.Resize)) {
			cv := call.(*ssa.Call)
			ip := recvOf(call)
			R.Analysed[FuncName(fn)] = true
			used := len(refs(cv)) > 0
			if !used {
				R.Fail(id, FuncName(fn)+"|Resize result consumed", P.Pos(call.Pos()), "the 'needs background shrink' result of Resize is tested", "result dropped: a large truncate never frees its blocks")
				continue
			}
			// every path on which the result is true must reach StartShrinker(ip.Inum); a private helper may hand the
			// result to its caller instead, which then owes the same
			ok := resizeConsumed(c, start, fn, cv, call, ip, 0)
			R.Check(ok, id, FuncName(ownerOf(fn))+"|Resize true => StartShrinker", P.Pos(call.Pos()), "every path on which Resize returned true starts the shrinker for that inode", "must-follow except on the result==false edge", "a path ignores 'needs shrinking': the blocks beyond the new size are never freed")
		}
		// Shrink may stop early (log space): its 'more to do' result must reach the caller or a loop test
		for _, call := range P.CallsIn(fn, funcIs(V.Shrink)) {
			cv := call.(*ssa.Call)
			cl := fwdClosure([]ssa.Value{cv}, false)
			handed := false
			for _, b := range fn.Blocks {
				switch x := b.Instrs[len(b.Instrs)-1].(type) {
				case *ssa.Return:
					for _, res := range x.Results {
						if cl[res] {
							handed = true
						}
					}
				case *ssa.If:
					cond := x.Cond
					for {
						if u, ok := cond.(*ssa.UnOp); ok && u.Op == token.NOT {
							cond = u.X
							continue
						}
						break
					}
					if cl[cond] {
						handed = true
					}
				}
			}
			R.Check(handed, id, FuncName(ownerOf(fn))+"|Shrink result handed on", P.Pos(call.Pos()), "the 'more to free' result of Inode.Shrink is returned to the caller or tested", "flows into a return value or a branch", "Shrink can stop early when the log fills up; dropping its result leaves the remaining blocks allocated for ever")
		}
	}
}

func ruleF2(c *Ctx, id string) {
	V, P, R := c.V, c.P, c.R
	R.Rule(id, "postCommit always calls AllocTxn.PostCommit and Abort always calls AllocTxn.PostAbort; neither is called from anywhere else; every commit-family terminator reaches postCommit", 6)
	cp := commitProtocol(c)
	for _, pr := range []struct {
		callee *ssa.Function
		owner  *ssa.Function
	}{{V.PostCommit, V.postCommit}, {V.PostAbort, V.Abort}} {
		if pr.callee == nil {
			continue
		}
		for _, cs := range P.CallersOf(pr.callee) {
			if !IsRepoFunc(cs.Caller) {
				continue
			}
			okCaller := pr.owner != nil && cs.Caller == pr.owner
			if pr.owner == nil && pr.callee == V.PostCommit {
				// no postCommit wrapper in this tree: the epilogue is written out in the commit funnel itself
				if cp.visited[cs.Caller] || cp.visited[ownerOf(cs.Caller)] {
					okCaller = true
				}
			}
			if !okCaller && pr.callee == V.PostAbort {
				// the undo of a commit the journal refused: only ever executed behind a jrnl.CommitWait that
				// answered false (explored from the commit terminators)
				if only, met := cp.paSites[cs.Instr]; met && only {
					okCaller = true
				}
			}
			R.Check(okCaller, id, FuncName(cs.Caller)+"|calls "+pr.callee.Name(), P.Pos(cs.Instr.Pos()), pr.callee.Name()+" is called only from the commit / abort epilogue (PostAbort also on the refused-commit side of the funnel)", "owner", "allocator state updated outside the commit/abort epilogue")
		}
		if pr.owner == nil {
			continue
		}
		entry := pr.owner.Blocks[0].Instrs[0]
		R.Check(MustAfter(pr.owner, callTo(pr.callee), nil)(entry), id, FuncName(pr.owner)+"|always "+pr.callee.Name(), P.Pos(pr.owner.Pos()), "every path of "+FuncName(pr.owner)+" calls "+pr.callee.Name(), "must-follow from entry", "a path skips the allocator epilogue: freed numbers are never reusable / aborted allocations are never returned")
	}
	// ... or, on the side where the journal refused the commit, the abort epilogue (which side is which: C09.A8)
	for _, f := range []*ssa.Function{V.Commit, V.CommitData, V.CommitUnstable, V.CommitFh} {
		if f == nil {
			continue
		}
		e := cp.byFn[f]
		ok := e != nil && !e.exceeded && e.reachedDur && !e.noDurPath && e.noEpilogue == ""
		why := "not explored as a commit terminator"
		if e != nil {
			why = fmt.Sprintf("path returning at %s runs neither (path without commit=%v)", e.noEpilogue, e.noDurPath)
		}
		R.Check(ok, id, FuncName(f)+"|reaches postCommit", P.Pos(f.Pos()), "every path of the terminator runs an allocator epilogue: postCommit (release + PostCommit) or, for a refused commit, PostAbort", "holds on every explored path", "a commit path neither publishes its frees nor returns its allocations: "+why)
	}
	// Abort must not make writes visible
	if V.Abort != nil {
		reach := P.Reach([]*ssa.Function{V.Abort}, nil)
		bad := reach[V.JrnlCommitWait] || reach[V.LogFlush] || reach[V.PreCommit]
		R.Check(!bad, id, "fstxn.Abort|no commit reachable", P.Pos(V.Abort.Pos()), "Abort reaches neither CommitWait/Flush nor PreCommit", "call-graph reachability", "Abort can commit the transaction's writes")
	}
}

func ruleF6(c *Ctx, id string) {
	P, R := c.P, c.R
	R.Rule(id, "shrinker accounting: nthread+1 under the mutex before the goroutine starts; the goroutine body ends every non-panicking path with nthread-1 and Signal under the mutex; Shutdown/Crash wait for zero in a loop", 4)
	start := c.fn(id, "shrinker.(*ShrinkerSt).StartShrinker")
	body := c.fn(id, "shrinker.(*ShrinkerSt).shrinker")
	if start == nil || body == nil {
		return
	}
	st := P.Named("shrinker", "ShrinkerSt")
	isNthread := func(in ssa.Instruction, delta token.Token) bool {
		s, ok := in.(*ssa.Store)
		if !ok {
			return false
		}
		n, fl, _ := FieldOf(s.Addr)
		if n != st || fl != "nthread" {
			return false
		}
		bo, ok := s.Val.(*ssa.BinOp)
		if !ok || bo.Op != delta {
			return false
		}
		k, isk := constInt(bo.Y)
		return isk && k == 1
	}
	// directly or through a helper that does it on every path
	inc := P.NewAlways(func(in ssa.Instruction) bool { return isNthread(in, token.ADD) }).Instr
	dec := P.NewAlways(func(in ssa.Instruction) bool { return isNthread(in, token.SUB) }).Instr
	// increment before the go statement
	for _, b := range start.Blocks {
		for _, in := range b.Instrs {
			if g, ok := in.(*ssa.Go); ok {
				R.Check(MustBefore(start, inc)(g), id, "shrinker.StartShrinker|count before spawn", P.Pos(g.Pos()), "nthread is incremented on every path before the goroutine is started", "must-precede", "Shutdown can observe zero while a shrinker is about to run")
				// goroutine reaches body
				reach := P.Reach(P.Callees(g), nil)
				R.Check(reach[body], id, "shrinker.StartShrinker|spawns the shrinker", P.Pos(g.Pos()), "the goroutine runs ShrinkerSt.shrinker", "call graph", "spawned goroutine does not run the accounted body")
			}
		}
	}
	// a request to shrink is never dropped: every path of StartShrinker starts the goroutine, and the goroutine
	// shrinks the inode it was started for on every path
	isGo := func(in ssa.Instruction) bool { _, ok := in.(*ssa.Go); return ok }
	R.Check(isGo(start.Blocks[0].Instrs[0]) || MustAfter(start, isGo, nil)(start.Blocks[0].Instrs[0]), id, "shrinker.StartShrinker|every request starts a shrinker", P.Pos(start.Pos()), "every path of StartShrinker reaches its go statement", "must-follow", "a request can be dropped: the inode keeps ShrinkSize beyond its size and nobody frees the blocks - a removed file's blocks stay marked in use and unreachable")
	if doShrink := c.fn(id, "shrinker.(*ShrinkerSt).DoShrink"); doShrink != nil {
		callsDo := func(in ssa.Instruction) bool {
			if _, ok := in.(*ssa.Call); !ok {
				return false
			}
			// DoShrink itself, or a function of the package that does the shrinking (it reaches Inode.Shrink)
			g := staticCallee(in)
			if g == nil || (g != doShrink && !(funcPkg(g) == funcPkg(body) && c.V.Shrink != nil && P.Reach([]*ssa.Function{g}, func(f *ssa.Function) bool { return !IsRepoFunc(f) })[c.V.Shrink])) {
				return false
			}
			a := nonRecvArgs(in)
			return len(a) == 1 && len(body.Params) == 2 && stripConv(a[0]) == ssa.Value(body.Params[1])
		}
		R.Check(callsDo(body.Blocks[0].Instrs[0]) || MustAfter(body, callsDo, nil)(body.Blocks[0].Instrs[0]), id, "shrinker.shrinker|shrinks its inode on every path", P.Pos(body.Pos()), "every path of the goroutine body calls DoShrink with the inode number it was given", "must-follow", "a started shrinker can end without shrinking its inode")
	}
	entry := body.Blocks[0].Instrs[0]
	R.Check(MustAfter(body, dec, nil)(entry), id, "shrinker.shrinker|decrement on every path", P.Pos(body.Pos()), "nthread-1 on every non-panicking path", "must-follow", "a finished shrinker is still counted: Shutdown waits for ever")
	sig := func(in ssa.Instruction) bool {
		cal := staticCallee(in)
		return cal != nil && (cal.Name() == "Signal" || cal.Name() == "Broadcast") && strings.HasSuffix(FuncName(cal), "sync.Cond)."+cal.Name())
	}
	R.Check(MustAfter(body, P.NewAlways(sig).Instr, nil)(entry), id, "shrinker.shrinker|signal on every path", P.Pos(body.Pos()), "the condition variable is signalled on every non-panicking path", "must-follow", "Shutdown is never woken")
	for _, name := range []string{"Shutdown", "Crash"} {
		f := c.fn(id, "shrinker.(*ShrinkerSt)."+name)
		if f == nil {
			continue
		}
		ok := false
		fsc := scopesOf(f)
		for _, sc := range fsc {
			for _, b := range sc.Fn.Blocks {
				for _, in := range b.Instrs {
					cal := staticCallee(in)
					if cal != nil && cal.Name() == "Wait" && strings.Contains(FuncName(cal), "sync.Cond") {
						// in a loop re-testing nthread (of this function, or of the private helper that waits)
						top := topInstr(fsc, sc, in)
						ok = reachableFrom(in, in) || reachableFrom(top, top)
					}
				}
			}
		}
		R.Check(ok, id, fmt.Sprintf("shrinker.%s|waits in a loop", name), P.Pos(f.Pos()), "Cond.Wait is inside a loop that re-tests the thread count", "wait in a cycle", "wait not in a loop: a spurious wake-up ends the wait early")
	}
}

// ruleF8: index blocks go back with their first slot.  indshrink frees the
// slots of an indirect tree from the end towards the start and tells its
// caller that the (sub)tree root itself can be freed when the slot just
// handled was the first one (off == 0 && ind == 0).
func ruleF8(c *Ctx, id string) {
	V, P, R := c.V, c.P, c.R
	R.Rule(id, "index blocks are released with their first slot: indshrink answers 'root is free' (returns root) on every path on which the slot handled is the first one, and every caller frees the root it is told about", 3)
	ind := c.fn(id, "inode.(*Inode).indshrink")
	freeIndex := P.Func("inode.(*Inode).freeIndex") // (may be written out where it was called)
	if ind == nil || V.Shrink == nil {
		return
	}
	R.Analysed[FuncName(ind)] = true
	root, bn := paramM(ind, 2), paramM(ind, 4)
	if root == nil || bn == nil {
		R.Undecided(id, "inode.indshrink|answers", P.Pos(ind.Pos()), "indshrink takes (op, root, level, bn)", "unexpected parameter list")
		return
	}
	// edges on which the slot is known not to be the first one: (bn / d) != 0 or (bn % d) != 0
	notFirst := condEdge(ind, func(cd Cond) (bool, bool) {
		bo, ok := stripConv(cd.X).(*ssa.BinOp)
		k, isk := constInt(cd.Y)
		if !ok || !isk || k != 0 || (bo.Op != token.QUO && bo.Op != token.REM) || stripConv(bo.X) != bn {
			return false, false
		}
		switch cd.Op {
		case token.NEQ:
			return true, true
		case token.EQL:
			return true, false
		}
		return false, false
	})
	noRoot := cmpZeroEdge(ind, map[ssa.Value]bool{root: true})
	n := 0
	// the answer "nothing to free" is the null block number, or false when indshrink says it with a second result
	boolIdx, bnIdx := -1, 0
	for i := 0; i < ind.Signature.Results().Len(); i++ {
		if b, isB := ind.Signature.Results().At(i).Type().Underlying().(*types.Basic); isB && b.Kind() == types.Bool {
			boolIdx = i
		} else {
			bnIdx = i
		}
	}
	for _, b := range ind.Blocks {
		r, ok := b.Instrs[len(b.Instrs)-1].(*ssa.Return)
		if !ok || len(r.Results) == 0 {
			continue
		}
		if boolIdx >= 0 {
			if bv, isb := constBool(r.Results[boolIdx]); !isb || bv {
				continue
			}
		} else if k, isk := constInt(r.Results[bnIdx]); !isk || k != 0 {
			continue
		}
		n++
		// 'nothing to free' is answered only without a root or when the slot is not the first one
		okR := everyPathTakes(ind, b, notFirst, noRoot)
		R.Check(okR, id, fmt.Sprintf("inode.indshrink|'keep the root' answer #%d", n), P.Pos(r.Pos()), "indshrink returns NULLBNUM only when there is no root or the slot handled is not the first one of the tree", "every path to this return takes root == 0, off != 0 or ind != 0", "a path answers 'keep the root' although the first slot was just handled (e.g. a hole there): the index block is never freed")
	}
	if n == 0 {
		R.Fail(id, "inode.indshrink|answers", P.Pos(ind.Pos()), "indshrink has a 'keep the root' answer", "no constant-0 return found")
	}
	// callers free the root they are told about
	for _, fn := range []*ssa.Function{V.Shrink, ind} {
		for _, sc := range scopesOf(fn) {
			for _, call := range P.CallsIn(sc.Fn, funcIs(ind)) {
				cv := call.(*ssa.Call)
				var blk, flag ssa.Value = cv, nil
				for _, r := range refs(cv) {
					if ex, isE := r.(*ssa.Extract); isE {
						if ex.Index == boolIdx {
							flag = ex
						} else if ex.Index == bnIdx {
							blk = ex
						}
					}
				}
				zero := cmpZeroEdge(sc.Fn, fwdClosure([]ssa.Value{blk}, false))
				if boolIdx >= 0 {
					if flag == nil {
						R.Fail(id, FuncName(fn)+"|frees the root indshrink reports", P.Pos(call.Pos()), "the caller looks at indshrink's 'free the root' answer", "the answer is dropped")
						continue
					}
					zero = boolEdge(sc.Fn, flag, false)
				}
				// the slot the root was read from, when the call was handed ip.blks[k]
				var rootSlot *ssa.IndexAddr
				for _, a := range cv.Call.Args {
					if u, ok := stripConv(a).(*ssa.UnOp); ok && u.Op == token.MUL {
						if ia, ok := u.X.(*ssa.IndexAddr); ok {
							if n, fl, _ := fieldLoad(ia.X); n == V.Inode && fl == "blks" {
								rootSlot = ia
							}
						}
					}
				}
				isFree := func(in ssa.Instruction) bool {
					if freeIndex != nil && callTo(freeIndex)(in) {
						return true
					}
					if !callTo(V.FreeBlock)(in) {
						return false
					}
					a := stripConv(argN(in, 0))
					if a == blk {
						return true
					}
					// freeIndex written out: FreeBlock(ip.blks[k]) of the slot the root came from
					if u, ok := a.(*ssa.UnOp); ok && u.Op == token.MUL && rootSlot != nil {
						if ia, ok := u.X.(*ssa.IndexAddr); ok {
							if n, fl, _ := fieldLoad(ia.X); n == V.Inode && fl == "blks" && sameIndexExpr(sc.Fn, ia.Index, rootSlot.Index) {
								return true
							}
						}
					}
					return false
				}
				ok := MustAfterE(sc.Fn, isFree, nil, zero)(call)
				R.Check(ok, id, FuncName(fn)+"|frees the root indshrink reports", P.Pos(call.Pos()), "on every path on which indshrink returned a block, that block is freed (FreeBlock / freeIndex)", "must-follow except on the result == 0 edge", "a root reported as free is not freed: the index block is leaked")
			}
		}
	}
}

// ruleF10: an index block is linked only together with a data block.  When
// the mapping of a logical block fails for lack of space after index blocks
// were allocated for it, those index blocks lie beyond the file's size; Shrink
// frees by size, so nothing would ever free them.
func ruleF10(c *Ctx, id string) {
	V, P, R := c.V, c.P, c.R
	R.Rule(id, "no index block without a data block: in indbmap the sub-root returned by the recursive call is linked (BnumPut) only when a block was mapped; when none was, a sub-root and a root allocated in this call are freed and the caller gets back the root it passed in", 4)
	ind := c.fn(id, "inode.(*Inode).indbmap")
	if ind == nil || V.FreeBlock == nil {
		return
	}
	R.Analysed[FuncName(ind)] = true
	rootParam := paramM(ind, 2)
	if rootParam == nil {
		R.Undecided(id, "inode.indbmap|recursive mapping", P.Pos(ind.Pos()), "indbmap takes (atxn, root, level, off)", "unexpected parameter list")
		return
	}
	var rc *ssa.Call
	for _, call := range P.CallsIn(ind, funcIs(ind)) {
		rc = call.(*ssa.Call)
	}
	if rc == nil {
		R.Undecided(id, "inode.indbmap|recursive mapping", P.Pos(ind.Pos()), "indbmap maps the next level by calling itself", "no recursive call found")
		return
	}
	var blkno, sub ssa.Value
	for _, in := range refs(rc) {
		if ex, ok := in.(*ssa.Extract); ok {
			if ex.Index == 0 {
				blkno = ex
			} else if ex.Index == 1 {
				sub = ex
			}
		}
	}
	if blkno == nil || sub == nil {
		R.Undecided(id, "inode.indbmap|recursive mapping", P.Pos(rc.Pos()), "both results of the recursive call are used", "a result is dropped")
		return
	}
	mapped := func(from, to *ssa.BasicBlock) bool { // the edge on which a block was mapped: blkno != 0
		z := cmpZeroEdge(ind, map[ssa.Value]bool{blkno: true})
		last, ok := from.Instrs[len(from.Instrs)-1].(*ssa.If)
		if !ok {
			return false
		}
		bo, ok := last.Cond.(*ssa.BinOp)
		if !ok || (bo.Op != token.EQL && bo.Op != token.NEQ) {
			return false
		}
		if stripConv(bo.X) != blkno && stripConv(bo.Y) != blkno {
			return false
		}
		k, isk := constInt(bo.Y)
		if !isk {
			k, isk = constInt(bo.X)
		}
		if !isk || k != 0 {
			return false
		}
		// the other successor of the zero edge
		for _, s := range from.Succs {
			if s != to && z(from, s) {
				return true
			}
		}
		return false
	}
	// A: linking only when mapped
	nPut := 0
	for _, b := range ind.Blocks {
		for _, in := range b.Instrs {
			if cal := staticCallee(in); cal != nil && cal.Name() == "BnumPut" && stripConv(argN(in, 1)) == sub {
				nPut++
				R.Check(everyPathTakes(ind, b, mapped), id, "inode.indbmap|sub-root linked only with a mapped block", P.Pos(in.Pos()), "BnumPut of the sub-root returned by the recursive call is reached only on the edge where that call mapped a block", "edge cut on blkno != 0", "an index block allocated for a mapping that then fails for lack of space is linked into the tree beyond the file's size: truncation and removal never free it")
			}
		}
	}
	if nPut == 0 {
		R.Fail(id, "inode.indbmap|links the sub-root", P.Pos(ind.Pos()), "indbmap links a newly allocated sub-root", "no BnumPut of the recursive call's root")
	}
	// B, C: what was allocated for a failed mapping is freed
	isFree := func(v ssa.Value) func(ssa.Instruction) bool {
		return func(in ssa.Instruction) bool {
			return callTo(V.FreeBlock)(in) && stripConv(argN(in, 0)) == stripConv(v)
		}
	}
	same := func(a, b ssa.Value) func(from, to *ssa.BasicBlock) bool {
		return condEdge(ind, func(cd Cond) (bool, bool) {
			if cd.X == nil || cd.Y == nil {
				return false, false
			}
			x, y := stripConv(cd.X), stripConv(cd.Y)
			if !((x == stripConv(a) && y == stripConv(b)) || (x == stripConv(b) && y == stripConv(a))) {
				return false, false
			}
			switch cd.Op {
			case token.EQL:
				return true, true
			case token.NEQ:
				return true, false
			}
			return false, false
		})
	}
	or := func(fs ...func(from, to *ssa.BasicBlock) bool) func(from, to *ssa.BasicBlock) bool {
		return func(from, to *ssa.BasicBlock) bool {
			for _, f := range fs {
				if f(from, to) {
					return true
				}
			}
			return false
		}
	}
	// the sub-root passed down: first value argument of the recursive call after the receiver/atxn
	passed := rc.Call.Args[len(rc.Call.Args)-3] // indbmap(..., root, level, off): the same position in the method and in the function form
	okB := MustAfterE(ind, isFree(sub), nil, or(mapped, same(sub, passed)))(rc)
	R.Check(okB, id, "inode.indbmap|unused sub-root freed", P.Pos(rc.Pos()), "when the recursive call mapped no block but returned a sub-root other than the one passed down, that sub-root is freed", "must-follow except on the mapped / unchanged edges", "a sub-root allocated for nothing stays allocated")
	// own root: phi of the parameter and an AllocBlock result
	var own ssa.Value
	for _, call := range P.CallsIn(ind, funcIs(V.AllocBlock)) {
		for _, r := range refs(call.(*ssa.Call)) {
			if phi, ok := r.(*ssa.Phi); ok {
				own = phi
			}
		}
	}
	if own != nil {
		okC := MustAfterE(ind, isFree(own), nil, or(mapped, same(own, rootParam)))(rc)
		R.Check(okC, id, "inode.indbmap|unused root freed", P.Pos(rc.Pos()), "when no block was mapped and the root was allocated in this call, it is freed", "must-follow except on the mapped / root-unchanged edges", "a root allocated for nothing stays allocated")
	}
	// E: on failure the caller is told the root it passed in
	okE, nE := true, 0
	for _, b := range ind.Blocks {
		r, isR := b.Instrs[len(b.Instrs)-1].(*ssa.Return)
		if !isR || len(r.Results) != 2 || !rc.Block().Dominates(b) {
			continue
		}
		if everyPathTakes(ind, b, mapped) {
			continue // success side
		}
		nE++
		if stripConv(r.Results[1]) != rootParam {
			okE = false
		}
	}
	R.Check(okE && nE > 0, id, "inode.indbmap|failure returns the caller's root", P.Pos(ind.Pos()), "every return after the recursive call that can be reached without a mapped block returns the root parameter unchanged", fmt.Sprintf("%d failure returns", nE), "the caller (bmap) stores the useless root into the inode")
}

// resizeConsumed: after instruction at of fn, on every path on which the
// boolean v ("the file needs background shrinking") is true, StartShrinker is
// called for inode ip; or fn is a private helper that returns v (or false) to
// its callers, each of which does so with the value it receives.
func resizeConsumed(c *Ctx, start *ssa.Function, fn *ssa.Function, v ssa.Value, at ssa.Instruction, ip ssa.Value, depth int) bool {
	V := c.V
	isStart := func(in ssa.Instruction) bool {
		if !callTo(start)(in) {
			return false
		}
		n, fl, base, _ := loadedField(argN(in, 0))
		return n == V.Inode && fl == "Inum" && base == stripConv(ip)
	}
	if MustAfterE(fn, isStart, nil, boolEdge(fn, v, false))(at) {
		return true
	}
	if depth > 1 || !isPrivateHelper(fn) || len(staticSites[fn]) == 0 {
		return false
	}
	// v only flows into returns (directly or through a phi with constants false)
	idx := -1
	var flows func(x ssa.Value, d int) bool
	flows = func(x ssa.Value, d int) bool {
		if d > 3 {
			return false
		}
		for _, r := range refs(x) {
			switch u := r.(type) {
			case *ssa.Return:
				for i, res := range u.Results {
					if res == x {
						if idx >= 0 && idx != i {
							return false
						}
						idx = i
					}
				}
			case *ssa.Phi:
				for _, e := range u.Edges {
					if e == x {
						continue
					}
					if bv, isb := constBool(e); !isb || bv {
						return false
					}
				}
				if !flows(u, d+1) {
					return false
				}
			case *ssa.DebugRef:
			default:
				return false
			}
		}
		return true
	}
	if !flows(v, 0) || idx < 0 {
		return false
	}
	// every other return gives false at that position
	for _, b := range fn.Blocks {
		if r, ok := b.Instrs[len(b.Instrs)-1].(*ssa.Return); ok && idx < len(r.Results) {
			res := r.Results[idx]
			if bv, isb := constBool(res); isb && !bv {
				continue
			}
			if res == v {
				continue
			}
			if ph, isP := res.(*ssa.Phi); isP {
				okP := true
				for _, e := range ph.Edges {
					if e == v {
						continue
					}
					if bv, isb := constBool(e); !isb || bv {
						okP = false
					}
				}
				if okP {
					continue
				}
			}
			return false
		}
	}
	pi := -1
	if pm, ok := stripConv(ip).(*ssa.Parameter); ok {
		for i, q := range fn.Params {
			if q == pm {
				pi = i
			}
		}
	}
	if pi < 0 {
		return false
	}
	for _, site := range staticSites[fn] {
		sv, ok := site.(*ssa.Call)
		if !ok || pi >= len(sv.Call.Args) {
			return false
		}
		var rv ssa.Value = sv
		if fn.Signature.Results().Len() > 1 {
			rv = nil
			for _, r := range refs(sv) {
				if ex, isE := r.(*ssa.Extract); isE && ex.Index == idx {
					rv = ex
				}
			}
			if rv == nil {
				return false
			}
		}
		if !resizeConsumed(c, start, sv.Parent(), rv, sv, sv.Call.Args[pi], depth+1) {
			return false
		}
	}
	return true
}

// ruleF14: Shrink walks the file's logical blocks downwards one at a time:
// ShrinkSize is the number of blocks still to look at, each round lowers it by
// one and frees that block.  A store that moves ShrinkSize any other way skips
// blocks, which are then never freed.
func ruleF14(c *Ctx, id string) {
	V, P, R := c.V, c.P, c.R
	R.Rule(id, "Shrink visits every block: every store to ShrinkSize in Inode.Shrink (and its helpers) lowers it by exactly one", 1)
	if V.Shrink == nil {
		return
	}
	n := 0
	for _, sc := range scopesOf(V.Shrink) {
		for _, w := range FieldWrites(sc.Fn) {
			if w.Type != V.Inode || w.Field != "ShrinkSize" {
				continue
			}
			n++
			form := sym(&symCtx{recv: V.Shrink.Params[0]}, w.Val, sc.S, 0)
			ok := form == "(- field(recv.ShrinkSize) 1)" || form == "(+ -1 field(recv.ShrinkSize))" || form == "(+ 18446744073709551615 field(recv.ShrinkSize))"
			R.Analysed[FuncName(sc.Fn)] = true
			R.Check(ok, id, fmt.Sprintf("inode.Shrink|ShrinkSize lowered by one#%d", n), P.Pos(w.Instr.Pos()), "the store is ShrinkSize = ShrinkSize - 1", form, "ShrinkSize is set to "+form+": the blocks between the old and the new value are skipped by the shrink loop and never freed")
		}
	}
	if n == 0 {
		R.Fail(id, "inode.Shrink|ShrinkSize", P.Pos(V.Shrink.Pos()), "Shrink lowers ShrinkSize", "no store to ShrinkSize found")
	}
}

// ruleF16: the size of an inode and the blocks it holds change together only
// inside package inode: Resize frees (or schedules the freeing of) what a
// smaller size no longer covers, Write links what a larger one needs.  A store
// to Inode.Size (or ShrinkSize) anywhere else changes the size without the
// blocks: a directory "trimmed" by lowering its size keeps a block that the
// final Resize(0) no longer sees - it stays allocated for ever.
func ruleF16(c *Ctx, id string) {
	V, P, R := c.V, c.P, c.R
	R.Rule(id, "file size and block ownership change together: Inode.Size and Inode.ShrinkSize are stored only by functions of package inode", 3)
	n := 0
	for _, fn := range P.RepoFuncs() {
		if strings.HasPrefix(relPkg(fn), "cmd/") {
			continue
		}
		for _, fw := range FieldWrites(fn) {
			if fw.Type != V.Inode || (fw.Field != "Size" && fw.Field != "ShrinkSize") {
				continue
			}
			n++
			ok := relPkg(fn) == "inode"
			R.Check(ok, id, fmt.Sprintf("%s|stores %s", FuncName(ownerOf(fn)), fw.Field), P.Pos(fw.Instr.Pos()), "the field is stored by package inode only (Resize, Shrink, Write, the constructors and the decoder)", "package inode", "the size is changed outside package inode, without Resize: blocks beyond the new size stay linked and allocated but are no longer covered by the size that the final truncation frees")
		}
	}
	R.Check(n > 0, id, "inventory|stores to Size/ShrinkSize", "?", "the stores are enumerated", fmt.Sprintf("%d stores", n), "none found")
}

// ruleF17: everything that frees blocks asks Inode.IsShrinking whether blocks
// beyond the size may still be held (Shrink, Resize, DoShrink, getShrink,
// getAlloc).  "No" must mean ShrinkSize <= RoundUp(Size): any other way to
// answer "no" (a shortcut that inspects some of the block pointers) leaves
// blocks allocated and unreachable for ever.
func ruleF17(c *Ctx, id string) {
	V, P, R := c.V, c.P, c.R
	R.Rule(id, "IsShrinking says no only when nothing can be held: every false answer of Inode.IsShrinking is the outcome of comparing ShrinkSize with the (rounded-up) size", 1)
	f := V.IsShrinking
	if f == nil {
		return
	}
	isShrinkLoad := func(v ssa.Value) bool {
		n, fl, _, _ := loadedField(stripConv(v))
		return n == V.Inode && fl == "ShrinkSize"
	}
	fromSize := func(v ssa.Value) bool {
		for src := range bwdAll(v) {
			if n, fl, _, _ := loadedField(src); n == V.Inode && fl == "Size" {
				return true
			}
		}
		return false
	}
	// the comparison "ShrinkSize > cursz" in any spelling; returns (is it, polarity: true if the condition being
	// true means 'shrinking')
	cmpOf := func(cd Cond) (bool, bool) {
		if cd.X == nil || cd.Y == nil {
			return false, false
		}
		op, x, y := cd.Op, cd.X, cd.Y
		if isShrinkLoad(y) {
			op, x, y = flipOp(op), y, x
		}
		if !isShrinkLoad(x) || !fromSize(y) {
			return false, false
		}
		switch op {
		case token.GTR:
			return true, true
		case token.LEQ:
			return true, false
		}
		return false, false
	}
	n := 0
	for _, rs := range returnSources(f, 0) {
		n++
		key := fmt.Sprintf("inode.IsShrinking|answer#%d", n)
		v := stripConv(rs.Val)
		if bo, ok := v.(*ssa.BinOp); ok {
			is, pol := cmpOf(Cond{Op: bo.Op, X: bo.X, Y: bo.Y})
			R.Check(is && pol, id, key, P.Pos(rs.Ret.Pos()), "the answer is the comparison ShrinkSize > RoundUp(Size) itself", "the comparison", "the answer is another comparison")
			continue
		}
		bv, isb := constBool(v)
		if !isb {
			R.Undecided(id, key, P.Pos(rs.Ret.Pos()), "the answer is a constant or the comparison of ShrinkSize with the size", "unrecognised form: "+v.String())
			continue
		}
		if bv {
			R.Pass(id, key, P.Pos(rs.Ret.Pos()), "a 'yes' can only cause more freeing work", "constant true")
			continue
		}
		// a constant false: only on the side where ShrinkSize <= size
		g := guardedBy(f, rs.From, func(cd Cond) (bool, bool) {
			is, pol := cmpOf(cd)
			return is, !pol
		})
		if !g && rs.To != nil {
			g = condEdge(f, func(cd Cond) (bool, bool) {
				is, pol := cmpOf(cd)
				return is, !pol
			})(rs.From, rs.To)
		}
		R.Check(g, id, key, P.Pos(rs.Ret.Pos()), "a constant 'no' is returned only on the side of the comparison where ShrinkSize <= RoundUp(Size)", "guarded", "IsShrinking can say 'no' while ShrinkSize is beyond the size: REMOVE, truncation and the reuse of the inode then free nothing - the blocks stay allocated and unreachable")
	}
	if n == 0 {
		R.Fail(id, "inode.IsShrinking|answers", P.Pos(f.Pos()), "IsShrinking returns a boolean", "no return found")
	}
}
