package main

import (
	"fmt"
	"go/token"
	"strings"

	"golang.org/x/tools/go/ssa"
)

func init() {
	props["C05"] = func(c *Ctx) {
		c.R.Expl = "Structural conditions of full reclamation: (F1) unlink-to-zero truncates to 0 before freeing the inode and every Resize result that asks for background freeing starts the shrinker; (F2) frees reach the in-memory allocators exactly at commit, allocations are returned exactly at abort; (F3) no double return of allocations; (F4) half-freed objects are finished before reuse or resize; (F5) link-count balance; (F6) shrinker accounting under its mutex."
		c.R.NotDec = "equality of the used set with the reachable set on any state; the arithmetic of Shrink/indshrink."
		ruleF1(c, "C05.F1")
		ruleF2(c, "C05.F2")
		ruleF3(c, "C05.F3")
		ruleF4(c, "C05.F4")
		ruleS3(c, "C05.F5")
		ruleF6(c, "C05.F6")
		ruleF8(c, "C05.F8")
		ruleW1(c, "C05.F7")
		ruleR3(c, "C05.R3")
		ruleR6(c, "C05.R6")
	}
}

func ruleF1(c *Ctx, id string) {
	V, P, R := c.V, c.P, c.R
	R.Rule(id, "FreeInode is preceded by Resize(0) of the same inode; the boolean result of every Inode.Resize call is consumed by a branch whose true side starts the shrinker for that inode; the result of every Inode.Shrink call is handed on", 5)
	start := c.fn(id, "shrinker.(*ShrinkerSt).StartShrinker")
	if V.Resize == nil || V.FreeInode == nil || start == nil {
		return
	}
	for _, fn := range P.RepoFuncs("nfs", "dir", "inode", "fstxn", "shrinker") {
		for _, call := range P.CallsIn(fn, funcIs(V.FreeInode)) {
			ip := recvOf(call)
			isR0 := func(in ssa.Instruction) bool {
				if !callTo(V.Resize)(in) || recvOf(in) != ip {
					return false
				}
				k, ok := constInt(argN(in, 1))
				return ok && k == 0
			}
			R.Check(MustBefore(fn, isR0)(call), id, FuncName(fn)+"|Resize(0) before FreeInode", P.Pos(call.Pos()), "the inode's blocks are released (Resize to 0) on every path before the inode is freed", "must-precede on the same inode", "an inode is freed with its blocks still attached: the blocks are leaked")
		}
		for _, call := range P.CallsIn(fn, funcIs(V.Resize)) {
			cv := call.(*ssa.Call)
			ip := recvOf(call)
			R.Analysed[FuncName(fn)] = true
			used := len(refs(cv)) > 0
			if !used {
				R.Fail(id, FuncName(fn)+"|Resize result consumed", P.Pos(call.Pos()), "the 'needs background shrink' result of Resize is tested", "result dropped: a large truncate never frees its blocks")
				continue
			}
			// every path on which the result is true must reach StartShrinker(ip.Inum)
			isStart := func(in ssa.Instruction) bool {
				if !callTo(start)(in) {
					return false
				}
				n, fl, base, _ := loadedField(argN(in, 0))
				return n == V.Inode && fl == "Inum" && base == stripConv(ip)
			}
			falseEdge := boolEdge(fn, cv, false)
			ok := MustAfterE(fn, isStart, nil, falseEdge)(call)
			R.Check(ok, id, FuncName(fn)+"|Resize true => StartShrinker", P.Pos(call.Pos()), "every path on which Resize returned true starts the shrinker for that inode", "must-follow except on the result==false edge", "a path ignores 'needs shrinking': the blocks beyond the new size are never freed")
		}
		// Shrink may stop early (log space): its 'more to do' result must reach the caller or a loop test
		for _, call := range P.CallsIn(fn, funcIs(V.Shrink)) {
			cv := call.(*ssa.Call)
			cl := fwdClosure([]ssa.Value{cv}, false)
			handed := false
			for _, b := range fn.Blocks {
				switch x := b.Instrs[len(b.Instrs)-1].(type) {
				case *ssa.Return:
					for _, res := range x.Results {
						if cl[res] {
							handed = true
						}
					}
				case *ssa.If:
					if cl[x.Cond] {
						handed = true
					}
				}
			}
			R.Check(handed, id, FuncName(ownerOf(fn))+"|Shrink result handed on", P.Pos(call.Pos()), "the 'more to free' result of Inode.Shrink is returned to the caller or tested", "flows into a return value or a branch", "Shrink can stop early when the log fills up; dropping its result leaves the remaining blocks allocated for ever")
		}
	}
}

func ruleF2(c *Ctx, id string) {
	V, P, R := c.V, c.P, c.R
	R.Rule(id, "postCommit always calls AllocTxn.PostCommit and Abort always calls AllocTxn.PostAbort; neither is called from anywhere else; every commit-family terminator reaches postCommit", 6)
	for _, pr := range []struct {
		callee *ssa.Function
		owner  *ssa.Function
	}{{V.PostCommit, V.postCommit}, {V.PostAbort, V.Abort}} {
		if pr.callee == nil || pr.owner == nil {
			continue
		}
		for _, cs := range P.CallersOf(pr.callee) {
			if !IsRepoFunc(cs.Caller) {
				continue
			}
			R.Check(cs.Caller == pr.owner, id, FuncName(cs.Caller)+"|calls "+pr.callee.Name(), P.Pos(cs.Instr.Pos()), pr.callee.Name()+" is called only from "+FuncName(pr.owner), "owner", "allocator state updated outside the commit/abort epilogue")
		}
		entry := pr.owner.Blocks[0].Instrs[0]
		R.Check(MustAfter(pr.owner, callTo(pr.callee), nil)(entry), id, FuncName(pr.owner)+"|always "+pr.callee.Name(), P.Pos(pr.owner.Pos()), "every path of "+FuncName(pr.owner)+" calls "+pr.callee.Name(), "must-follow from entry", "a path skips the allocator epilogue: freed numbers are never reusable / aborted allocations are never returned")
	}
	post := P.NewAlways(callTo(V.postCommit))
	for _, f := range []*ssa.Function{V.Commit, V.CommitData, V.CommitUnstable, V.CommitFh} {
		if f == nil {
			continue
		}
		R.Check(post.Func(f), id, FuncName(f)+"|reaches postCommit", P.Pos(f.Pos()), "every path of the terminator runs postCommit (release + PostCommit)", "always-performs summary", "a commit path never publishes its frees")
	}
	// Abort must not make writes visible
	if V.Abort != nil {
		reach := P.Reach([]*ssa.Function{V.Abort}, nil)
		bad := reach[V.JrnlCommitWait] || reach[V.LogFlush] || reach[V.PreCommit]
		R.Check(!bad, id, "fstxn.Abort|no commit reachable", P.Pos(V.Abort.Pos()), "Abort reaches neither CommitWait/Flush nor PreCommit", "call-graph reachability", "Abort can commit the transaction's writes")
	}
}

func ruleF6(c *Ctx, id string) {
	P, R := c.P, c.R
	R.Rule(id, "shrinker accounting: nthread+1 under the mutex before the goroutine starts; the goroutine body ends every non-panicking path with nthread-1 and Signal under the mutex; Shutdown/Crash wait for zero in a loop", 4)
	start := c.fn(id, "shrinker.(*ShrinkerSt).StartShrinker")
	body := c.fn(id, "shrinker.(*ShrinkerSt).shrinker")
	if start == nil || body == nil {
		return
	}
	st := P.Named("shrinker", "ShrinkerSt")
	isNthread := func(in ssa.Instruction, delta token.Token) bool {
		s, ok := in.(*ssa.Store)
		if !ok {
			return false
		}
		n, fl, _ := FieldOf(s.Addr)
		if n != st || fl != "nthread" {
			return false
		}
		bo, ok := s.Val.(*ssa.BinOp)
		if !ok || bo.Op != delta {
			return false
		}
		k, isk := constInt(bo.Y)
		return isk && k == 1
	}
	// directly or through a helper that does it on every path
	inc := P.NewAlways(func(in ssa.Instruction) bool { return isNthread(in, token.ADD) }).Instr
	dec := P.NewAlways(func(in ssa.Instruction) bool { return isNthread(in, token.SUB) }).Instr
	// increment before the go statement
	for _, b := range start.Blocks {
		for _, in := range b.Instrs {
			if g, ok := in.(*ssa.Go); ok {
				R.Check(MustBefore(start, inc)(g), id, "shrinker.StartShrinker|count before spawn", P.Pos(g.Pos()), "nthread is incremented on every path before the goroutine is started", "must-precede", "Shutdown can observe zero while a shrinker is about to run")
				// goroutine reaches body
				reach := P.Reach(P.Callees(g), nil)
				R.Check(reach[body], id, "shrinker.StartShrinker|spawns the shrinker", P.Pos(g.Pos()), "the goroutine runs ShrinkerSt.shrinker", "call graph", "spawned goroutine does not run the accounted body")
			}
		}
	}
	entry := body.Blocks[0].Instrs[0]
	R.Check(MustAfter(body, dec, nil)(entry), id, "shrinker.shrinker|decrement on every path", P.Pos(body.Pos()), "nthread-1 on every non-panicking path", "must-follow", "a finished shrinker is still counted: Shutdown waits for ever")
	sig := func(in ssa.Instruction) bool {
		cal := staticCallee(in)
		return cal != nil && (cal.Name() == "Signal" || cal.Name() == "Broadcast") && strings.HasSuffix(FuncName(cal), "sync.Cond)."+cal.Name())
	}
	R.Check(MustAfter(body, P.NewAlways(sig).Instr, nil)(entry), id, "shrinker.shrinker|signal on every path", P.Pos(body.Pos()), "the condition variable is signalled on every non-panicking path", "must-follow", "Shutdown is never woken")
	for _, name := range []string{"Shutdown", "Crash"} {
		f := c.fn(id, "shrinker.(*ShrinkerSt)."+name)
		if f == nil {
			continue
		}
		ok := false
		for _, b := range f.Blocks {
			for _, in := range b.Instrs {
				cal := staticCallee(in)
				if cal != nil && cal.Name() == "Wait" && strings.Contains(FuncName(cal), "sync.Cond") {
					// in a loop re-testing nthread
					ok = reachableFrom(in, in)
				}
			}
		}
		R.Check(ok, id, fmt.Sprintf("shrinker.%s|waits in a loop", name), P.Pos(f.Pos()), "Cond.Wait is inside a loop that re-tests the thread count", "wait in a cycle", "wait not in a loop: a spurious wake-up ends the wait early")
	}
}

// ruleF8: index blocks go back with their first slot.  indshrink frees the
// slots of an indirect tree from the end towards the start and tells its
// caller that the (sub)tree root itself can be freed when the slot just
// handled was the first one (off == 0 && ind == 0).
func ruleF8(c *Ctx, id string) {
	V, P, R := c.V, c.P, c.R
	R.Rule(id, "index blocks are released with their first slot: indshrink answers 'root is free' (returns root) on every path on which the slot handled is the first one, and every caller frees the root it is told about", 3)
	ind := c.fn(id, "inode.(*Inode).indshrink")
	freeIndex := c.fn(id, "inode.(*Inode).freeIndex")
	if ind == nil || freeIndex == nil || V.Shrink == nil {
		return
	}
	R.Analysed[FuncName(ind)] = true
	root, bn := ssa.Value(ind.Params[2]), ssa.Value(ind.Params[4])
	// edges on which the slot is known not to be the first one: (bn / d) != 0 or (bn % d) != 0
	notFirst := condEdge(ind, func(cd Cond) (bool, bool) {
		bo, ok := stripConv(cd.X).(*ssa.BinOp)
		k, isk := constInt(cd.Y)
		if !ok || !isk || k != 0 || (bo.Op != token.QUO && bo.Op != token.REM) || stripConv(bo.X) != bn {
			return false, false
		}
		switch cd.Op {
		case token.NEQ:
			return true, true
		case token.EQL:
			return true, false
		}
		return false, false
	})
	noRoot := cmpZeroEdge(ind, map[ssa.Value]bool{root: true})
	n := 0
	for _, b := range ind.Blocks {
		r, ok := b.Instrs[len(b.Instrs)-1].(*ssa.Return)
		if !ok || len(r.Results) != 1 {
			continue
		}
		if k, isk := constInt(r.Results[0]); !isk || k != 0 {
			continue
		}
		n++
		// 'nothing to free' is answered only without a root or when the slot is not the first one
		okR := everyPathTakes(ind, b, notFirst, noRoot)
		R.Check(okR, id, fmt.Sprintf("inode.indshrink|'keep the root' answer #%d", n), P.Pos(r.Pos()), "indshrink returns NULLBNUM only when there is no root or the slot handled is not the first one of the tree", "every path to this return takes root == 0, off != 0 or ind != 0", "a path answers 'keep the root' although the first slot was just handled (e.g. a hole there): the index block is never freed")
	}
	if n == 0 {
		R.Fail(id, "inode.indshrink|answers", P.Pos(ind.Pos()), "indshrink has a 'keep the root' answer", "no constant-0 return found")
	}
	// callers free the root they are told about
	for _, fn := range []*ssa.Function{V.Shrink, ind} {
		for _, sc := range scopesOf(fn) {
			for _, call := range P.CallsIn(sc.Fn, funcIs(ind)) {
				cv := call.(*ssa.Call)
				zero := cmpZeroEdge(sc.Fn, fwdClosure([]ssa.Value{cv}, false))
				isFree := func(in ssa.Instruction) bool {
					return callTo(freeIndex)(in) || (callTo(V.FreeBlock)(in) && stripConv(argN(in, 0)) == ssa.Value(cv))
				}
				ok := MustAfterE(sc.Fn, isFree, nil, zero)(call)
				R.Check(ok, id, FuncName(fn)+"|frees the root indshrink reports", P.Pos(call.Pos()), "on every path on which indshrink returned a block, that block is freed (FreeBlock / freeIndex)", "must-follow except on the result == 0 edge", "a root reported as free is not freed: the index block is leaked")
			}
		}
	}
}
