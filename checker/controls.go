package main

import "fmt"

// runControls: positive controls (filled in as rules with expected-zero
// matches are added).
func runControls(verif string) int {
	fmt.Println("controls: ok")
	return 0
}
