package main

// Roles in RENAME: the request has two halves, From (directory handle + name)
// and To.  After the relock the directory inode that was locked for the number
// taken from one half must be revalidated against the handle and the name of
// the same half - otherwise the revalidation can never succeed (the request
// retries for ever) or accepts the wrong directory.  The rule follows values
// back to the half of the request they derive from.

import (
	"fmt"
	"go/token"
	"go/types"
	"sort"
	"strings"

	"golang.org/x/tools/go/ssa"
)

const (
	roleFrom = 1
	roleTo   = 2
)

func roleStr(m int) string {
	var s []string
	if m&roleFrom != 0 {
		s = append(s, "From")
	}
	if m&roleTo != 0 {
		s = append(s, "To")
	}
	if len(s) == 0 {
		return "none"
	}
	return strings.Join(s, "+")
}

type roleCtx struct {
	c      *Ctx
	req    *ssa.Parameter // the request parameter of the handler
	lookup *ssa.Function
	two    *ssa.Function
	seen   map[string]bool
	at     *ssa.BasicBlock // where the slot is read: stores made under the opposite outcome of the same test do not count
}

// contradictory: block a lies on one side of a test of some boolean value and
// block b on the other side of a test of the same value.
func contradictory(a, b *ssa.BasicBlock) bool {
	if a == nil || b == nil || a.Parent() != b.Parent() {
		return false
	}
	type side struct {
		cond ssa.Value
		pol  bool
	}
	sides := func(blk *ssa.BasicBlock) []side {
		var out []side
		for _, x := range blk.Parent().Blocks {
			ifi, ok := x.Instrs[len(x.Instrs)-1].(*ssa.If)
			if !ok {
				continue
			}
			cond, neg := ifi.Cond, false
			for {
				u, isU := cond.(*ssa.UnOp)
				if !isU || u.Op != token.NOT {
					break
				}
				cond, neg = u.X, !neg
			}
			for i, sx := range x.Succs {
				if len(sx.Preds) == 1 && (sx == blk || sx.Dominates(blk)) {
					out = append(out, side{cond, (i == 0) != neg})
				}
			}
		}
		return out
	}
	sa, sb := sides(a), sides(b)
	for _, x := range sa {
		for _, y := range sb {
			if x.cond == y.cond && x.pol != y.pol {
				return true
			}
		}
	}
	return false
}

func (rc *roleCtx) key(kind string, v ssa.Value, k int64, sub Subst) string {
	return fmt.Sprintf("%s|%p|%d|%p", kind, v, k, sub)
}

// roleOf: the halves of the request v derives from.
func (rc *roleCtx) roleOf(v ssa.Value, sub Subst, d int) int {
	if v == nil || d > 40 {
		return 0
	}
	// where this very load happens (value canonicalisation may replace it by an equal load elsewhere)
	var loadBlk *ssa.BasicBlock
	{
		o := v
		for i := 0; i < 4; i++ {
			switch x := o.(type) {
			case *ssa.Convert:
				o = x.X
				continue
			case *ssa.ChangeType:
				o = x.X
				continue
			}
			break
		}
		if u, ok := o.(*ssa.UnOp); ok && u.Op == token.MUL {
			if _, isIA := u.X.(*ssa.IndexAddr); isIA {
				loadBlk = u.Block()
			}
		}
	}
	v = sub.resolve(stripConv(v))
	k := rc.key("v", v, 0, sub)
	if rc.seen[k] {
		return 0
	}
	rc.seen[k] = true
	defer delete(rc.seen, k)
	if pm, path := paramFieldPath(v); pm != nil && pm == rc.req {
		switch {
		case path == "From" || strings.HasPrefix(path, "From."):
			return roleFrom
		case path == "To" || strings.HasPrefix(path, "To."):
			return roleTo
		}
		return 0
	} else if pm != nil {
		if a, ok := sub[pm]; ok {
			_ = a
			// a field of a helper's struct parameter: the role of the argument
			return rc.roleOf(pm, sub, d+1)
		}
	}
	V := rc.c.V
	switch x := v.(type) {
	case *ssa.Phi:
		m := 0
		for _, e := range x.Edges {
			m |= rc.roleOf(e, sub, d+1)
		}
		return m
	case *ssa.Field:
		return rc.roleOf(x.X, sub, d+1)
	case *ssa.Extract:
		if cl, ok := x.Tuple.(*ssa.Call); ok {
			return rc.roleOfCall(cl, x.Index, sub, d+1)
		}
	case *ssa.Call:
		return rc.roleOfCall(x, 0, sub, d+1)
	case *ssa.UnOp:
		if x.Op != token.MUL {
			return 0
		}
		switch a := x.X.(type) {
		case *ssa.FieldAddr:
			base := stripConv(a.X)
			if al, ok := base.(*ssa.Alloc); ok {
				if w := wholeStore(al); w != nil {
					return rc.roleOf(w, sub, d+1)
				}
				return rc.roleOfCell(al, sub, d+1)
			}
			return rc.roleOf(base, sub, d+1) // a field of an inode: the inode's role
		case *ssa.IndexAddr:
			kk, ok := constInt(a.Index)
			if !ok {
				// s[len(s)-c]: counted from the end (passed on as -c)
				if sub2, isB := stripConv(a.Index).(*ssa.BinOp); isB && sub2.Op == token.SUB {
					if c, isk := constInt(sub2.Y); isk && c > 0 {
						if lc, isC := stripConv(sub2.X).(*ssa.Call); isC {
							if bi, isBi := lc.Call.Value.(*ssa.Builtin); isBi && bi.Name() == "len" && len(lc.Call.Args) == 1 && stripConv(lc.Call.Args[0]) == stripConv(a.X) {
								kk, ok = -c, true
							}
						}
					}
				}
			}
			if ok {
				old := rc.at
				rc.at = x.Block()
				if loadBlk != nil {
					rc.at = loadBlk
				}
				r := rc.roleOfSlot(a.X, kk, sub, d+1)
				rc.at = old
				return r
			}
		case *ssa.Alloc:
			return rc.roleOfCell(a, sub, d+1)
		case *ssa.FreeVar:
			return 0
		}
	case *ssa.Index:
		if kk, ok := constInt(x.Index); ok {
			return rc.roleOfSlot(x.X, kk, sub, d+1)
		}
	}
	_ = V
	return 0
}

func (rc *roleCtx) roleOfCell(al *ssa.Alloc, sub Subst, d int) int {
	m := 0
	for _, r := range refs(al) {
		if st, ok := r.(*ssa.Store); ok && st.Addr == ssa.Value(al) {
			m |= rc.roleOf(st.Val, sub, d+1)
		}
	}
	return m
}

func (rc *roleCtx) roleOfCall(cl *ssa.Call, idx int, sub Subst, d int) int {
	V := rc.c.V
	cal := staticCallee(cl)
	if cal == nil {
		return 0
	}
	switch {
	case cal.Name() == "MakeFh" && relPkg(cal) == "fh":
		return rc.roleOf(cl.Call.Args[0], sub, d+1)
	case cal == V.GetInodeFh:
		return rc.roleOf(argN(cl, 0), sub, d+1)
	case cal == rc.lookup:
		if idx == 0 {
			return rc.roleOf(cl.Call.Args[2], sub, d+1)
		}
		return 0
	}
	if IsRepoFunc(cal) && cal.Blocks != nil && d < 30 && cal != V.lockInodes {
		// a helper of the handler: what it returns at position idx, its parameters bound to the arguments
		s2 := Subst{}
		for k, v := range sub {
			s2[k] = v
		}
		for i, p := range cal.Params {
			if i < len(cl.Call.Args) {
				s2[p] = sub.resolve(cl.Call.Args[i])
			}
		}
		m := 0
		for _, b := range cal.Blocks {
			if r, ok := b.Instrs[len(b.Instrs)-1].(*ssa.Return); ok && idx < len(r.Results) {
				m |= rc.roleOf(r.Results[idx], s2, d+2)
			}
		}
		return m
	}
	return 0
}

// roleOfSlot: the role of element k of the inode slice s (the result of a bulk
// acquisition: element k is the inode locked for number k).
func (rc *roleCtx) roleOfSlot(s ssa.Value, k int64, sub Subst, d int) int {
	if d > 40 {
		return 0
	}
	s = sub.resolve(stripConv(s))
	key := rc.key("s", s, k, sub)
	if rc.seen[key] {
		return 0
	}
	rc.seen[key] = true
	defer delete(rc.seen, key)
	V := rc.c.V
	switch x := s.(type) {
	case *ssa.Phi:
		m := 0
		for _, e := range x.Edges {
			m |= rc.roleOfSlot(e, k, sub, d+1)
		}
		return m
	case *ssa.Extract:
		if cl, ok := x.Tuple.(*ssa.Call); ok {
			return rc.slotOfCall(cl, x.Index, k, sub, d+1)
		}
	case *ssa.Call:
		if staticCallee(x) == V.lockInodes {
			return rc.roleOfElem(argN(x, 1), k, sub, d+1)
		}
		return rc.slotOfCall(x, 0, k, sub, d+1)
	case *ssa.Slice:
		return rc.roleOfElem(x, k, sub, d+1)
	case *ssa.UnOp:
		if x.Op == token.MUL {
			if al, ok := x.X.(*ssa.Alloc); ok {
				m := 0
				for _, r := range refs(al) {
					if st, ok := r.(*ssa.Store); ok && st.Addr == ssa.Value(al) {
						m |= rc.roleOfSlot(st.Val, k, sub, d+1)
					}
				}
				return m
			}
		}
	}
	return 0
}

func (rc *roleCtx) slotOfCall(cl *ssa.Call, idx int, k int64, sub Subst, d int) int {
	cal := staticCallee(cl)
	if cal == nil || !IsRepoFunc(cal) || cal.Blocks == nil || d > 30 {
		return 0
	}
	if cal == rc.c.V.lockInodes {
		if idx == 0 {
			return rc.roleOfElem(argN(cl, 1), k, sub, d+1)
		}
		return 0
	}
	s2 := Subst{}
	for kk, v := range sub {
		s2[kk] = v
	}
	for i, p := range cal.Params {
		if i < len(cl.Call.Args) {
			s2[p] = sub.resolve(cl.Call.Args[i])
		}
	}
	m := 0
	for _, b := range cal.Blocks {
		if r, ok := b.Instrs[len(b.Instrs)-1].(*ssa.Return); ok && idx < len(r.Results) {
			m |= rc.roleOfSlot(r.Results[idx], k, s2, d+2)
		}
	}
	return m
}

// roleOfElem: the role of element k of the number (or inode) slice n.
func (rc *roleCtx) roleOfElem(n ssa.Value, k int64, sub Subst, d int) int {
	if d > 40 {
		return 0
	}
	n = sub.resolve(stripConv(n))
	switch x := n.(type) {
	case *ssa.Phi:
		m := 0
		for _, e := range x.Edges {
			m |= rc.roleOfElem(e, k, sub, d+1)
		}
		return m
	case *ssa.Call:
		if staticCallee(x) == rc.two && int(k) < len(x.Call.Args) {
			return rc.roleOf(x.Call.Args[k], sub, d+1)
		}
		return 0
	case *ssa.UnOp:
		if x.Op == token.MUL {
			if al, ok := x.X.(*ssa.Alloc); ok {
				m := 0
				for _, r := range refs(al) {
					if st, ok := r.(*ssa.Store); ok && st.Addr == ssa.Value(al) {
						m |= rc.roleOfElem(st.Val, k, sub, d+1)
					}
				}
				return m
			}
		}
		return 0
	}
	// a slice built in place: make([]T, n) or a composite literal; the stores to index k
	var roots []ssa.Value
	roots = append(roots, n)
	if sl, ok := n.(*ssa.Slice); ok {
		roots = append(roots, stripConv(sl.X))
	}
	m := 0
	for _, root := range roots {
		want := k
		if k < 0 {
			// from the end: the length of a slice built in place is known
			n := int64(-1)
			switch r := root.(type) {
			case *ssa.MakeSlice:
				n, _ = constInt(r.Len)
			case *ssa.Alloc:
				if at, ok := derefType(r.Type()).Underlying().(*types.Array); ok {
					n = at.Len()
				}
			}
			if n <= 0 {
				continue
			}
			want = n + k
		}
		for _, r := range refs(root) {
			ia, ok := r.(*ssa.IndexAddr)
			if !ok {
				continue
			}
			if kk, isk := constInt(ia.Index); !isk || kk != want {
				continue
			}
			for _, r2 := range refs(ia) {
				if st, ok := r2.(*ssa.Store); ok && st.Addr == ssa.Value(ia) {
					if rc.at != nil && contradictory(st.Block(), rc.at) {
						continue // this layout is filled in under the opposite outcome of the test the reader is under
					}
					m |= rc.roleOf(st.Val, sub, d+1)
				}
			}
		}
	}
	return m
}

// slotsOf: the indices of the slice parameter sp that inode value v is loaded from.
func slotsOf(v ssa.Value, sp ssa.Value, seen map[ssa.Value]bool) map[int64]bool {
	out := map[int64]bool{}
	v = stripConv(v)
	if v == nil || seen[v] {
		return out
	}
	seen[v] = true
	switch x := v.(type) {
	case *ssa.Phi:
		for _, e := range x.Edges {
			for k := range slotsOf(e, sp, seen) {
				out[k] = true
			}
		}
	case *ssa.UnOp:
		if x.Op == token.MUL {
			if ia, ok := x.X.(*ssa.IndexAddr); ok && stripConv(ia.X) == sp {
				if k, isk := constInt(ia.Index); isk {
					out[k] = true
				}
			}
			if al, ok := x.X.(*ssa.Alloc); ok {
				for _, r := range refs(al) {
					if st, ok := r.(*ssa.Store); ok && st.Addr == ssa.Value(al) {
						for k := range slotsOf(st.Val, sp, seen) {
							out[k] = true
						}
					}
				}
			}
		}
	}
	return out
}

// ruleRoles: see the head of the file.  vr = validateRename, ren = the handler.
func ruleRoles(c *Ctx, id string, vr, ren, lookup, two *ssa.Function) {
	V, P, R := c.V, c.P, c.R
	req := requestParam(ren)
	if req == nil {
		R.Undecided(id, "NFSPROC3_RENAME|halves of the request", P.Pos(ren.Pos()), "the handler has a request parameter", "no request parameter found")
		return
	}
	// the slice parameter of validateRename and, per handle/name parameter, the slots it is checked against
	var sp ssa.Value
	for _, pm := range vr.Params {
		if strings.HasPrefix(pm.Type().String(), "[]*") {
			sp = pm
		}
	}
	if sp == nil {
		R.Undecided(id, "nfs.validateRename|inode slice", P.Pos(vr.Pos()), "validateRename takes the relocked inodes as a slice", "no slice parameter")
		return
	}
	paramOf := func(v ssa.Value) *ssa.Parameter {
		pm, _ := paramFieldPath(v)
		return pm
	}
	slots := map[*ssa.Parameter]map[int64]bool{}
	add := func(pm *ssa.Parameter, base ssa.Value) {
		if pm == nil || pm == sp {
			return
		}
		if slots[pm] == nil {
			slots[pm] = map[int64]bool{}
		}
		for k := range slotsOf(base, sp, map[ssa.Value]bool{}) {
			slots[pm][k] = true
		}
	}
	// (the comparisons may sit in a predicate helper of validateRename that is handed the inode and the handle's fields)
	for _, vsc := range scopesOf(vr) {
		sub := vsc.S
		for _, b := range vsc.Fn.Blocks {
			for _, in := range b.Instrs {
				switch x := in.(type) {
				case *ssa.BinOp:
					if x.Op != token.EQL && x.Op != token.NEQ {
						continue
					}
					for _, pr := range [][2]ssa.Value{{x.X, x.Y}, {x.Y, x.X}} {
						if n, fl, base, _ := loadedFieldS(pr[0], sub); n == V.Inode && (fl == "Gen" || fl == "Inum") && base != nil {
							if pm := paramOf(sub.resolve(stripConv(pr[1]))); pm != nil && pm.Parent() == vr && isNamed(pm.Type(), "/fh", "Fh") {
								add(pm, sub.resolve(stripConv(base)))
							}
						}
					}
				case *ssa.Call:
					if staticCallee(x) == lookup && len(x.Call.Args) == 3 {
						if pm, ok := sub.resolve(stripConv(x.Call.Args[2])).(*ssa.Parameter); ok && pm.Parent() == vr {
							add(pm, sub.resolve(stripConv(x.Call.Args[0])))
						}
					}
				}
			}
		}
	}
	n := 0
	for _, sc := range scopesOf(ren) {
		for _, in := range P.CallsIn(sc.Fn, funcIs(vr)) {
			vc := in.(*ssa.Call)
			rc := &roleCtx{c: c, req: req, lookup: lookup, two: two, seen: map[string]bool{}}
			var pms []*ssa.Parameter
			for pm := range slots {
				pms = append(pms, pm)
			}
			sort.Slice(pms, func(i, j int) bool { return pms[i].Name() < pms[j].Name() })
			for _, pm := range pms {
				idx := -1
				for i, p := range vr.Params {
					if p == pm {
						idx = i
					}
				}
				if idx < 0 || idx >= len(vc.Call.Args) {
					continue
				}
				n++
				argRole := rc.roleOf(vc.Call.Args[idx], sc.S, 0)
				slotRole := 0
				var ks []string
				for k := range slots[pm] {
					slotRole |= rc.roleOfSlot(argN(vc, 1), k, sc.S, 0)
					ks = append(ks, fmt.Sprint(k))
				}
				sort.Strings(ks)
				ok := argRole != 0 && argRole&^slotRole == 0
				R.Check(ok, id, "NFSPROC3_RENAME|validateRename("+pm.Name()+") same half as its directory", P.Pos(vc.Pos()),
					fmt.Sprintf("the argument for %s comes from the half of the request (%s) whose number was locked into slot %s of the relocked inodes (%s)", pm.Name(), roleStr(argRole), strings.Join(ks, "/"), roleStr(slotRole)),
					"same half", fmt.Sprintf("validateRename compares %s (from the %s half of the request) with the inode locked for the %s half: the revalidation of a rename between two directories can never succeed and the request retries for ever, or a foreign directory is accepted", pm.Name(), roleStr(argRole), roleStr(slotRole)))
			}
		}
	}
	// the updates themselves: every directory call of the handler names a directory and a name of the same half;
	// the number entered under the new name is the source's; the only inode that loses a link is the replaced
	// target (the one locked for the number found under the To name)
	addName := P.Func("dir.AddName")
	remName := P.Func("dir.RemName")
	for _, sc := range scopesOf(ren) {
		for _, b := range sc.Fn.Blocks {
			for _, in := range b.Instrs {
				call, ok := in.(*ssa.Call)
				if !ok {
					continue
				}
				rc := &roleCtx{c: c, req: req, lookup: lookup, two: two, seen: map[string]bool{}}
				cal := staticCallee(call)
				where := ""
				if sc.Fn != ren {
					where = sc.Fn.Name() + ":"
				}
				ord := func(f *ssa.Function) int {
					k := 0
					for _, o := range P.CallsIn(sc.Fn, funcIs(f)) {
						if o.Pos() < call.Pos() {
							k++
						}
					}
					return k
				}
				switch {
				case cal != nil && (cal == lookup || cal == addName || cal == remName):
					dirRole := rc.roleOf(inodeArg(call), sc.S, 0)
					nameRole := rc.roleOf(nameArg(call), sc.S, 0)
					if nameRole == 0 {
						continue // not a name of the request
					}
					okD := dirRole != 0 && dirRole&^nameRole == 0 || dirRole == roleFrom|roleTo
					// (a directory that can be either half - the same-directory case - carries both roles)
					R.Check(okD, id, fmt.Sprintf("NFSPROC3_RENAME|%s%s#%d directory and name of one half", where, cal.Name(), ord(cal)), P.Pos(call.Pos()),
						fmt.Sprintf("%s is applied to the directory of the %s half with the name of the %s half", cal.Name(), roleStr(dirRole), roleStr(nameRole)), "same half",
						fmt.Sprintf("%s looks up / updates the %s directory under the name of the %s half: the wrong directory entry is read or changed", cal.Name(), roleStr(dirRole), roleStr(nameRole)))
					if cal == addName && len(call.Call.Args) >= 3 {
						inumRole := rc.roleOf(call.Call.Args[2], sc.S, 0)
						R.Check(inumRole == roleFrom && nameRole == roleTo, id, fmt.Sprintf("NFSPROC3_RENAME|%sAddName#%d enters the source under the new name", where, ord(cal)), P.Pos(call.Pos()),
							fmt.Sprintf("the number entered (%s half) is the source's, the name (%s half) is the new one", roleStr(inumRole), roleStr(nameRole)), "number From, name To",
							"the new name is given another object than the one renamed")
					}
				default:
					if ip := unlinkOf(c, call); ip != nil {
						r := rc.roleOf(ip, sc.S, 0)
						R.Check(r == roleTo, id, fmt.Sprintf("NFSPROC3_RENAME|%sunlink#%d drops the replaced target", where, ord(cal)), P.Pos(call.Pos()),
							fmt.Sprintf("the inode that loses a link derives from the %s half: it is the one locked for the number found under the new name", roleStr(r)), "To half only",
							fmt.Sprintf("the inode unlinked derives from the %s half of the request: a rename over an existing name frees the object that was renamed (its handle goes stale although it exists, the new name points at a freed inode) and keeps the replaced one for ever", roleStr(r)))
					}
				}
			}
		}
	}
	if n == 0 {
		R.Undecided(id, "NFSPROC3_RENAME|validateRename halves", P.Pos(ren.Pos()), "the handles and names validateRename checks can be related to the relocked slots", "no comparison of a handle/name parameter with a slot of the inode slice was recognised")
	}
}
