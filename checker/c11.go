package main

import (
	"fmt"
	"go/constant"
	"go/token"
	"go/types"
	"sort"
	"strings"

	"golang.org/x/tools/go/ssa"
)

func init() {
	props["C11"] = func(c *Ctx) {
		c.R.Expl = "Each client-controlled quantity is validated before it reaches an operation that traps, for the listed sinks: (V1) handle bytes are length-checked before decoding; (V2) handle-derived inode numbers are range-checked before they address the inode table; (V3) sums of client offsets/counts that feed a comparison cannot wrap unnoticed; (V4) the client's count agrees with the data supplied before the data is sliced by it; (V5) client-sized allocations are bounded; (V6) no nil transaction reaches a terminator and bulk-acquisition results are nil-tested; (V7) both names of RENAME and the name of REMOVE/RMDIR are checked before use; (V8) inventory of explicit panics reachable from handlers, each with its justifying invariant."
		c.R.NotDec = "general panic freedom (implicit bounds/nil checks in data-structure arithmetic not fed by a client quantity); memory exhaustion by large but bounded requests; behaviour after the reply."
		ruleV1(c, "C11.V1")
		ruleV2(c, "C11.V2")
		ruleV3(c, "C11.V3")
		ruleV4(c, "C11.V4")
		ruleV5(c, "C11.V5")
		ruleV6(c, "C11.V6")
		ruleV7(c, "C11.V7")
		ruleV8(c, "C11.V8")
		ruleV9(c, "C11.V9")
		ruleL2(c, "C11.V10")
		ruleL4(c, "C11.V11")
		ruleL5(c, "C11.V14")
		ruleKind(c, "C11.V12")
		ruleNlinkFloor(c, "C11.V13")
		ruleNilUse(c, "C11.V15")
		ruleV16(c, "C11.V16")
		ruleDirKind(c, "C11.V17")
		ruleT3(c, "C11.V18")
		ruleP4(c, "C11.V19")
		ruleL1(c, "C11.V20")
		// a directory scan that does not advance on some path never ends, holding the directory's lock
		ruleP2(c, "C11.V21")
		// a reply that cannot be encoded is never sent: the client waits for ever
		ruleXdrBounds(c, "C11.V22", "res")
		// an inode that still has names is not freed: a directory entry (or "..") naming a free inode makes the
		// scanners hand a nil inode on, and LOOKUP of ".." retry for ever
		ruleG2(c, "C11.V23")
	}
}

// ruleV9: a client cookie is used as a byte offset into the directory; it
// must be entry-aligned before the scan decodes entries at it.
func ruleV9(c *Ctx, id string) {
	P, R := c.P, c.R
	R.Rule(id, "directory cookies are validated: every handler that passes the request's cookie to a directory scan is dominated by a test that the cookie is a multiple of the entry size", 2)
	direntsz := constOfPkg(P, "dir", "DIRENTSZ")
	n := 0
	for _, h := range c.V.NfsProcs {
		hsc := scopesOf(h)
		req := requestParam(h)
		for _, sc := range hsc {
			for _, b := range sc.Fn.Blocks {
				for _, in := range b.Instrs {
					call, ok := in.(*ssa.Call)
					if !ok || staticCallee(call) == nil || !IsRepoFunc(staticCallee(call)) {
						continue
					}
					var cookie ssa.Value
					for _, a := range call.Call.Args {
						if _, path := paramFieldPath(a); path == "Cookie" {
							cookie = a
						} else if pm, path := canonPath(a, sc.S); pm != nil && pm == req && path == "Cookie" {
							cookie = a
						}
					}
					if cookie == nil {
						continue
					}
					// only calls that lead to a directory scan (decoding entries) use the cookie as an offset
					if dec := P.Func("dir.decodeDirEnt"); dec != nil {
						if !P.Reach([]*ssa.Function{staticCallee(call)}, func(f *ssa.Function) bool { return !IsRepoFunc(f) })[dec] {
							continue
						}
					}
					n++
					mk := func(subj ssa.Value) func(Cond) (bool, bool) {
						return func(cd Cond) (bool, bool) {
							if cd.X == nil || cd.Y == nil {
								return false, false
							}
							rem, ok := stripConv(cd.X).(*ssa.BinOp)
							if !ok || rem.Op != token.REM {
								return false, false
							}
							k, isk := constInt(stripConv(rem.Y))
							z, isz := constInt(stripConv(cd.Y))
							if !isk || k != direntsz || !isz || z != 0 {
								return false, false
							}
							if !(stripConv(rem.X) == stripConv(subj) || sameParamField(rem.X, subj)) {
								if cv, ok := rem.X.(*ssa.Convert); !ok || !(stripConv(cv.X) == stripConv(subj) || sameParamField(cv.X, subj)) {
									return false, false
								}
							}
							if cd.Op == token.NEQ {
								return true, false
							}
							if cd.Op == token.EQL {
								return true, true
							}
							return false, false
						}
					}
					g := guardedByS(h, call.Block(), cookie, mk, 0)
					if !g {
						// in a helper or function literal of the handler: the same quantity by its access path
						g = guardedUp(hsc, sc, call.Block(), func(sub Subst) func(Cond) (bool, bool) {
							return func(cd Cond) (bool, bool) {
								if cd.X == nil || cd.Y == nil {
									return false, false
								}
								rem, ok := stripConv(cd.X).(*ssa.BinOp)
								if !ok || rem.Op != token.REM {
									return false, false
								}
								k, isk := constInt(stripConv(rem.Y))
								z, isz := constInt(stripConv(cd.Y))
								if !isk || k != direntsz || !isz || z != 0 {
									return false, false
								}
								x := stripConv(rem.X)
								if cv, isC := x.(*ssa.Convert); isC {
									x = stripConv(cv.X)
								}
								if !samePathX(x, sub, cookie, sc.S) {
									return false, false
								}
								if cd.Op == token.NEQ {
									return true, false
								}
								if cd.Op == token.EQL {
									return true, true
								}
								return false, false
							}
						})
					}
					R.Analysed[FuncName(h)] = true
					R.Check(g, id, h.Name()+"|cookie entry-aligned", P.Pos(call.Pos()), "the scan starts only at a cookie that is a multiple of DIRENTSZ", "guard dominates", "a cookie such as 1 makes the scan decode bytes straddling two entries: the garbage name length panics the decoder with the directory lock held")
				}
			}
		}
	}
	if n == 0 {
		R.Fail(id, "cookie uses", "?", "READDIR and READDIRPLUS pass the cookie to a scan", "no such call found")
	}
}

// lenBound: cond is a comparison of len(slice) (slice satisfying isS) with a
// constant; returns the least length guaranteed on the (polarity) edge.
func lenAtLeast(cd Cond, isS func(ssa.Value) bool) (applies bool, polarity bool, atLeast int64) {
	isLen := func(v ssa.Value) bool {
		v = stripConv(v)
		if call, ok := v.(*ssa.Call); ok {
			if bi, ok := call.Call.Value.(*ssa.Builtin); ok && bi.Name() == "len" {
				return isS(stripConv(call.Call.Args[0]))
			}
		}
		return false
	}
	op, a, b := cd.Op, cd.X, cd.Y
	if a == nil || b == nil {
		return
	}
	if !isLen(a) && isLen(b) {
		op, a, b = flipOp(op), b, a
	}
	if !isLen(a) {
		return
	}
	k, isk := constInt(stripConv(b))
	if !isk {
		return
	}
	switch op {
	case token.LSS: // len < k : false edge => len >= k
		return true, false, k
	case token.GEQ:
		return true, true, k
	case token.LEQ: // len <= k false => len >= k+1
		return true, false, k + 1
	case token.GTR:
		return true, true, k + 1
	case token.EQL:
		return true, true, k
	case token.NEQ:
		return true, false, k
	}
	return
}

func ruleV1(c *Ctx, id string) { ruleV1x(c, id, []string{"fh.MakeFh", "simple.MakeFh"}, 3) }

func ruleV1x(c *Ctx, id string, specs []string, floor int) {
	P, R := c.P, c.R
	R.Rule(id, "decode of client bytes is length-guarded: every marshal.Dec read in a handle decoder is dominated by a test that the handle has at least the bytes consumed so far", floor)
	for _, spec := range specs {
		f := c.fn(id, spec)
		if f == nil {
			continue
		}
		R.Analysed[FuncName(f)] = true
		// the slice given to NewDec
		var data ssa.Value
		for _, b := range f.Blocks {
			for _, in := range b.Instrs {
				if cal := staticCallee(in); cal != nil && cal.Name() == "NewDec" {
					data = stripConv(argN(in, 0))
				}
			}
		}
		if data == nil {
			R.Undecided(id, spec+"|decoder", P.Pos(f.Pos()), "the handle decoder builds a marshal.Dec", "no NewDec call")
			continue
		}
		same := func(v ssa.Value) bool {
			if v == data {
				return true
			}
			// loads of the same field of the same parameter
			n1, f1, b1, _ := loadedField(v)
			n2, f2, b2, _ := loadedField(data)
			if n1 != nil && n1 == n2 && f1 == f2 && b1 == b2 {
				return true
			}
			c1, fl1 := fieldOfCallResult(v)
			c2, fl2 := fieldOfCallResult(data)
			_ = c1
			_ = c2
			return fl1 != "" && fl1 == fl2 && sameParamField(v, data)
		}
		ops, _, _ := codecOps(f)
		var consumed int64
		n := 0
		for _, b := range f.DomPreorder() {
			for _, in := range b.Instrs {
				cal := staticCallee(in)
				if cal == nil || !strings.HasPrefix(cal.Name(), "Get") || funcPkg(cal) == nil || !strings.HasSuffix(funcPkg(cal).Path(), "tchajed/marshal") {
					continue
				}
				w := marshalWidth[cal.Name()]
				if w == 0 {
					w = 8
				}
				consumed += w
				need := consumed
				n++
				g := guardedBy(f, in.Block(), func(cd Cond) (bool, bool) {
					ok, pol, atl := lenAtLeast(cd, same)
					if ok && atl >= need {
						return true, pol
					}
					return false, false
				})
				R.Check(g, id, fmt.Sprintf("%s|read#%d needs %d bytes", spec, n, need), P.Pos(in.Pos()), fmt.Sprintf("the %d-th decoder read (bytes 0..%d of the client's handle) is dominated by len(handle) >= %d", n, need, need), "length guard dominates", "a handle shorter than the bytes decoded panics the server (index out of range in marshal.Dec)")
			}
		}
		_ = ops
	}
}

// sameParamField: both values are loads of the same field path of a spilled
// struct parameter.
func sameParamField(a, b ssa.Value) bool {
	pa, fa := paramFieldPath(a)
	pb, fb := paramFieldPath(b)
	return pa != nil && pa == pb && fa == fb
}

// canonPath: the (parameter, field path) v denotes, followed through the
// parameters of helper scopes to the value the owner passed in (by value or by
// pointer).
func canonPath(v ssa.Value, sub Subst) (*ssa.Parameter, string) {
	path := ""
	for i := 0; i < 6; i++ {
		pm, p := paramFieldPath(v)
		if pm == nil {
			// a variable captured by a function literal: the enclosing function's cell
			if fv, p2, ok := freeVarFieldPath(v); ok {
				if a, bound := sub[fv]; bound {
					switch {
					case path == "":
						path = p2
					case p2 != "":
						path = p2 + "." + path
					}
					v = a
					continue
				}
			}
			return nil, ""
		}
		switch {
		case path == "":
			path = p
		case p != "":
			path = p + "." + path
		}
		a, ok := sub[pm]
		if !ok || a == ssa.Value(pm) {
			return pm, path
		}
		v = a
	}
	return nil, ""
}

// samePathX: a (seen in a scope with substitution sa) and b (sb) denote the
// same field of the same parameter of the owner.
func samePathX(a ssa.Value, sa Subst, b ssa.Value, sb Subst) bool {
	pa, fa := canonPath(a, sa)
	pb, fb := canonPath(b, sb)
	return pa != nil && pa == pb && fa == fb
}

// paramFieldPath: v is (a load of) field path F of parameter P (struct passed
// by value, possibly spilled to a local).
func paramFieldPath(v ssa.Value) (*ssa.Parameter, string) {
	v = stripConv(v)
	var path []string
	for i := 0; i < 8; i++ {
		switch x := v.(type) {
		case *ssa.Field:
			path = append([]string{fieldNameOfValue(x)}, path...)
			v = x.X
			continue
		case *ssa.UnOp:
			if x.Op == token.MUL {
				v = x.X
				continue
			}
		case *ssa.FieldAddr:
			path = append([]string{fieldNameAt(x)}, path...)
			v = x.X
			continue
		case *ssa.Alloc:
			if pm := paramSpilledTo(x.Parent(), x); pm != nil {
				return pm, strings.Join(path, ".")
			}
			return nil, ""
		case *ssa.Parameter:
			return x, strings.Join(path, ".")
		}
		break
	}
	return nil, ""
}

func ruleV2(c *Ctx, id string) {
	V, P, R := c.V, c.P, c.R
	R.Rule(id, "client-chosen inode numbers are range-checked: GetInodeInum (the only accessor reached by handle-derived numbers) tests inum < NInode() before the inode table is addressed; handle-derived numbers never reach GetInodeLocked/GetInodeInumFree/Inum2Addr directly", 1)
	g := V.GetInodeInum
	if g == nil {
		return
	}
	R.Analysed[FuncName(g)] = true
	var inum ssa.Value = g.Params[1]
	for _, call := range P.CallsIn(g, funcIs(V.GetInodeInumFree, V.GetInodeLocked)) {
		ok := guardedBy(g, call.Block(), func(cd Cond) (bool, bool) {
			op, a, b := cd.Op, cd.X, cd.Y
			isN := func(v ssa.Value) bool {
				cl, ok := stripConv(v).(*ssa.Call)
				return ok && staticCallee(cl) != nil && staticCallee(cl).Name() == "NInode"
			}
			if a == nil || b == nil {
				return false, false
			}
			if isN(a) && stripConv(b) == inum {
				op, a, b = flipOp(op), b, a
			}
			if stripConv(a) != inum || !isN(b) {
				return false, false
			}
			switch op {
			case token.GEQ:
				return true, false
			case token.LSS:
				return true, true
			}
			return false, false
		})
		R.Check(ok, id, "fstxn.GetInodeInum|inum < NInode()", P.Pos(call.Pos()), "the acquisition is dominated by inum < Super.NInode()", "range guard dominates", "a well-formed handle naming an inode beyond the table makes the server read outside the inode region (panic in the disk layer)")
	}
	// handle-derived numbers flow only into the checking accessor
	mk := P.Func("fh.MakeFh")
	for _, fn := range P.RepoFuncs("nfs", "dir", "fstxn") {
		var roots []ssa.Value
		for _, b := range fn.Blocks {
			for _, in := range b.Instrs {
				if call, ok := in.(*ssa.Call); ok && staticCallee(call) == mk {
					roots = append(roots, call)
				}
			}
		}
		if len(roots) == 0 {
			continue
		}
		// values derived from the decoded handle (through the local struct copy)
		cl := fwdClosure(roots, true)
		for _, call := range P.CallsIn(fn, funcIs(V.GetInodeLocked, V.GetInodeInumFree, P.Func("super.(*FsSuper).Inum2Addr"))) {
			R.Check(!cl[stripConv(argN(call, 0))] && !cl[argN(call, 0)], id, FuncName(fn)+"|handle number into unchecked accessor", P.Pos(call.Pos()), "handle-derived inode numbers reach the inode table only through GetInodeInum", "not handle-derived", "a client-chosen number bypasses the range/FREE checks")
		}
	}
}

// boundedValue: v cannot be close to 2^64: converted from a <=32-bit integer,
// a constant, a load of Inode.Size, or dominated (at 'at') by an upper-bound
// comparison.
func boundedValue(c *Ctx, fn *ssa.Function, v ssa.Value, at *ssa.BasicBlock, depth int) (bool, string) {
	raw := v
	for {
		if cv, ok := raw.(*ssa.Convert); ok {
			if b, ok := cv.X.Type().Underlying().(*types.Basic); ok && b.Info()&types.IsInteger != 0 {
				switch b.Kind() {
				case types.Uint32, types.Int32, types.Uint16, types.Uint8, types.Int16, types.Int8:
					return true, "converted from a 32-bit quantity"
				}
			}
			raw = cv.X
			continue
		}
		if ct, ok := raw.(*ssa.ChangeType); ok {
			raw = ct.X
			continue
		}
		break
	}
	if b, ok := raw.Type().Underlying().(*types.Basic); ok {
		switch b.Kind() {
		case types.Uint32, types.Int32, types.Uint16, types.Uint8:
			return true, "32-bit type"
		}
	}
	if _, ok := raw.(*ssa.Const); ok {
		return true, "constant"
	}
	if n, fl, _, _ := loadedField(raw); n == c.V.Inode && fl == "Size" {
		return true, "a file size (bounded by MaxFileSize, C19.M3)"
	}
	sv := stripConv(v)
	g := guardedBy(fn, at, func(cd Cond) (bool, bool) {
		if cd.X == nil || cd.Y == nil {
			return false, false
		}
		op, a, b := cd.Op, cd.X, cd.Y
		if stripConv(b) == sv && stripConv(a) != sv {
			op, a, b = flipOp(op), b, a
		}
		if stripConv(a) != sv {
			return false, false
		}
		switch op {
		case token.LSS, token.LEQ:
			return true, true
		case token.GEQ, token.GTR:
			return true, false
		}
		return false, false
	})
	if g {
		return true, "dominated by an upper-bound comparison"
	}
	// the smaller of two values is bounded when one of them is
	if cl, ok := sv.(*ssa.Call); ok && depth < 5 {
		if g := staticCallee(cl); g != nil && g.Name() == "Min" && len(cl.Call.Args) == 2 {
			for _, a := range cl.Call.Args {
				if ok, w := boundedValue(c, fn, a, at, depth+1); ok {
					return true, "the smaller of two values, one of them bounded (" + w + ")"
				}
			}
		}
	}
	if phi, ok := sv.(*ssa.Phi); ok && depth < 5 {
		all := true
		for _, e := range phi.Edges {
			if ok, _ := boundedValue(c, fn, e, at, depth+1); !ok {
				all = false
			}
		}
		if all {
			return true, "every phi input bounded"
		}
	}
	if pm, ok := sv.(*ssa.Parameter); ok && depth < 5 {
		idx := -1
		for i, p := range fn.Params {
			if p == pm {
				idx = i
			}
		}
		cs := c.P.CallersOf(fn)
		n := 0
		for _, s := range cs {
			if !IsRepoFunc(s.Caller) {
				continue
			}
			n++
			args := fullArgs(s.Instr) // (receiver first, also for a call through an interface)
			if idx >= len(args) {
				return false, ""
			}
			if ok, _ := boundedValue(c, s.Caller, args[idx], s.Instr.Block(), depth+1); !ok {
				return false, "caller " + FuncName(s.Caller) + " passes an unbounded value"
			}
		}
		if n > 0 {
			return true, fmt.Sprintf("every one of the %d callers passes a bounded value", n)
		}
	}
	return false, ""
}

func ruleV3(c *Ctx, id string) {
	P, R := c.P, c.R
	R.Rule(id, "arithmetic on client offsets cannot wrap unnoticed: every uint64 sum of two request-derived quantities that is compared directly is guarded by util.SumOverflows on the same operands, or both operands are bounded", 3)
	sumOv := P.Func(jrnlPath + "/util.SumOverflows")
	fns := []string{"inode.(*Inode).Write", "inode.(*Inode).Read", "nfs.(*Nfs).NFSPROC3_COMMIT", "nfs.(*Nfs).NFSPROC3_WRITE", "nfs.(*Nfs).NFSPROC3_READ", "nfs.(*Nfs).NFSPROC3_SETATTR", "simple.(*Inode).Write", "simple.(*Inode).Read", "simple.NFSPROC3_SETATTR_wp"}
	for _, spec := range fns {
		fn := c.fn(id, spec)
		if fn == nil {
			continue
		}
		R.Analysed[FuncName(fn)] = true
		n := 0
		for _, b := range fn.Blocks {
			for _, in := range b.Instrs {
				add, ok := in.(*ssa.BinOp)
				if !ok || add.Op != token.ADD {
					continue
				}
				bt, ok := add.Type().Underlying().(*types.Basic)
				if !ok || bt.Kind() != types.Uint64 {
					continue
				}
				// both operands directly request-derived: parameter or field of a parameter struct (after conversions)
				direct := func(v ssa.Value) bool {
					s := stripConv(v)
					if _, ok := s.(*ssa.Parameter); ok {
						return true
					}
					if pm, _ := paramFieldPath(v); pm != nil {
						return true
					}
					// uint64(args.X) : Convert of a param field
					if cv, ok := v.(*ssa.Convert); ok {
						if pm, _ := paramFieldPath(cv.X); pm != nil {
							return true
						}
					}
					return false
				}
				if !direct(add.X) || !direct(add.Y) {
					continue
				}
				// used directly in a comparison
				cmp := false
				for _, r := range refs(add) {
					if bo, ok := r.(*ssa.BinOp); ok {
						switch bo.Op {
						case token.LSS, token.LEQ, token.GTR, token.GEQ, token.EQL, token.NEQ:
							cmp = true
						}
					}
				}
				if !cmp {
					continue
				}
				n++
				key := fmt.Sprintf("%s|sum#%d compared", FuncName(fn), n)
				// guard: SumOverflows(x, y) == false dominates
				sx, sy := stripConv(add.X), stripConv(add.Y)
				g := guardedByX(fn, add.Block(), func(sub Subst) func(Cond) (bool, bool) {
					return func(cd Cond) (bool, bool) {
						if cd.Op != token.ILLEGAL {
							return false, false
						}
						call, ok := cd.X.(*ssa.Call)
						if !ok || staticCallee(call) != sumOv {
							return false, false
						}
						// (the test may be made by a predicate helper that is handed the two operands)
						a0, a1 := sub.resolve(stripConv(call.Call.Args[0])), sub.resolve(stripConv(call.Call.Args[1]))
						eq := func(p, q ssa.Value) bool { return p == q || sameParamField(p, q) }
						if (eq(a0, sx) && eq(a1, sy)) || (eq(a0, sy) && eq(a1, sx)) {
							return true, false
						}
						return false, false
					}
				}, Subst{}, 0)
				// short-circuit form: if SumOverflows(a,b) || a+b > X: the sum's block is entered only on the false edge
				if !g {
					for _, pb := range add.Block().Preds {
						_ = pb
					}
				}
				why := "util.SumOverflows on the same operands dominates"
				if !g {
					bx, wx := boundedValue(c, fn, add.X, add.Block(), 0)
					by, wy := boundedValue(c, fn, add.Y, add.Block(), 0)
					if bx && by {
						g = true
						why = "both operands bounded (" + wx + "; " + wy + ")"
					}
				}
				R.Check(g, id, key, P.Pos(add.Pos()), "the sum of two request-derived 64-bit quantities cannot wrap before it is compared", why, "the sum can wrap around 2^64 and pass the range check: out-of-range indexing (panic) or a wrong answer")
			}
		}
	}
}

func ruleV4(c *Ctx, id string) {
	V, P, R := c.V, c.P, c.R
	R.Rule(id, "counts agree with the data supplied: every caller of inode.Write passes a count that is the length of the data, or a count tested against it, before the data is sliced by the count", 3)
	w := V.InodeWrite
	if w == nil {
		return
	}
	// internal guard in Write itself?
	var count, data ssa.Value = w.Params[3], w.Params[4]
	internal := false
	for _, br := range branches(w) {
		ok, _, _ := lenAtLeast(br.Cond, func(v ssa.Value) bool { return v == data })
		_ = ok
		if br.Cond.X != nil && br.Cond.Y != nil {
			isLen := func(v ssa.Value) bool {
				cl, ok := stripConv(v).(*ssa.Call)
				if !ok {
					return false
				}
				bi, ok := cl.Call.Value.(*ssa.Builtin)
				return ok && bi.Name() == "len" && stripConv(cl.Call.Args[0]) == data
			}
			if (stripConv(br.Cond.X) == count && isLen(br.Cond.Y)) || (stripConv(br.Cond.Y) == count && isLen(br.Cond.X)) {
				internal = true
			}
		}
	}
	n := 0
	for _, cs := range P.CallersOf(w) {
		if !IsRepoFunc(cs.Caller) {
			continue
		}
		n++
		R.Analysed[FuncName(cs.Caller)] = true
		args := fullArgs(cs.Instr)
		if len(args) < 5 {
			R.Undecided(id, fmt.Sprintf("%s|Write(count,data)", FuncName(cs.Caller)), P.Pos(cs.Instr.Pos()), "the arguments of the call of Inode.Write can be identified", "unexpected argument list")
			continue
		}
		cnt, dat := args[3], stripConv(args[4])
		key := fmt.Sprintf("%s|Write(count,data)", FuncName(cs.Caller))
		if internal {
			R.PassNT(id, key, P.Pos(cs.Instr.Pos()), "count vs len(data)", "inode.Write itself compares count with len(data)")
			continue
		}
		ok, why := false, ""
		isLenOf := func(v ssa.Value) bool {
			cl, isC := stripConv(v).(*ssa.Call)
			if !isC {
				return false
			}
			bi, isB := cl.Call.Value.(*ssa.Builtin)
			if !isB || bi.Name() != "len" {
				return false
			}
			a := stripConv(cl.Call.Args[0])
			return a == dat || sameParamField(a, dat)
		}
		if isLenOf(cnt) {
			ok, why = true, "count is len(data)"
		}
		// constant count with data produced by an encoder of that size
		if k, isk := constInt(stripConv(cnt)); isk && !ok {
			// the data, seen through a private helper's parameter at each of its call sites
			var fromEnc func(d ssa.Value, depth int) bool
			fromEnc = func(d ssa.Value, depth int) bool {
				d = stripConv(d)
				if dc, isC := d.(*ssa.Call); isC && staticCallee(dc) != nil {
					if cal := staticCallee(dc); cal.Name() == "Finish" && funcPkg(cal) != nil && strings.HasSuffix(funcPkg(cal).Path(), "tchajed/marshal") && len(dc.Call.Args) > 0 {
						// the encoder is written out in place: enc := marshal.NewEnc(k); ...; enc.Finish()
						for src := range bwdSources(dc.Call.Args[0]) {
							if nc, isN := src.(*ssa.Call); isN && staticCallee(nc) != nil && staticCallee(nc).Name() == "NewEnc" {
								if sz, isk := constInt(nc.Call.Args[0]); isk {
									return sz == k
								}
							}
						}
						return false
					}
					_, capEnc, _ := codecOps(staticCallee(dc))
					return capEnc == k
				}
				pm, isP := d.(*ssa.Parameter)
				if !isP || depth > 2 || !isPrivateHelper(pm.Parent()) || len(staticSites[pm.Parent()]) == 0 {
					return false
				}
				for _, site := range staticSites[pm.Parent()] {
					found := false
					for i, q := range pm.Parent().Params {
						if q == pm && i < len(site.Common().Args) {
							found = fromEnc(site.Common().Args[i], depth+1)
						}
					}
					if !found {
						return false
					}
				}
				return true
			}
			if fromEnc(dat, 0) {
				ok, why = true, fmt.Sprintf("constant count %d and data from an encoder of exactly %d bytes", k, k)
			}
		}
		if !ok {
			// dominating guard: count <= len(data), in the caller, in a helper whose answer it tests, or above the
			// call of the private helper that holds the Write
			cntV := stripConv(cnt)
			owner := ownerOf(cs.Caller)
			oscopes := scopesOf(owner)
			csc := Scope{Fn: cs.Caller, S: Subst{}}
			for _, s2 := range oscopes {
				if s2.Fn == cs.Caller {
					csc = s2
				}
			}
			g := guardedUp(oscopes, csc, cs.Instr.Block(), func(sub Subst) func(Cond) (bool, bool) {
				same := func(p ssa.Value) bool {
					p = stripConv(p)
					return p == cntV || sameParamField(p, cntV) || samePathX(p, sub, cntV, csc.S)
				}
				lenOf := func(v ssa.Value) bool {
					if isLenOf(v) {
						return true
					}
					cl, isC := stripConv(v).(*ssa.Call)
					if !isC {
						return false
					}
					bi, isB := cl.Call.Value.(*ssa.Builtin)
					return isB && bi.Name() == "len" && samePathX(cl.Call.Args[0], sub, dat, csc.S)
				}
				return func(cd Cond) (bool, bool) {
					if cd.X == nil || cd.Y == nil {
						return false, false
					}
					op, a, b := cd.Op, cd.X, cd.Y
					if lenOf(a) && same(b) {
						op, a, b = flipOp(op), b, a
					}
					if !same(a) || !lenOf(b) {
						return false, false
					}
					switch op {
					case token.GTR: // count > len rejected
						return true, false
					case token.LEQ:
						return true, true
					case token.NEQ:
						return true, false
					case token.EQL:
						return true, true
					}
					return false, false
				}
			})
			if g {
				ok, why = true, "dominated by a test of the count against len(data)"
			}
		}
		R.Check(ok, id, key, P.Pos(cs.Instr.Pos()), "the count handed to inode.Write does not exceed the data handed with it", why, "a WRITE whose count exceeds its data slices the request buffer out of range (panic)")
	}
	if n == 0 {
		R.Fail(id, "inode.Write|callers", P.Pos(w.Pos()), "inode.Write has callers", "none found")
	}
}

func ruleV5(c *Ctx, id string) {
	V, P, R := c.V, c.P, c.R
	R.Rule(id, "client-sized allocations are bounded: every make whose length derives from the request in a function reachable from a handler is dominated by an upper bound on that length", 1)
	var roots []*ssa.Function
	roots = append(roots, V.NfsProcs...)
	roots = append(roots, V.SimpleProcs...)
	reach := P.Reach(roots, func(f *ssa.Function) bool { return !IsRepoFunc(f) })
	var fns []*ssa.Function
	for f := range reach {
		if IsRepoFunc(f) && relPkg(f) != "nfstypes" {
			fns = append(fns, f)
		}
	}
	sort.Slice(fns, func(i, j int) bool { return FuncName(fns[i]) < FuncName(fns[j]) })
	n := 0
	for _, fn := range fns {
		for _, b := range fn.Blocks {
			for _, in := range b.Instrs {
				mk, ok := in.(*ssa.MakeSlice)
				if !ok {
					continue
				}
				if _, isC := mk.Len.(*ssa.Const); isC {
					continue
				}
				// length derived from len() of an internal slice: not client-sized
				src := bwdArith(mk.Len)
				reqDerived := false
				for v := range src {
					if pm, _ := paramFieldPath(v); pm != nil && strings.Contains(pm.Type().String(), "args") {
						reqDerived = true
					}
					if cv, ok := v.(*ssa.Convert); ok {
						if pm, _ := paramFieldPath(cv.X); pm != nil && strings.Contains(pm.Type().String(), "args") {
							reqDerived = true
						}
					}
				}
				if !reqDerived {
					continue
				}
				n++
				R.Analysed[FuncName(fn)] = true
				// bounded: some request-derived leaf of the length is dominated by an upper bound
				bounded := false
				for v := range src {
					if _, isC := v.(*ssa.Const); isC {
						continue
					}
					if ok, _ := boundedValue(c, fn, v, mk.Block(), 2); ok {
						if pm, _ := paramFieldPath(v); pm != nil {
							bounded = true
						}
						if cv, isCv := v.(*ssa.Convert); isCv {
							if pm, _ := paramFieldPath(cv.X); pm != nil {
								bounded = true
							}
						}
					}
				}
				R.Check(bounded, id, fmt.Sprintf("%s|make#%d", FuncName(fn), n), P.Pos(mk.Pos()), "the request-derived length of the allocation is bounded by a dominating comparison", "upper bound dominates", "a request can make the server allocate up to 2^64 bytes (makeslice panic / memory exhaustion)")
			}
		}
	}
	if n == 0 {
		R.Pass(id, "no request-sized make", "?", "no make with a request-derived length is reachable from a handler", "none found")
	}
}

// bwdArith: backward closure through arithmetic, conversions and phis.
func bwdArith(v ssa.Value) map[ssa.Value]bool {
	seen := map[ssa.Value]bool{}
	var walk func(v ssa.Value, d int)
	walk = func(v ssa.Value, d int) {
		if v == nil || seen[v] || d > 12 {
			return
		}
		seen[v] = true
		switch x := v.(type) {
		case *ssa.BinOp:
			walk(x.X, d+1)
			walk(x.Y, d+1)
		case *ssa.Convert:
			walk(x.X, d+1)
		case *ssa.ChangeType:
			walk(x.X, d+1)
		case *ssa.Phi:
			for _, e := range x.Edges {
				walk(e, d+1)
			}
		case *ssa.UnOp:
			if x.Op == token.MUL {
				if al, ok := x.X.(*ssa.Alloc); ok {
					if sv := singleStore(al); sv != nil {
						walk(sv, d+1)
					}
				}
			}
		}
	}
	walk(v, 0)
	return seen
}

func ruleV7(c *Ctx, id string) {
	P, R := c.P, c.R
	R.Rule(id, "name checks are applied to every name that is removed or renamed: on every explored path each name passed to dir.RemName, and RENAME's target name passed to dir.AddName, has been rejected by dir.IllegalName before", 3)
	t := c.tsPreamble(id)
	type agg struct {
		bad   bool
		pos   string
		entry []string
	}
	res := map[string]*agg{}
	for _, e := range sortedEvents(t, "namecheck") {
		if e.Fn.Name() != "doRemove" && e.Fn.Name() != "NFSPROC3_RENAME" {
			continue
		}
		key := fmt.Sprintf("%s|%s after IllegalName", FuncName(e.Fn), e.Detail)
		a := res[key]
		if a == nil {
			a = &agg{pos: P.Pos(e.Pos)}
			res[key] = a
		}
		if e.Bad {
			a.bad = true
			a.entry = append(a.entry, e.Entry)
		}
	}
	var keys []string
	for k := range res {
		keys = append(keys, k)
	}
	sort.Strings(keys)
	// and the predicate means what its callers take it to mean: folded with its argument bound to a constant, it
	// answers true for "." and for "..", and false for an ordinary name
	if ill := c.fn(id, "dir.IllegalName"); ill != nil && len(ill.Params) == 1 {
		for _, tc := range []struct {
			arg  string
			want bool
		}{{".", true}, {"..", true}, {"a", false}} {
			got, ok := evalStringPred(ill, tc.arg)
			key := fmt.Sprintf("dir.IllegalName|answers %v for %q", tc.want, tc.arg)
			if !ok {
				R.Undecided(id, key, P.Pos(ill.Pos()), "IllegalName is a closed predicate on its argument (string comparisons with constants)", "could not be folded")
				continue
			}
			R.Check(got == tc.want, id, key, P.Pos(ill.Pos()), fmt.Sprintf("IllegalName(%q) == %v", tc.arg, tc.want), "folded", fmt.Sprintf("IllegalName(%q) answers %v: the callers' checks let \".\" / \"..\" through to the directory update (REMOVE of \".\" unlinks a directory from itself, RENAME onto \".\" waits for its own lock), or refuse ordinary names", tc.arg, got))
		}
	}
	for _, k := range keys {
		a := res[k]
		R.Check(!a.bad, id, k, a.pos, "the name is rejected when it is \".\" or \"..\" before it is removed/added", "IllegalName(name)==false holds on every explored path to this call", "\".\" / \"..\" can reach the directory update (entries "+strings.Join(a.entry, ",")+"): RENAME x -> \".\" asks for its own directory's lock twice and blocks for ever; REMOVE \".\" unlinks a directory from itself")
	}
}

// frozen justifications of the explicit panics reachable from handlers
var panicJustified = map[string]string{
	"(*fstxn.FsTxn).AllocInode|AllocInode":                "allocator bit free implies inode FREE (C01.R3, C08.G2)",
	"(*fstxn.FsTxn).LockInode|GetInodeLocked":             "cache.LookupSlot never returns nil (evicts instead)",
	"(*fstxn.FsTxn).GetInodeLocked|GetInodeLocked":        "the same panic when LockInode is written out in GetInodeLocked",
	"(*fstxn.FsTxn).GetInodeInum|getInodeInum":            "a non-FREE inode has Nlink >= 1 (C04.S3 balance)",
	"(*fstxn.FsTxn).GetInodeUnlocked|GetInodeUnlocked":    "called only under OwnInum == true (dir.Apply)",
	"(*inode.Inode).WriteInode|WriteInode":                "Inum < NInode for every cached inode (C11.V2)",
	"(*alloctxn.AllocTxn).AssertValidBlock|invalid blkno": "block pointers come from the allocator, whose range is the data region (C15.K3)",
	"dir.RemName|RemName":                                 "name cache mirrors the directory (C10.W2, C09.A2)",
	"nfs.lockInodes$2|func":                               "every sorted number is one of the caller's numbers (private copy, C06.L1)",
	"(*fstxn.FsTxn).dropInodes|dropInodes":                "cache.LookupSlot never returns nil (evicts instead)",
	"(*cache.Cache).evict|evict":                          "cache non-empty when full",
	"(*cache.Cache).LookupSlot|LookupSlot":                "entries map keyed by id",
	"(*shrinker.ShrinkerSt).DoShrink|shrink":              "GetInodeInumFree never returns nil",
	"(*shrinker.ShrinkerSt).shrinker|shrink":              "background shrink commit failure is fatal by design (journal too small)",
}

func ruleV8(c *Ctx, id string) {
	V, P, R := c.V, c.P, c.R
	R.Rule(id, "inventory of explicit panics reachable from a handler or server goroutine: each carries a frozen invariant that makes it unreachable; a new reachable panic is reported", 8)
	var roots []*ssa.Function
	roots = append(roots, V.NfsEntries...)
	roots = append(roots, goRoots(P)...)
	reach := P.Reach(roots, func(f *ssa.Function) bool { return !IsRepoFunc(f) })
	var fns []*ssa.Function
	for f := range reach {
		if IsRepoFunc(f) && inServerPkg(f) {
			fns = append(fns, f)
		}
	}
	sort.Slice(fns, func(i, j int) bool { return FuncName(fns[i]) < FuncName(fns[j]) })
	for _, fn := range fns {
		for _, b := range fn.Blocks {
			for _, in := range b.Instrs {
				pn, ok := in.(*ssa.Panic)
				if !ok {
					continue
				}
				msg := "?"
				if mi, ok := pn.X.(*ssa.MakeInterface); ok {
					if cst, ok := mi.X.(*ssa.Const); ok && cst.Value != nil && cst.Value.Kind() == constant.String {
						msg = constant.StringVal(cst.Value)
					}
				}
				// a panic moved into a private single-caller helper keeps its owner's justification
				key := FuncName(fn) + "|" + msg
				why, ok := byFuncS(panicJustified, key)
				if !ok && fn.Parent() == nil {
					if w2, ok2 := byFuncS(panicJustified, FuncName(ownerOf(fn))+"|"+msg); ok2 {
						key, why, ok = FuncName(ownerOf(fn))+"|"+msg, w2, true
					}
				}
				if !ok && isPrivateHelper(fn) && len(staticSites[fn]) > 0 {
					// a helper shared by several functions that each carried this panic with a justification
					all, first := true, ""
					for _, site := range staticSites[fn] {
						k2 := FuncName(site.Parent()) + "|" + msg
						if _, ok2 := byFuncS(panicJustified, k2); !ok2 {
							k2 = FuncName(ownerOf(site.Parent())) + "|" + msg
						}
						if _, ok2 := byFuncS(panicJustified, k2); !ok2 {
							all = false
						} else if first == "" {
							first = k2
						}
					}
					if all {
						key, ok = first, true
						why, _ = byFuncS(panicJustified, first)
					}
				}
				if !ok {
					// the panic moved up: a private helper that carried it now reports the condition (an error value, a
					// flag) and its caller panics with the same message
					for _, g := range samePkgCallees(fn) {
						if !isPrivateHelper(g) {
							continue
						}
						k2 := FuncName(g) + "|" + msg
						w2, ok2 := byFuncS(panicJustified, k2)
						if !ok2 {
							continue
						}
						still := false
						for _, gb := range g.Blocks {
							for _, gi := range gb.Instrs {
								if gp, isP := gi.(*ssa.Panic); isP {
									if mi, isMI := gp.X.(*ssa.MakeInterface); isMI {
										if cst, isC := mi.X.(*ssa.Const); isC && cst.Value != nil && cst.Value.Kind() == constant.String && constant.StringVal(cst.Value) == msg {
											still = true
										}
									}
								}
							}
						}
						if !still {
							key, why, ok = k2, w2, true
						}
					}
				}
				R.Check(ok, id, key, P.Pos(pn.Pos()), "an explicit panic reachable from a handler has a recorded invariant that excludes it", why, "new explicit panic reachable from a request handler: one request can kill the whole server process")
			}
		}
	}
}

// ruleKind: the content of an object named by a client handle may be changed
// only when it is a regular file.
func ruleKind(c *Ctx, id string) {
	V, P, R := c.V, c.P, c.R
	R.Rule(id, "only regular files have client-settable content: in the handlers every Inode.Write / Inode.Resize whose receiver was obtained from a client file handle is dominated by Kind == NF3REG on that inode", 2)
	if V.Resize == nil || V.InodeWrite == nil || V.GetInodeFh == nil {
		return
	}
	reg := constOfPkg(P, "nfstypes", "NF3REG")
	// producers of an inode value: (call, result index) pairs, through phis, cells and conversions
	type prod struct {
		call *ssa.Call
		idx  int
	}
	producers := func(v ssa.Value) []prod {
		var out []prod
		seen := map[ssa.Value]bool{}
		var walk func(v ssa.Value)
		walk = func(v ssa.Value) {
			if v == nil || seen[v] {
				return
			}
			seen[v] = true
			switch x := v.(type) {
			case *ssa.Phi:
				for _, e := range x.Edges {
					walk(e)
				}
			case *ssa.Convert:
				walk(x.X)
			case *ssa.ChangeType:
				walk(x.X)
			case *ssa.Extract:
				if cl, ok := x.Tuple.(*ssa.Call); ok {
					out = append(out, prod{cl, x.Index})
				}
			case *ssa.Call:
				out = append(out, prod{x, 0})
			case *ssa.UnOp:
				if x.Op == token.MUL {
					if al, ok := x.X.(*ssa.Alloc); ok {
						for _, in := range refs(al) {
							if st, ok := in.(*ssa.Store); ok && st.Addr == al {
								walk(st.Val)
							}
						}
					}
				}
			}
		}
		walk(v)
		return out
	}
	var fromHandleD func(v ssa.Value, depth int) bool
	fromHandleD = func(v ssa.Value, depth int) bool {
		for _, p := range producers(v) {
			cal := staticCallee(p.call)
			if cal == V.GetInodeFh {
				return true
			}
			if cal == nil || depth > 1 || relPkg(cal) != "nfs" || cal.Blocks == nil {
				continue
			}
			// a helper of the server package: what it returns at that position
			for _, b := range cal.Blocks {
				if r, ok := b.Instrs[len(b.Instrs)-1].(*ssa.Return); ok && p.idx < len(r.Results) {
					if fromHandleD(r.Results[p.idx], depth+1) {
						return true
					}
				}
			}
		}
		return false
	}
	fromHandle := func(v ssa.Value) bool { return fromHandleD(v, 0) }
	kindM := func(top ssa.Value) CondMatcherX {
		return func(sub Subst) func(Cond) (bool, bool) {
			return func(cd Cond) (bool, bool) {
				if cd.X == nil || cd.Y == nil {
					return false, false
				}
				n, fl, base, _ := loadedFieldS(cd.X, sub)
				k, isk := constInt(cd.Y)
				if n != V.Inode || fl != "Kind" || !isk || k != reg || sub.resolve(stripConv(base)) != top {
					return false, false
				}
				switch cd.Op {
				case token.EQL:
					return true, true
				case token.NEQ:
					return true, false
				}
				return false, false
			}
		}
	}
	for _, h := range V.NfsProcs {
		hScopes := scopesOf(h)
		for _, sc := range hScopes {
			for _, call := range P.CallsIn(sc.Fn, funcIs(V.Resize, V.InodeWrite)) {
				recv := recvOf(call)
				top := sc.S.resolve(recv)
				if !fromHandle(top) {
					continue
				}
				R.Analysed[FuncName(h)] = true
				ok := guardedUp(hScopes, sc, call.Block(), kindM(stripConv(top)))
				what := staticCallee(call).Name()
				R.Check(ok, id, fmt.Sprintf("%s|%s on a handle's inode is for regular files only", h.Name(), what), P.Pos(call.Pos()), "Inode."+what+" on an inode obtained from the client's handle is dominated by Kind == NF3REG", "guarded", "a client can set the size / content of a directory or symlink through its handle: a truncated directory crashes the next scan in the entry decoder (with the directory locked) and orphans its entries")
			}
		}
	}
}

// ruleNlinkFloor: fstxn.GetInodeInum panics on an allocated inode whose link
// count is 0 (V8 records "a non-FREE inode has Nlink >= 1").  DecLink's zero is
// followed by freeing the inode; every other decrement must keep the count
// above zero.
func ruleNlinkFloor(c *Ctx, id string) {
	V, P, R := c.V, c.P, c.R
	R.Rule(id, "a live inode's link count never reaches zero: every decrement of Nlink outside Inode.DecLink (whose zero result frees the inode) is dominated by Nlink > 1 on the same inode", 1)
	n := 0
	for _, fn := range P.RepoFuncs("nfs", "inode", "dir", "fstxn", "shrinker") {
		if fn == V.DecLink {
			continue
		}
		for _, w := range FieldWrites(fn) {
			if w.Type != V.Inode || w.Field != "Nlink" {
				continue
			}
			bo, ok := w.Val.(*ssa.BinOp)
			if !ok || bo.Op != token.SUB {
				continue
			}
			n++
			base := stripConv(w.Base)
			g := guardedBy(fn, w.Instr.Block(), func(cd Cond) (bool, bool) {
				nm, fl, b2, _ := loadedField(cd.X)
				k, isk := constInt(cd.Y)
				if nm != V.Inode || fl != "Nlink" || b2 != base || !isk {
					return false, false
				}
				switch {
				case cd.Op == token.GTR && k >= 1:
					return true, true
				case cd.Op == token.GEQ && k >= 2:
					return true, true
				case cd.Op == token.LEQ && k >= 1:
					return true, false
				case cd.Op == token.LSS && k >= 2:
					return true, false
				}
				return false, false
			})
			R.Check(g, id, FuncName(ownerOf(fn))+"|Nlink decrement keeps the count positive", P.Pos(w.Instr.Pos()), "the decrement is dominated by Nlink > 1 on the same inode", "guarded", "the count of a live directory can reach 0 (RENAME does not move the '..' link along, see the known finding under C04.S3): the next request naming it panics in GetInodeInum, on every restart too")
		}
	}
	if n == 0 {
		R.Pass(id, "Nlink|no decrement outside DecLink", "?", "nothing to guard", "no such decrement")
	}
}

// ---------------------------------------------------------------- V16: every sized allocation

// allocBounded: a value that sizes an allocation is acceptable when it is a
// constant, the length of an existing slice or string, a file size, a 16-bit
// quantity, dominated by an upper-bound comparison, or - for a parameter -
// when every caller passes such a value.  Unlike boundedValue a 32-bit origin
// is NOT a bound: 4 GiB per request is an allocation a client must not choose.
func allocBounded(c *Ctx, fn *ssa.Function, v ssa.Value, at *ssa.BasicBlock, depth int) (bool, string) {
	sv := stripConv(v)
	if _, ok := sv.(*ssa.Const); ok {
		return true, "constant"
	}
	if b, ok := sv.Type().Underlying().(*types.Basic); ok {
		switch b.Kind() {
		case types.Uint16, types.Uint8, types.Int16, types.Int8, types.Bool:
			return true, "at most 16 bits"
		}
	}
	if cl, ok := sv.(*ssa.Call); ok {
		if bi, ok := cl.Call.Value.(*ssa.Builtin); ok && (bi.Name() == "len" || bi.Name() == "cap" || bi.Name() == "min") {
			return true, bi.Name() + " of an existing object"
		}
	}
	if n, fl, _, _ := loadedField(sv); n == c.V.Inode && fl == "Size" {
		return true, "a file size (bounded by MaxFileSize, C19.M3)"
	}
	if n, fl, _, _ := loadedField(sv); n != nil && fl == "Size" && n.Obj().Pkg() != nil && strings.HasSuffix(n.Obj().Pkg().Path(), "/simple") {
		return true, "a SimpleNFS file size (at most one block)"
	}
	g := guardedBy(fn, at, func(cd Cond) (bool, bool) {
		if cd.X == nil || cd.Y == nil {
			return false, false
		}
		op, a, b := cd.Op, cd.X, cd.Y
		if stripConv(b) == sv && stripConv(a) != sv {
			op, a, b = flipOp(op), b, a
		}
		if stripConv(a) != sv {
			return false, false
		}
		switch op {
		case token.LSS, token.LEQ:
			return true, true
		case token.GEQ, token.GTR:
			return true, false
		}
		return false, false
	})
	if g {
		return true, "dominated by an upper-bound comparison"
	}
	switch x := sv.(type) {
	case *ssa.BinOp:
		// a difference, quotient or remainder of bounded values is bounded; so is a sum or product of them
		okX, _ := allocBounded(c, fn, x.X, at, depth)
		okY, _ := allocBounded(c, fn, x.Y, at, depth)
		switch x.Op {
		case token.SUB, token.QUO, token.SHR, token.AND:
			if okX {
				return true, "derived from a bounded value"
			}
		case token.REM:
			if okY || okX {
				return true, "remainder"
			}
		case token.ADD, token.MUL, token.SHL, token.OR:
			if okX && okY {
				return true, "sum/product of bounded values"
			}
		}
		return false, ""
	case *ssa.Phi:
		if depth < 4 {
			for _, e := range x.Edges {
				if e == ssa.Value(x) {
					continue
				}
				if ok, _ := allocBounded(c, fn, e, at, depth+1); !ok {
					return false, ""
				}
			}
			return true, "every phi input bounded"
		}
	case *ssa.UnOp:
		if x.Op == token.MUL {
			if al, ok := x.X.(*ssa.Alloc); ok {
				if st := singleStore(al); st != nil {
					return allocBounded(c, fn, st, at, depth)
				}
			}
		}
	case *ssa.Parameter:
		if depth < 4 {
			idx := -1
			for i, p := range fn.Params {
				if p == x {
					idx = i
				}
			}
			n := 0
			for _, s := range c.P.CallersOf(fn) {
				if !IsRepoFunc(s.Caller) || strings.HasSuffix(c.P.Pos(s.Instr.Pos()), "_test.go") {
					continue
				}
				args := callCommon(s.Instr).Args
				if idx < 0 || idx >= len(args) {
					return false, ""
				}
				n++
				if ok, _ := allocBounded(c, s.Caller, args[idx], s.Instr.Block(), depth+1); !ok {
					return false, "caller " + FuncName(s.Caller) + " passes a value that is not bounded"
				}
			}
			if n > 0 {
				return true, fmt.Sprintf("every one of the %d callers passes a bounded value", n)
			}
		}
	}
	return false, ""
}

func ruleV16(c *Ctx, id string) {
	V, P, R := c.V, c.P, c.R
	R.Rule(id, "no allocation sized by the client: every make with a non-constant length or capacity in a function reachable from a handler is sized by a constant, a len(), a file size, or a value with a dominating upper bound (through callers); a 32-bit request field alone is not a bound", 3)
	var roots []*ssa.Function
	roots = append(roots, V.NfsProcs...)
	roots = append(roots, V.SimpleProcs...)
	reach := P.Reach(roots, func(f *ssa.Function) bool { return !IsRepoFunc(f) })
	var fns []*ssa.Function
	for f := range reach {
		if IsRepoFunc(f) && relPkg(f) != "nfstypes" {
			fns = append(fns, f)
		}
	}
	sort.Slice(fns, func(i, j int) bool { return FuncName(fns[i]) < FuncName(fns[j]) })
	perFn := map[string]int{}
	n := 0
	for _, fn := range fns {
		for _, b := range fn.Blocks {
			for _, in := range b.Instrs {
				mk, ok := in.(*ssa.MakeSlice)
				if !ok {
					continue
				}
				for _, sz := range []struct {
					what string
					v    ssa.Value
				}{{"len", mk.Len}, {"cap", mk.Cap}} {
					if _, isC := stripConv(sz.v).(*ssa.Const); isC {
						continue
					}
					n++
					R.Analysed[FuncName(fn)] = true
					k := FuncName(ownerOf(fn)) + "|make " + sz.what
					perFn[k]++
					key := k
					if perFn[k] > 1 {
						key = fmt.Sprintf("%s#%d", k, perFn[k])
					}
					okB, why := allocBounded(c, fn, sz.v, mk.Block(), 0)
					R.Check(okB, id, key, P.Pos(mk.Pos()), "the size of the allocation is bounded independently of the request", why, "the "+sz.what+" of this make can be chosen by the client (up to 4 GiB per request through a 32-bit count): a few parallel requests exhaust the server's memory")
				}
			}
		}
	}
	if n == 0 {
		R.Pass(id, "make|no sized allocation", "?", "no make with a non-constant size on a handler path", "none")
	}
}

// ---------------------------------------------------------------- V17: directory code on directories only

// ruleDirKind: the dir package reads and writes an inode's content as an array
// of directory entries.  A client can name any object as "the directory", so
// every such access must be on an inode known to be a directory.
func ruleDirKind(c *Ctx, id string) {
	V, P, R := c.V, c.P, c.R
	R.Rule(id, "directory code runs on directories only: every Inode.Read / Inode.Write issued by package dir is on an inode dominated by Kind == NF3DIR, in the function or at every call site of the function (through its parameter)", 3)
	dirK := constOfPkg(P, "nfstypes", "NF3DIR")
	if V.InodeWrite == nil {
		return
	}
	rd := c.fn(id, "inode.(*Inode).Read")
	if rd == nil {
		return
	}
	var guarded func(fn *ssa.Function, at *ssa.BasicBlock, subj ssa.Value, depth int) (bool, string)
	guarded = func(fn *ssa.Function, at *ssa.BasicBlock, subj ssa.Value, depth int) (bool, string) {
		sv := stripConv(subj)
		mk := func(v ssa.Value) func(Cond) (bool, bool) {
			want := stripConv(v)
			return func(cd Cond) (bool, bool) {
				n, fl, base, _ := loadedField(cd.X)
				k, isk := constInt(cd.Y)
				if n != V.Inode || fl != "Kind" || !isk || k != dirK || base != want {
					return false, false
				}
				switch cd.Op {
				case token.EQL:
					return true, true
				case token.NEQ:
					return true, false
				}
				return false, false
			}
		}
		// directly, or through a predicate helper whose result is tested (if st := check(ip, ...); st != OK { return })
		fmk := func(field string, v ssa.Value) func(Cond) (bool, bool) {
			return func(cd Cond) (bool, bool) {
				k, isk := constInt(cd.Y)
				if field != "Kind" || !isk || k != dirK || stripConv(cd.X) != stripConv(v) {
					return false, false
				}
				switch cd.Op {
				case token.EQL:
					return true, true
				case token.NEQ:
					return true, false
				}
				return false, false
			}
		}
		g := guardedByS(fn, at, subj, mk, 0, fmk)
		if g {
			return true, "Kind == NF3DIR dominates in " + FuncName(fn)
		}
		// a freshly allocated directory: AllocInode(NF3DIR) / the kind parameter compared
		pm, isP := sv.(*ssa.Parameter)
		var fvv *ssa.FreeVar
		if fv, isF := sv.(*ssa.FreeVar); isF {
			fvv = fv
		} else if u, isU := sv.(*ssa.UnOp); isU && u.Op == token.MUL {
			fvv, _ = u.X.(*ssa.FreeVar) // a variable captured by reference
		}
		if fv := fvv; fv != nil && fn.Parent() != nil && depth < 5 {
			// closure: the captured variable as bound at the MakeClosure
			for _, b := range fn.Parent().Blocks {
				for _, in := range b.Instrs {
					if mc, ok := in.(*ssa.MakeClosure); ok && mc.Fn == ssa.Value(fn) {
						for i, q := range fn.FreeVars {
							if q == fv && i < len(mc.Bindings) {
								bound := mc.Bindings[i]
								if al, ok := bound.(*ssa.Alloc); ok {
									if st := singleStore(al); st != nil {
										bound = st
									}
								}
								// the closure runs where it is called, not where it is made
								at := mc.Block()
								for _, r := range refs(mc) {
									if cl, ok := r.(*ssa.Call); ok && cl.Call.Value == ssa.Value(mc) {
										if ok2, why := guarded(fn.Parent(), cl.Block(), bound, depth+1); !ok2 {
											return false, why
										}
										at = nil
									}
								}
								if at == nil {
									return true, "every call of the closure is on a checked directory"
								}
								return guarded(fn.Parent(), at, bound, depth+1)
							}
						}
					}
				}
			}
		}
		if !isP || depth >= 5 {
			return false, "no directory check on " + sv.Name() + " in " + FuncName(fn)
		}
		idx := -1
		for i, q := range fn.Params {
			if q == pm {
				idx = i
			}
		}
		n := 0
		for _, s := range P.CallersOf(fn) {
			if !IsRepoFunc(s.Caller) || strings.HasSuffix(P.Pos(s.Instr.Pos()), "_test.go") {
				continue
			}
			cc := callCommon(s.Instr)
			if idx < 0 || idx >= len(cc.Args) {
				return false, "call shape"
			}
			n++
			if ok, why := guarded(s.Caller, s.Instr.Block(), cc.Args[idx], depth+1); !ok {
				return false, "caller " + FuncName(s.Caller) + ": " + why
			}
		}
		if n == 0 {
			return false, "no caller"
		}
		return true, fmt.Sprintf("every one of the %d call sites passes a checked directory", n)
	}
	nSites := 0
	for _, fn := range P.RepoFuncs("dir") {
		for _, call := range P.CallsIn(fn, funcIs(rd, V.InodeWrite)) {
			nSites++
			R.Analysed[FuncName(fn)] = true
			okG, why := guarded(fn, call.Block(), recvOf(call), 0)
			what := staticCallee(call).Name()
			R.Check(okG, id, FuncName(ownerOf(fn))+"|"+what+" of directory content", P.Pos(call.Pos()), "the inode whose content is read/written as directory entries is known to be a directory", why, why+": a client can pass the handle of a regular file as the directory; its data is then decoded as entries (length field from file data: slice-bounds panic) or entries are appended to the file")
		}
	}
	if nSites == 0 {
		R.Fail(id, "dir|content accesses", "?", "package dir reads and writes directory content", "no Inode.Read/Write call found in package dir")
	}
}

// byFuncS: byFunc for the two-result and the one-result forms used with the panic table.
func byFuncS(m map[string]string, key string) (string, bool) { return byFunc(m, key) }

// freeVarFieldPath: v is (a load of) field path F of a captured variable.
func freeVarFieldPath(v ssa.Value) (*ssa.FreeVar, string, bool) {
	v = stripConv(v)
	var path []string
	for i := 0; i < 8; i++ {
		switch x := v.(type) {
		case *ssa.Field:
			path = append([]string{fieldNameOfValue(x)}, path...)
			v = x.X
			continue
		case *ssa.UnOp:
			if x.Op == token.MUL {
				v = x.X
				continue
			}
		case *ssa.FieldAddr:
			path = append([]string{fieldNameAt(x)}, path...)
			v = x.X
			continue
		case *ssa.FreeVar:
			return x, strings.Join(path, "."), true
		}
		break
	}
	return nil, "", false
}

// evalStringPred folds a function of one string-typed parameter that only
// compares it (==, !=) with string constants, takes its length, and branches:
// the SSA is executed with the parameter bound to arg.
func evalStringPred(fn *ssa.Function, arg string) (bool, bool) {
	if fn == nil || len(fn.Blocks) == 0 {
		return false, false
	}
	type val struct {
		s   string
		b   bool
		n   int64
		typ byte // 's', 'b', 'n'
	}
	env := map[ssa.Value]val{fn.Params[0]: {s: arg, typ: 's'}}
	var get func(v ssa.Value) (val, bool)
	get = func(v ssa.Value) (val, bool) {
		if x, ok := env[v]; ok {
			return x, true
		}
		switch x := v.(type) {
		case *ssa.Const:
			if x.Value == nil {
				return val{}, false
			}
			switch x.Value.Kind() {
			case constant.String:
				return val{s: constant.StringVal(x.Value), typ: 's'}, true
			case constant.Bool:
				return val{b: constant.BoolVal(x.Value), typ: 'b'}, true
			case constant.Int:
				n, _ := constant.Int64Val(x.Value)
				return val{n: n, typ: 'n'}, true
			}
		case *ssa.ChangeType:
			return get(x.X)
		case *ssa.Convert:
			return get(x.X)
		}
		return val{}, false
	}
	var prev *ssa.BasicBlock
	b := fn.Blocks[0]
	for steps := 0; steps < 200; steps++ {
		for _, in := range b.Instrs {
			switch x := in.(type) {
			case *ssa.Phi:
				for i, p := range b.Preds {
					if p == prev {
						if v, ok := get(x.Edges[i]); ok {
							env[x] = v
						} else {
							return false, false
						}
					}
				}
			case *ssa.BinOp:
				l, ok1 := get(x.X)
				r, ok2 := get(x.Y)
				if !ok1 || !ok2 || l.typ != r.typ {
					return false, false
				}
				var res bool
				switch {
				case l.typ == 's' && x.Op == token.EQL:
					res = l.s == r.s
				case l.typ == 's' && x.Op == token.NEQ:
					res = l.s != r.s
				case l.typ == 'b' && x.Op == token.EQL:
					res = l.b == r.b
				case l.typ == 'b' && x.Op == token.NEQ:
					res = l.b != r.b
				case l.typ == 'n':
					switch x.Op {
					case token.EQL:
						res = l.n == r.n
					case token.NEQ:
						res = l.n != r.n
					case token.LSS:
						res = l.n < r.n
					case token.LEQ:
						res = l.n <= r.n
					case token.GTR:
						res = l.n > r.n
					case token.GEQ:
						res = l.n >= r.n
					default:
						return false, false
					}
				default:
					return false, false
				}
				env[x] = val{b: res, typ: 'b'}
			case *ssa.UnOp:
				if x.Op != token.NOT {
					return false, false
				}
				v, ok := get(x.X)
				if !ok || v.typ != 'b' {
					return false, false
				}
				env[x] = val{b: !v.b, typ: 'b'}
			case *ssa.Call:
				bi, isB := x.Call.Value.(*ssa.Builtin)
				if !isB || bi.Name() != "len" || len(x.Call.Args) != 1 {
					return false, false
				}
				v, ok := get(x.Call.Args[0])
				if !ok || v.typ != 's' {
					return false, false
				}
				env[x] = val{n: int64(len(v.s)), typ: 'n'}
			case *ssa.ChangeType, *ssa.Convert, *ssa.DebugRef:
				// looked through by get
			case *ssa.If:
				v, ok := get(x.Cond)
				if !ok || v.typ != 'b' {
					return false, false
				}
				prev = b
				if v.b {
					b = b.Succs[0]
				} else {
					b = b.Succs[1]
				}
			case *ssa.Jump:
				prev = b
				b = b.Succs[0]
			case *ssa.Return:
				if len(x.Results) != 1 {
					return false, false
				}
				v, ok := get(x.Results[0])
				return v.b, ok && v.typ == 'b'
			default:
				return false, false
			}
		}
	}
	return false, false
}
