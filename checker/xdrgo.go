package main

// E7 part 2: wire grammar of the generated Go codec.  An abstract
// interpreter over the AST of every (*T).Xdr method in nfstypes computes the
// grammar of T twice: with xs.Encoding() true and with xs.Decoding() true.

import (
	"fmt"
	"go/ast"
	"go/constant"
	"go/token"
	"go/types"
	"strconv"
	"strings"

	"golang.org/x/tools/go/packages"
)

type goXdr struct {
	pk    *packages.Package
	fset  *token.FileSet
	errs  []string
	decls map[string]*ast.FuncDecl // receiver type name -> Xdr method
}

func newGoXdr(pk *packages.Package) *goXdr {
	g := &goXdr{pk: pk, fset: pk.Fset, decls: map[string]*ast.FuncDecl{}}
	for _, f := range pk.Syntax {
		for _, d := range f.Decls {
			fd, ok := d.(*ast.FuncDecl)
			if !ok || fd.Name.Name != "Xdr" || fd.Recv == nil || len(fd.Recv.List) != 1 {
				continue
			}
			if st, ok := fd.Recv.List[0].Type.(*ast.StarExpr); ok {
				if id, ok := st.X.(*ast.Ident); ok {
					g.decls[id.Name] = fd
				}
			}
		}
	}
	return g
}

func (g *goXdr) errf(pos token.Pos, format string, a ...interface{}) {
	g.errs = append(g.errs, fmt.Sprintf("%s: %s", g.fset.Position(pos), fmt.Sprintf(format, a...)))
}

// isXdrCall: call of package-level xdr.<name>
func (g *goXdr) xdrFunc(call *ast.CallExpr) string {
	sel, ok := call.Fun.(*ast.SelectorExpr)
	if !ok {
		return ""
	}
	if id, ok := sel.X.(*ast.Ident); ok {
		if pn, ok := g.pk.TypesInfo.Uses[id].(*types.PkgName); ok && strings.HasSuffix(pn.Imported().Path(), "go-rpcgen/xdr") {
			return sel.Sel.Name
		}
	}
	return ""
}

// xsMethod: call xs.<name>()
func (g *goXdr) xsMethod(e ast.Expr) string {
	call, ok := e.(*ast.CallExpr)
	if !ok {
		return ""
	}
	sel, ok := call.Fun.(*ast.SelectorExpr)
	if !ok {
		return ""
	}
	if id, ok := sel.X.(*ast.Ident); ok && id.Name == "xs" {
		return sel.Sel.Name
	}
	return ""
}

// fieldOf: the field of the receiver v an address expression refers to
// ("" = v itself, "$opted"/"$local" for locals).
func (g *goXdr) fieldOf(e ast.Expr) string {
	var found string
	seenV := false
	ast.Inspect(e, func(n ast.Node) bool {
		switch x := n.(type) {
		case *ast.SelectorExpr:
			// (v).F
			inner := x.X
			for {
				if p, ok := inner.(*ast.ParenExpr); ok {
					inner = p.X
					continue
				}
				break
			}
			if id, ok := inner.(*ast.Ident); ok && id.Name == "v" {
				found = x.Sel.Name
				return false
			}
		case *ast.Ident:
			if x.Name == "v" {
				seenV = true
			}
		}
		return true
	})
	if found != "" {
		return found
	}
	if seenV {
		return ""
	}
	// local variable
	var loc string
	ast.Inspect(e, func(n ast.Node) bool {
		if id, ok := n.(*ast.Ident); ok && loc == "" {
			if _, isVar := g.pk.TypesInfo.Uses[id].(*types.Var); isVar {
				loc = "$" + id.Name
			}
		}
		return true
	})
	return loc
}

func (g *goXdr) constInt(e ast.Expr) (int64, bool) {
	tv, ok := g.pk.TypesInfo.Types[e]
	if !ok || tv.Value == nil {
		return 0, false
	}
	if tv.Value.Kind() == constant.Int {
		v, ok := constant.Int64Val(tv.Value)
		return v, ok
	}
	return 0, false
}

func (g *goXdr) constLabel(e ast.Expr) (string, bool) {
	tv, ok := g.pk.TypesInfo.Types[e]
	if !ok || tv.Value == nil {
		return "", false
	}
	switch tv.Value.Kind() {
	case constant.Bool:
		return strconv.FormatBool(constant.BoolVal(tv.Value)), true
	case constant.Int:
		v, ok := constant.Int64Val(tv.Value)
		return strconv.FormatInt(v, 10), ok
	}
	return "", false
}

// item interprets one expression statement that codes one value.
func (g *goXdr) item(call *ast.CallExpr) *G {
	switch fn := g.xdrFunc(call); fn {
	case "XdrU32", "XdrS32":
		return &G{Kind: "W32", Field: g.fieldOf(call.Args[1])}
	case "XdrU64", "XdrS64":
		return &G{Kind: "W64", Field: g.fieldOf(call.Args[1])}
	case "XdrBool":
		return &G{Kind: "Bool", Field: g.fieldOf(call.Args[1])}
	case "XdrString":
		n, ok := g.constInt(call.Args[1])
		if !ok {
			g.errf(call.Pos(), "XdrString bound is not constant")
		}
		return &G{Kind: "String", N: n, Field: g.fieldOf(call.Args[2])}
	case "XdrVarArray":
		n, ok := g.constInt(call.Args[1])
		if !ok {
			g.errf(call.Pos(), "XdrVarArray bound is not constant")
		}
		return &G{Kind: "VarOpaque", N: n, Field: g.fieldOf(call.Args[2])}
	case "XdrArray":
		// (*v)[:] or field[:] : fixed array length from the type
		n := int64(-1)
		if se, ok := call.Args[1].(*ast.SliceExpr); ok {
			if tv, ok := g.pk.TypesInfo.Types[se.X]; ok {
				t := tv.Type
				if p, ok := t.Underlying().(*types.Pointer); ok {
					t = p.Elem()
				}
				if a, ok := t.Underlying().(*types.Array); ok {
					n = a.Len()
				}
			}
			if se.Low != nil || se.High != nil {
				g.errf(call.Pos(), "XdrArray on a partial slice")
			}
		}
		if n < 0 {
			g.errf(call.Pos(), "XdrArray argument is not a whole fixed array")
		}
		return &G{Kind: "Fixed", N: n, Field: g.fieldOf(call.Args[1])}
	case "":
	default:
		g.errf(call.Pos(), "unknown xdr primitive %s", fn)
		return nil
	}
	// (*T)(ADDR).Xdr(xs)
	if sel, ok := call.Fun.(*ast.SelectorExpr); ok && sel.Sel.Name == "Xdr" {
		if conv, ok := sel.X.(*ast.CallExpr); ok && len(conv.Args) == 1 {
			fun := conv.Fun
			if p, ok := fun.(*ast.ParenExpr); ok {
				fun = p.X
			}
			if st, ok := fun.(*ast.StarExpr); ok {
				if id, ok := st.X.(*ast.Ident); ok {
					// the conversion must not change the representation: the field's own type must be T
					return &G{Kind: "Ref", Ref: id.Name, Field: g.fieldOf(conv.Args[0])}
				}
			}
		}
	}
	g.errf(call.Pos(), "statement not understood")
	return nil
}

// stmts interprets a statement list in the given mode ("enc" | "dec").
func (g *goXdr) stmts(list []ast.Stmt, mode string) []*G {
	var out []*G
	for i := 0; i < len(list); i++ {
		switch s := list[i].(type) {
		case *ast.ExprStmt:
			call, ok := s.X.(*ast.CallExpr)
			if !ok {
				g.errf(s.Pos(), "expression statement not understood")
				continue
			}
			if m := g.xsMethod(call); m == "EncodingSetSize" {
				continue // handled by the array pattern
			}
			it := g.item(call)
			if it == nil {
				continue
			}
			// optional pattern: XdrBool on local 'opted' followed by if opted {...}
			if it.Kind == "Bool" && strings.HasPrefix(it.Field, "$") && i+1 < len(list) {
				if ifs, ok := list[i+1].(*ast.IfStmt); ok {
					if id, ok := ifs.Cond.(*ast.Ident); ok && "$"+id.Name == it.Field && ifs.Else == nil {
						body := g.stmts(ifs.Body.List, mode)
						if len(body) != 1 {
							g.errf(ifs.Pos(), "optional body codes %d items", len(body))
							continue
						}
						el := body[0]
						fld := el.Field
						el.Field = ""
						out = append(out, &G{Kind: "Optional", Elem: el, Field: fld})
						// the flag must reflect the pointer: enc: opted := F != nil ; dec: F = new(T) inside
						if !g.optedConsistent(list[:i], ifs, fld, mode) {
							g.errf(ifs.Pos(), "optional flag is not tied to field %s in %s mode", fld, mode)
						}
						i++
						continue
					}
				}
				g.errf(s.Pos(), "boolean on a local without the optional pattern")
				continue
			}
			out = append(out, it)
		case *ast.SwitchStmt:
			u := g.union(s, mode)
			if u != nil {
				out = append(out, u)
			}
		case *ast.IfStmt:
			m := g.xsMethod(s.Cond)
			if s.Init != nil || s.Else != nil || (m != "Encoding" && m != "Decoding") {
				g.errf(s.Pos(), "if statement not understood")
				continue
			}
			if (m == "Encoding") == (mode == "enc") {
				out = append(out, g.stmts(s.Body.List, mode)...)
			}
		case *ast.BlockStmt:
			if arr := g.array(s, mode); arr != nil {
				out = append(out, arr)
			}
		case *ast.DeclStmt, *ast.AssignStmt:
			// locals of the optional / array patterns; checked there
		default:
			g.errf(list[i].Pos(), "statement of type %T not understood", list[i])
		}
	}
	return out
}

// optedConsistent: in enc mode a preceding "opted := *(&v.F) != nil"; in dec
// mode the if body starts with "*(&v.F) = new(T)".
func (g *goXdr) optedConsistent(before []ast.Stmt, ifs *ast.IfStmt, fld, mode string) bool {
	if mode == "enc" {
		for _, s := range before {
			as, ok := s.(*ast.AssignStmt)
			if !ok || len(as.Rhs) != 1 {
				continue
			}
			be, ok := as.Rhs[0].(*ast.BinaryExpr)
			if !ok || be.Op != token.NEQ {
				continue
			}
			if id, ok := be.Y.(*ast.Ident); ok && id.Name == "nil" && g.fieldOf(be.X) == fld {
				return true
			}
		}
		return false
	}
	for _, s := range ifs.Body.List {
		as, ok := s.(*ast.AssignStmt)
		if !ok || len(as.Lhs) != 1 || len(as.Rhs) != 1 {
			continue
		}
		if call, ok := as.Rhs[0].(*ast.CallExpr); ok {
			if id, ok := call.Fun.(*ast.Ident); ok && id.Name == "new" && g.fieldOf(as.Lhs[0]) == fld {
				return true
			}
		}
	}
	return false
}

func (g *goXdr) union(s *ast.SwitchStmt, mode string) *G {
	if s.Init != nil || s.Tag == nil {
		g.errf(s.Pos(), "switch not understood")
		return nil
	}
	u := &G{Kind: "Union", Disc: g.fieldOf(s.Tag)}
	var pending []string
	for _, cs := range s.Body.List {
		cc := cs.(*ast.CaseClause)
		if cc.List == nil {
			u.HasDef = true
			u.Default = g.stmts(cc.Body, mode)
			continue
		}
		var consts []string
		for _, e := range cc.List {
			l, ok := g.constLabel(e)
			if !ok {
				g.errf(e.Pos(), "case label is not a constant")
			}
			consts = append(consts, l)
		}
		consts = append(pending, consts...)
		pending = nil
		// fallthrough as the only statement
		if len(cc.Body) == 1 {
			if br, ok := cc.Body[0].(*ast.BranchStmt); ok && br.Tok == token.FALLTHROUGH {
				pending = consts
				continue
			}
		}
		for _, st := range cc.Body {
			if br, ok := st.(*ast.BranchStmt); ok {
				g.errf(br.Pos(), "branch statement inside a union arm")
			}
		}
		u.Arms = append(u.Arms, Arm{Consts: consts, Body: g.stmts(cc.Body, mode)})
	}
	if pending != nil {
		g.errf(s.Pos(), "dangling fallthrough")
	}
	return u
}

// array recognises the counted-array block.
func (g *goXdr) array(b *ast.BlockStmt, mode string) *G {
	var sizeVar, fld string
	var elem []*G
	setSize, codedSize, made, looped := false, false, false, false
	for _, s := range b.List {
		switch x := s.(type) {
		case *ast.DeclStmt:
			if gd, ok := x.Decl.(*ast.GenDecl); ok && len(gd.Specs) == 1 {
				if vs, ok := gd.Specs[0].(*ast.ValueSpec); ok && len(vs.Names) == 1 {
					sizeVar = vs.Names[0].Name
				}
			}
		case *ast.ExprStmt:
			call, ok := x.X.(*ast.CallExpr)
			if !ok {
				g.errf(x.Pos(), "array block: statement not understood")
				return nil
			}
			if g.xsMethod(call) == "EncodingSetSize" && len(call.Args) == 2 {
				setSize = g.fieldOf(call.Args[0]) == "$"+sizeVar
				if lc, ok := call.Args[1].(*ast.CallExpr); ok {
					fld = g.fieldOf(lc.Args[0])
				}
				continue
			}
			if it := g.item(call); it != nil && it.Kind == "W32" && it.Field == "$"+sizeVar {
				codedSize = true
				continue
			}
			g.errf(x.Pos(), "array block: unexpected item")
		case *ast.IfStmt:
			if g.xsMethod(x.Cond) == "Decoding" {
				for _, st := range x.Body.List {
					if as, ok := st.(*ast.AssignStmt); ok && len(as.Rhs) == 1 {
						if mk, ok := as.Rhs[0].(*ast.CallExpr); ok {
							if id, ok := mk.Fun.(*ast.Ident); ok && id.Name == "make" && g.fieldOf(as.Lhs[0]) == fld {
								made = true
							}
						}
					}
				}
			} else {
				g.errf(x.Pos(), "array block: if not understood")
			}
		case *ast.ForStmt:
			// for i := 0; i < uint64(size); i++ { item on F[i] }
			if be, ok := x.Cond.(*ast.BinaryExpr); ok && be.Op == token.LSS && g.fieldOf(be.Y) == "$"+sizeVar {
				looped = true
			}
			elem = g.stmts(x.Body.List, mode)
		default:
			g.errf(s.Pos(), "array block: statement %T not understood", s)
		}
	}
	if !(setSize && codedSize && made && looped && len(elem) == 1) {
		g.errf(b.Pos(), "counted-array pattern incomplete (setsize=%v size-coded=%v make=%v loop=%v items=%d)", setSize, codedSize, made, looped, len(elem))
		return nil
	}
	el := elem[0]
	el.Field = ""
	return &G{Kind: "VarArray", N: -1, Elem: el, Field: fld}
}

// Grammar of type name in the given mode.
func (g *goXdr) Grammar(name, mode string) *G {
	fd := g.decls[name]
	if fd == nil {
		return nil
	}
	return &G{Kind: "Seq", Items: g.stmts(fd.Body.List, mode)}
}

// fieldTypesOK: every Ref item (*T)(&v.F) converts a field whose declared
// type is exactly T (a conversion between different named types would
// reinterpret the field).
func (g *goXdr) fieldTypeMismatches(name string) []string {
	var bad []string
	obj := g.pk.Types.Scope().Lookup(name)
	if obj == nil {
		return nil
	}
	st, ok := obj.Type().Underlying().(*types.Struct)
	if !ok {
		return nil
	}
	ft := map[string]string{}
	for i := 0; i < st.NumFields(); i++ {
		t := st.Field(i).Type()
		if p, ok := t.(*types.Pointer); ok {
			t = p.Elem()
		}
		if n, ok := t.(*types.Named); ok {
			ft[st.Field(i).Name()] = n.Obj().Name()
		}
	}
	var walk func(items []*G)
	walk = func(items []*G) {
		for _, it := range items {
			if it == nil {
				continue
			}
			if it.Kind == "Ref" && it.Field != "" && !strings.HasPrefix(it.Field, "$") {
				if want, ok := ft[it.Field]; ok && want != it.Ref {
					bad = append(bad, fmt.Sprintf("field %s of type %s is coded as %s", it.Field, want, it.Ref))
				}
			}
			walk(it.Items)
			for _, a := range it.Arms {
				walk(a.Body)
			}
			walk(it.Default)
			if it.Elem != nil {
				el := *it.Elem
				el.Field = it.Field
				walk([]*G{&el})
			}
		}
	}
	if gr := g.Grammar(name, "enc"); gr != nil {
		walk(gr.Items)
	}
	return bad
}
