package main

// E7 part 1: a parser for the subset of the XDR language (RFC 4506 / rpcgen)
// used by rfc1813/prot.x: const, typedef, enum, struct, union-switch,
// optional data, fixed/variable arrays and strings, program/version/procedure.

import (
	"fmt"
	"os"
	"strconv"
	"strings"
	"unicode"
)

// G is a wire grammar node.
type G struct {
	Kind    string // W32 W64 Bool Fixed VarOpaque String Ref Seq Union Optional VarArray Void
	N       int64  // Fixed size / bound (-1 unbounded)
	Ref     string // Ref: type name (Go spelling)
	Field   string // field this node codes (Go spelling; "" for self)
	Items   []*G   // Seq
	Disc    string // Union: discriminant field
	Arms    []Arm
	Default []*G
	HasDef  bool
	Elem    *G // Optional / VarArray
}

type Arm struct {
	Consts []string // values: decimal or true/false
	Body   []*G
}

func goName(s string) string {
	if s == "" {
		return s
	}
	r := []rune(s)
	r[0] = unicode.ToUpper(r[0])
	return string(r)
}

func (g *G) String() string {
	if g == nil {
		return "nil"
	}
	f := ""
	if g.Field != "" {
		f = g.Field + ":"
	}
	switch g.Kind {
	case "W32", "W64", "Bool", "Void":
		return f + g.Kind
	case "Fixed":
		return fmt.Sprintf("%sFixed(%d)", f, g.N)
	case "VarOpaque":
		return fmt.Sprintf("%sVarOpaque(%d)", f, g.N)
	case "String":
		return fmt.Sprintf("%sString(%d)", f, g.N)
	case "Ref":
		return f + "Ref(" + g.Ref + ")"
	case "Seq":
		return f + "{" + seqString(g.Items) + "}"
	case "Optional":
		return f + "Opt(" + g.Elem.String() + ")"
	case "VarArray":
		return fmt.Sprintf("%sArr(%d,%s)", f, g.N, g.Elem.String())
	case "Union":
		var as []string
		for _, a := range g.Arms {
			as = append(as, "["+strings.Join(a.Consts, ",")+"]->{"+seqString(a.Body)+"}")
		}
		d := ""
		if g.HasDef {
			d = ";default->{" + seqString(g.Default) + "}"
		}
		return f + "Union(" + g.Disc + ";" + strings.Join(as, ";") + d + ")"
	}
	return f + "?" + g.Kind
}

func seqString(items []*G) string {
	var s []string
	for _, i := range items {
		s = append(s, i.String())
	}
	return strings.Join(s, ",")
}

func countNodes(g *G) int {
	if g == nil {
		return 0
	}
	n := 1
	for _, i := range g.Items {
		n += countNodes(i)
	}
	for _, a := range g.Arms {
		n += len(a.Consts)
		for _, i := range a.Body {
			n += countNodes(i)
		}
	}
	for _, i := range g.Default {
		n += countNodes(i)
	}
	n += countNodes(g.Elem)
	return n
}

type XProc struct {
	Name     string
	Num      int64
	Arg, Res string // RFC type names ("void")
}

type XProg struct {
	Name    string
	Num     int64
	VerName string
	VerNum  int64
	Procs   []XProc
}

type XEnum struct {
	Name   string
	Values map[string]int64
	Order  []string
}

type XFile struct {
	Consts    map[string]int64
	ConstOrd  []string
	Types     map[string]*G // by RFC name; struct -> Seq, union -> Seq{disc,Union}, typedef -> node
	TypeOrd   []string
	Enums     map[string]*XEnum
	Progs     []XProg
	UnionInfo map[string]*XUnionInfo
}

type XUnionInfo struct {
	DiscType string
	HasDef   bool
	NArms    int
}

type xlexer struct {
	toks []string
	pos  int
}

func xlex(src string) []string {
	var toks []string
	i := 0
	for i < len(src) {
		c := src[i]
		switch {
		case c == '/' && i+1 < len(src) && src[i+1] == '*':
			j := strings.Index(src[i+2:], "*/")
			if j < 0 {
				return toks
			}
			i += j + 4
		case c == ' ' || c == '\t' || c == '\n' || c == '\r':
			i++
		case unicode.IsLetter(rune(c)) || c == '_':
			j := i
			for j < len(src) && (unicode.IsLetter(rune(src[j])) || unicode.IsDigit(rune(src[j])) || src[j] == '_') {
				j++
			}
			toks = append(toks, src[i:j])
			i = j
		case unicode.IsDigit(rune(c)) || c == '-':
			j := i + 1
			for j < len(src) && (unicode.IsDigit(rune(src[j])) || src[j] == 'x' || (src[j] >= 'a' && src[j] <= 'f') || (src[j] >= 'A' && src[j] <= 'F')) {
				j++
			}
			toks = append(toks, src[i:j])
			i = j
		default:
			toks = append(toks, string(c))
			i++
		}
	}
	return toks
}

func (l *xlexer) peek() string {
	if l.pos < len(l.toks) {
		return l.toks[l.pos]
	}
	return ""
}
func (l *xlexer) next() string {
	t := l.peek()
	l.pos++
	return t
}
func (l *xlexer) expect(s string) error {
	if t := l.next(); t != s {
		return fmt.Errorf("prot.x: expected %q, got %q at token %d", s, t, l.pos)
	}
	return nil
}

func (x *XFile) value(tok string) (int64, error) {
	if v, ok := x.Consts[tok]; ok {
		return v, nil
	}
	for _, e := range x.Enums {
		if v, ok := e.Values[tok]; ok {
			return v, nil
		}
	}
	v, err := strconv.ParseInt(tok, 0, 64)
	if err != nil {
		return 0, fmt.Errorf("prot.x: unknown constant %q", tok)
	}
	return v, nil
}

// baseType parses a type specifier and returns the node for a value of it.
func (x *XFile) typeSpec(l *xlexer) (*G, error) {
	t := l.next()
	switch t {
	case "unsigned":
		n := l.peek()
		if n == "int" {
			l.next()
			return &G{Kind: "W32"}, nil
		}
		if n == "hyper" {
			l.next()
			return &G{Kind: "W64"}, nil
		}
		return &G{Kind: "W32"}, nil
	case "int":
		return &G{Kind: "W32"}, nil
	case "hyper":
		return &G{Kind: "W64"}, nil
	case "bool":
		return &G{Kind: "Bool"}, nil
	case "void":
		return &G{Kind: "Void"}, nil
	case "opaque", "string":
		return &G{Kind: t}, nil // completed by the declarator
	}
	return &G{Kind: "Ref", Ref: goName(t)}, nil
}

// declaration parses "type-spec declarator" (without the trailing ';').
func (x *XFile) declaration(l *xlexer) (*G, string, error) {
	base, err := x.typeSpec(l)
	if err != nil {
		return nil, "", err
	}
	if base.Kind == "Void" {
		return base, "", nil
	}
	opt := false
	if l.peek() == "*" {
		l.next()
		opt = true
	}
	name := l.next()
	g := base
	switch l.peek() {
	case "[":
		l.next()
		n, err := x.value(l.next())
		if err != nil {
			return nil, "", err
		}
		if err := l.expect("]"); err != nil {
			return nil, "", err
		}
		if base.Kind == "opaque" {
			g = &G{Kind: "Fixed", N: n}
		} else {
			return nil, "", fmt.Errorf("prot.x: fixed array of %s not supported", base.Kind)
		}
	case "<":
		l.next()
		n := int64(-1)
		if l.peek() != ">" {
			n, err = x.value(l.next())
			if err != nil {
				return nil, "", err
			}
		}
		if err := l.expect(">"); err != nil {
			return nil, "", err
		}
		switch base.Kind {
		case "opaque":
			g = &G{Kind: "VarOpaque", N: n}
		case "string":
			g = &G{Kind: "String", N: n}
		default:
			g = &G{Kind: "VarArray", N: n, Elem: base}
		}
	default:
		if base.Kind == "opaque" || base.Kind == "string" {
			return nil, "", fmt.Errorf("prot.x: %s without size", base.Kind)
		}
	}
	if opt {
		g = &G{Kind: "Optional", Elem: g}
	}
	return g, name, nil
}

func ParseXDR(path string) (*XFile, error) {
	b, err := os.ReadFile(path)
	if err != nil {
		return nil, err
	}
	x := &XFile{Consts: map[string]int64{}, Types: map[string]*G{}, Enums: map[string]*XEnum{}, UnionInfo: map[string]*XUnionInfo{}}
	x.Consts["TRUE"] = 1
	x.Consts["FALSE"] = 0
	l := &xlexer{toks: xlex(string(b))}
	addType := func(name string, g *G) {
		x.Types[name] = g
		x.TypeOrd = append(x.TypeOrd, name)
	}
	for l.peek() != "" {
		switch t := l.next(); t {
		case "const":
			name := l.next()
			if err := l.expect("="); err != nil {
				return nil, err
			}
			v, err := x.value(l.next())
			if err != nil {
				return nil, err
			}
			x.Consts[name] = v
			x.ConstOrd = append(x.ConstOrd, name)
			if err := l.expect(";"); err != nil {
				return nil, err
			}
		case "typedef":
			g, name, err := x.declaration(l)
			if err != nil {
				return nil, err
			}
			if err := l.expect(";"); err != nil {
				return nil, err
			}
			addType(name, g)
		case "enum":
			name := l.next()
			if err := l.expect("{"); err != nil {
				return nil, err
			}
			e := &XEnum{Name: name, Values: map[string]int64{}}
			for l.peek() != "}" {
				id := l.next()
				if err := l.expect("="); err != nil {
					return nil, err
				}
				v, err := x.value(l.next())
				if err != nil {
					return nil, err
				}
				e.Values[id] = v
				e.Order = append(e.Order, id)
				if l.peek() == "," {
					l.next()
				}
			}
			l.next()
			if err := l.expect(";"); err != nil {
				return nil, err
			}
			x.Enums[name] = e
			addType(name, &G{Kind: "W32"})
		case "struct":
			name := l.next()
			if err := l.expect("{"); err != nil {
				return nil, err
			}
			s := &G{Kind: "Seq"}
			for l.peek() != "}" {
				g, fname, err := x.declaration(l)
				if err != nil {
					return nil, err
				}
				if err := l.expect(";"); err != nil {
					return nil, err
				}
				g.Field = goName(fname)
				s.Items = append(s.Items, g)
			}
			l.next()
			if err := l.expect(";"); err != nil {
				return nil, err
			}
			addType(name, s)
		case "union":
			name := l.next()
			if err := l.expect("switch"); err != nil {
				return nil, err
			}
			if err := l.expect("("); err != nil {
				return nil, err
			}
			dg, dname, err := x.declaration(l)
			if err != nil {
				return nil, err
			}
			if err := l.expect(")"); err != nil {
				return nil, err
			}
			if err := l.expect("{"); err != nil {
				return nil, err
			}
			dg.Field = goName(dname)
			u := &G{Kind: "Union", Disc: goName(dname)}
			info := &XUnionInfo{}
			if dg.Kind == "Ref" {
				info.DiscType = dg.Ref
			} else {
				info.DiscType = dg.Kind
			}
			for l.peek() != "}" {
				if l.peek() == "default" {
					l.next()
					if err := l.expect(":"); err != nil {
						return nil, err
					}
					g, fname, err := x.declaration(l)
					if err != nil {
						return nil, err
					}
					if err := l.expect(";"); err != nil {
						return nil, err
					}
					u.HasDef = true
					info.HasDef = true
					if g.Kind != "Void" {
						g.Field = goName(fname)
						u.Default = []*G{g}
					}
					continue
				}
				var consts []string
				for l.peek() == "case" {
					l.next()
					ct := l.next()
					if err := l.expect(":"); err != nil {
						return nil, err
					}
					if dg.Kind == "Bool" {
						consts = append(consts, strings.ToLower(ct))
					} else {
						v, err := x.value(ct)
						if err != nil {
							return nil, err
						}
						consts = append(consts, strconv.FormatInt(v, 10))
					}
					info.NArms++
				}
				g, fname, err := x.declaration(l)
				if err != nil {
					return nil, err
				}
				if err := l.expect(";"); err != nil {
					return nil, err
				}
				arm := Arm{Consts: consts}
				if g.Kind != "Void" {
					g.Field = goName(fname)
					arm.Body = []*G{g}
				}
				u.Arms = append(u.Arms, arm)
			}
			l.next()
			if err := l.expect(";"); err != nil {
				return nil, err
			}
			x.UnionInfo[name] = info
			addType(name, &G{Kind: "Seq", Items: []*G{dg, u}})
		case "program":
			p := XProg{Name: l.next()}
			if err := l.expect("{"); err != nil {
				return nil, err
			}
			if err := l.expect("version"); err != nil {
				return nil, err
			}
			p.VerName = l.next()
			if err := l.expect("{"); err != nil {
				return nil, err
			}
			for l.peek() != "}" {
				res := l.next()
				name := l.next()
				if err := l.expect("("); err != nil {
					return nil, err
				}
				arg := l.next()
				if err := l.expect(")"); err != nil {
					return nil, err
				}
				if err := l.expect("="); err != nil {
					return nil, err
				}
				v, err := x.value(l.next())
				if err != nil {
					return nil, err
				}
				if err := l.expect(";"); err != nil {
					return nil, err
				}
				p.Procs = append(p.Procs, XProc{Name: name, Num: v, Arg: arg, Res: res})
			}
			l.next()
			if err := l.expect("="); err != nil {
				return nil, err
			}
			if p.VerNum, err = x.value(l.next()); err != nil {
				return nil, err
			}
			if err := l.expect(";"); err != nil {
				return nil, err
			}
			if err := l.expect("}"); err != nil {
				return nil, err
			}
			if err := l.expect("="); err != nil {
				return nil, err
			}
			if p.Num, err = x.value(l.next()); err != nil {
				return nil, err
			}
			if err := l.expect(";"); err != nil {
				return nil, err
			}
			x.Consts[p.Name] = p.Num
			x.Consts[p.VerName] = p.VerNum
			for _, pr := range p.Procs {
				x.Consts[pr.Name] = pr.Num
			}
			x.Progs = append(x.Progs, p)
		default:
			return nil, fmt.Errorf("prot.x: unexpected token %q at %d", t, l.pos)
		}
	}
	return x, nil
}
