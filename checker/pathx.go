package main

// E10: a small path explorer for one function.
//
// Several rules ask "on every path through f on which X happened, the status f
// returns is an error" or "a success status is returned only on paths that
// took the true side of Y".  When the status is an SSA register the dominator
// based helpers answer that; they do not when the status lives in a cell - a
// named result captured by a local closure ("undo := func(why) { ...; err =
// why }"), or when the step itself sits in such a closure.  PX walks the paths
// of the function (and of the closures it calls directly), carrying
//   - the constant/non-zero knowledge about integer and boolean registers,
//   - the contents of local cells (stores, refinement by the branch taken),
//   - a set of flags raised by the caller's hooks on calls and edges,
// and hands every return of the function, with that state, to the rule.

import (
	"fmt"
	"go/constant"
	"go/token"
	"sort"
	"strings"

	"golang.org/x/tools/go/ssa"
)

type pxVal struct {
	known bool
	k     int64
	nz    bool // known to be != 0
}

func (v pxVal) String() string {
	switch {
	case v.known:
		return fmt.Sprint(v.k)
	case v.nz:
		return "!0"
	}
	return "?"
}

// MayBeZero: the value can be 0 (NFS3_OK / false) as far as the path knows.
func (v pxVal) MayBeZero() bool {
	if v.known {
		return v.k == 0
	}
	return !v.nz
}

type pxFrame struct {
	fn    *ssa.Function
	bind  map[ssa.Value]ssa.Value // FreeVar -> the cell it denotes in the enclosing frame
	args  map[ssa.Value]pxVal     // Parameter -> value
	fargs map[ssa.Value]pxClosure // Parameter -> the function literal passed for it
	top   bool
	seen  map[string]bool // (block, state) pairs already walked in this invocation of a callee
}

// pxClosure: a function literal with its captured cells already resolved.
type pxClosure struct {
	fn    *ssa.Function
	cells []ssa.Value
}

type PXState struct {
	Flags  map[string]bool
	cells  map[ssa.Value]pxVal
	regs   map[ssa.Value]pxVal
	defers []*ssa.Defer // deferred calls of the frames on the path, innermost last; run at RunDefers
	// alias: a parameter stands for the caller's value, a call for the value its callee returned: what a
	// branch learns about one is learnt about the other
	alias map[ssa.Value]ssa.Value
	ret   []ssa.Value // results of the callee frame that just returned (transient)
}

func (s *PXState) clone() *PXState {
	n := &PXState{Flags: map[string]bool{}, cells: map[ssa.Value]pxVal{}, regs: map[ssa.Value]pxVal{}, alias: map[ssa.Value]ssa.Value{}}
	for k, v := range s.alias {
		n.alias[k] = v
	}
	for k, v := range s.Flags {
		n.Flags[k] = v
	}
	for k, v := range s.cells {
		n.cells[k] = v
	}
	for k, v := range s.regs {
		n.regs[k] = v
	}
	n.defers = append([]*ssa.Defer{}, s.defers...)
	return n
}

func (s *PXState) hash() string {
	var parts []string
	for k, v := range s.Flags {
		if v {
			parts = append(parts, "f:"+k)
		}
	}
	for k, v := range s.cells {
		parts = append(parts, fmt.Sprintf("c:%p=%s", k, v))
	}
	for k, v := range s.regs {
		parts = append(parts, fmt.Sprintf("r:%p=%s", k, v))
	}
	for _, d := range s.defers {
		parts = append(parts, fmt.Sprintf("d:%p", d))
	}
	sort.Strings(parts)
	return strings.Join(parts, ";")
}

type PX struct {
	OnCall        func(st *PXState, call ssa.CallInstruction)
	OnEdge        func(st *PXState, from, to *ssa.BasicBlock)
	OnReturn      func(st *PXState, fr *pxFrame, r *ssa.Return)
	FollowHelpers bool // also walk into unexported go-nfsd functions called statically
	// Follow: also walk into this statically called function (asked when nothing else applies)
	Follow   func(st *PXState, call *ssa.Call, h *ssa.Function) bool
	MaxDepth int      // frames below the explored function (default 4)
	Cur      *pxFrame // the frame of the call handed to OnCall
	budget   int
	Exceeded bool
	visited  map[string]bool
}

func NewPX() *PX { return &PX{budget: 40000, visited: map[string]bool{}} }

// Run explores every path of fn.
func (p *PX) Run(fn *ssa.Function) {
	if fn == nil || fn.Blocks == nil {
		return
	}
	fr := &pxFrame{fn: fn, bind: map[ssa.Value]ssa.Value{}, args: map[ssa.Value]pxVal{}, fargs: map[ssa.Value]pxClosure{}, top: true}
	st := &PXState{Flags: map[string]bool{}, cells: map[ssa.Value]pxVal{}, regs: map[ssa.Value]pxVal{}, alias: map[ssa.Value]ssa.Value{}}
	p.block(fr, fn.Blocks[0], nil, st, 0)
}

func (p *PX) cellOf(fr *pxFrame, addr ssa.Value) ssa.Value {
	switch x := addr.(type) {
	case *ssa.Alloc:
		return x
	case *ssa.FreeVar:
		if b, ok := fr.bind[x]; ok {
			return b
		}
		return x
	}
	return nil
}

// Root: the value v stands for (a parameter for the caller's argument, a call
// for what its callee returned).
func (p *PX) Root(st *PXState, v ssa.Value) ssa.Value {
	for i := 0; i < 8; i++ {
		switch x := v.(type) {
		case *ssa.Convert:
			v = x.X
			continue
		case *ssa.ChangeType:
			v = x.X
			continue
		}
		if a, ok := st.alias[v]; ok && a != v {
			v = a
			continue
		}
		break
	}
	return v
}

// Eval: what the path knows about v.
func (p *PX) Eval(fr *pxFrame, st *PXState, v ssa.Value) pxVal {
	for i := 0; i < 6; i++ {
		switch x := v.(type) {
		case *ssa.Convert:
			v = x.X
			continue
		case *ssa.ChangeType:
			v = x.X
			continue
		}
		break
	}
	if r, ok := st.regs[v]; ok {
		return r
	}
	if rt := p.Root(st, v); rt != v {
		if r, ok := st.regs[rt]; ok {
			return r
		}
	}
	switch x := v.(type) {
	case *ssa.MakeClosure, *ssa.Function:
		return pxVal{nz: true}
	case *ssa.Const:
		if x.Value == nil {
			return pxVal{known: true, k: 0}
		}
		switch x.Value.Kind() {
		case constant.Int:
			if i, ok := constant.Int64Val(x.Value); ok {
				return pxVal{known: true, k: i}
			}
		case constant.Bool:
			if constant.BoolVal(x.Value) {
				return pxVal{known: true, k: 1}
			}
			return pxVal{known: true, k: 0}
		}
	case *ssa.Parameter:
		if _, ok := fr.fargs[x]; ok {
			return pxVal{nz: true} // a function literal was passed
		}
		if a, ok := fr.args[x]; ok {
			return a
		}
	case *ssa.UnOp:
		switch x.Op {
		case token.MUL:
			if c := p.cellOf(fr, x.X); c != nil {
				if cv, ok := st.cells[c]; ok {
					return cv
				}
			}
		case token.NOT:
			a := p.Eval(fr, st, x.X)
			if a.known {
				if a.k == 0 {
					return pxVal{known: true, k: 1}
				}
				return pxVal{known: true, k: 0}
			}
			if a.nz {
				return pxVal{known: true, k: 0}
			}
		}
	case *ssa.BinOp:
		if x.Op == token.EQL || x.Op == token.NEQ {
			a, b := p.Eval(fr, st, x.X), p.Eval(fr, st, x.Y)
			eq, dec := false, false
			switch {
			case a.known && b.known:
				eq, dec = a.k == b.k, true
			case a.nz && b.known && b.k == 0, b.nz && a.known && a.k == 0:
				eq, dec = false, true
			}
			if dec {
				if (x.Op == token.EQL) == eq {
					return pxVal{known: true, k: 1}
				}
				return pxVal{known: true, k: 0}
			}
		}
	}
	return pxVal{}
}

func (p *PX) block(fr *pxFrame, b *ssa.BasicBlock, pred *ssa.BasicBlock, st *PXState, depth int) []*PXState {
	if p.budget <= 0 {
		p.Exceeded = true
		return nil
	}
	p.budget--
	if fr.top {
		// (closure frames hand their end states back to the caller: never cut)
		key := fmt.Sprintf("%p|%d|%s", fr.fn, b.Index, st.hash())
		if p.visited[key] {
			return nil
		}
		p.visited[key] = true
	} else {
		// a loop inside a callee: the same state at the same block was walked in this invocation and its
		// end states are already being handed back
		if fr.seen == nil {
			fr.seen = map[string]bool{}
		}
		key := fmt.Sprintf("%d|%s", b.Index, st.hash())
		if fr.seen[key] {
			return nil
		}
		fr.seen[key] = true
	}
	// phis, simultaneously
	if pred != nil {
		pi := -1
		for i, q := range b.Preds {
			if q == pred {
				pi = i
			}
		}
		upd := map[ssa.Value]pxVal{}
		for _, in := range b.Instrs {
			ph, ok := in.(*ssa.Phi)
			if !ok {
				break
			}
			if pi >= 0 && pi < len(ph.Edges) {
				upd[ph] = p.Eval(fr, st, ph.Edges[pi])
			}
		}
		for k, v := range upd {
			if v.known || v.nz {
				st.regs[k] = v
			} else {
				delete(st.regs, k)
			}
		}
	}
	return p.from(fr, b, 0, st, depth)
}

func (p *PX) from(fr *pxFrame, b *ssa.BasicBlock, idx int, st *PXState, depth int) []*PXState {
	for i := idx; i < len(b.Instrs); i++ {
		if _, isPhi := b.Instrs[i].(*ssa.Phi); !isPhi {
			// the instruction computes its value anew (a second turn of a loop): what a branch learnt about
			// the old value is gone
			if v, isV := b.Instrs[i].(ssa.Value); isV {
				delete(st.regs, v)
				delete(st.alias, v)
			}
		}
		switch x := b.Instrs[i].(type) {
		case *ssa.Phi:
			continue
		case *ssa.Store:
			if c := p.cellOf(fr, x.Addr); c != nil {
				v := p.Eval(fr, st, x.Val)
				if v.known || v.nz {
					st.cells[c] = v
				} else {
					delete(st.cells, c)
				}
			}
		case *ssa.Call:
			if p.OnCall != nil {
				p.Cur = fr
				p.OnCall(st, x)
			}
			// a cell whose address is handed to someone else is no longer known
			for _, a := range x.Call.Args {
				if c := p.cellOf(fr, a); c != nil {
					delete(st.cells, c)
				}
			}
			var cf *ssa.Function
			var cells []ssa.Value
			if f, binds := closureCallee(x); f != nil && f.Synthetic == "" {
				// (a compiler-made wrapper of a method value is not walked into: the call is a call of the method)
				cf = f
				for _, b := range binds {
					cells = append(cells, p.cellOf(fr, b))
				}
			} else if pm, isP := x.Call.Value.(*ssa.Parameter); isP {
				// a function literal handed down as an argument ("locked(func() { ... })")
				if pc, ok := fr.fargs[pm]; ok {
					cf, cells = pc.fn, pc.cells
				}
			}
			if cf == nil && p.FollowHelpers {
				if h := x.Call.StaticCallee(); h != nil && IsRepoFunc(h) && h.Blocks != nil && h.Parent() == nil && isPrivateHelper(h) {
					cf = h
				}
			}
			if cf == nil && p.Follow != nil {
				if h := x.Call.StaticCallee(); h != nil && h.Blocks != nil && p.Follow(st, x, h) {
					cf = h
				}
			}
			maxd := p.MaxDepth
			if maxd == 0 {
				maxd = 4
			}
			if cf != nil && cf.Blocks != nil && depth < maxd {
				nf := &pxFrame{fn: cf, bind: map[ssa.Value]ssa.Value{}, args: map[ssa.Value]pxVal{}, fargs: map[ssa.Value]pxClosure{}}
				for j, fv := range cf.FreeVars {
					if j < len(cells) && cells[j] != nil {
						nf.bind[fv] = cells[j]
					}
				}
				for j, pm := range cf.Params {
					if j >= len(x.Call.Args) {
						continue
					}
					a := x.Call.Args[j]
					nf.args[pm] = p.Eval(fr, st, a)
					switch av := a.(type) {
					case *ssa.MakeClosure:
						if f2, ok := av.Fn.(*ssa.Function); ok {
							pc := pxClosure{fn: f2}
							for _, b := range av.Bindings {
								pc.cells = append(pc.cells, p.cellOf(fr, b))
							}
							nf.fargs[pm] = pc
						}
					case *ssa.Function:
						if av.Parent() != nil || (IsRepoFunc(av) && av.Blocks != nil) {
							nf.fargs[pm] = pxClosure{fn: av}
						}
					case *ssa.Parameter:
						if pc, ok := fr.fargs[av]; ok {
							nf.fargs[pm] = pc
						}
					}
				}
				in := st.clone()
				for j, pm := range cf.Params {
					if j < len(x.Call.Args) {
						in.alias[pm] = p.Root(st, x.Call.Args[j])
					}
				}
				var out []*PXState
				for _, rs := range p.block(nf, cf.Blocks[0], nil, in, depth+1) {
					// what the callee returned
					note := func(dst ssa.Value, res ssa.Value) {
						if v := p.Eval(nf, rs, res); v.known || v.nz {
							rs.regs[dst] = v
						} else {
							delete(rs.regs, dst)
						}
						if rt := p.Root(rs, res); rt != dst {
							rs.alias[dst] = rt
						}
					}
					if len(rs.ret) == 1 {
						note(x, rs.ret[0])
					} else if len(rs.ret) > 1 && x.Referrers() != nil {
						for _, ref := range *x.Referrers() {
							if ex, ok := ref.(*ssa.Extract); ok && ex.Index < len(rs.ret) {
								note(ex, rs.ret[ex.Index])
							}
						}
					}
					rs.ret = nil
					out = append(out, p.from(fr, b, i+1, rs, depth)...)
				}
				return out
			}
		case *ssa.Defer:
			st.defers = append(st.defers, x)
		case *ssa.RunDefers:
			// the deferred calls of this frame run now, last first
			var keep []*ssa.Defer
			var mine []*ssa.Defer
			for _, d := range st.defers {
				if d.Parent() == fr.fn {
					mine = append(mine, d)
				} else {
					keep = append(keep, d)
				}
			}
			st.defers = keep
			for j := len(mine) - 1; j >= 0; j-- {
				if p.OnCall != nil {
					p.Cur = fr
					p.OnCall(st, mine[j])
				}
			}
		case *ssa.If:
			c := p.Eval(fr, st, x.Cond)
			var out []*PXState
			take := func(succ *ssa.BasicBlock, truth bool, s2 *PXState) {
				p.refine(fr, s2, b, x.Cond, truth)
				if p.OnEdge != nil {
					p.OnEdge(s2, b, succ)
				}
				out = append(out, p.block(fr, succ, b, s2, depth)...)
			}
			switch {
			case c.known && c.k != 0, c.nz:
				take(b.Succs[0], true, st)
			case c.known:
				take(b.Succs[1], false, st)
			default:
				take(b.Succs[0], true, st.clone())
				take(b.Succs[1], false, st)
			}
			return out
		case *ssa.Jump:
			if p.OnEdge != nil {
				p.OnEdge(st, b, b.Succs[0])
			}
			return p.block(fr, b.Succs[0], b, st, depth)
		case *ssa.Return:
			if fr.top {
				if p.OnReturn != nil {
					p.OnReturn(st, fr, x)
				}
				return nil
			}
			st.ret = x.Results
			return []*PXState{st}
		case *ssa.Panic:
			return nil
		}
	}
	return nil
}

// refine records what taking the (truth) side of cond tells about registers
// and, when the register is a load of a cell made in this block with no store
// or call after it, about the cell.
func (p *PX) refine(fr *pxFrame, st *PXState, b *ssa.BasicBlock, cond ssa.Value, truth bool) {
	for {
		if u, ok := cond.(*ssa.UnOp); ok && u.Op == token.NOT {
			cond, truth = u.X, !truth
			continue
		}
		break
	}
	set := func(v ssa.Value, val pxVal) {
		for i := 0; i < 6; i++ {
			switch x := v.(type) {
			case *ssa.Convert:
				v = x.X
				continue
			case *ssa.ChangeType:
				v = x.X
				continue
			}
			break
		}
		if _, isC := v.(*ssa.Const); isC {
			return
		}
		st.regs[v] = val
		if rt := p.Root(st, v); rt != v {
			if _, isC := rt.(*ssa.Const); !isC {
				st.regs[rt] = val
			}
		}
		if ld, ok := v.(*ssa.UnOp); ok && ld.Op == token.MUL && ld.Block() == b {
			if c := p.cellOf(fr, ld.X); c != nil {
				clean := true
				after := false
				for _, in := range b.Instrs {
					if in == ssa.Instruction(ld) {
						after = true
						continue
					}
					if !after {
						continue
					}
					switch in.(type) {
					case *ssa.Store, *ssa.Call:
						clean = false
					}
				}
				if clean {
					st.cells[c] = val
				}
			}
		}
	}
	if bo, ok := cond.(*ssa.BinOp); ok && (bo.Op == token.EQL || bo.Op == token.NEQ) {
		eq := (bo.Op == token.EQL) == truth
		for _, pr := range [][2]ssa.Value{{bo.X, bo.Y}, {bo.Y, bo.X}} {
			k := p.Eval(fr, st, pr[1])
			if !k.known {
				continue
			}
			if eq {
				set(pr[0], pxVal{known: true, k: k.k})
			} else if k.k == 0 {
				set(pr[0], pxVal{nz: true})
			}
		}
		return
	}
	// a plain boolean
	if truth {
		set(cond, pxVal{known: true, k: 1})
	} else {
		set(cond, pxVal{known: true, k: 0})
	}
}

// closureCallee: the call invokes a function literal of the enclosing function
// directly; returns it with the values bound to its free variables.
func closureCallee(call *ssa.Call) (*ssa.Function, []ssa.Value) {
	v := call.Call.Value
	if mc, ok := v.(*ssa.MakeClosure); ok {
		if f, ok := mc.Fn.(*ssa.Function); ok {
			return f, mc.Bindings
		}
	}
	if f, ok := v.(*ssa.Function); ok && f.Parent() != nil {
		return f, nil
	}
	return nil, nil
}
