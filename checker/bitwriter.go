package main

import (
	"fmt"
	"go/token"
	"go/types"

	"golang.org/x/tools/go/ssa"
)

// Bit writers: the functions through which PreCommit writes the on-disk
// bitmaps.  They are found from PreCommit, not by name: a bit writer is a
// function of PreCommit's package with a []uint64 parameter from which an
// OverWrite is reached.  A leaf writer holds the OverWrite (possibly inside an
// iterator's function literal); a dispatcher only chooses between leaves
// ("if alloc { setBits } else { clearBits }").

type bwInfo struct {
	fn          *ssa.Function
	numsP, blkP int    // indices into fn.Params (-1: not found)
	pol         string // "set", "clear", "param" or "" (not decided)
	polP        int    // the boolean parameter when pol == "param" (true = set)
	leaf        bool
	leaves      []*bwInfo // the leaf writers below (itself for a leaf)
	why         string    // why pol == ""
}

type bwState struct {
	c     *Ctx
	reach map[*ssa.Function]int // 0 unknown, 1 in progress, 2 no, 3 yes
	info  map[*ssa.Function]*bwInfo
}

func bitWriters(c *Ctx) *bwState {
	if c.bw == nil {
		c.bw = &bwState{c: c, reach: map[*ssa.Function]int{}, info: map[*ssa.Function]*bwInfo{}}
	}
	return c.bw
}

func isU64Slice(t types.Type) bool {
	sl, ok := t.Underlying().(*types.Slice)
	if !ok {
		return false
	}
	b, ok := sl.Elem().Underlying().(*types.Basic)
	return ok && b.Kind() == types.Uint64
}

func (s *bwState) reachesOverWrite(h *ssa.Function) bool {
	switch s.reach[h] {
	case 1, 2:
		return false
	case 3:
		return true
	}
	s.reach[h] = 1
	yes := false
	for _, sc := range scopesOf(h) {
		if len(s.c.P.CallsIn(sc.Fn, funcIs(s.c.V.OverWrite))) > 0 {
			yes = true
			break
		}
		for _, b := range sc.Fn.Blocks {
			for _, in := range b.Instrs {
				if cl, ok := in.(*ssa.Call); ok {
					if g := staticCallee(cl); g != nil && g != h && funcPkg(g) == funcPkg(h) && g.Blocks != nil && s.reachesOverWrite(g) {
						yes = true
					}
				}
			}
		}
	}
	if yes {
		s.reach[h] = 3
	} else {
		s.reach[h] = 2
	}
	return yes
}

func (s *bwState) isWriter(h *ssa.Function) bool {
	if h == nil || h.Blocks == nil || s.c.V.PreCommit == nil || funcPkg(h) != funcPkg(s.c.V.PreCommit) {
		return false
	}
	// one list: a helper that takes several lists ("writeBoth(inums, bnums, alloc)") is looked through, not
	// taken as a unit
	n := 0
	for _, p := range h.Params {
		if isU64Slice(p.Type()) {
			n++
		}
	}
	return n == 1 && s.reachesOverWrite(h)
}

// owned: scope sc of scopesOf(W) belongs to W itself, not to a writer W calls.
func (s *bwState) owned(sc *Scope) bool {
	for x := sc; x != nil && x.Via != nil; x = x.Up {
		if s.isWriter(x.Fn) {
			return false
		}
	}
	return true
}

type bwCall struct {
	sc   Scope
	call *ssa.Call
	g    *ssa.Function
}

// parts: the OverWrite calls W performs itself and the writers it calls.
func (s *bwState) parts(W *ssa.Function, scopes []Scope) (own []bwCall, nested []bwCall) {
	for i := range scopes {
		sc := scopes[i]
		if !s.owned(&sc) {
			continue
		}
		for _, cl := range s.c.P.CallsIn(sc.Fn, funcIs(s.c.V.OverWrite)) {
			if call, ok := cl.(*ssa.Call); ok {
				own = append(own, bwCall{sc, call, nil})
			}
		}
		for _, b := range sc.Fn.Blocks {
			for _, in := range b.Instrs {
				if call, ok := in.(*ssa.Call); ok {
					if g := staticCallee(call); g != nil && g != W && s.isWriter(g) {
						nested = append(nested, bwCall{sc, call, g})
					}
				}
			}
		}
	}
	return
}

func paramIndex(f *ssa.Function, v ssa.Value) int {
	for i, p := range f.Params {
		if ssa.Value(p) == v {
			return i
		}
	}
	return -1
}

func boolParams(f *ssa.Function) []int {
	var out []int
	for i, p := range f.Params {
		if b, ok := p.Type().Underlying().(*types.Basic); ok && b.Kind() == types.Bool {
			out = append(out, i)
		}
	}
	return out
}

// onlyOnEdge: block b of scope sc is entered only over edges on which W's
// boolean parameter bp has the value want.
func onlyOnEdge(sc Scope, b *ssa.BasicBlock, bp ssa.Value, want bool) bool {
	e := condEdge(sc.Fn, func(cd Cond) (bool, bool) {
		if cd.Op != token.ILLEGAL || cd.X == nil {
			return false, false
		}
		if sc.S.resolve(stripConv(cd.X)) == bp {
			return true, want
		}
		return false, false
	})
	// walk up through single-predecessor blocks (a debug print between the test and the call)
	for i := 0; i < 4; i++ {
		if len(b.Preds) == 0 {
			return false
		}
		all := true
		for _, pb := range b.Preds {
			if !e(pb, b) {
				all = false
			}
		}
		if all {
			return true
		}
		if len(b.Preds) != 1 {
			return false
		}
		b = b.Preds[0]
	}
	return false
}

// analyse classifies W; id/report non-empty: the clauses of a leaf are
// reported as obligations of rule id.
func (s *bwState) analyse(W *ssa.Function) *bwInfo {
	if bi, ok := s.info[W]; ok {
		return bi
	}
	bi := &bwInfo{fn: W, numsP: -1, blkP: -1, polP: -1}
	s.info[W] = bi
	scopes := scopesOf(W)
	own, nested := s.parts(W, scopes)
	switch {
	case len(own) == 1 && len(nested) == 0:
		bi.leaf = true
		bi.leaves = []*bwInfo{bi}
		s.leafPolarity(bi, scopes, own[0])
	case len(own) == 0 && len(nested) > 0:
		s.dispatch(bi, nested)
	default:
		bi.why = fmt.Sprintf("%d OverWrite calls of its own and %d calls of other bit writers", len(own), len(nested))
	}
	return bi
}

func (s *bwState) leafPolarity(bi *bwInfo, scopes []Scope, ow bwCall) {
	W := bi.fn
	// address parameters
	if ac, ok := ow.sc.S.resolve(stripConv(argN(ow.call, 0))).(*ssa.Call); ok && staticCallee(ac) != nil && staticCallee(ac).Name() == "MkBitAddr" {
		bi.blkP = paramIndex(W, ow.sc.S.resolve(stripConv(ac.Call.Args[0])))
		if u, ok := ow.sc.S.resolve(stripConv(ac.Call.Args[1])).(*ssa.UnOp); ok && u.Op == token.MUL {
			if ia, ok := u.X.(*ssa.IndexAddr); ok {
				bi.numsP = paramIndex(W, ow.sc.S.resolve(stripConv(ia.X)))
			}
		}
	}
	var xor *ssa.UnOp
	var xsc Scope
	nx := 0
	for i := range scopes {
		sc := scopes[i]
		if !s.owned(&sc) {
			continue
		}
		for _, b := range sc.Fn.Blocks {
			for _, in := range b.Instrs {
				if u, ok := in.(*ssa.UnOp); ok && u.Op == token.XOR {
					xor, xsc = u, sc
					nx++
				}
			}
		}
	}
	switch {
	case nx == 0:
		bi.pol = "set"
	case nx > 1:
		bi.why = "more than one complement"
	default:
		xb := xor.Block()
		for _, i := range boolParams(W) {
			if onlyOnEdge(xsc, xb, W.Params[i], false) {
				// and the complement is not taken on the other side: there is one complement only
				bi.pol, bi.polP = "param", i
				return
			}
		}
		if xsc.Fn == ow.sc.Fn && (xb == ow.call.Block() || xb.Dominates(ow.call.Block())) {
			bi.pol = "clear"
			return
		}
		bi.why = "the complement is taken neither always nor exactly when the polarity flag is false"
	}
}

func (s *bwState) dispatch(bi *bwInfo, nested []bwCall) {
	W := bi.fn
	type arm struct {
		n    bwCall
		pol  string // "set", "clear", "follows"
		polP int
	}
	var arms []arm
	seenLeaf := map[*bwInfo]bool{}
	for _, n := range nested {
		gi := s.analyse(n.g)
		if gi.pol == "" {
			bi.why = FuncName(n.g) + ": " + gi.why
			return
		}
		for _, l := range gi.leaves {
			if !seenLeaf[l] {
				seenLeaf[l] = true
				bi.leaves = append(bi.leaves, l)
			}
		}
		if gi.numsP < 0 || gi.blkP < 0 || gi.numsP >= len(n.call.Call.Args) || gi.blkP >= len(n.call.Call.Args) {
			bi.why = FuncName(n.g) + ": list or bitmap parameter not identified"
			return
		}
		np := paramIndex(W, n.sc.S.resolve(stripConv(n.call.Call.Args[gi.numsP])))
		bp := paramIndex(W, n.sc.S.resolve(stripConv(n.call.Call.Args[gi.blkP])))
		if np < 0 || bp < 0 || (bi.numsP >= 0 && (np != bi.numsP || bp != bi.blkP)) {
			bi.why = "the list and the bitmap start are not handed through to " + FuncName(n.g)
			return
		}
		bi.numsP, bi.blkP = np, bp
		a := arm{n: n, pol: gi.pol, polP: -1}
		if gi.pol == "param" {
			v := n.sc.S.resolve(stripConv(n.call.Call.Args[gi.polP]))
			if k, isK := constBool(v); isK {
				a.pol = map[bool]string{true: "set", false: "clear"}[k]
			} else if pi := paramIndex(W, v); pi >= 0 {
				a.pol, a.polP = "follows", pi
			} else {
				bi.why = "polarity handed to " + FuncName(n.g) + " is neither a constant nor the caller's flag"
				return
			}
		}
		arms = append(arms, a)
	}
	always := func(n bwCall) bool {
		in := ssa.Instruction(n.call)
		ok := MustAfter(n.sc.Fn, func(x ssa.Instruction) bool { return x == in }, nil)(n.sc.Fn.Blocks[0].Instrs[0]) || n.sc.Fn.Blocks[0].Instrs[0] == in
		if n.sc.Via != nil {
			via := ssa.Instruction(n.sc.Via)
			vf := n.sc.Via.Parent()
			ok = ok && (MustAfter(vf, func(x ssa.Instruction) bool { return x == via }, nil)(vf.Blocks[0].Instrs[0]) || vf.Blocks[0].Instrs[0] == via)
		}
		return ok
	}
	if len(arms) == 1 {
		a := arms[0]
		if !always(a.n) {
			bi.why = "the call of " + FuncName(a.n.g) + " is not on every path"
			return
		}
		if a.pol == "follows" {
			bi.pol, bi.polP = "param", a.polP
		} else {
			bi.pol = a.pol
		}
		return
	}
	// two arms chosen by a flag: the setting one exactly when it is true, the clearing one when it is false
	for _, i := range boolParams(W) {
		nSet, nClear, bad := 0, 0, false
		for _, a := range arms {
			switch a.pol {
			case "set":
				if onlyOnEdge(a.n.sc, a.n.call.Block(), W.Params[i], true) {
					nSet++
				} else {
					bad = true
				}
			case "clear":
				if onlyOnEdge(a.n.sc, a.n.call.Block(), W.Params[i], false) {
					nClear++
				} else {
					bad = true
				}
			default:
				bad = true
			}
		}
		if !bad && nSet == 1 && nClear == 1 {
			bi.pol, bi.polP = "param", i
			return
		}
	}
	bi.why = "the writers called are not selected by the polarity flag (set when true, clear when false)"
}

// pcWrite: one bitmap write of PreCommit.
type pcWrite struct {
	sc    Scope
	call  *ssa.Call
	info  *bwInfo
	list  string
	typ   *types.Named
	start string
	pol   bool
	polOK bool
}

// preCommitWrites: the calls of bit writers PreCommit makes (in its body or in
// its private helpers), with the list, bitmap and polarity each one carries.
func preCommitWrites(c *Ctx) ([]pcWrite, []Scope) {
	s := bitWriters(c)
	scopes := scopesOf(c.V.PreCommit)
	var out []pcWrite
	for i := range scopes {
		sc := scopes[i]
		if !s.owned(&sc) {
			continue
		}
		for _, b := range sc.Fn.Blocks {
			for _, in := range b.Instrs {
				call, ok := in.(*ssa.Call)
				if !ok {
					continue
				}
				g := staticCallee(call)
				if g == nil || g == c.V.PreCommit || !s.isWriter(g) {
					continue
				}
				w := pcWrite{sc: sc, call: call, info: s.analyse(g)}
				bi := w.info
				if bi.numsP >= 0 && bi.numsP < len(call.Call.Args) {
					w.typ, w.list, _, _ = loadedFieldS(call.Call.Args[bi.numsP], sc.S)
				} else {
					// the writer could not be analysed: take the first list-typed argument
					for _, a := range call.Call.Args {
						if isU64Slice(a.Type()) {
							w.typ, w.list, _, _ = loadedFieldS(a, sc.S)
							break
						}
					}
				}
				if bi.blkP >= 0 && bi.blkP < len(call.Call.Args) {
					if scall, ok := sc.S.resolve(call.Call.Args[bi.blkP]).(*ssa.Call); ok {
						if cal := staticCallee(scall); cal != nil {
							w.start = cal.Name()
						}
					}
				}
				switch bi.pol {
				case "set":
					w.pol, w.polOK = true, true
				case "clear":
					w.pol, w.polOK = false, true
				case "param":
					if bi.polP < len(call.Call.Args) {
						w.pol, w.polOK = constBool(sc.S.resolve(call.Call.Args[bi.polP]))
					}
				}
				out = append(out, w)
			}
		}
	}
	return out, scopes
}

// ruleWriteBits: for every leaf writer PreCommit uses, the bit written is
// 1<<(n%8) (complemented for a free) at addr.MkBitAddr(blk, n), one bit wide,
// for every element; dispatchers select the leaf by the polarity flag.
func ruleWriteBits(c *Ctx, id string) {
	V, P, R := c.V, c.P, c.R
	s := bitWriters(c)
	ws, _ := preCommitWrites(c)
	done := map[*ssa.Function]bool{}
	{
		var desc []map[string]interface{}
		for _, w := range ws {
			var leaves []string
			for _, l := range w.info.leaves {
				leaves = append(leaves, FuncName(l.fn)+":"+l.pol)
			}
			desc = append(desc, map[string]interface{}{"list": w.list, "bitmap": w.start, "writer": FuncName(w.info.fn), "writer_polarity": w.info.pol, "leaves": leaves, "written_as_set": w.pol, "decided": w.polOK})
		}
		R.Extra["bit_writers"] = desc
	}
	if len(ws) == 0 {
		R.Fail(id, "alloctxn.(*AllocTxn).PreCommit|bit writers", P.Pos(V.PreCommit.Pos()), "PreCommit writes the bitmaps through functions that OverWrite one bit per number", "no such call found")
		return
	}
	// the polarity each list is written with (a writer that always sets must not be handed a free list)
	wantPol := map[string]bool{"allocInums": true, "allocBnums": true, "freeInums": false, "freeBnums": false}
	for _, w := range ws {
		want, isList := wantPol[w.list]
		if w.typ != V.AllocTxn || !isList {
			continue
		}
		R.Check(w.polOK && w.pol == want, id, "alloctxn.(*AllocTxn).PreCommit|bits of "+w.list, P.Pos(w.call.Pos()), fmt.Sprintf("the numbers of %s are written as %s bits", w.list, map[bool]string{true: "set", false: "cleared"}[want]), "polarity of the writer agrees with the list", fmt.Sprintf("written through %s with polarity set=%v (decided=%v): allocated numbers are written as free, or freed numbers stay allocated on disk", FuncName(w.info.fn), w.pol, w.polOK))
	}
	for _, w := range ws {
		top := w.info
		if done[top.fn] {
			continue
		}
		done[top.fn] = true
		if !top.leaf {
			R.Check(top.pol != "", id, FuncName(top.fn)+"|dispatch", P.Pos(top.fn.Pos()), "a function that chooses between bit writers hands its list and bitmap through and sets when its flag is true, clears when it is false", "arms match the flag", top.why)
		}
		if top.pol == "" && len(top.leaves) == 0 && !top.leaf {
			continue
		}
		leaves := top.leaves
		if top.leaf {
			leaves = []*bwInfo{top}
		}
		for _, l := range leaves {
			if l != top && done[l.fn] {
				continue
			}
			done[l.fn] = true
			s.checkLeaf(id, l)
		}
	}
}

func (s *bwState) checkLeaf(id string, bi *bwInfo) {
	c := s.c
	V, P, R := c.V, c.P, c.R
	f := bi.fn
	key := FuncName(f) + "|"
	scopes := scopesOf(f)
	own, _ := s.parts(f, scopes)
	if len(own) != 1 {
		R.Fail(id, key+"one OverWrite", P.Pos(f.Pos()), "a bit writer writes each number with exactly one OverWrite", fmt.Sprintf("%d OverWrite calls", len(own)))
		return
	}
	_ = V
	call, callSc := own[0].call, own[0].sc
	sz, ok := constInt(argN(call, 1))
	R.Check(ok && sz == 1, id, key+"size 1 bit", P.Pos(call.Pos()), "the object written is one bit", "constant 1", "bit-map write is not one bit wide: neighbouring bits of other transactions are overwritten")
	isSliceParam := func(v ssa.Value) bool {
		pm, isP := callSc.S.resolve(stripConv(v)).(*ssa.Parameter)
		return isP && pm.Parent() == f && isU64Slice(pm.Type())
	}
	okAddr := false
	if ac, ok := callSc.S.resolve(stripConv(argN(call, 0))).(*ssa.Call); ok && staticCallee(ac) != nil && staticCallee(ac).Name() == "MkBitAddr" {
		bp, isBlk := callSc.S.resolve(stripConv(ac.Call.Args[0])).(*ssa.Parameter)
		isBlk = isBlk && bp.Parent() == f
		elemOK := false
		if u, ok := callSc.S.resolve(stripConv(ac.Call.Args[1])).(*ssa.UnOp); ok && u.Op == token.MUL {
			if ia, ok := u.X.(*ssa.IndexAddr); ok {
				elemOK = isSliceParam(ia.X)
			}
		}
		okAddr = isBlk && elemOK
	}
	R.Check(okAddr, id, key+"bit address", P.Pos(call.Pos()), "the bit written is bit n of the bitmap starting at block blk (addr.MkBitAddr(blk, n))", "parameters passed through", "the bitmap bit written is not the bit of the number allocated/freed")
	isElem := func(v ssa.Value) bool {
		if u, ok := v.(*ssa.UnOp); ok && u.Op == token.MUL {
			if ia, ok := u.X.(*ssa.IndexAddr); ok {
				return isSliceParam(ia.X)
			}
		}
		return false
	}
	okBit := false
	for i := range scopes {
		sc := scopes[i]
		if !s.owned(&sc) {
			continue
		}
		for _, b := range sc.Fn.Blocks {
			for _, in := range b.Instrs {
				if sh, ok := in.(*ssa.BinOp); ok && sh.Op == token.SHL {
					one, is1 := constInt(stripConv(sh.X))
					if rem, ok := stripConv(sh.Y).(*ssa.BinOp); ok && rem.Op == token.REM && is1 && one == 1 {
						if k, isk := constInt(rem.Y); isk && k == 8 && isElem(sc.S.resolve(rem.X)) {
							okBit = true
						}
					}
				}
			}
		}
	}
	R.Check(okBit, id, key+"bit value", P.Pos(call.Pos()), "the byte written carries bit 1 << (n % 8) of the number n being written", "shift by n % 8", "wrong bit inside the byte")
	switch bi.pol {
	case "param", "":
		why := bi.why
		if why == "" {
			why = "polarity test does not select the complement on alloc==false"
		}
		R.Check(bi.pol == "param", id, key+"complement iff !alloc", P.Pos(call.Pos()), "the bit is complemented exactly on the alloc==false edge", "edge condition is !alloc", why)
	default:
		R.Check(true, id, key+"fixed polarity ("+bi.pol+")", P.Pos(call.Pos()), "the writer always sets (no complement) or always clears (complement on every path)", bi.pol, "")
	}
}
