package main

func init() {
	props["TST"] = func(c *Ctx) {
		ruleR1(c, "T.R1")
		ruleA1(c, "T.A1")
		ruleA5(c, "T.A5")
		ruleL2(c, "T.L2")
		ruleL3(c, "T.L3")
		ruleV6(c, "T.V6")
		ruleF3(c, "T.F3")
		ruleT1(c, "T.T1")
		ruleT2rel(c, "T.T2")
	}
}
