package main

// Generic engines over go/ssa:
//   E1  who-may-call / who-writes / reachability
//   E2  must-precede / must-follow / always-performs summaries on the CFG

import (
	"fmt"
	"go/constant"
	"go/token"
	"go/types"
	"sort"
	"strings"

	"golang.org/x/tools/go/callgraph"
	"golang.org/x/tools/go/ssa"
)

// ---------------------------------------------------------------- calls

func callCommon(in ssa.Instruction) *ssa.CallCommon {
	if c, ok := in.(ssa.CallInstruction); ok {
		return c.Common()
	}
	return nil
}

// staticCallee returns the statically known callee of a call/go/defer
// instruction (function, method, closure made in place), else nil.
// theProg: the loaded program (set with the static-site index), for resolving calls that have exactly one
// possible callee.
var theProg *Program

// staticCallee: the function a call instruction calls - its static callee; the method behind a compiler-made
// wrapper of a method value ("f := op.CommitFh; f()") or method expression; or, for a call through an interface or
// a function value, the callee when the call graph knows exactly one and it is a go-nfsd function.
func staticCallee(in ssa.Instruction) *ssa.Function {
	c := callCommon(in)
	if c == nil {
		return nil
	}
	f := c.StaticCallee()
	if f == nil && theProg != nil {
		if _, isB := c.Value.(*ssa.Builtin); !isB {
			if cands := theProg.Callees(in); len(cands) == 1 {
				f = cands[0]
			}
		}
	}
	if f != nil && f.Synthetic != "" && f.Parent() == nil {
		if t := wrappedMethod(f); t != nil {
			return t
		}
	}
	return f
}

// Callees returns every possible callee of the call instruction: the static
// one, or for dynamic calls the VTA call graph's out-edges at that site.
func (p *Program) Callees(in ssa.Instruction) []*ssa.Function {
	c := callCommon(in)
	if c == nil {
		return nil
	}
	if f := c.StaticCallee(); f != nil {
		return []*ssa.Function{f}
	}
	if _, ok := c.Value.(*ssa.Builtin); ok {
		return nil
	}
	cg := p.CallGraph()
	n := cg.Nodes[in.Parent()]
	if n == nil {
		return nil
	}
	var out []*ssa.Function
	for _, e := range n.Out {
		if e.Site == in {
			out = append(out, e.Callee.Func)
		}
	}
	return out
}

// IsDynamic reports whether the call has no static callee and is not a builtin.
func IsDynamic(in ssa.Instruction) bool {
	c := callCommon(in)
	if c == nil {
		return false
	}
	if c.StaticCallee() != nil {
		return false
	}
	_, b := c.Value.(*ssa.Builtin)
	return !b
}

type CallSite struct {
	Caller *ssa.Function
	Instr  ssa.Instruction
	Callee *ssa.Function
}

// CallersOf lists call sites (in any loaded function) that may call target
// according to the VTA call graph, sorted.
func (p *Program) CallersOf(target *ssa.Function) []CallSite {
	cg := p.CallGraph()
	n := cg.Nodes[target]
	if n == nil {
		return nil
	}
	var out []CallSite
	for _, e := range n.In {
		if e.Site == nil {
			continue
		}
		if cf := e.Caller.Func; cf != nil {
			// the body of a generic function as written is not what runs: its instances are (and are listed)
			g := cf
			for g.Parent() != nil {
				g = g.Parent()
			}
			if g.TypeParams() != nil && g.TypeParams().Len() > 0 && len(g.TypeArgs()) == 0 {
				continue
			}
		}
		if cf := e.Caller.Func; cf != nil && cf.Synthetic != "" && cf.Parent() == nil && wrappedMethod(cf) == target {
			// called through the compiler-made wrapper of a method value / method expression: the callers are
			// the places that call the wrapper
			for _, cs := range p.CallersOf(cf) {
				cs.Callee = target
				out = append(out, cs)
			}
			continue
		}
		out = append(out, CallSite{Caller: e.Caller.Func, Instr: e.Site, Callee: target})
	}
	sort.Slice(out, func(i, j int) bool {
		a, b := FuncName(out[i].Caller), FuncName(out[j].Caller)
		if a != b {
			return a < b
		}
		return out[i].Instr.Pos() < out[j].Instr.Pos()
	})
	return out
}

// CallsIn lists call instructions of fn (not of nested closures) whose
// possible callees satisfy pred.
func (p *Program) CallsIn(fn *ssa.Function, pred func(*ssa.Function) bool) []ssa.Instruction {
	var out []ssa.Instruction
	for _, b := range fn.Blocks {
		for _, in := range b.Instrs {
			if callCommon(in) == nil {
				continue
			}
			for _, c := range p.Callees(in) {
				if pred(c) {
					out = append(out, in)
					break
				}
				// a method reached through the compiler-made wrapper of a method value / expression
				if c.Synthetic != "" && c.Parent() == nil {
					if t := wrappedMethod(c); t != nil && pred(t) {
						out = append(out, in)
						break
					}
				}
			}
		}
	}
	return out
}

// Reach computes the set of functions reachable from roots over the call
// graph (including closures created inside a reached function: MakeClosure
// counts as a reference, since the closure is usually called by the callee it
// is passed to).
func (p *Program) Reach(roots []*ssa.Function, stop func(*ssa.Function) bool) map[*ssa.Function]bool {
	cg := p.CallGraph()
	seen := map[*ssa.Function]bool{}
	var work []*ssa.Function
	push := func(f *ssa.Function) {
		if f != nil && !seen[f] {
			seen[f] = true
			work = append(work, f)
		}
	}
	for _, r := range roots {
		push(r)
	}
	for len(work) > 0 {
		f := work[len(work)-1]
		work = work[:len(work)-1]
		if stop != nil && stop(f) {
			continue
		}
		if n := cg.Nodes[f]; n != nil {
			for _, e := range n.Out {
				push(e.Callee.Func)
			}
		}
		for _, b := range f.Blocks {
			for _, in := range b.Instrs {
				if mc, ok := in.(*ssa.MakeClosure); ok {
					push(mc.Fn.(*ssa.Function))
				}
			}
		}
	}
	return seen
}

// PathTo returns one call chain from root to a function satisfying pred
// (names), for diagnostics.
func (p *Program) PathTo(root *ssa.Function, pred func(*ssa.Function) bool) []string {
	cg := p.CallGraph()
	type item struct {
		f    *ssa.Function
		prev *item
	}
	seen := map[*ssa.Function]bool{root: true}
	q := []*item{{f: root}}
	for len(q) > 0 {
		it := q[0]
		q = q[1:]
		if pred(it.f) {
			var path []string
			for x := it; x != nil; x = x.prev {
				path = append([]string{FuncName(x.f)}, path...)
			}
			return path
		}
		var next []*ssa.Function
		if n := cg.Nodes[it.f]; n != nil {
			for _, e := range n.Out {
				next = append(next, e.Callee.Func)
			}
		}
		for _, b := range it.f.Blocks {
			for _, in := range b.Instrs {
				if mc, ok := in.(*ssa.MakeClosure); ok {
					next = append(next, mc.Fn.(*ssa.Function))
				}
			}
		}
		sort.Slice(next, func(i, j int) bool { return FuncName(next[i]) < FuncName(next[j]) })
		for _, f := range next {
			if !seen[f] {
				seen[f] = true
				q = append(q, &item{f: f, prev: it})
			}
		}
	}
	return nil
}

var _ = callgraph.Graph{}

// ---------------------------------------------------------------- CFG rules

// blockExit classifies a block without successors.
func isPanicExit(b *ssa.BasicBlock) bool {
	if len(b.Instrs) == 0 {
		return false
	}
	_, ok := b.Instrs[len(b.Instrs)-1].(*ssa.Panic)
	return ok
}

func isReturnExit(b *ssa.BasicBlock) bool {
	if len(b.Instrs) == 0 {
		return false
	}
	_, ok := b.Instrs[len(b.Instrs)-1].(*ssa.Return)
	return ok
}

// MustBefore computes, for fn, the set of instructions i such that on every
// path from the entry to i an instruction satisfying isA has executed
// (strictly before i).  Returned as a predicate.
func MustBefore(fn *ssa.Function, isA func(ssa.Instruction) bool) func(ssa.Instruction) bool {
	n := len(fn.Blocks)
	hasA := make([]bool, n)
	for _, b := range fn.Blocks {
		for _, in := range b.Instrs {
			if isA(in) {
				hasA[b.Index] = true
				break
			}
		}
	}
	// in[b] = AND over preds of out[p]; out[b] = in[b] || hasA[b]; entry in=false.
	in := make([]bool, n)
	for i := range in {
		in[i] = true
	}
	if n > 0 {
		in[0] = false
	}
	changed := true
	for changed {
		changed = false
		for _, b := range fn.Blocks {
			if b.Index == 0 {
				continue
			}
			v := true
			if len(b.Preds) == 0 {
				v = true // unreachable
			}
			for _, pb := range b.Preds {
				if !(in[pb.Index] || hasA[pb.Index]) {
					v = false
					break
				}
			}
			if v != in[b.Index] {
				in[b.Index] = v
				changed = true
			}
		}
	}
	return func(target ssa.Instruction) bool {
		b := target.Block()
		if b == nil || b.Parent() != fn {
			return false
		}
		if in[b.Index] {
			return true
		}
		for _, x := range b.Instrs {
			if x == target {
				return false
			}
			if isA(x) {
				return true
			}
		}
		return false
	}
}

// MustAfter returns a predicate telling whether on every path from
// instruction i (exclusive) to a normal return of fn an instruction
// satisfying isB executes.  Paths ending in panic are ignored.  stop, if not
// nil, marks instructions at which a path ends successfully without B being
// required (e.g. the path reaches an error return that is exempt).
func MustAfter(fn *ssa.Function, isB func(ssa.Instruction) bool, exempt func(ssa.Instruction) bool) func(ssa.Instruction) bool {
	return MustAfterE(fn, isB, exempt, nil)
}

// MustAfterE is MustAfter with exempt CFG edges: a path that takes an edge
// for which edgeExempt(from,to) holds is not required to reach B.
func MustAfterE(fn *ssa.Function, isB func(ssa.Instruction) bool, exempt func(ssa.Instruction) bool, edgeExempt func(from, to *ssa.BasicBlock) bool) func(ssa.Instruction) bool {
	n := len(fn.Blocks)
	// out[b]: every path from the END of b reaches B before return.
	// whole[b]: every path from the START of b does.
	firstB := make([]int, n) // index of first B or exempt in block, -1 if none
	for _, b := range fn.Blocks {
		firstB[b.Index] = -1
		for i, in := range b.Instrs {
			if isB(in) || (exempt != nil && exempt(in)) {
				firstB[b.Index] = i
				break
			}
		}
	}
	whole := make([]bool, n)
	for i := range whole {
		whole[i] = true
	}
	endOK := func(b *ssa.BasicBlock) bool {
		if len(b.Succs) == 0 {
			return isPanicExit(b) // return without B => false
		}
		for _, s := range b.Succs {
			if edgeExempt != nil && edgeExempt(b, s) {
				continue
			}
			if !whole[s.Index] {
				return false
			}
		}
		return true
	}
	changed := true
	for changed {
		changed = false
		for i := n - 1; i >= 0; i-- {
			b := fn.Blocks[i]
			v := firstB[i] >= 0 || endOK(b)
			if v != whole[i] {
				whole[i] = v
				changed = true
			}
		}
	}
	return func(from ssa.Instruction) bool {
		b := from.Block()
		seen := false
		for _, x := range b.Instrs {
			if x == from {
				seen = true
				continue
			}
			if seen && (isB(x) || (exempt != nil && exempt(x))) {
				return true
			}
		}
		return endOK(b)
	}
}

// AlwaysPerforms: every path from fn's entry to a normal return executes an
// instruction satisfying pred, where a call to a go-nfsd/go-journal function
// that itself always performs pred counts (depth-bounded, memoised by the
// caller-supplied cache).
type perfCache struct {
	p     *Program
	pred  func(ssa.Instruction) bool
	memo  map[*ssa.Function]int // 0 unknown, 1 in progress, 2 yes, 3 no
	depth int
}

func (p *Program) NewAlways(pred func(ssa.Instruction) bool) *perfCache {
	return &perfCache{p: p, pred: pred, memo: map[*ssa.Function]int{}, depth: 6}
}

// Instr reports whether executing in necessarily performs pred (directly or
// through an always-performing callee).
func (c *perfCache) Instr(in ssa.Instruction) bool {
	return c.instr(in, 0)
}

func (c *perfCache) instr(in ssa.Instruction, d int) bool {
	if c.pred(in) {
		return true
	}
	if _, ok := in.(*ssa.Call); !ok {
		return false
	}
	cs := c.p.Callees(in)
	if len(cs) == 0 {
		return false
	}
	for _, f := range cs {
		if !c.fn(f, d+1) {
			return false
		}
	}
	return true
}

func (c *perfCache) Func(f *ssa.Function) bool { return c.fn(f, 0) }

func (c *perfCache) fn(f *ssa.Function, d int) bool {
	if f == nil || f.Blocks == nil || d > c.depth {
		return false
	}
	switch c.memo[f] {
	case 1:
		return false
	case 2:
		return true
	case 3:
		return false
	}
	c.memo[f] = 1
	entry := f.Blocks[0].Instrs[0]
	is := func(in ssa.Instruction) bool { return c.instr(in, d) }
	ok := is(entry) || MustAfter(f, is, nil)(entry)
	if ok {
		c.memo[f] = 2
	} else {
		c.memo[f] = 3
	}
	return ok
}

// ---------------------------------------------------------------- values

func constInt(v ssa.Value) (int64, bool) {
	if c, ok := v.(*ssa.Const); ok && c.Value != nil && c.Value.Kind() == constant.Int {
		if i, ok := constant.Int64Val(c.Value); ok {
			return i, true
		}
		if u, ok := constant.Uint64Val(c.Value); ok {
			return int64(u), true
		}
	}
	return 0, false
}

func constBool(v ssa.Value) (bool, bool) {
	if c, ok := v.(*ssa.Const); ok && c.Value != nil && c.Value.Kind() == constant.Bool {
		return constant.BoolVal(c.Value), true
	}
	return false, false
}

func isNilConst(v ssa.Value) bool {
	c, ok := v.(*ssa.Const)
	return ok && c.Value == nil
}

// stripConv removes conversions / ChangeType wrappers and sees through
// single-assignment local cells (variables spilled by go/ssa because a
// closure captures them or their address is taken).
func stripConv(v ssa.Value) ssa.Value {
	for i := 0; i < 16; i++ {
		switch x := v.(type) {
		case *ssa.Convert:
			v = x.X
			continue
		case *ssa.ChangeType:
			v = x.X
			continue
		case *ssa.MakeInterface:
			// a go-nfsd object handed on as a value of an (unexported) interface type is still that object
			if n := derefNamed(x.X.Type()); n != nil && n.Obj().Pkg() != nil && (strings.HasPrefix(n.Obj().Pkg().Path(), modPath) || strings.HasPrefix(n.Obj().Pkg().Path(), jrnlPath)) {
				if _, isPtr := x.X.Type().Underlying().(*types.Pointer); isPtr {
					v = x.X
					continue
				}
			}
		case *ssa.ChangeInterface:
			v = x.X
			continue
		case *ssa.UnOp:
			if x.Op == token.MUL {
				if al, ok := x.X.(*ssa.Alloc); ok {
					if sv := singleStore(al); sv != nil {
						v = sv
						continue
					}
				}
				if ia, ok := x.X.(*ssa.IndexAddr); ok {
					if c := canonElem(x, ia); c != nil && c != ssa.Value(x) {
						return c
					}
				}
				if fa, ok := x.X.(*ssa.FieldAddr); ok {
					if cv := ctxField(fa, fa.X); cv != nil {
						v = cv
						continue
					}
				}
			}
		}
		return v
	}
	return v
}

// canonX is stripConv extended across one call boundary: a parameter of a
// private helper with exactly one call site is replaced by the argument passed
// there (use only for value identity, never for CFG reasoning).
func canonX(v ssa.Value) ssa.Value {
	for i := 0; i < 6; i++ {
		v = stripConv(v)
		p, ok := v.(*ssa.Parameter)
		if !ok {
			return v
		}
		a := uniqueArg(p)
		if a == nil {
			return v
		}
		v = a
	}
	return v
}

// staticSites: every static call site of every go-nfsd function, built once per program.
var staticSites map[*ssa.Function][]ssa.CallInstruction

// fieldWriteIdx: every store to a field of a go-nfsd struct type, by "type.field" (built with staticSites).
var fieldWriteIdx map[string][]FieldWrite

// ctxField: the value of field fa of the local struct base (an Alloc: the context object of a function that was
// split into phases) when the field is written exactly once in the whole program, at the construction of this
// very object.
func ctxField(fa *ssa.FieldAddr, base ssa.Value) ssa.Value {
	al, ok := base.(*ssa.Alloc)
	if !ok || fieldWriteIdx == nil {
		return nil
	}
	n := derefNamed(al.Type())
	if n == nil {
		return nil
	}
	st, ok := n.Underlying().(*types.Struct)
	if !ok || fa.Field >= st.NumFields() {
		return nil
	}
	ws := fieldWriteIdx[n.Obj().Pkg().Path()+"."+n.Obj().Name()+"."+st.Field(fa.Field).Name()]
	if len(ws) != 1 || ws[0].Element || ws[0].Val == nil {
		return nil
	}
	wb := ws[0].Base
	for i := 0; i < 4; i++ {
		switch x := wb.(type) {
		case *ssa.Convert:
			wb = x.X
			continue
		case *ssa.ChangeType:
			wb = x.X
			continue
		}
		break
	}
	if wb != ssa.Value(al) {
		return nil
	}
	// the object must not be re-made in a loop around its users (one construction, then use)
	return ws[0].Val
}

func buildStaticSites(p *Program) {
	theProg = p
	fieldWriteIdx = map[string][]FieldWrite{}
	for _, fn := range p.RepoFuncs() {
		for _, w := range FieldWrites(fn) {
			if w.Type != nil && w.Type.Obj().Pkg() != nil {
				k := w.Type.Obj().Pkg().Path() + "." + w.Type.Obj().Name() + "." + w.Field
				fieldWriteIdx[k] = append(fieldWriteIdx[k], w)
			}
		}
	}
	staticSites = map[*ssa.Function][]ssa.CallInstruction{}
	for _, fn := range p.RepoFuncs() {
		for _, b := range fn.Blocks {
			for _, in := range b.Instrs {
				if ci, ok := in.(ssa.CallInstruction); ok {
					if cal := ci.Common().StaticCallee(); cal != nil && IsRepoFunc(cal) {
						staticSites[cal] = append(staticSites[cal], ci)
					}
				}
			}
		}
	}
}

func isPrivateHelper(fn *ssa.Function) bool {
	if fn == nil || fn.Parent() != nil {
		return false
	}
	o := fn.Object()
	if o == nil && fn.Origin() != nil {
		o = fn.Origin().Object() // an instance of a generic helper
	}
	return o != nil && !o.Exported()
}

// uniqueArg: for a parameter of an unexported function that has exactly one
// (static, non-go/defer) call site and is never used as a value, the argument
// passed there.
func uniqueArg(p *ssa.Parameter) ssa.Value {
	fn := p.Parent()
	if !isPrivateHelper(fn) || staticSites == nil {
		return nil
	}
	sites := staticSites[fn]
	if len(sites) != 1 {
		return nil
	}
	call, ok := sites[0].(*ssa.Call)
	if !ok || call.Parent() == fn {
		return nil
	}
	// the function must not escape as a value (method values, closures): only called
	if fn.Referrers() != nil {
		for _, r := range *fn.Referrers() {
			if ci, ok := r.(ssa.CallInstruction); !ok || ci.Common().Value != ssa.Value(fn) {
				return nil
			}
		}
	}
	for i, q := range fn.Params {
		if q == p && i < len(call.Call.Args) {
			return call.Call.Args[i]
		}
	}
	return nil
}

// actsFor: fn is one of the allowed functions, or a private helper / closure
// all of whose callers act for an allowed function (a block of statements
// extracted from it).
func actsFor(p *Program, fn *ssa.Function, allowed func(*ssa.Function) bool, depth int) bool {
	if fn == nil {
		return false
	}
	if allowed(fn) {
		return true
	}
	if depth > 3 {
		return false
	}
	if fn.Parent() != nil {
		return actsFor(p, fn.Parent(), allowed, depth+1)
	}
	if !isPrivateHelper(fn) {
		return false
	}
	sites := staticSites[fn]
	if len(sites) == 0 {
		return false
	}
	for _, s := range sites {
		if !actsFor(p, s.Parent(), allowed, depth+1) {
			return false
		}
	}
	return true
}

// ownerOf: the function a private single-caller helper (or closure) acts for;
// used for construct keys so that extracting a helper does not move a finding.
func ownerOf(fn *ssa.Function) *ssa.Function {
	for i := 0; i < 3; i++ {
		if fn == nil {
			return nil
		}
		if fn.Parent() != nil {
			fn = fn.Parent()
			continue
		}
		if !isPrivateHelper(fn) {
			return fn
		}
		sites := staticSites[fn]
		if len(sites) == 0 {
			return fn
		}
		owner := sites[0].Parent()
		for _, s := range sites {
			if s.Parent() != owner {
				return fn
			}
		}
		if owner == fn {
			return fn
		}
		fn = owner
	}
	return fn
}

var canonElemMemo = map[*ssa.Function]map[string]ssa.Value{}

// canonElem: loads s[k] (constant k) of a slice of inode pointers that is not
// stored into inside the function denote the same value; the first such load
// (in block order) is the representative.
func canonElem(ld *ssa.UnOp, ia *ssa.IndexAddr) ssa.Value {
	k, isk := constInt(ia.Index)
	if !isk || !isNamed(ld.Type(), "/inode", "Inode") {
		return nil
	}
	fn := ld.Parent()
	if fn == nil {
		return nil
	}
	m, ok := canonElemMemo[fn]
	if !ok {
		m = map[string]ssa.Value{}
		canonElemMemo[fn] = m
		written := map[ssa.Value]bool{}
		for _, b := range fn.Blocks {
			for _, in := range b.Instrs {
				if st, ok := in.(*ssa.Store); ok {
					if ia2, ok := st.Addr.(*ssa.IndexAddr); ok {
						written[stripConv(ia2.X)] = true
					}
				}
			}
		}
		for _, b := range fn.DomPreorder() {
			for _, in := range b.Instrs {
				u, ok := in.(*ssa.UnOp)
				if !ok || u.Op != token.MUL {
					continue
				}
				ia2, ok := u.X.(*ssa.IndexAddr)
				if !ok {
					continue
				}
				k2, isk2 := constInt(ia2.Index)
				if !isk2 || !isNamed(u.Type(), "/inode", "Inode") {
					continue
				}
				base := stripConv(ia2.X)
				if written[base] {
					continue
				}
				key := fmt.Sprintf("%p|%d", base, k2)
				if _, ok := m[key]; !ok {
					m[key] = u
				}
			}
		}
	}
	return m[fmt.Sprintf("%p|%d", stripConv(ia.X), k)]
}

var singleStoreMemo = map[*ssa.Alloc]ssa.Value{}
var singleStoreDone = map[*ssa.Alloc]bool{}

// singleStore: the unique value ever stored into local cell al (nil if the
// cell is assigned more than once, or written by a closure).
func singleStore(al *ssa.Alloc) ssa.Value {
	if singleStoreDone[al] {
		return singleStoreMemo[al]
	}
	singleStoreDone[al] = true
	var val ssa.Value
	n := 0
	for _, in := range refs(al) {
		switch x := in.(type) {
		case *ssa.Store:
			if x.Addr == ssa.Value(al) {
				n++
				val = x.Val
			} else {
				return nil // the cell's address itself is stored somewhere
			}
		case *ssa.UnOp:
		case *ssa.MakeClosure:
			fn := x.Fn.(*ssa.Function)
			for i, b := range x.Bindings {
				if b == ssa.Value(al) && closureWrites(fn, fn.FreeVars[i]) {
					return nil
				}
			}
		case *ssa.FieldAddr, *ssa.IndexAddr:
			return nil // struct/array cell: fields may be written separately
		default:
			return nil
		}
	}
	if n != 1 {
		return nil
	}
	singleStoreMemo[al] = val
	return val
}

func closureWrites(fn *ssa.Function, fv *ssa.FreeVar) bool {
	for _, in := range refs(fv) {
		switch x := in.(type) {
		case *ssa.Store:
			if x.Addr == ssa.Value(fv) {
				return true
			}
		case *ssa.UnOp:
		case *ssa.MakeClosure:
			inner := x.Fn.(*ssa.Function)
			for i, b := range x.Bindings {
				if b == ssa.Value(fv) && closureWrites(inner, inner.FreeVars[i]) {
					return true
				}
			}
		default:
			return true
		}
	}
	return false
}

// derefNamed returns the named struct type behind T or *T.
func derefNamed(t types.Type) *types.Named {
	if pt, ok := t.Underlying().(*types.Pointer); ok {
		t = pt.Elem()
	}
	n, _ := types.Unalias(t).(*types.Named)
	return n
}

func isNamed(t types.Type, pkgPathSuffix, name string) bool {
	n := derefNamed(t)
	if n == nil || n.Obj().Pkg() == nil {
		return false
	}
	return n.Obj().Name() == name && strings.HasSuffix(n.Obj().Pkg().Path(), pkgPathSuffix)
}

// FieldOf: if addr is &x.f (FieldAddr), returns the struct's named type and
// field name.
func FieldOf(addr ssa.Value) (*types.Named, string, ssa.Value) {
	fa, ok := addr.(*ssa.FieldAddr)
	if !ok {
		return nil, "", nil
	}
	n := derefNamed(fa.X.Type())
	if n == nil {
		return nil, "", nil
	}
	st, ok := n.Underlying().(*types.Struct)
	if !ok {
		return nil, "", nil
	}
	// a field whose role was learnt from the function that fills it (vocab: the four bookkeeping lists of AllocTxn
	// by the primitive that appends to each): renamed, or regrouped into sub-structs of one type used twice
	if len(fieldAlias) > 0 {
		if inner, ok := fa.X.(*ssa.FieldAddr); ok {
			if on := derefNamed(inner.X.Type()); on != nil {
				if ost, isS := on.Underlying().(*types.Struct); isS {
					if al, has := fieldAlias[on.Obj().Name()+"."+ost.Field(inner.Field).Name()+"."+st.Field(fa.Field).Name()]; has {
						return on, al, inner.X
					}
				}
			}
		}
		if al, has := fieldAlias[n.Obj().Name()+"."+st.Field(fa.Field).Name()]; has {
			return n, al, fa.X
		}
	}
	// a field of a grouping struct (an unexported struct type that exists only as one by-value field, named or
	// embedded, of one other struct): the field belongs to the struct that holds the group
	if inner, ok := fa.X.(*ssa.FieldAddr); ok && isGroupingStruct(n) {
		if on, _, obase := FieldOf(inner); on != nil {
			return on, st.Field(fa.Field).Name(), obase
		}
	}
	return n, st.Field(fa.Field).Name(), fa.X
}

// fieldAlias: "Holder.field" or "Holder.outer.inner" -> the vocabulary name of the field (filled by resolveVocab).
var fieldAlias = map[string]string{}

var groupingMemo = map[*types.Named]int{}

// isGroupingStruct: n is an unexported go-nfsd struct type whose only use as a
// field type is one by-value field of one struct of its own package.
func isGroupingStruct(n *types.Named) bool {
	if v, ok := groupingMemo[n]; ok {
		return v == 1
	}
	groupingMemo[n] = 2
	if n.Obj().Pkg() == nil || n.Obj().Exported() || !strings.HasPrefix(n.Obj().Pkg().Path(), modPath) {
		return false
	}
	if _, ok := n.Underlying().(*types.Struct); !ok {
		return false
	}
	uses := 0
	sc := n.Obj().Pkg().Scope()
	for _, name := range sc.Names() {
		tn, ok := sc.Lookup(name).(*types.TypeName)
		if !ok {
			continue
		}
		st, ok := tn.Type().Underlying().(*types.Struct)
		if !ok {
			continue
		}
		for i := 0; i < st.NumFields(); i++ {
			ft := st.Field(i).Type()
			if types.Identical(ft, n) {
				uses++
			} else if derefNamed(ft) == n {
				return false // held by pointer somewhere: an object of its own
			}
		}
	}
	if uses == 1 {
		groupingMemo[n] = 1
		return true
	}
	return false
}

// FieldWrite describes a store into a struct field, or into an element of a
// slice/array/map held in a struct field.
type FieldWrite struct {
	Fn      *ssa.Function
	Instr   ssa.Instruction
	Type    *types.Named
	Field   string
	Base    ssa.Value // the struct pointer
	Val     ssa.Value // stored value (nil for map update / delete)
	Element bool      // store into an element reached through the field
}

// FieldWrites enumerates the stores of fn to fields of struct types.
func FieldWrites(fn *ssa.Function) []FieldWrite {
	var out []FieldWrite
	for _, b := range fn.Blocks {
		for _, in := range b.Instrs {
			switch x := in.(type) {
			case *ssa.Store:
				if n, f, base := FieldOf(x.Addr); n != nil {
					out = append(out, FieldWrite{Fn: fn, Instr: in, Type: n, Field: f, Base: base, Val: x.Val})
					continue
				}
				// nested: &x.f.g  (FieldAddr of FieldAddr) -> attribute to outer too
				if fa, ok := x.Addr.(*ssa.FieldAddr); ok {
					if n, f, base := FieldOf(fa.X); n != nil {
						out = append(out, FieldWrite{Fn: fn, Instr: in, Type: n, Field: f, Base: base, Val: x.Val, Element: true})
					}
				}
				if ia, ok := x.Addr.(*ssa.IndexAddr); ok {
					if n, f, base := fieldLoad(ia.X); n != nil {
						out = append(out, FieldWrite{Fn: fn, Instr: in, Type: n, Field: f, Base: base, Val: x.Val, Element: true})
					}
				}
			case *ssa.MapUpdate:
				if n, f, base := fieldLoad(x.Map); n != nil {
					out = append(out, FieldWrite{Fn: fn, Instr: in, Type: n, Field: f, Base: base, Element: true})
				}
			case *ssa.Call:
				if bi, ok := x.Call.Value.(*ssa.Builtin); ok && bi.Name() == "delete" {
					if n, f, base := fieldLoad(x.Call.Args[0]); n != nil {
						out = append(out, FieldWrite{Fn: fn, Instr: in, Type: n, Field: f, Base: base, Element: true})
					}
				}
			}
		}
	}
	return out
}

// fieldLoad: v is the value loaded from a struct field (*(&x.f)), or the
// address of an array field.
func fieldLoad(v ssa.Value) (*types.Named, string, ssa.Value) {
	switch x := v.(type) {
	case *ssa.UnOp:
		if x.Op == token.MUL {
			return FieldOf(x.X)
		}
	case *ssa.FieldAddr:
		return FieldOf(x)
	}
	return nil, "", nil
}

// FieldReads enumerates loads of struct fields (UnOp * of FieldAddr) and
// address-taking uses passed elsewhere.
type FieldRead struct {
	Fn    *ssa.Function
	Instr ssa.Instruction
	Type  *types.Named
	Field string
	Base  ssa.Value
	Addr  *ssa.FieldAddr
}

func FieldAddrs(fn *ssa.Function) []FieldRead {
	var out []FieldRead
	for _, b := range fn.Blocks {
		for _, in := range b.Instrs {
			if fa, ok := in.(*ssa.FieldAddr); ok {
				// the address of a grouping sub-struct taken only to reach one of its fields is a step on the way,
				// not an access (the field reached is listed under the holder)
				if gn := derefNamed(fa.Type()); gn != nil && isGroupingStruct(gn) {
					only := len(refs(fa)) > 0
					for _, r := range refs(fa) {
						if _, isFA := r.(*ssa.FieldAddr); !isFA {
							only = false
						}
					}
					if only {
						continue
					}
				}
				if n, f, base := FieldOf(fa); n != nil {
					out = append(out, FieldRead{Fn: fn, Instr: in, Type: n, Field: f, Base: base, Addr: fa})
				}
			}
		}
	}
	return out
}

// referrers that are not DebugRef
func refs(v ssa.Value) []ssa.Instruction {
	r := v.Referrers()
	if r == nil {
		return nil
	}
	var out []ssa.Instruction
	for _, in := range *r {
		if _, ok := in.(*ssa.DebugRef); ok {
			continue
		}
		out = append(out, in)
	}
	return out
}

// resultIsUsed reports whether the value of a call is consumed by something
// other than being dropped.
func resultIsUsed(c *ssa.Call) bool {
	return len(refs(c)) > 0
}

// funcIs builds a predicate matching a set of functions.
func funcIs(fs ...*ssa.Function) func(*ssa.Function) bool {
	return func(f *ssa.Function) bool {
		for _, x := range fs {
			if x != nil && x == f {
				return true
			}
		}
		return false
	}
}

// callTo builds an instruction predicate: a call whose possible callees
// include one of fs (static callee only, for precision).
func callTo(fs ...*ssa.Function) func(ssa.Instruction) bool {
	return func(in ssa.Instruction) bool {
		if _, ok := in.(*ssa.Call); !ok {
			return false
		}
		c := staticCallee(in)
		if c == nil {
			return false
		}
		for _, f := range fs {
			if f == c {
				return true
			}
		}
		return false
	}
}

// ---------------------------------------------------------------- helper scopes

// Subst maps the parameters of a private helper to the arguments of one call
// site (composed across nesting).
type Subst map[ssa.Value]ssa.Value

// A Scope is a function body seen as part of an owner function: the owner
// itself (empty substitution) or a private helper statically called from it,
// once per call site.
type Scope struct {
	Fn  *ssa.Function
	S   Subst
	Via *ssa.Call // call site in the enclosing scope (nil for the owner)
	Up  *Scope    // the enclosing scope (nil for the owner)
}

func (s Subst) resolve(v ssa.Value) ssa.Value {
	for i := 0; i < 6; i++ {
		v = stripConv(v)
		switch x := v.(type) {
		case *ssa.Parameter, *ssa.FreeVar:
			a, ok := s[v]
			if !ok {
				return v
			}
			v = a
			continue
		case *ssa.UnOp:
			// a field of a context object handed down as a parameter: the value it was constructed with
			if x.Op == token.MUL {
				if fa, ok := x.X.(*ssa.FieldAddr); ok {
					if _, isParam := fa.X.(*ssa.Parameter); isParam {
						if cv := ctxField(fa, s.resolve(fa.X)); cv != nil {
							v = cv
							continue
						}
					}
				}
			}
			// load through a variable captured by reference: the cell of the enclosing function
			if x.Op == token.MUL {
				if fv, ok := x.X.(*ssa.FreeVar); ok {
					if a, ok := s[fv]; ok {
						if al, ok := a.(*ssa.Alloc); ok {
							if st := singleStore(al); st != nil {
								v = st
								continue
							}
						}
					}
				}
			}
		}
		return v
	}
	return v
}

// scopesOf: f plus the bodies of the unexported go-nfsd functions it calls
// statically (depth <= 2), one scope per call site.
func scopesOf(f *ssa.Function) []Scope {
	out := []Scope{{Fn: f, S: Subst{}}}
	var rec func(sc Scope, d int)
	rec = func(sc Scope, d int) {
		if d >= 3 {
			return
		}
		for _, b := range sc.Fn.Blocks {
			for _, in := range b.Instrs {
				call, ok := in.(*ssa.Call)
				if !ok {
					continue
				}
				h := call.Call.StaticCallee()
				var mc *ssa.MakeClosure
				if h == nil {
					// a function literal handed down as an argument and invoked here ("eachNum(nums, func(n) {...})",
					// "withLock(inum, func() {...})"): the parameter stands for the literal the owner passed
					if pm, isP := call.Call.Value.(*ssa.Parameter); isP {
						switch lit := sc.S.resolve(pm).(type) {
						case *ssa.MakeClosure:
							if lf, ok := lit.Fn.(*ssa.Function); ok {
								h, mc = lf, lit
							}
						case *ssa.Function:
							// a function literal without captures, or a named go-nfsd function handed down as the body
							if lit.Parent() != nil || (IsRepoFunc(lit) && lit.Blocks != nil) {
								h = lit
							}
						}
					}
					if h == nil || h == f || h == sc.Fn || h.Blocks == nil {
						continue
					}
					s := Subst{}
					for k, v := range sc.S {
						s[k] = v
					}
					for i, p := range h.Params {
						if i < len(call.Call.Args) {
							s[p] = sc.S.resolve(call.Call.Args[i])
						}
					}
					if mc != nil {
						for i, fv := range h.FreeVars {
							if i < len(mc.Bindings) {
								s[fv] = sc.S.resolve(mc.Bindings[i])
							}
						}
					}
					up := sc
					n := Scope{Fn: h, S: s, Via: call, Up: &up}
					out = append(out, n)
					rec(n, d+1)
					continue
				}
				if h == f || h == sc.Fn || !IsRepoFunc(h) || h.Blocks == nil {
					continue
				}
				// an unexported function, or a closure made in this scope (a local helper for a repeated block)
				if h.Parent() != nil {
					if h.Parent() != sc.Fn {
						continue
					}
					mc, _ = call.Call.Value.(*ssa.MakeClosure)
					if mc == nil {
						// the closure kept in a local variable
						if st, ok := stripConv(call.Call.Value).(*ssa.MakeClosure); ok {
							mc = st
						}
					}
					if mc == nil && len(h.FreeVars) > 0 {
						continue
					}
				} else if !isPrivateHelper(h) {
					continue
				}
				s := Subst{}
				for k, v := range sc.S {
					s[k] = v
				}
				for i, p := range h.Params {
					if i < len(call.Call.Args) {
						s[p] = sc.S.resolve(call.Call.Args[i])
					}
				}
				if mc != nil {
					for i, fv := range h.FreeVars {
						if i < len(mc.Bindings) {
							s[fv] = sc.S.resolve(mc.Bindings[i])
						}
					}
				}
				up := sc
				n := Scope{Fn: h, S: s, Via: call, Up: &up}
				out = append(out, n)
				rec(n, d+1)
			}
		}
	}
	rec(out[0], 0)
	return out
}

// loadedFieldS is loadedField under a substitution.
func loadedFieldS(v ssa.Value, s Subst) (*types.Named, string, ssa.Value, bool) {
	v = s.resolve(v)
	if u, ok := v.(*ssa.UnOp); ok && u.Op == token.MUL {
		if ia, ok := u.X.(*ssa.IndexAddr); ok {
			if n, f, base := fieldLoad(s.resolve(ia.X)); n != nil {
				return n, f, s.resolve(base), true
			}
		}
	}
	if ix, ok := v.(*ssa.Index); ok {
		if n, f, base := fieldLoad(s.resolve(ix.X)); n != nil {
			return n, f, s.resolve(base), true
		}
	}
	return loadedField(v)
}

// NewAlwaysInstr: an instruction predicate "executing in necessarily performs
// pred" (pred itself, or a call of a function that always performs it).
func NewAlwaysInstr(p *Program, pred func(ssa.Instruction) bool) func(ssa.Instruction) bool {
	a := p.NewAlways(pred)
	return a.Instr
}

// derefType: the element type of a pointer type (t itself otherwise).
func derefType(t types.Type) types.Type {
	if p, ok := t.Underlying().(*types.Pointer); ok {
		return p.Elem()
	}
	return t
}

// partOf: fn is target, or a private helper / function literal that belongs
// to target through the chain of its single callers.
func partOf(fn, target *ssa.Function) bool {
	for i := 0; i < 4 && fn != nil; i++ {
		if fn == target {
			return true
		}
		if fn.Parent() != nil {
			fn = fn.Parent()
			continue
		}
		if !isPrivateHelper(fn) {
			return false
		}
		sites := staticSites[fn]
		if len(sites) == 0 {
			return false
		}
		owner := sites[0].Parent()
		for _, s := range sites {
			if s.Parent() != owner {
				return false
			}
		}
		if owner == fn {
			return false
		}
		fn = owner
	}
	return false
}

// paramM: parameter i of fn counted as in its method form (0 = the receiver):
// an unexported method that does not use its receiver may be written as a plain
// function, whose parameters are then shifted by one.
func paramM(fn *ssa.Function, i int) ssa.Value {
	if fn.Signature.Recv() == nil {
		i--
	}
	if i < 0 || i >= len(fn.Params) {
		return nil
	}
	return fn.Params[i]
}
