package main

// E9: symbolic normal form of small arithmetic expressions.
//
// The layout rules (C15.K1/K2/K4, C08.G1) state what a function *computes*
// ("DataStart = InodeStart + nInodeBlk"), not how it is spelt.  sym renders the
// SSA value as a canonical expression string: conversions removed, constants
// folded, + and * flattened and sorted, loads of single-assignment cells and of
// fields of a freshly built object forwarded to the value stored, and calls of
// small pure go-nfsd helpers (straight-line functions that only compute)
// replaced by the helper's result under the substitution of its parameters.

import (
	"fmt"
	"go/constant"
	"go/token"
	"go/types"
	"sort"
	"strings"

	"golang.org/x/tools/go/ssa"
)

type symCtx struct {
	recv  ssa.Value // the receiver of the function under analysis, rendered as "recv"
	depth int
}

func symOf(fn *ssa.Function, v ssa.Value) string {
	var r ssa.Value
	if len(fn.Params) > 0 {
		r = fn.Params[0]
	}
	return sym(&symCtx{recv: r}, v, Subst{}, 0)
}

// pureHelper: a go-nfsd function whose body is one basic block that only
// computes (arithmetic, field loads, conversions, calls of other pure helpers)
// and returns.
func pureHelper(fn *ssa.Function) bool {
	if fn == nil || !IsRepoFunc(fn) || len(fn.Blocks) != 1 {
		return false
	}
	for _, in := range fn.Blocks[0].Instrs {
		switch x := in.(type) {
		case *ssa.BinOp, *ssa.UnOp, *ssa.Convert, *ssa.ChangeType, *ssa.FieldAddr, *ssa.Field, *ssa.Return, *ssa.DebugRef, *ssa.Extract:
		case *ssa.Call:
			cal := x.Call.StaticCallee()
			if cal == nil || cal == fn || !(pureHelper(cal) || extPure(cal)) {
				return false
			}
		default:
			return false
		}
	}
	return true
}

func sym(c *symCtx, v ssa.Value, sub Subst, d int) string {
	if d > 12 || v == nil {
		return "?"
	}
	v = stripConv(v)
	if a, ok := sub[v]; ok {
		return sym(c, a, sub, d+1)
	}
	if v == c.recv && c.recv != nil {
		return "recv"
	}
	switch x := v.(type) {
	case *ssa.Const:
		if x.Value == nil {
			return "nil"
		}
		if x.Value.Kind() == constant.Int {
			return x.Value.ExactString()
		}
		return x.Value.String()
	case *ssa.Parameter:
		return "param:" + x.Name()
	case *ssa.BinOp:
		a, b := sym(c, x.X, sub, d+1), sym(c, x.Y, sub, d+1)
		switch x.Op {
		case token.ADD, token.MUL:
			opS := "+"
			unit := "0"
			if x.Op == token.MUL {
				opS, unit = "*", "1"
			}
			var parts []string
			for _, p := range []string{a, b} {
				// flatten nested same-operator terms
				if strings.HasPrefix(p, "("+opS+" ") {
					parts = append(parts, splitTop(p[len(opS)+2:len(p)-1])...)
				} else {
					parts = append(parts, p)
				}
			}
			// fold constants
			acc := int64(0)
			if x.Op == token.MUL {
				acc = 1
			}
			var rest []string
			for _, p := range parts {
				var k int64
				if _, err := fmt.Sscanf(p, "%d", &k); err == nil && fmt.Sprint(k) == p {
					if x.Op == token.ADD {
						acc += k
					} else {
						acc *= k
					}
				} else {
					rest = append(rest, p)
				}
			}
			sort.Strings(rest)
			if fmt.Sprint(acc) != unit || len(rest) == 0 {
				rest = append([]string{fmt.Sprint(acc)}, rest...)
			}
			if len(rest) == 1 {
				return rest[0]
			}
			return "(" + opS + " " + strings.Join(rest, " ") + ")"
		default:
			return "(" + x.Op.String() + " " + a + " " + b + ")"
		}
	case *ssa.UnOp:
		if x.Op == token.MUL {
			// load
			if fa, ok := x.X.(*ssa.FieldAddr); ok {
				name := fieldNameAt(fa)
				// store-to-load forwarding for an object built in this function
				if st := forwardedStore(fa, x); st != nil {
					return sym(c, st, sub, d+1)
				}
				// a struct parameter spilled into a local: the field of the value stored into the local
				if al, ok := stripConv(fa.X).(*ssa.Alloc); ok {
					if w := wholeStore(al); w != nil {
						return symField(c, w, fa.Field, sub, d+1)
					}
				}
				// a field of a by-value sub-struct is a field of the holder (fields regrouped into a nested struct)
				base := fa.X
				for {
					inner, isF := base.(*ssa.FieldAddr)
					if !isF {
						break
					}
					if _, isS := derefType(inner.Type()).Underlying().(*types.Struct); !isS {
						break
					}
					base = inner.X
				}
				return "field(" + sym(c, base, sub, d+1) + "." + name + ")"
			}
			return "load(" + sym(c, x.X, sub, d+1) + ")"
		}
		return "(" + x.Op.String() + " " + sym(c, x.X, sub, d+1) + ")"
	case *ssa.Field:
		return symField(c, x.X, x.Field, sub, d)
	case *ssa.Alloc:
		return "new:" + x.Name()
	case *ssa.Extract:
		if cl, ok := x.Tuple.(*ssa.Call); ok {
			return symCall(c, cl, x.Index, sub, d)
		}
		return "?"
	case *ssa.Call:
		return symCall(c, x, 0, sub, d)
	}
	return "?" + v.Name()
}

func splitTop(s string) []string {
	var out []string
	depth, start := 0, 0
	for i, ch := range s {
		switch ch {
		case '(':
			depth++
		case ')':
			depth--
		case ' ':
			if depth == 0 {
				out = append(out, s[start:i])
				start = i + 1
			}
		}
	}
	out = append(out, s[start:])
	return out
}

func symCall(c *symCtx, cl *ssa.Call, idx int, sub Subst, d int) string {
	cc := cl.Call
	if cc.IsInvoke() {
		return "invoke:" + cc.Method.Name() + "(" + sym(c, cc.Value, sub, d+1) + ")"
	}
	if bi, ok := cc.Value.(*ssa.Builtin); ok {
		var as []string
		for _, a := range cc.Args {
			as = append(as, sym(c, a, sub, d+1))
		}
		return bi.Name() + "(" + strings.Join(as, ",") + ")"
	}
	cal := cc.StaticCallee()
	if cal == nil {
		return "?call"
	}
	if pureHelper(cal) && d < 8 {
		// replace by the helper's result under the substitution of its parameters; a method helper that is
		// called on our own receiver keeps "recv"
		s2 := Subst{}
		for k, v := range sub {
			s2[k] = v
		}
		args := cc.Args
		isAccessor := len(cal.Params) == 1 && len(args) == 1 && cal.Signature.Recv() != nil
		if !isAccessor {
			for i, p := range cal.Params {
				if i < len(args) {
					s2[p] = args[i]
				}
			}
			for _, in := range cal.Blocks[0].Instrs {
				if r, ok := in.(*ssa.Return); ok && idx < len(r.Results) {
					// arguments are values of the caller: render them in the caller's context first
					s3 := Subst{}
					for k, v := range s2 {
						s3[k] = v
					}
					return sym(c, r.Results[idx], s3, d+1)
				}
			}
		}
	}
	var as []string
	for _, a := range cc.Args {
		as = append(as, sym(c, a, sub, d+1))
	}
	name := cal.Name()
	if cal.Signature.Recv() != nil && len(as) > 0 {
		return "call:" + name + "(" + strings.Join(as, ",") + ")"
	}
	return "call:" + relPkg(cal) + "." + name + "(" + strings.Join(as, ",") + ")"
}

// forwardedStore: the load ld of field fa of an object allocated in the same
// function reads the unique value stored to that field of that object, when
// that store dominates the load.
func forwardedStore(fa *ssa.FieldAddr, ld *ssa.UnOp) ssa.Value {
	base := stripConv(fa.X)
	al, ok := base.(*ssa.Alloc)
	if !ok {
		return nil
	}
	var val ssa.Value
	var at ssa.Instruction
	n := 0
	for _, r := range refs(al) {
		if fa2, ok := r.(*ssa.FieldAddr); ok && fa2.Field == fa.Field {
			for _, r2 := range refs(fa2) {
				if st, ok := r2.(*ssa.Store); ok && st.Addr == ssa.Value(fa2) {
					val, at = st.Val, st
					n++
				}
			}
		}
	}
	if n != 1 || at.Block() == nil || ld.Block() == nil {
		return nil
	}
	if at.Block() == ld.Block() {
		for _, in := range at.Block().Instrs {
			if in == at {
				return val
			}
			if in == ssa.Instruction(ld) {
				return nil
			}
		}
	}
	if at.Block().Dominates(ld.Block()) {
		return val
	}
	return nil
}

// symField: field idx of the struct value v, seen through parameter
// substitution and a composite literal built in place.
func symField(c *symCtx, v ssa.Value, idx int, sub Subst, d int) string {
	inner := stripConv(v)
	for i := 0; i < 4; i++ {
		a, ok := sub[inner]
		if !ok {
			break
		}
		inner = stripConv(a)
	}
	if ld, ok := inner.(*ssa.UnOp); ok && ld.Op == token.MUL {
		if al, ok := ld.X.(*ssa.Alloc); ok {
			var val ssa.Value
			n := 0
			for _, r := range refs(al) {
				if fa, ok := r.(*ssa.FieldAddr); ok && fa.Field == idx {
					for _, r2 := range refs(fa) {
						if st, ok := r2.(*ssa.Store); ok && st.Addr == ssa.Value(fa) {
							val = st.Val
							n++
						}
					}
				}
			}
			if n == 1 {
				return sym(c, val, sub, d+1)
			}
		}
	}
	return fmt.Sprintf("field(%s.#%d)", sym(c, inner, sub, d+1), idx)
}

// wholeStore: the unique value stored into local al as a whole, when its
// fields are never stored individually (a struct parameter spilled by go/ssa).
func wholeStore(al *ssa.Alloc) ssa.Value {
	var val ssa.Value
	n := 0
	for _, r := range refs(al) {
		switch x := r.(type) {
		case *ssa.Store:
			if x.Addr == ssa.Value(al) {
				val = x.Val
				n++
			}
		case *ssa.FieldAddr:
			for _, r2 := range refs(x) {
				if st, ok := r2.(*ssa.Store); ok && st.Addr == ssa.Value(x) {
					return nil
				}
			}
		}
	}
	if n == 1 {
		return val
	}
	return nil
}

// extPure: functions of the journal library that only build a value from
// their arguments (address constructors); they stay calls in the normal form.
func extPure(fn *ssa.Function) bool {
	if fn == nil || fn.Pkg == nil || IsRepoFunc(fn) {
		return false
	}
	if fn.Pkg.Pkg.Path() == jrnlPath+"/addr" {
		return fn.Name() == "MkAddr" || fn.Name() == "MkBitAddr"
	}
	return false
}
