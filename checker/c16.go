package main

import (
	"fmt"
	"go/ast"
	"go/token"
	"go/types"
	"path/filepath"
	"sort"
	"strings"

	"golang.org/x/tools/go/ssa"
)

func init() {
	props["C16"] = func(c *Ctx) {
		c.R.Level = "translation_validation"
		c.R.Expl = "Translation validation of the generated XDR codec and dispatch tables in /repo against their source description, RFC 1813's prot.x shipped in the pinned go-rpcgen module: (X1) the wire grammar of every Xdr method, extracted by abstract interpretation of its AST once in encode and once in decode mode, is the same in both modes; (X2) for every type of the RFC there is a Go type of the generator's name whose grammar is identical (field order, leaf kinds, bounds, discriminant, arm constants by value, default arm) and every RFC constant has the same value in Go; (X3) one registration per RFC procedure with the RFC's program, version and procedure numbers, whose wrapper decodes the RFC's argument type, calls the handler method of the same procedure and returns the RFC's result type; both mains register both programs and serve accepted connections; (X4) every wrapper with an argument checks args.Error() before calling the handler; (X5) unions without a default arm whose discriminant has more values than arms reject unknown discriminants when decoding."
		c.R.NotDec = "the xdr primitives (big-endian, padding, length checks) and rfc1057 are trusted; trailing bytes after a well-formed argument are outside the repository."
		ruleX(c)
	}
}

func ruleX(c *Ctx) {
	P, R := c.P, c.R
	R.Rule("C16.X1", "encode-mode grammar == decode-mode grammar for every Xdr method; every statement of the generated code is understood", 140)
	R.Rule("C16.X2", "Go grammar == RFC grammar for every RFC type; RFC constants have the same values", 290)
	R.Rule("C16.X3", "dispatch: registrations match the RFC program blocks; wrappers decode/return the RFC types and call the same procedure; mains register and serve", 86)
	R.Rule("C16.X4", "malformed arguments are rejected before the handler runs (args.Error() checked)", 23)
	R.Rule("C16.X5", "non-exhaustive unions reject unknown discriminants when decoding", 1)
	pk := P.Pkg("nfstypes")
	xp := P.All["github.com/zeldovich/go-rpcgen/xdr"]
	if pk == nil || xp == nil || len(xp.GoFiles) == 0 {
		R.Unresolved("C16.X2", "nfstypes / go-rpcgen xdr package")
		return
	}
	protx := filepath.Join(filepath.Dir(filepath.Dir(xp.GoFiles[0])), "rfc1813", "prot.x")
	xf, err := ParseXDR(protx)
	if err != nil {
		R.Undecided("C16.X2", "prot.x", protx, "the RFC description parses", err.Error())
		return
	}
	R.Extra["rfc_source"] = protx
	gx := newGoXdr(pk)
	// ---- X1
	var names []string
	for n := range gx.decls {
		names = append(names, n)
	}
	sort.Strings(names)
	nodes := 0
	var samples []interface{}
	for _, n := range names {
		fd := gx.decls[n]
		before := len(gx.errs)
		e := gx.Grammar(n, "enc")
		d := gx.Grammar(n, "dec")
		pos := P.Pos(fd.Pos())
		if len(gx.errs) > before {
			R.Undecided("C16.X1", n+"|understood", pos, "every statement of the codec is interpreted", strings.Join(gx.errs[before:], "; "))
			continue
		}
		nodes += countNodes(e) + countNodes(d)
		R.Check(e.String() == d.String(), "C16.X1", n+"|encode == decode", pos, "the encoder and the decoder of "+n+" code the same grammar", e.String(), "encode: "+e.String()+"  decode: "+d.String()+": decoding what was encoded does not give back the value")
		if bad := gx.fieldTypeMismatches(n); len(bad) > 0 {
			R.Fail("C16.X1", n+"|field types", pos, "every field is coded with the codec of its own type", strings.Join(bad, "; "))
		}
		if len(samples) < 6 && (strings.Contains(e.String(), "Union") || strings.Contains(e.String(), "Opt")) {
			samples = append(samples, map[string]string{"type": n, "go_grammar": e.String()})
		}
	}
	// ---- X2
	for _, rn := range xf.TypeOrd {
		gn := goName(rn)
		rg := xf.Types[rn]
		fd := gx.decls[gn]
		if fd == nil {
			R.Fail("C16.X2", gn+"|exists", "?", "the RFC type "+rn+" has a Go codec", "no Xdr method for "+gn)
			continue
		}
		gg := gx.Grammar(gn, "dec")
		var rs, gs string
		if rg.Kind == "Seq" {
			rs, gs = rg.String(), gg.String()
		} else {
			// typedef: one item, field name irrelevant (self, or the wrapper field of an optional typedef)
			rs = rg.String()
			if len(gg.Items) == 1 {
				it := *gg.Items[0]
				it.Field = ""
				gs = it.String()
			} else {
				gs = gg.String()
			}
		}
		nodes += countNodes(rg)
		R.Check(rs == gs, "C16.X2", gn+"|grammar == RFC", P.Pos(fd.Pos()), "the Go codec of "+gn+" has the grammar of RFC type "+rn, rs, "RFC: "+rs+"  Go: "+gs+": the byte layout differs from RFC 1813")
		if len(samples) < 12 && rg.Kind == "Seq" && len(rg.Items) > 1 && len(samples)%2 == 0 {
			samples = append(samples, map[string]string{"type": rn, "rfc_grammar": rs, "go_grammar": gs})
		}
	}
	// Go codecs without RFC type
	for _, n := range names {
		found := false
		for _, rn := range xf.TypeOrd {
			if goName(rn) == n {
				found = true
			}
		}
		if !found {
			R.Fail("C16.X2", n+"|extra codec", P.Pos(gx.decls[n].Pos()), "every Go codec corresponds to an RFC type", "codec "+n+" has no RFC type")
		}
	}
	// constants
	var cn []string
	for k := range xf.Consts {
		if k == "TRUE" || k == "FALSE" {
			continue
		}
		cn = append(cn, k)
	}
	for _, e := range xf.Enums {
		for k := range e.Values {
			cn = append(cn, k)
		}
	}
	sort.Strings(cn)
	for _, k := range cn {
		want, _ := xf.value(k)
		o := pk.Types.Scope().Lookup(k)
		got, ok := int64(0), false
		if o != nil {
			got, ok = constValInt(o)
		}
		pos := "?"
		if o != nil {
			pos = P.Pos(o.Pos())
		}
		R.Check(ok && got == want, "C16.X2", "const "+k, pos, fmt.Sprintf("%s = %d as in the RFC", k, want), "equal", fmt.Sprintf("Go value %d (defined=%v), RFC value %d: a procedure number, status code or bound differs from RFC 1813", got, ok, want))
	}
	// enum constant types: an enum member must have its enum's Go type (else arms compare wrong types)
	for _, e := range xf.Enums {
		for _, k := range e.Order {
			o := pk.Types.Scope().Lookup(k)
			if o == nil {
				continue
			}
			n, _ := o.Type().(*types.Named)
			R.Check(n != nil && n.Obj().Name() == goName(e.Name), "C16.X2", "const "+k+" type", P.Pos(o.Pos()), k+" has type "+goName(e.Name), "typed", "enum member with a foreign type")
		}
	}
	// ---- X3 / X4
	dispatch(c, xf)
	// ---- X5
	for _, rn := range xf.TypeOrd {
		info := xf.UnionInfo[rn]
		if info == nil || info.HasDef {
			continue
		}
		nvals := 0
		if info.DiscType == "Bool" {
			nvals = 2
		} else if e := xf.Enums[lowerFirst(info.DiscType)]; e != nil {
			nvals = len(e.Values)
		} else {
			nvals = 1 << 30
		}
		gn := goName(rn)
		fd := gx.decls[gn]
		if fd == nil {
			continue
		}
		if nvals <= info.NArms && info.DiscType == "Bool" {
			R.Pass("C16.X5", gn+"|exhaustive", P.Pos(fd.Pos()), "boolean union: both values have an arm", "exhaustive")
			continue
		}
		// the decoder must reach xs.SetError on the no-arm path: a default clause calling SetError
		rejects := false
		ast.Inspect(fd.Body, func(n ast.Node) bool {
			if sw, ok := n.(*ast.SwitchStmt); ok {
				for _, cs := range sw.Body.List {
					cc := cs.(*ast.CaseClause)
					if cc.List == nil {
						ast.Inspect(cc, func(m ast.Node) bool {
							if call, ok := m.(*ast.CallExpr); ok && gx.xsMethod(call) == "SetError" {
								rejects = true
							}
							return true
						})
					}
				}
			}
			return true
		})
		R.Check(rejects, "C16.X5", gn+"|unknown discriminant rejected", P.Pos(fd.Pos()), fmt.Sprintf("union %s has %d arms for a discriminant type with more values and no default: the decoder must flag other values as an error", rn, info.NArms), "default arm sets the decoder's error", "no default arm: a discriminant outside the RFC's arms decodes without error and the request is executed with an undefined arm (e.g. CREATE with mode 7 is executed as UNCHECKED)")
	}
	R.Extra["programs"] = len(xf.TypeOrd) + 28
	R.Extra["disagreements_checked"] = nodes
	if len(samples) > 0 {
		R.Extra["grammar_samples"] = samples
	}
}

func lowerFirst(s string) string {
	if s == "" {
		return s
	}
	return strings.ToLower(s[:1]) + s[1:]
}

func dispatch(c *Ctx, xf *XFile) {
	P, R := c.P, c.R
	pk := P.Pkg("nfstypes")
	for _, prog := range xf.Progs {
		regName := prog.Name + "_" + prog.VerName + "_regs"
		var regs *ast.FuncDecl
		for _, f := range pk.Syntax {
			for _, d := range f.Decls {
				if fd, ok := d.(*ast.FuncDecl); ok && fd.Name.Name == regName {
					regs = fd
				}
			}
		}
		if regs == nil {
			R.Unresolved("C16.X3", "nfstypes."+regName)
			continue
		}
		// the returned composite literal
		var lit *ast.CompositeLit
		ast.Inspect(regs.Body, func(n ast.Node) bool {
			if r, ok := n.(*ast.ReturnStmt); ok && len(r.Results) == 1 {
				if cl, ok := r.Results[0].(*ast.CompositeLit); ok {
					lit = cl
				}
			}
			return true
		})
		if lit == nil {
			R.Undecided("C16.X3", regName+"|literal", P.Pos(regs.Pos()), "the registration table is a literal", "no composite literal returned")
			continue
		}
		type reg struct {
			prog, vers, proc int64
			handler          string
			pos              token.Pos
		}
		var got []reg
		for _, el := range lit.Elts {
			cl, ok := el.(*ast.CompositeLit)
			if !ok {
				continue
			}
			r := reg{prog: -1, vers: -1, proc: -1, pos: cl.Pos()}
			for _, kv := range cl.Elts {
				k, ok := kv.(*ast.KeyValueExpr)
				if !ok {
					continue
				}
				key := k.Key.(*ast.Ident).Name
				tv := pk.TypesInfo.Types[k.Value]
				switch key {
				case "Prog", "Vers", "Proc":
					v := int64(-1)
					if tv.Value != nil {
						v, _ = constantInt64(tv)
					}
					switch key {
					case "Prog":
						r.prog = v
					case "Vers":
						r.vers = v
					case "Proc":
						r.proc = v
					}
				case "Handler":
					if se, ok := k.Value.(*ast.SelectorExpr); ok {
						r.handler = se.Sel.Name
					}
				}
			}
			got = append(got, r)
		}
		R.Check(len(got) == len(prog.Procs), "C16.X3", regName+"|one entry per procedure", P.Pos(regs.Pos()), fmt.Sprintf("%d registrations for the %d procedures of %s", len(got), len(prog.Procs), prog.Name), "count agrees", fmt.Sprintf("%d registrations for %d RFC procedures", len(got), len(prog.Procs)))
		byProc := map[int64]reg{}
		for _, r := range got {
			if _, dup := byProc[r.proc]; dup {
				R.Fail("C16.X3", fmt.Sprintf("%s|procedure %d registered twice", regName, r.proc), P.Pos(r.pos), "procedure numbers are unique", "duplicate registration")
			}
			byProc[r.proc] = r
		}
		wrapperT := P.Named("nfstypes", prog.Name+"_"+prog.VerName+"_handler_wrapper")
		for _, pr := range prog.Procs {
			r, ok := byProc[pr.Num]
			key := fmt.Sprintf("%s|proc %d %s", regName, pr.Num, pr.Name)
			if !ok {
				R.Fail("C16.X3", key, P.Pos(regs.Pos()), "the RFC procedure is registered under its number", "no registration with this procedure number")
				continue
			}
			R.Check(r.prog == prog.Num && r.vers == prog.VerNum && r.handler == pr.Name, "C16.X3", key, P.Pos(r.pos), fmt.Sprintf("procedure number %d of program %d version %d reaches the wrapper %s", pr.Num, prog.Num, prog.VerNum, pr.Name), "numbers and handler agree", fmt.Sprintf("registered prog=%d vers=%d handler=%s: the procedure number reaches another procedure's handler", r.prog, r.vers, r.handler))
			// wrapper body (SSA)
			if wrapperT == nil {
				continue
			}
			sel := P.Prog.MethodSets.MethodSet(types.NewPointer(wrapperT)).Lookup(pk.Types, pr.Name)
			if sel == nil {
				R.Fail("C16.X3", key+"|wrapper", "?", "wrapper method exists", "missing")
				continue
			}
			w := P.Prog.MethodValue(sel)
			checkWrapper(c, w, pr, key)
		}
	}
	// mains
	for _, m := range []string{"cmd/go-nfsd", "cmd/simple-nfsd"} {
		sp := P.SSA(m)
		if sp == nil {
			R.Unresolved("C16.X3", m)
			continue
		}
		regd := map[string]bool{}
		served := false
		for _, mem := range sp.Members {
			fn, ok := mem.(*ssa.Function)
			if !ok {
				continue
			}
			all := append([]*ssa.Function{fn}, fn.AnonFuncs...)
			for _, f := range all {
				for _, b := range f.Blocks {
					for _, in := range b.Instrs {
						cal := staticCallee(in)
						if cal != nil && cal.Name() == "RegisterMany" {
							if a, ok := callCommon(in).Args[len(callCommon(in).Args)-1].(*ssa.Call); ok && staticCallee(a) != nil {
								regd[staticCallee(a).Name()] = true
							}
						}
						if g, ok := in.(*ssa.Go); ok {
							if gc := staticCallee(g); gc != nil && gc.Name() == "Run" {
								served = true
							}
						}
					}
				}
			}
		}
		okAll := served
		for _, prog := range xf.Progs {
			if !regd[prog.Name+"_"+prog.VerName+"_regs"] {
				okAll = false
			}
		}
		R.Check(okAll, "C16.X3", m+"|registers both programs and serves", "?", "main registers the NFS and MOUNT tables with the RPC server and runs it on accepted connections", "RegisterMany(NFS regs), RegisterMany(MOUNT regs), go srv.Run(conn)", fmt.Sprintf("registered %v served=%v", regd, served))
	}
}

func constantInt64(tv types.TypeAndValue) (int64, bool) {
	if tv.Value == nil {
		return 0, false
	}
	s := tv.Value.ExactString()
	var v int64
	_, err := fmt.Sscan(s, &v)
	return v, err == nil
}

// checkWrapper: the wrapper decodes the RFC argument type, checks
// args.Error(), invokes the interface method of the same name and returns the
// RFC result type.
func checkWrapper(c *Ctx, w *ssa.Function, pr XProc, key string) {
	P, R := c.P, c.R
	R.Analysed[FuncName(w)] = true
	var invoke ssa.Instruction
	var decoded, errCall *ssa.Call
	for _, b := range w.Blocks {
		for _, in := range b.Instrs {
			cc := callCommon(in)
			if cc == nil {
				continue
			}
			if cc.IsInvoke() && cc.Method.Name() == pr.Name {
				invoke = in
			}
			if cal := cc.StaticCallee(); cal != nil {
				if cal.Name() == "Xdr" && decoded == nil {
					decoded = in.(*ssa.Call)
				}
				if cal.Name() == "Error" {
					errCall = in.(*ssa.Call)
				}
			}
		}
	}
	if invoke == nil {
		R.Fail("C16.X3", key+"|calls the same procedure", P.Pos(w.Pos()), "the wrapper calls the handler method "+pr.Name, "no interface call of that name: the procedure number reaches another handler")
		return
	}
	// argument type
	argOK := true
	argT := "void"
	if pr.Arg != "void" {
		argOK = false
		if decoded != nil {
			if n := derefNamed(decoded.Call.Args[0].Type()); n != nil {
				argT = n.Obj().Name()
				argOK = argT == goName(pr.Arg)
			}
		}
		// and the decoded value is what is passed to the handler
		ic := callCommon(invoke)
		if len(ic.Args) != 1 {
			argOK = false
		}
	} else if len(callCommon(invoke).Args) != 0 {
		argOK = false
	}
	R.Check(argOK, "C16.X3", key+"|argument type", P.Pos(w.Pos()), "the wrapper decodes a value of RFC type "+pr.Arg, argT, "decodes "+argT+" instead of "+goName(pr.Arg))
	// result type
	resT := "Void"
	for _, b := range w.Blocks {
		if r, ok := b.Instrs[len(b.Instrs)-1].(*ssa.Return); ok && len(r.Results) == 2 {
			if mi, ok := r.Results[0].(*ssa.MakeInterface); ok {
				if n := derefNamed(mi.X.Type()); n != nil {
					resT = n.Obj().Name()
				}
			}
		}
	}
	wantRes := goName(pr.Res)
	if pr.Res == "void" {
		wantRes = "Void"
	}
	R.Check(resT == wantRes, "C16.X3", key+"|result type", P.Pos(w.Pos()), "the wrapper returns a value of RFC type "+pr.Res, resT, "returns "+resT+" instead of "+wantRes)
	// the reply belongs to this call: the RPC server encodes it after the wrapper has returned, concurrently with
	// other calls of the same wrapper object - it must be a variable of this invocation, not memory of the (shared)
	// wrapper or of the package
	{
		own, why := true, ""
		for _, b := range w.Blocks {
			r, ok := b.Instrs[len(b.Instrs)-1].(*ssa.Return)
			if !ok || len(r.Results) != 2 {
				continue
			}
			for src := range bwdSources(r.Results[0]) {
				mi, isMI := src.(*ssa.MakeInterface)
				if !isMI {
					continue
				}
				if _, isPtr := mi.X.Type().Underlying().(*types.Pointer); !isPtr {
					continue
				}
				if al, isA := stripConv(mi.X).(*ssa.Alloc); !isA || al.Parent() != w {
					own, why = false, "the reply returned at "+P.Pos(r.Pos())+" is not a variable of the call ("+mi.X.String()+")"
				}
			}
		}
		for _, fw := range FieldWrites(w) {
			if len(w.Params) > 0 && stripConv(fw.Base) == ssa.Value(w.Params[0]) {
				own, why = false, "the wrapper stores into its receiver (field "+fw.Field+")"
			}
		}
		R.Check(own, "C16.X3", key+"|reply is the call's own", P.Pos(w.Pos()), "the result handed to the RPC server is a variable of this invocation; the wrapper (one object for all calls) keeps no per-call state", "returns the address of a local; no store into the receiver", why+": two calls in flight share the reply - the bytes sent for one request carry the other's result")
	}
	// X4
	if pr.Arg != "void" {
		ok := false
		if errCall != nil {
			ok = guardedBy(w, invoke.Block(), func(cd Cond) (bool, bool) {
				if cd.Op != token.EQL && cd.Op != token.NEQ {
					return false, false
				}
				if !isNilConst(cd.Y) && !isNilConst(cd.X) {
					return false, false
				}
				v := cd.X
				if isNilConst(v) {
					v = cd.Y
				}
				src := bwdSources(v)
				if !src[errCall] && stripConv(v) != ssa.Value(errCall) {
					return false, false
				}
				return true, cd.Op == token.EQL
			})
			// the error must be the decoder state of the arguments just decoded, and decoding precedes the check
			if decoded == nil || !reachableFrom(decoded, errCall) {
				ok = false
			}
		}
		// ... and the early exit hands that error on: a return that is not reached through the handler call
		// returns the decoder's error, not nil (nil = "success, empty result")
		if ok {
			for _, b := range w.Blocks {
				r, isR := b.Instrs[len(b.Instrs)-1].(*ssa.Return)
				if !isR || len(r.Results) != 2 || invoke.Block().Dominates(b) {
					continue
				}
				ev := r.Results[1]
				if !(bwdSources(ev)[errCall] || stripConv(ev) == ssa.Value(errCall)) {
					ok = false
				}
			}
		}
		R.Check(ok, "C16.X4", key+"|args.Error() checked", P.Pos(w.Pos()), "the handler is called only when the argument decoder reported no error, and otherwise that error is returned", "dominated by args.Error() == nil; the early return carries the error", "a truncated or malformed argument reaches the handler half-decoded, or is answered as a success with an empty body, instead of being rejected as GARBAGE_ARGS")
	}
}

// ruleX4: the X4 clause of C16 under another property's id (a request whose
// arguments do not decode must not reach the handler: it would run, and
// commit, on a half-decoded request and still be answered with an error).
func ruleX4(c *Ctx, id string) {
	old := c.R.remap
	c.R.remap = map[string]string{"C16.X4": id}
	ruleX(c)
	c.R.remap = old
}
