package main

import (
	"fmt"
	"go/token"

	"golang.org/x/tools/go/ssa"
)

// scanModel: where the slot loop of a directory scanner lives.  Form A: the
// loop is written in the scanner.  Form B: the scanner hands a function literal
// ("visit") to a private iterator that holds the loop; "return false" in the
// literal is the loop's break, "return true" its continue.
type scanModel struct {
	s      *ssa.Function
	loop   Scope // the scope that holds the loop (s itself in form A)
	off    *loopVar
	bound  *Branch
	exit   *ssa.BasicBlock // successor of the bound test taken at the end of the directory
	body   *Scope          // form B: the function literal called for every slot
	bodyAt *ssa.Call       // form B: its call in the loop
}

func scanModelOf(c *Ctx, s *ssa.Function) *scanModel {
	step := constOfPkg(c.P, "dir", "DIRENTSZ")
	scopes := scopesOf(s)
	for i := range scopes {
		sc := scopes[i]
		if sc.Fn.Parent() != nil && sc.Via != nil && sc.Fn.Parent() == s {
			// a literal of s: it may hold a loop of its own, but the slot loop of form B is in the iterator
		}
		off := findLoopVar(sc.Fn, step)
		if off == nil {
			continue
		}
		for _, br := range branches(sc.Fn) {
			br := br
			if br.Cond.X == nil || br.Cond.Y == nil {
				continue
			}
			op, x, y := br.Cond.Op, br.Cond.X, br.Cond.Y
			if off.is(y) {
				op, x, y = flipOp(op), y, x
			}
			n, fl, base, _ := loadedField(y)
			if !(op == token.LSS || op == token.GEQ) || !off.is(x) || n != c.V.Inode || fl != "Size" || sc.S.resolve(stripConv(base)) != ssa.Value(s.Params[0]) {
				continue
			}
			m := &scanModel{s: s, loop: sc, off: off, bound: &br}
			if op == token.LSS {
				m.exit = br.False
			} else {
				m.exit = br.True
			}
			if sc.Fn != s {
				// the literal the iterator calls inside the loop
				for j := range scopes {
					b := scopes[j]
					if b.Via != nil && b.Via.Parent() == sc.Fn && b.Fn.Parent() != nil && reachableFrom(b.Via, b.Via) {
						bb := b
						m.body, m.bodyAt = &bb, b.Via
					}
				}
			}
			return m
		}
	}
	return nil
}

// start: the value the offset has when the loop is entered, in the scanner's terms.
func (m *scanModel) start() ssa.Value {
	if m.off.phi == nil {
		return nil
	}
	var v ssa.Value
	for i, e := range m.off.phi.Edges {
		if !m.off.phi.Block().Dominates(m.off.phi.Block().Preds[i]) {
			if v != nil {
				return nil
			}
			v = e
		}
	}
	if v == nil {
		return nil
	}
	return m.loop.S.resolve(stripConv(v))
}

// bodyFn: the function in which the per-slot work is written.
func (m *scanModel) bodyScope() Scope {
	if m.body != nil {
		return *m.body
	}
	return m.loop
}

// trueOnlyAtEnd explores the scanner path by path (E10): a return whose boolean
// result can be true lies only on paths that left the slot loop through its
// bound test (the end of the directory), not through a break.
func (m *scanModel) trueOnlyAtEnd() (ok bool, why string, nret int) {
	px := NewPX()
	px.FollowHelpers = true
	px.MaxDepth = 5
	ok = true
	px.OnEdge = func(st *PXState, from, to *ssa.BasicBlock) {
		if from == m.bound.Block {
			st.Flags["end"] = to == m.exit
		}
	}
	px.OnReturn = func(st *PXState, fr *pxFrame, r *ssa.Return) {
		if len(r.Results) == 0 {
			return
		}
		nret++
		v := px.Eval(fr, st, r.Results[len(r.Results)-1])
		if v.known && v.k == 0 {
			return
		}
		if !st.Flags["end"] && ok {
			ok = false
			why = fmt.Sprintf("a path that leaves the scan before the end of the directory returns %s", map[bool]string{true: "true", false: "a value that may be true"}[v.known])
		}
	}
	px.Run(m.s)
	if px.Exceeded {
		return false, "path budget exceeded", nret
	}
	return ok, why, nret
}
