package main

func ruleF4(c *Ctx, id string) {}
func ruleS3(c *Ctx, id string) {}
