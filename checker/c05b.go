package main

func ruleF3(c *Ctx, id string) {}
func ruleF4(c *Ctx, id string) {}
func ruleS3(c *Ctx, id string) {}
