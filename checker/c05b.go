package main

import (
	"go/token"

	"golang.org/x/tools/go/ssa"
)

// ruleF4: half-freed objects are finished before reuse or resize.
func ruleF4(c *Ctx, id string) {
	V, P, R := c.V, c.P, c.R
	R.Rule(id, "half-freed objects are finished before reuse or resize: every Inode.Resize acts on an inode known not to be shrinking (obtained through getShrink / getAlloc, or under an explicit !IsShrinking test) or Resize only ever raises ShrinkSize; AllocInode initialises only a non-shrinking inode; getShrink/getAlloc leave their loop with success only on the !IsShrinking edge", 5)
	getShrink := c.fn(id, "nfs.(*Nfs).getShrink")
	getAlloc := c.fn(id, "nfs.(*Nfs).getAlloc")
	doDec := P.Func("nfs.(*Nfs).doDecLink") // (may be written out in its callers)
	if getShrink == nil || getAlloc == nil || V.Resize == nil || V.IsShrinking == nil {
		return
	}
	notShrinking := func(fn *ssa.Function, at *ssa.BasicBlock, ip ssa.Value) bool {
		return guardedBy(fn, at, func(cd Cond) (bool, bool) {
			if cd.Op != token.ILLEGAL {
				return false, false
			}
			sc, ok := cd.X.(*ssa.Call)
			if ok && staticCallee(sc) == V.IsShrinking && stripConv(sc.Call.Args[0]) == stripConv(ip) {
				return true, false
			}
			return false, false
		})
	}
	fromHelper := func(ip ssa.Value, helpers ...*ssa.Function) bool {
		for v := range bwdSources(stripConv(ip)) {
			if cl, ok := v.(*ssa.Call); ok {
				for _, h := range helpers {
					if staticCallee(cl) == h {
						return true
					}
				}
			}
		}
		return false
	}
	// the helpers' own contract: an OK status leaves the loop only through !IsShrinking
	for _, h := range []*ssa.Function{getShrink, getAlloc} {
		R.Analysed[FuncName(h)] = true
		ok := true
		n := 0
		for _, oe := range okEdges(h) {
			n++
			blk := oe.From
			// the edge along which OK flows must be (or be dominated by) a !IsShrinking edge
			dom := false
			for _, br := range branches(h) {
				if br.Cond.Op != token.ILLEGAL {
					continue
				}
				sc, isC := br.Cond.X.(*ssa.Call)
				if !isC || staticCallee(sc) != V.IsShrinking {
					continue
				}
				if (br.Block == oe.From && br.False == oe.To) || br.False == blk || (len(br.False.Preds) == 1 && br.False.Dominates(blk)) {
					dom = true
				}
			}
			if !dom {
				ok = false
			}
		}
		R.Check(ok && n > 0, id, FuncName(h)+"|success only when not shrinking", P.Pos(h.Pos()), "the helper reports NFS3_OK only on the edge where IsShrinking() is false", "every OK source is dominated by the !IsShrinking edge", "the helper can hand back a half-freed inode as ready: the next resize overwrites the shrink marker and the remaining blocks are leaked")
	}
	// Resize itself may protect a pending shrink: every store to ShrinkSize in Resize only ever raises it
	// (dominated by ShrinkSize < the value stored).  Then a call on a possibly shrinking inode is harmless.
	keepsPending, nSt := true, 0
	for _, w := range FieldWrites(V.Resize) {
		if w.Type != V.Inode || w.Field != "ShrinkSize" || w.Val == nil {
			continue
		}
		nSt++
		val := stripConv(w.Val)
		base := stripConv(w.Base)
		g := guardedBy(V.Resize, w.Instr.Block(), func(cd Cond) (bool, bool) {
			op, a, b := cd.Op, cd.X, cd.Y
			if a == nil || b == nil {
				return false, false
			}
			isCur := func(v ssa.Value) bool {
				n, fl, bs, _ := loadedField(v)
				return n == V.Inode && fl == "ShrinkSize" && bs == base
			}
			if isCur(b) && stripConv(a) == val {
				op, a, b = flipOp(op), b, a
			}
			if !isCur(a) || stripConv(b) != val {
				return false, false
			}
			switch op {
			case token.LSS:
				return true, true
			case token.GEQ:
				return true, false
			}
			return false, false
		})
		if !g {
			// or the value stored is max(<current ShrinkSize>, ...): never below the pending value
			if mc, isC := val.(*ssa.Call); isC {
				if bi, isB := mc.Call.Value.(*ssa.Builtin); isB && bi.Name() == "max" {
					for _, a := range mc.Call.Args {
						if n, fl, bs, _ := loadedField(stripConv(a)); n == V.Inode && fl == "ShrinkSize" && bs == base {
							g = true
						}
					}
				}
			}
		}
		if !g {
			keepsPending = false
		}
	}
	if nSt == 0 {
		keepsPending = false
	}
	// Resize call sites
	for _, fn := range P.RepoFuncs("nfs", "dir", "inode", "fstxn", "shrinker") {
		for _, call := range P.CallsIn(fn, funcIs(V.Resize)) {
			ip := recvOf(call)
			R.Analysed[FuncName(fn)] = true
			if doDec != nil && fn == doDec {
				// obligation moves to doDecLink's callers
				for _, cs := range P.CallersOf(doDec) {
					if !IsRepoFunc(cs.Caller) {
						continue
					}
					arg := inodeArg(cs.Instr)
					ok := keepsPending || fromHelper(arg, getAlloc) || notShrinking(cs.Caller, cs.Instr.Block(), arg)
					key := FuncName(cs.Caller) + "|doDecLink -> Resize(0) on a possibly shrinking inode"
					R.Check(ok, id, key, P.Pos(cs.Instr.Pos()), "the inode unlinked (and truncated to 0) is known not to be in the middle of a background shrink, or Resize never lowers a pending ShrinkSize", "Resize only raises ShrinkSize / inode from getAlloc / under !IsShrinking", "the object was merely looked up: if a background shrink of it is in progress, Resize(0) overwrites ShrinkSize with the small current size and the blocks in between are never freed")
				}
				continue
			}
			ok := keepsPending || fromHelper(ip, getShrink, getAlloc) || notShrinking(fn, call.Block(), ip)
			R.Check(ok, id, FuncName(fn)+"|Resize on a non-shrinking inode", P.Pos(call.Pos()), "Resize acts on an inode obtained through getShrink (which finishes a pending shrink first) or under !IsShrinking, or Resize never lowers a pending ShrinkSize", "Resize only raises ShrinkSize / from getShrink / guarded", "Resize on an inode whose background shrink may be in progress")
		}
	}
	// AllocInode
	if V.AllocInode != nil {
		for _, call := range P.CallsIn(V.AllocInode, funcIs(V.InitInode)) {
			R.Check(notShrinking(V.AllocInode, call.Block(), recvOf(call)), id, "fstxn.AllocInode|InitInode only when not shrinking", P.Pos(call.Pos()), "a reused inode number is initialised only after its previous life's blocks are gone", "dominated by !IsShrinking", "a half-freed inode is re-initialised: the blocks of its previous life are leaked")
		}
	}
}
