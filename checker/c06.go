package main

import (
	"fmt"
	"go/token"
	"go/types"
	"sort"
	"strings"

	"golang.org/x/tools/go/ssa"
)

func init() {
	props["C06"] = func(c *Ctx) {
		c.R.Expl = "Lock-order analysis of every inode-lock acquisition site reachable from the NFS handlers, the shrinker and mkfs: a site reached while the acquiring transaction may already hold a lock must match an ordering idiom - guarded ascending (L1 guarded), sorted loop over a private sorted copy with duplicate handling (L1 sorted), allocator-fresh number (L1 fresh), already owned; every transaction ends on every path and is never nil (L2); no foreign transaction under locks (L3); mutex Lock/Unlock pairing (L4); nothing held across retry iterations (L5, with L2)."
		c.R.NotDec = "termination of retry loops (needs a variant over run-time state); liveness inside the journal."
		ruleL1(c, "C06.L1")
		ruleL2(c, "C06.L2")
		ruleL3(c, "C06.L3")
		ruleL4(c, "C06.L4")
		ruleL5(c, "C06.L5")
		ruleT3(c, "C06.L6")
		ruleG4(c, "C06.L7")
		ruleL8(c, "C06.L8")
		ruleL9(c, "C06.L9")
		ruleL10(c, "C06.L10")
		// a lock taken for a handle that turns out stale is given back: otherwise the inode is blocked for ever
		ruleG3(c, "C06.L11")
		// a fresh inode is taken only after the lookup: a lookup with a cold name cache locks the directory's
		// children one by one - holding the allocator's inode meanwhile adds an unordered lock to every such wait
		ruleT12(c, "C06.L12")
		// the shrinker retries a round that does not fit for ever: the round test must be able to pass
		ruleShrinkReserve(c, "C06.L13")
	}
}

// ---------------------------------------------------------------- L1

func ruleL1(c *Ctx, id string) {
	V, P, R := c.V, c.P, c.R
	R.Rule(id, "ascending acquisition order: every acquisition site that may execute while its transaction holds an inode lock matches an ordering idiom", 24)
	t := c.tsPreamble(id)
	type site struct {
		fn      *ssa.Function
		pos     token.Pos
		callee  string
		nested  bool
		entries map[string]bool
		instr   ssa.Instruction
	}
	sites := map[string]*site{}
	for _, e := range sortedEvents(t, "acquire") {
		k := fmt.Sprintf("%s|%s|%d", FuncName(e.Fn), e.Detail, e.Pos)
		s := sites[k]
		if s == nil {
			s = &site{fn: e.Fn, pos: e.Pos, callee: e.Detail, entries: map[string]bool{}}
			sites[k] = s
			for _, b := range e.Fn.Blocks {
				for _, in := range b.Instrs {
					if in.Pos() == e.Pos {
						if cal := staticCallee(in); cal != nil && cal.Name() == e.Detail {
							s.instr = in
						}
					}
				}
			}
		}
		if e.Extra["held"] == "true" {
			s.nested = true
		}
		s.entries[e.Entry] = true
	}
	var keys []string
	for k := range sites {
		keys = append(keys, k)
	}
	sort.Strings(keys)
	perFn := map[string]int{}
	for _, k := range keys {
		s := sites[k]
		base := fmt.Sprintf("%s|acquire %s", FuncName(ownerOf(s.fn)), s.callee)
		perFn[base]++
		key := base
		if perFn[base] > 1 {
			key = fmt.Sprintf("%s#%d", base, perFn[base])
		}
		var es []string
		for e := range s.entries {
			es = append(es, e)
		}
		sort.Strings(es)
		ctx := fmt.Sprintf("reached from %s", strings.Join(es, ","))
		if !s.nested {
			R.Pass(id, key, P.Pos(s.pos), "first acquisition of its transaction on every explored path", ctx)
			continue
		}
		if s.instr == nil {
			R.Undecided(id, key, P.Pos(s.pos), "nested acquisition must be classified", "instruction not found")
			continue
		}
		idiom, why := classifyNested(c, s.instr)
		if idiom != "" {
			R.PassNT(id, key, P.Pos(s.pos), "nested acquisition matches an ordering idiom", idiom+": "+why+"; "+ctx)
		} else {
			R.Fail(id, key+"|no-order-idiom", P.Pos(s.pos), "nested acquisition matches an ordering idiom (guarded ascending, sorted loop, allocator-fresh, owned)", why+"; "+ctx+": two requests can take the same two locks in opposite orders and wait for each other for ever")
			// a site without an order must at least not ask for a lock its own transaction holds
			// (a separate obligation: the missing order may be a recorded finding, a self-deadlock is another defect)
			num := stripConv(argN(s.instr, 0))
			notOwned := guardedBy(s.instr.Parent(), s.instr.Block(), func(cd Cond) (bool, bool) {
				if cd.Op != token.ILLEGAL {
					return false, false
				}
				oc, ok := cd.X.(*ssa.Call)
				if !ok || staticCallee(oc) != V.OwnInum {
					return false, false
				}
				if other := stripConv(argN(oc, 0)); other != num {
					// two loads of the same field of the same value (de.inum read twice)
					n1, f1, b1, _ := loadedField(other)
					n2, f2, b2, _ := loadedField(num)
					if n1 == nil || n1 != n2 || f1 != f2 || b1 != b2 {
						return false, false
					}
				}
				return true, false
			})
			R.Check(notOwned, id, key+"|not already owned", P.Pos(s.pos), "a nested acquisition by number is on the OwnInum(number) == false edge", "guarded by !OwnInum of the same number", "the transaction can ask for a lock it already holds (the lock is not re-entrant): the request waits for itself for ever, holding its other locks")
		}
	}
	// lockInodes must be entered lock-free, and its loop must be a sound sorted loop
	if V.lockInodes != nil {
		for _, e := range sortedEvents(t, "enter") {
			if e.Detail != V.lockInodes.Name() {
				continue
			}
			key := fmt.Sprintf("%s|calls lockInodes lock-free|%s", FuncName(e.Fn), e.Entry)
			R.Check(!e.St.Holds && e.St.St == "live", id, key, P.Pos(e.Pos), "bulk acquisition starts with a live transaction that holds no lock", "transaction holds nothing on every explored path", fmt.Sprintf("lockInodes entered with a transaction that is %s, holds=%v: the sorted order is relative to nothing held", e.St.St, e.St.Holds))
		}
		sortedLoopRule(c, id)
	}
}

// classifyNested decides which ordering idiom justifies a nested acquisition.
func classifyNested(c *Ctx, in ssa.Instruction) (string, string) {
	V := c.V
	fn := in.Parent()
	cal := staticCallee(in)
	// allocator-fresh: AllocInode itself (the number comes from AllocINum inside)
	if cal == V.AllocInode {
		ok := false
		for _, call := range c.P.CallsIn(V.AllocInode, funcIs(V.GetInodeLocked)) {
			if a, isC := stripConv(argN(call, 0)).(*ssa.Call); isC && staticCallee(a) == V.AllocINum {
				ok = true
			} else {
				ok = false
				break
			}
		}
		if ok {
			return "allocator-fresh", "AllocInode locks only the number just returned by AllocINum; nobody holding a FREE inode ever waits (GetInodeInum releases at once, DoShrink holds only that lock)"
		}
		return "", "AllocInode acquires a number that does not come from the allocator"
	}
	// sorted loop: inside lockInodes' range loop (checked structurally by sortedLoopRule)
	if V.lockInodes != nil && ownerOf(fn) == V.lockInodes {
		lsc := scopesOf(V.lockInodes)
		for _, sc := range lsc {
			if sc.Fn == fn {
				if top := topInstr(lsc, sc, in); top.Parent() == V.lockInodes && reachableFrom(top, top) {
					return "sorted-loop", "acquisition inside lockInodes' loop over the sorted copy (see the sorted-loop obligations)"
				}
			}
		}
	}
	if fn == V.lockInodes && reachableFrom(in, in) {
		return "sorted-loop", "acquisition inside lockInodes' loop over the sorted copy (see the sorted-loop obligations)"
	}
	// owned: dominated by OwnInum(x) == true  (no acquisition happens) - not an acquirer call then.
	// guarded ascending: x > held.Inum on every path to the site
	x := stripConv(argN(in, 0))
	txn := recvOf(in)
	var helds []*ssa.Call
	for _, b := range fn.Blocks {
		for _, i2 := range b.Instrs {
			if call, ok := i2.(*ssa.Call); ok && i2 != in {
				if cal2 := staticCallee(call); cal2 != nil && V.Acquirers[cal2] && sameTxnValue(recvOf(call), txn) && reachableFrom(call, in) {
					helds = append(helds, call)
				}
			}
		}
	}
	if len(helds) == 0 {
		return "", "the transaction holds locks acquired elsewhere and no guard relates the new number to them"
	}
	for _, h := range helds {
		isHeldInum := func(v ssa.Value) bool {
			n, fl, base, _ := loadedField(v)
			return n == V.Inode && fl == "Inum" && base == stripConv(h)
		}
		isX := func(v ssa.Value) bool { return stripConv(v) == x }
		gt := guardedBy(fn, in.Block(), func(cd Cond) (bool, bool) {
			// normalise to  x OP held
			op, a, b := cd.Op, cd.X, cd.Y
			if isHeldInum(a) && isX(b) {
				op, a, b = flipOp(op), b, a
			}
			if !(isX(a) && isHeldInum(b)) {
				return false, false
			}
			switch op {
			case token.GTR:
				return true, true
			case token.LEQ:
				return true, false
			}
			return false, false
		})
		notLess := guardedBy(fn, in.Block(), func(cd Cond) (bool, bool) {
			op, a, b := cd.Op, cd.X, cd.Y
			if isHeldInum(a) && isX(b) {
				op, a, b = flipOp(op), b, a
			}
			if !(isX(a) && isHeldInum(b)) {
				return false, false
			}
			switch op {
			case token.LSS:
				return true, false
			case token.GEQ:
				return true, true
			}
			return false, false
		})
		notEq := guardedBy(fn, in.Block(), func(cd Cond) (bool, bool) {
			a, b := cd.X, cd.Y
			if isHeldInum(a) && isX(b) {
				a, b = b, a
			}
			if !(isX(a) && isHeldInum(b)) {
				return false, false
			}
			switch cd.Op {
			case token.EQL:
				return true, false
			case token.NEQ:
				return true, true
			}
			return false, false
		})
		if !(gt || (notLess && notEq)) {
			return "", fmt.Sprintf("no dominating guard implies <new number> > <held inode>.Inum for the lock taken at %s", c.P.Pos(h.Pos()))
		}
	}
	return "guarded-ascending", "dominated by branch facts implying the new number is greater than every inode number already held in this function"
}

func sameTxnValue(a, b ssa.Value) bool {
	if a == b {
		return true
	}
	sa, sb := bwdSources(a), bwdSources(b)
	for v := range sa {
		if _, isPhi := v.(*ssa.Phi); isPhi {
			continue
		}
		if sb[v] {
			return true
		}
	}
	return false
}

// sortedLoopRule: lockInodes acquires in a range loop over a private copy
// sorted ascending by a comparator on that same copy, and handles duplicates.
func sortedLoopRule(c *Ctx, id string) {
	V, P, R := c.V, c.P, c.R
	f := V.lockInodes
	R.Analysed[FuncName(f)] = true
	var sortCall *ssa.Call
	for _, b := range f.Blocks {
		for _, in := range b.Instrs {
			if call, ok := in.(*ssa.Call); ok {
				if cal := staticCallee(call); cal != nil && cal.Name() == "Slice" && funcPkg(cal) != nil && funcPkg(cal).Path() == "sort" {
					sortCall = call
				}
			}
		}
	}
	if sortCall == nil {
		R.Fail(id, "nfs.lockInodes|sorted", P.Pos(f.Pos()), "lockInodes sorts the numbers before acquiring", "no sort.Slice call")
		return
	}
	// first arg: interface made from slice S
	var S ssa.Value
	var sCell ssa.Value // the local cell holding S when it is captured by the comparator
	if mi, ok := sortCall.Call.Args[0].(*ssa.MakeInterface); ok {
		S = stripConv(mi.X)
		if u, ok := mi.X.(*ssa.UnOp); ok && u.Op == token.MUL {
			sCell = u.X
		}
	}
	// S is a fresh copy: make + copy(S, param)
	fresh := false
	if _, ok := S.(*ssa.MakeSlice); ok {
		for _, b := range f.Blocks {
			for _, in := range b.Instrs {
				if call, ok := in.(*ssa.Call); ok {
					if bi, ok := call.Call.Value.(*ssa.Builtin); ok && bi.Name() == "copy" && stripConv(call.Call.Args[0]) == S {
						if _, isP := stripConv(call.Call.Args[1]).(*ssa.Parameter); isP && reachableFrom(call, sortCall) {
							fresh = true
						}
					}
				}
			}
		}
	}
	if ap, ok := S.(*ssa.Call); ok && !fresh {
		// append(<empty>, param...) is a private copy too
		if bi, isB := ap.Call.Value.(*ssa.Builtin); isB && bi.Name() == "append" && len(ap.Call.Args) == 2 {
			_, isP := stripConv(ap.Call.Args[1]).(*ssa.Parameter)
			empty := isNilConst(ap.Call.Args[0])
			switch e := stripConv(ap.Call.Args[0]).(type) {
			case *ssa.Slice:
				if al, isA := e.X.(*ssa.Alloc); isA {
					if at, isArr := derefType(al.Type()).Underlying().(*types.Array); isArr && at.Len() == 0 {
						empty = true
					}
				}
			case *ssa.MakeSlice:
				if k, isk := constInt(e.Len); isk && k == 0 {
					empty = true
				}
			}
			if isP && empty && reachableFrom(ap, sortCall) {
				fresh = true
			}
		}
	}
	R.Check(fresh, id, "nfs.lockInodes|private copy", P.Pos(sortCall.Pos()), "the slice sorted is a private copy of the caller's numbers", "make + copy", "the caller's slice is reordered (callers index the result by position) or the sorted slice is not the numbers")
	// comparator: closure returning X[i] < X[j] with X the SAME slice S
	lessOK, lessWhy := false, "comparator not recognised"
	if mc, ok := sortCall.Call.Args[1].(*ssa.MakeClosure); ok {
		lf := mc.Fn.(*ssa.Function)
		R.Analysed[FuncName(lf)] = true
		for _, b := range lf.Blocks {
			r, ok := b.Instrs[len(b.Instrs)-1].(*ssa.Return)
			if !ok {
				continue
			}
			bo, ok := r.Results[0].(*ssa.BinOp)
			if !ok || (bo.Op != token.LSS && bo.Op != token.GTR) {
				lessWhy = "comparator is not 'a < b'"
				continue
			}
			p0, p1 := lf.Params[0], lf.Params[1]
			if bo.Op == token.GTR {
				// s[j] > s[i] is s[i] < s[j]
				p0, p1 = p1, p0
			}
			elem := func(v ssa.Value, param *ssa.Parameter) (ssa.Value, bool) {
				u, ok := v.(*ssa.UnOp)
				if !ok || u.Op != token.MUL {
					return nil, false
				}
				ia, ok := u.X.(*ssa.IndexAddr)
				if !ok || ia.Index != ssa.Value(param) {
					return nil, false
				}
				// slice = load of free variable
				ld, ok := ia.X.(*ssa.UnOp)
				if !ok {
					return nil, false
				}
				fv, ok := ld.X.(*ssa.FreeVar)
				if !ok {
					return nil, false
				}
				for i, x := range lf.FreeVars {
					if x == fv {
						return mc.Bindings[i], true
					}
				}
				return nil, false
			}
			bx, ok1 := elem(bo.X, p0)
			by, ok2 := elem(bo.Y, p1)
			if !ok1 || !ok2 {
				lessWhy = "comparator does not compare element i with element j"
				continue
			}
			// bindings are the cells of the captured variables
			same := func(bind ssa.Value) bool {
				if sCell != nil && bind == sCell {
					return true
				}
				if al, ok := bind.(*ssa.Alloc); ok {
					if sv := singleStore(al); sv != nil && stripConv(sv) == S {
						return true
					}
				}
				return false
			}
			if same(bx) && same(by) {
				lessOK = true
				lessWhy = "less(i,j) = sorted[i] < sorted[j] on the slice being sorted"
			} else {
				lessWhy = "the comparator indexes a different slice than the one being sorted: the resulting order is arbitrary"
			}
		}
	}
	R.Check(lessOK, id, "nfs.lockInodes|comparator on the sorted slice", P.Pos(sortCall.Pos()), "sort.Slice(s, less) with less(i,j) = s[i] < s[j] on the same s", lessWhy, lessWhy+": for three or more numbers two renames can take the same locks in opposite orders")
	// the acquisition loop ranges over S after the sort (the acquisition may sit in a local closure or private helper)
	var acq, acqTop ssa.Instruction
	var acqSc Scope
	fScopes := scopesOf(f)
	for _, sc := range fScopes {
		for _, call := range P.CallsIn(sc.Fn, func(x *ssa.Function) bool { return V.Acquirers[x] }) {
			acq, acqSc = call, sc
			acqTop = topInstr(fScopes, sc, call)
		}
	}
	if acq == nil {
		R.Fail(id, "nfs.lockInodes|acquisition loop", P.Pos(f.Pos()), "lockInodes acquires in a loop", "no acquisition call")
		return
	}
	fromS := false
	if u, ok := stripConv(acqSc.S.resolve(stripConv(argN(acq, 0)))).(*ssa.UnOp); ok && u.Op == token.MUL {
		if ia, ok := u.X.(*ssa.IndexAddr); ok {
			fromS = stripConv(ia.X) == S
		}
	}
	R.Check(fromS && acqTop.Parent() == f && reachableFrom(sortCall, acqTop) && reachableFrom(acqTop, acqTop), id, "nfs.lockInodes|acquires in sorted order", P.Pos(acq.Pos()), "the loop acquires the elements of the sorted copy, after the sort", "range over the sorted slice", "the acquisition loop does not follow the sorted copy")
	// duplicates: the acquisition is skipped for numbers the transaction owns
	dup := guardedUp(fScopes, acqSc, acq.Block(), func(sub Subst) func(Cond) (bool, bool) {
		return func(cd Cond) (bool, bool) {
			if cd.Op != token.ILLEGAL {
				return false, false
			}
			if call, ok := cd.X.(*ssa.Call); ok && staticCallee(call) == V.OwnInum {
				return true, false
			}
			return false, false
		}
	})
	R.Check(dup, id, "nfs.lockInodes|duplicates skipped", P.Pos(acq.Pos()), "a number the transaction already owns is not acquired again (OwnInum guard)", "acquisition on the !OwnInum edge", "duplicate numbers make the request wait for its own lock for ever (e.g. RENAME A/B -> B/c asks for [A,B,B,c])")
	// an inode that cannot be had (it vanished: a stale number) ends the bulk acquisition: the result of the
	// acquisition is tested for nil and the nil side returns nil - the callers test for that, not for nil elements
	{
		derives := func(v ssa.Value) bool {
			seen := map[ssa.Value]bool{}
			var w func(v ssa.Value, d int) bool
			w = func(v ssa.Value, d int) bool {
				v = stripConv(v)
				if v == nil || seen[v] || d > 6 {
					return false
				}
				seen[v] = true
				if v == ssa.Value(acq.(ssa.Value)) {
					return true
				}
				if ph, ok := v.(*ssa.Phi); ok {
					for _, e := range ph.Edges {
						if w(e, d+1) {
							return true
						}
					}
				}
				return false
			}
			return w(v, 0)
		}
		nilEnds := false
		if _, isV := acq.(ssa.Value); isV && acqSc.Fn == f {
			for _, br := range branches(f) {
				if br.Cond.Op != token.EQL && br.Cond.Op != token.NEQ {
					continue
				}
				for _, pr := range [][2]ssa.Value{{br.Cond.X, br.Cond.Y}, {br.Cond.Y, br.Cond.X}} {
					if pr[0] == nil || pr[1] == nil || !isNilConst(pr[1]) || !derives(pr[0]) {
						continue
					}
					side := br.True
					if br.Cond.Op == token.NEQ {
						side = br.False
					}
					// follow the straight line from the nil side to its return
					blk := side
					for i := 0; i < 4 && blk != nil; i++ {
						last := blk.Instrs[len(blk.Instrs)-1]
						if r, isR := last.(*ssa.Return); isR {
							nilEnds = len(r.Results) > 0 && isNilConst(r.Results[0])
							break
						}
						if _, isJ := last.(*ssa.Jump); !isJ {
							break
						}
						blk = blk.Succs[0]
					}
				}
			}
			R.Check(nilEnds, id, "nfs.lockInodes|a vanished inode ends the acquisition", P.Pos(acq.Pos()), "the acquired inode is tested for nil and the nil side returns nil", "nil side returns nil", "a nil inode is put into the result: the callers test the slice, not its elements - the first use of the missing inode is a nil pointer dereference with the other inodes locked")
		}
	}
	// failure inside the loop aborts (releases what was taken) and returns nil
	for _, b := range f.Blocks {
		r, ok := b.Instrs[len(b.Instrs)-1].(*ssa.Return)
		if !ok || !isNilConst(r.Results[0]) {
			continue
		}
		R.Check(MustBefore(f, callTo(V.Abort))(r), id, "nfs.lockInodes|failure aborts", P.Pos(r.Pos()), "a nil return is preceded by Abort (all locks taken so far are released)", "must-precede", "a failed bulk acquisition keeps the locks it took")
	}
}

// ---------------------------------------------------------------- L4

func isMutexMethod(f *ssa.Function, name string) bool {
	if f == nil || f.Name() != name || f.Signature.Recv() == nil {
		return false
	}
	n := derefNamed(f.Signature.Recv().Type())
	return n != nil && n.Obj().Pkg() != nil && n.Obj().Pkg().Path() == "sync" && (n.Obj().Name() == "Mutex" || n.Obj().Name() == "RWMutex")
}

func ruleL4(c *Ctx, id string) {
	P, R := c.P, c.R
	R.Rule(id, "every mutex Lock in the server packages is followed by Unlock of the same mutex on every non-panicking path", 6)
	for _, fn := range P.RepoFuncs("cache", "shrinker", "nfs", "dir", "fstxn", "inode", "alloctxn", "dcache", "util/stats") {
		n := 0
		for _, b := range fn.Blocks {
			for _, in := range b.Instrs {
				cal := staticCallee(in)
				if !isMutexMethod(cal, "Lock") {
					continue
				}
				if _, ok := in.(*ssa.Call); !ok {
					continue
				}
				n++
				mt, mf, mbase, _ := loadedField(recvOf(in))
				_ = mbase
				direct := func(x ssa.Instruction, sub Subst) bool {
					if !isMutexMethod(staticCallee(x), "Unlock") {
						return false
					}
					t2, f2, b2, _ := loadedFieldS(recvOf(x), sub)
					if b2 != nil {
						b2 = stripConv(sub.resolve(stripConv(b2)))
					}
					return t2 == mt && f2 == mf && b2 == mbase
				}
				// a local closure or private helper that unlocks the same mutex on all its paths counts at its call
				unlocking := map[ssa.Instruction]bool{}
				for _, sc := range scopesOf(fn) {
					if sc.Via == nil || sc.Via.Parent() != fn || sc.Fn.Blocks == nil {
						continue
					}
					sub := sc.S
					is := func(x ssa.Instruction) bool { return direct(x, sub) }
					entry := sc.Fn.Blocks[0].Instrs[0]
					if is(entry) || MustAfter(sc.Fn, is, nil)(entry) {
						unlocking[sc.Via] = true
					}
				}
				isUnlock := func(x ssa.Instruction) bool {
					return direct(x, Subst{}) || unlocking[x]
				}
				// deferred unlock counts
				deferred := false
				for _, b2 := range fn.Blocks {
					for _, x := range b2.Instrs {
						if d, ok := x.(*ssa.Defer); ok && isMutexMethod(staticCallee(d), "Unlock") {
							deferred = true
						}
					}
				}
				R.Analysed[FuncName(fn)] = true
				key := fmt.Sprintf("%s|Lock#%d", FuncName(fn), n)
				R.Check(deferred || MustAfter(fn, isUnlock, nil)(in), id, key, P.Pos(in.Pos()), "Unlock of the same mutex on every non-panicking path", "must-follow", "a path returns with the mutex held: every later user of this structure blocks for ever")
			}
		}
	}
}

var _ = types.Typ

// ruleL5: the typestate rules treat the commit / abort family as "ends the
// transaction and gives up every lock it holds".  That premise is checked
// here: every terminator releases the recorded inodes on every path.
func ruleL5(c *Ctx, id string) {
	V, P, R := c.V, c.P, c.R
	R.Rule(id, "every terminator gives up all locks on every path: Commit, CommitData, CommitUnstable, CommitFh and Abort always reach releaseInodes, whatever the commit's outcome", 5)
	rel := P.NewAlways(callTo(V.releaseInodes))
	for _, f := range []*ssa.Function{V.Commit, V.CommitData, V.CommitUnstable, V.CommitFh, V.Abort} {
		if f == nil {
			continue
		}
		R.Analysed[FuncName(f)] = true
		R.Check(rel.Func(f), id, FuncName(f)+"|releases the locks on every path", P.Pos(f.Pos()), "every path through the terminator runs releaseInodes", "always-performs summary", "a path (e.g. a failed commit) returns with the transaction's inode locks still held: every later request on those inodes blocks for ever")
	}
}

// rawAcquirers: who may lock an inode by number without the "free inodes are
// given up at once" step of GetInodeInum, and why it is safe there.  CREATE
// holds a directory and then locks the number the allocator hands it, whatever
// its order; that is safe only because nobody else ever *waits* while holding
// the lock of a free inode.
var rawAcquirers = map[string]string{
	"(*fstxn.FsTxn).GetInodeInum":     "the checked accessor itself: releases a free inode before it returns",
	"(*fstxn.FsTxn).GetInodeInumFree": "wrapper of GetInodeLocked",
	"(*fstxn.FsTxn).AllocInode":       "the number was just handed out by the allocator to this transaction",
	"(*shrinker.ShrinkerSt).DoShrink": "first and only acquisition of its own transaction; the inode is pinned by its pending shrink",
	"(*nfs.Nfs).getInodesLocked":      "the number was found under the locked directory's name and is larger than the directory's: the entry keeps the inode allocated",
	"nfs.MakeNfs":                     "the root inode at start-up, before any request",
}

func ruleL8(c *Ctx, id string) {
	V, P, R := c.V, c.P, c.R
	R.Rule(id, "nobody waits while holding the lock of a free inode: the raw by-number acquirers (GetInodeLocked, GetInodeInumFree) are called only from the frozen sites where the number is known to name an allocated (or just allocated) inode; every other acquisition by number goes through GetInodeInum, which gives a free inode up at once", 4)
	free := P.Func("fstxn.(*FsTxn).GetInodeInumFree") // (a plain wrapper; a tree may do without it)
	if V.GetInodeLocked == nil {
		R.Fail(id, "vocabulary|raw acquirers", "", "GetInodeLocked exists", "not found")
		return
	}
	for _, tgt := range []*ssa.Function{V.GetInodeLocked, free} {
		if tgt == nil {
			continue
		}
		for _, cs := range P.CallersOf(tgt) {
			if !IsRepoFunc(cs.Caller) {
				continue
			}
			owner := ownerOf(cs.Caller)
			why, ok := byFunc(rawAcquirers, FuncName(owner))
			if !ok && soleAcquisition(c, cs.Instr) {
				ok, why = true, "the only acquisition of a transaction begun in this function: it never waits for a second lock"
			}
			R.Analysed[FuncName(owner)] = true
			R.Check(ok, id, FuncName(owner)+"|raw acquisition "+tgt.Name(), P.Pos(cs.Instr.Pos()), "a frozen site: "+why, "listed", FuncName(owner)+" locks an inode by number without giving it up when it is free: it then waits for its next lock while holding a free inode, and a CREATE that holds that next inode (a directory) and is handed this free number by the allocator waits for it in turn - both hang although every transaction locks in ascending order")
		}
	}
}

// ruleL9: a request that finds its inode still shrinking aborts and tries
// again.  The retry terminates only if something between the test and the next
// attempt finishes the shrink: the request does the remaining work itself
// (DoShrink).  The shrinker thread cannot be relied on - none is started for
// a shrink that was pending at a crash.
func ruleL9(c *Ctx, id string) {
	V, P, R := c.V, c.P, c.R
	R.Rule(id, "a retry on a pending shrink makes progress: on every cyclic path from the 'still shrinking' edge of an IsShrinking test back to that test the request runs shrinker.DoShrink itself (no shrinker thread exists for a shrink that was pending at a crash)", 2)
	do := c.fn(id, "shrinker.(*ShrinkerSt).DoShrink")
	if do == nil || V.IsShrinking == nil {
		return
	}
	always := P.NewAlways(callTo(do))
	n := 0
	for _, fn := range P.RepoFuncs("nfs") {
		if fn.Blocks == nil {
			continue
		}
		for _, call := range P.CallsIn(fn, funcIs(V.IsShrinking)) {
			cv, ok := call.(*ssa.Call)
			if !ok {
				continue
			}
			for _, b := range fn.Blocks {
				ifi, ok := b.Instrs[len(b.Instrs)-1].(*ssa.If)
				if !ok {
					continue
				}
				cond := ifi.Cond
				neg := false
				for {
					if u, ok := cond.(*ssa.UnOp); ok && u.Op == token.NOT {
						cond, neg = u.X, !neg
						continue
					}
					break
				}
				if cond != ssa.Value(cv) {
					continue
				}
				shr := b.Succs[0]
				if neg {
					shr = b.Succs[1]
				}
				// does the shrinking side come back to the test at all?
				back := false
				free := false // ... without running DoShrink
				seenAll := map[*ssa.BasicBlock]bool{}
				var walk func(x *ssa.BasicBlock, avoid bool, seen map[*ssa.BasicBlock]bool) bool
				walk = func(x *ssa.BasicBlock, avoid bool, seen map[*ssa.BasicBlock]bool) bool {
					if seen[x] {
						return false
					}
					seen[x] = true
					if avoid {
						for _, in := range x.Instrs {
							if always.Instr(in) {
								return false
							}
						}
					}
					if x == cv.Block() {
						return true
					}
					for _, s := range x.Succs {
						if walk(s, avoid, seen) {
							return true
						}
					}
					return false
				}
				back = walk(shr, false, seenAll)
				if !back {
					continue // not a retry: the shrinking case is answered, not repeated
				}
				n++
				free = walk(shr, true, map[*ssa.BasicBlock]bool{})
				R.Analysed[FuncName(fn)] = true
				R.Check(!free, id, FuncName(ownerOf(fn))+"|retry on a pending shrink helps", P.Pos(cv.Pos()), "every path from the 'still shrinking' edge back to the test runs DoShrink", "no DoShrink-free cycle", "the request can go round the retry loop without finishing the shrink itself: after a crash in the middle of a large truncation no shrinker thread exists, and every WRITE/SETATTR/CREATE that meets the inode spins for ever")
			}
		}
	}
	if n == 0 {
		R.Fail(id, "nfs|retry on a pending shrink", "", "the handlers that meet a shrinking inode retry (getShrink, getAlloc)", "no retry loop on IsShrinking found in package nfs")
	}
}

// soleAcquisition: the transaction the call acquires for is begun in the same
// function, and nothing else is done with it there that could take a second
// lock (only terminators and uses of its allocation part).
func soleAcquisition(c *Ctx, in ssa.Instruction) bool {
	V := c.V
	recv := recvOf(in)
	if recv == nil {
		return false
	}
	ok, n := derivesOnlyFrom(recv, funcIs(V.Begin), 0)
	if !ok || n == 0 {
		return false
	}
	ps, _ := producersOf(recv)
	for _, p := range ps {
		if p.call.Parent() != in.Parent() {
			return false
		}
		for _, r := range refs(p.call) {
			switch x := r.(type) {
			case *ssa.Call:
				if ssa.Instruction(x) == in {
					continue
				}
				cal := staticCallee(x)
				if cal == nil || V.Terminators[cal] == "" {
					return false
				}
			case *ssa.FieldAddr:
				if fieldNameAt(x) != "Atxn" {
					return false
				}
			case *ssa.Phi, *ssa.DebugRef:
			default:
				return false
			}
		}
	}
	return true
}

// ruleL10: a retry loop that waits for "the inode was freed since the lookup"
// can only end if what it locks can exist.  A number that came out of a name
// lookup and is handed to a locking function inside a cycle must be known not
// to be the null number there: inode 0 is never allocated, GetInodeInum(0) is
// nil for ever, and the loop would retry the same names for ever.
func ruleL10(c *Ctx, id string) {
	V, P, R := c.V, c.P, c.R
	R.Rule(id, "retries can end: inside a cycle, an inode number that is the result of dir.LookupName reaches a locking function (lockInodes, lookupOrdered, the acquirers) only on paths where it was found not to be NULLINUM", 3)
	lookup := c.fn(id, "dir.LookupName")
	lockIn := c.fn(id, "nfs.lockInodes")
	if lookup == nil || lockIn == nil {
		return
	}
	lookupOrd := P.Func("nfs.lookupOrdered")
	// the lookup a value comes from
	fromLookup := func(v ssa.Value) *ssa.Call {
		for src := range bwdSources(v) {
			if ex, ok := src.(*ssa.Extract); ok && ex.Index == 0 {
				if cl, ok := ex.Tuple.(*ssa.Call); ok && staticCallee(cl) == lookup {
					return cl
				}
			}
		}
		return nil
	}
	for _, fn := range P.RepoFuncs("nfs") {
		if isPrivateHelper(fn) && len(staticSites[fn]) > 0 && fn != lockIn {
			// looked at as part of its callers (a helper that holds the locking calls of a retry loop)
			if fn.Parent() == nil && ownerOf(fn) != fn {
				continue
			}
		}
		if fn.Parent() != nil {
			continue
		}
		scopes := scopesOf(fn)
		for si := range scopes {
			sc := scopes[si]
			for _, b := range sc.Fn.Blocks {
				for _, in := range b.Instrs {
					call, ok := in.(*ssa.Call)
					if !ok {
						continue
					}
					cal := staticCallee(call)
					if cal == nil || !(cal == lockIn || (lookupOrd != nil && cal == lookupOrd) || V.Acquirers[cal]) {
						continue
					}
					top := topInstr(scopes, sc, call)
					if !reachableFrom(top, top) {
						continue // not in a cycle: a nil answer is an error reply, not a retry
					}
					// the numbers handed over: integer arguments, and the elements of a slice built here
					var nums []ssa.Value
					isInt := func(v ssa.Value) bool {
						bt, isB := v.Type().Underlying().(*types.Basic)
						return isB && bt.Info()&types.IsInteger != 0
					}
					for _, a0 := range call.Call.Args {
						a := sc.S.resolve(stripConv(a0))
						if isInt(a) {
							nums = append(nums, a)
						}
						if _, isS := a.Type().Underlying().(*types.Slice); isS {
							for src := range bwdSources(a) {
								for _, r := range refs(src) {
									if ia, isIA := r.(*ssa.IndexAddr); isIA {
										for _, r2 := range refs(ia) {
											if st, isSt := r2.(*ssa.Store); isSt && st.Addr == ssa.Value(ia) {
												nums = append(nums, sc.S.resolve(stripConv(st.Val)))
											}
										}
									}
								}
								// an array literal sliced ([]T{a, b, c})
								if sl, isSl := src.(*ssa.Slice); isSl {
									for _, r := range refs(stripConv(sl.X)) {
										if ia, isIA := r.(*ssa.IndexAddr); isIA {
											for _, r2 := range refs(ia) {
												if st, isSt := r2.(*ssa.Store); isSt && st.Addr == ssa.Value(ia) {
													nums = append(nums, sc.S.resolve(stripConv(st.Val)))
												}
											}
										}
									}
								}
								// built by a helper from its integer arguments (twoInums(a, b))
								if hc, isC := src.(*ssa.Call); isC && staticCallee(hc) != nil && isPrivateHelper(staticCallee(hc)) {
									for _, ha := range hc.Call.Args {
										if isInt(ha) {
											nums = append(nums, sc.S.resolve(stripConv(ha)))
										}
									}
								}
							}
						}
					}
					callOrd := 0
					for _, o := range P.CallsIn(sc.Fn, funcIs(cal)) {
						if o.Pos() < call.Pos() {
							callOrd++
						}
					}
					seenLk := map[*ssa.Call]bool{}
					for _, v := range nums {
						lk := fromLookup(v)
						if lk == nil || seenLk[lk] {
							continue
						}
						seenLk[lk] = true
						// which lookup: its ordinal among the lookups of its function, in source order
						i := 0
						for _, o := range P.CallsIn(lk.Parent(), funcIs(lookup)) {
							if o.Pos() < lk.Pos() {
								i++
							}
						}
						g := guardedUp(scopes, sc, call.Block(), func(sub Subst) func(Cond) (bool, bool) {
							return func(cd Cond) (bool, bool) {
								if (cd.Op != token.EQL && cd.Op != token.NEQ) || cd.X == nil || cd.Y == nil {
									return false, false
								}
								x, y := cd.X, cd.Y
								if k, isk := constInt(stripConv(x)); isk && k == 0 {
									x, y = y, x
								}
								if k, isk := constInt(stripConv(y)); !isk || k != 0 {
									return false, false
								}
								if fromLookup(sub.resolve(stripConv(x))) != lk {
									return false, false
								}
								return true, cd.Op == token.NEQ
							}
						})
						R.Check(g, id, fmt.Sprintf("%s|number of lookup #%d handed to %s#%d is not null", FuncName(fn), i, cal.Name(), callOrd), P.Pos(call.Pos()), "the call is reached only on paths where the looked-up number was compared with NULLINUM and differs", "dominated by the != NULLINUM side", "a name that does not exist gives the null number; locking it fails for ever, and the surrounding loop takes that for 'freed since the lookup' and retries without end - the RPC never returns and keeps a CPU busy")
					}
				}
			}
		}
	}
}
