package main

// nfsverif: repository-specific static checker for mit-pdos/go-nfsd.
// See /verif/DESIGN.md.  Every run re-loads /repo's working tree.

import (
	"flag"
	"fmt"
	"os"
	"sort"
	"strconv"
	"strings"

	"golang.org/x/tools/go/ssa"
)

type Ctx struct {
	P    *Program
	R    *Report
	Tier string
	V    *Vocab
	bw   *bwState
	cp   *commitProto
}

// fn resolves an anchor function or records UNRESOLVED-ANCHOR.
func (c *Ctx) fn(rule, spec string) *ssa.Function {
	f := c.P.Func(spec)
	if f == nil {
		c.R.Unresolved(rule, spec)
	}
	return f
}

func (c *Ctx) thorough() bool { return c.Tier == "thorough" }

type propFn func(c *Ctx)

var props = map[string]propFn{}

func main() {
	prop := flag.String("prop", "", "property id (C01..C19) or 'all'")
	tier := flag.String("tier", "", "quick|thorough")
	repo := flag.String("repo", "/repo", "repository to analyse")
	verif := flag.String("verif", "/verif", "verif directory (known findings, evidence)")
	controls := flag.Bool("selftest-controls", false, "run the positive controls")
	dump := flag.String("dump", "", "debug: dump info (entries|funcs)")
	explain := flag.String("explain", "", "replay: re-derive the obligation in the given replay file")
	flag.Parse()
	if *tier == "" {
		*tier = os.Getenv("VERIF_TIER")
	}
	if *tier == "" {
		*tier = "quick"
	}
	seed := 0
	if s := os.Getenv("VERIF_SEED"); s != "" {
		seed, _ = strconv.Atoi(s)
	}
	if *controls {
		os.Exit(runControls(*verif))
	}
	if *explain != "" {
		b, err := os.ReadFile(*explain)
		if err != nil {
			fmt.Println(err)
			os.Exit(2)
		}
		fmt.Printf("replay file %s:\n%s\nre-running the property's rules on the current tree:\n", *explain, b)
	}
	if *prop == "" && *dump == "" {
		fmt.Println("usage: nfsverif -prop Cxx [-tier quick|thorough]")
		os.Exit(2)
	}
	P, err := Load(*repo)
	if err != nil {
		// A tree that cannot be loaded fails every check (never passes vacuously).
		fmt.Printf("LOAD-FAILURE: %v\n", err)
		if *prop != "all" {
			fmt.Printf("VIOLATION property=%s replay=%s\n", *prop, *verif+"/evidence/"+*prop+".violations/load-failure")
		}
		os.Exit(1)
	}
	if *dump != "" {
		dumpInfo(P, *dump)
		return
	}
	var ids []string
	if *prop == "all" {
		for id := range props {
			ids = append(ids, id)
		}
		sort.Strings(ids)
	} else {
		if _, ok := props[*prop]; !ok {
			fmt.Printf("unknown or unclaimed property %s\n", *prop)
			os.Exit(2)
		}
		ids = []string{*prop}
	}
	V := resolveVocab(P)
	status := 0
	for _, id := range ids {
		R := NewReport(id, *tier)
		c := &Ctx{P: P, R: R, Tier: *tier, V: V}
		for _, miss := range V.Missing {
			R.Unresolved(id+".vocab", miss)
		}
		func() {
			defer func() {
				if e := recover(); e != nil {
					// a checker panic is a failure of the check, never a pass
					R.Undecided(id+".engine", "panic", "?", "the analysis must complete", fmt.Sprintf("checker panic: %v", e))
					if os.Getenv("NFSVERIF_DEBUG") != "" {
						panic(e)
					}
				}
			}()
			props[id](c)
		}()
		R.Extra["packages_loaded"] = len(P.Pkgs)
		R.Extra["load_ssa_seconds"] = P.LoadS
		if P.cg != nil {
			R.Extra["callgraph_functions"] = P.NFuncs
		}
		st := R.Finish(*verif, seed)
		if *tier == "thorough" && os.Getenv("NFSVERIF_NESTED") == "" {
			// test the checker both ways on every thorough run, then rewrite the evidence
			rs, all := runVariants(id, *repo, *verif, R.FailingKeys())
			R.Extra["selftest_variants"] = rs
			R.Extra["selftest_summary"] = selftestSummary(rs)
			fmt.Printf("%s selftest: %s\n", id, selftestSummary(rs))
			if !all {
				for _, v := range rs {
					if !v.OK {
						fmt.Printf("SELFTEST-UNEXPECTED %s variant=%s kind=%s expect=%s got=%q\n", id, v.Name, v.Kind, v.Expect, v.Reported)
					}
				}
				if st == 0 {
					st = 3 // the checker did not behave as documented: a failure of the check, not of the property
				}
			}
			R.rewriteEvidence(*verif)
		}
		if st > status {
			status = st
		}
	}
	os.Exit(status)
}

func dumpInfo(P *Program, what string) {
	if strings.HasPrefix(what, "ts:") {
		V := resolveVocab(P)
		c := &Ctx{P: P, R: NewReport("dump", "quick"), V: V}
		ts := NewTS(c)
		var all []*ssa.Function
		all = append(all, V.NfsEntries...)
		all = append(all, P.RepoFuncs("shrinker")...)
		for _, e := range all {
			if e.Name() == what[3:] || what[3:] == "all" {
				ts.RunEntry(e)
			}
		}
		var ks []string
		for k := range ts.Events {
			ks = append(ks, k)
		}
		sort.Strings(ks)
		for _, k := range ks {
			e := ts.Events[k]
			fmt.Printf("EV %-8s bad=%-5v %s %s [%s] txn=%s st=%+v %v\n", e.Kind, e.Bad, P.Pos(e.Pos), e.Detail, e.Stack, e.Txn, e.St, e.Extra)
		}
		for _, sn := range ts.Snaps {
			fmt.Printf("SNAP %s ret@%s results=%s\n   G=%s\n", sn.Entry, P.Pos(sn.Ret.Pos()), AV{K: KTuple, Tup: sn.Results}.key(), sn.G.key())
		}
		fmt.Println("UNDEC", ts.Undec)
		return
	}
	switch what {
	case "funcs":
		for _, f := range P.RepoFuncs() {
			fmt.Println(FuncName(f), len(f.Blocks))
		}
	case "entries":
		V := resolveVocab(P)
		for _, e := range V.NfsEntries {
			fmt.Println("nfs", FuncName(e))
		}
		for _, e := range V.SimpleEntries {
			fmt.Println("simple", FuncName(e))
		}
		fmt.Println("missing:", V.Missing)
	}
}
