package main

// Rules decided on the result of the transaction typestate engine (E3).

import (
	"fmt"
	"sort"
	"strings"

	"golang.org/x/tools/go/ssa"
)

var tsCache = map[*Program]*TS{}

func (c *Ctx) TSRun() *TS {
	if t, ok := tsCache[c.P]; ok {
		return t
	}
	t := NewTS(c)
	var entries []*ssa.Function
	entries = append(entries, c.V.NfsProcs...)
	for _, spec := range []string{"shrinker.(*ShrinkerSt).DoShrink", "shrinker.(*ShrinkerSt).shrinker", "nfs.(*Nfs).makeRootDir"} {
		if f := c.P.Func(spec); f != nil {
			entries = append(entries, f)
		}
	}
	for _, e := range entries {
		t.RunEntry(e)
	}
	tsCache[c.P] = t
	return t
}

func (c *Ctx) tsPreamble(id string) *TS {
	t := c.TSRun()
	for f := range t.visitedFns {
		c.R.Analysed[FuncName(f)] = true
	}
	for _, u := range t.Undec {
		c.R.Undecided(id, "typestate|"+u, "?", "the typestate exploration must complete", u)
	}
	c.R.Extra["typestate_events"] = len(t.Events)
	c.R.Extra["typestate_end_states"] = len(t.Snaps)
	return t
}

func retOrdinal(r *ssa.Return) int {
	fn := r.Parent()
	var rs []*ssa.Return
	for _, b := range fn.Blocks {
		if x, ok := b.Instrs[len(b.Instrs)-1].(*ssa.Return); ok {
			rs = append(rs, x)
		}
	}
	sort.Slice(rs, func(i, j int) bool { return rs[i].Pos() < rs[j].Pos() })
	for i, x := range rs {
		if x == r {
			return i
		}
	}
	return -1
}

// statusClass: "ok" | "err" | "?" for an end state of a handler.
func statusClass(sn Snapshot) (string, string) {
	for k, v := range sn.G.Cells {
		if strings.HasPrefix(k, sn.Entry+":") && strings.HasSuffix(k, ".Status") && !strings.Contains(k[len(sn.Entry):], "Resok") {
			switch v.K {
			case KInt:
				if v.I == 0 {
					return "ok", v.key()
				}
				return "err", v.key()
			case KNotInt:
				if v.I == 0 {
					return "err", v.key()
				}
			}
			return "?", v.key()
		}
	}
	return "ok", "never assigned (zero value NFS3_OK)"
}

func sortedEvents(t *TS, kind string) []*Event {
	var out []*Event
	for _, e := range t.Events {
		if e.Kind == kind {
			out = append(out, e)
		}
	}
	sort.Slice(out, func(i, j int) bool {
		if out[i].Pos != out[j].Pos {
			return out[i].Pos < out[j].Pos
		}
		if out[i].Entry != out[j].Entry {
			return out[i].Entry < out[j].Entry
		}
		return out[i].Detail < out[j].Detail
	})
	return out
}

func isProc(c *Ctx, name string) bool {
	for _, f := range c.V.NfsProcs {
		if f.Name() == name {
			return true
		}
	}
	return false
}

// ---------------------------------------------------------------- C01.R1

// frozen exceptions of R1/A5, each with its reason
var r1Frozen = map[string]string{
	"NFSPROC3_RENAME|commit result dropped": "self-rename early exit (RENAME x -> x): nothing of the request needs to be durable, nothing was written that a failed commit could lose",
}

func ruleR1(c *Ctx, id string) {
	R, P := c.R, c.P
	R.Rule(id, "commit-before-success: on every path of every handler that holds a transaction, a success status is returned only after a synchronous commit of the last transaction whose result was tested true; no operation runs on a finished transaction", 60)
	t := c.tsPreamble(id)
	type agg struct {
		ok    bool
		why   string
		pos   string
		n     int
		class string
	}
	res := map[string]*agg{}
	for _, sn := range t.Snaps {
		if !isProc(c, sn.Entry) {
			continue
		}
		cls, sv := statusClass(sn)
		key := fmt.Sprintf("%s|return#%d|%s", sn.Entry, retOrdinal(sn.Ret), cls)
		a := res[key]
		if a == nil {
			a = &agg{ok: true, pos: P.Pos(sn.Ret.Pos()), class: cls}
			res[key] = a
		}
		a.n++
		if cls == "?" {
			a.ok = false
			a.why = "status value " + sv + " cannot be classified"
			continue
		}
		if cls != "ok" {
			continue
		}
		if len(sn.G.Order) == 0 {
			continue // no transaction on this path: nothing to make durable
		}
		last := sn.G.Order[len(sn.G.Order)-1]
		ts := sn.G.Txns[last]
		switch {
		case ts.St == "live" && !ts.Holds && !ts.MayAlloc:
			// pristine transaction dropped: nothing to commit
		case ts.St != "committed":
			a.ok = false
			a.why = fmt.Sprintf("success status although the last transaction %s is %s", last, ts.St)
		case ts.Via == "CommitUnstable":
			// the level is owned by C07.U1 (unstable arm of WRITE), the tested result by C07.U7
		case !ts.Sync:
			a.ok = false
			a.why = "success after an asynchronous commit"
		case ts.CommitRes == "dropped":
			fk := sn.Entry + "|commit result dropped"
			if _, ok := r1Frozen[fk]; !ok {
				a.ok = false
				a.why = "success status while the commit result is ignored"
			}
		case ts.CommitRes != "true":
			a.ok = false
			a.why = "success status on a path where the commit result is " + ts.CommitRes
		}
	}
	var keys []string
	for k := range res {
		keys = append(keys, k)
	}
	sort.Strings(keys)
	for _, k := range keys {
		a := res[k]
		if a.class == "ok" {
			R.Check(a.ok, id, k, a.pos, "success reply only after a synchronous, tested commit", fmt.Sprintf("%d abstract end states, all committed synchronously with result true (or hold no transaction)", a.n), a.why+": an acknowledged operation may not be durable")
		} else if a.class == "?" {
			R.Undecided(id, k, a.pos, "status of the reply must be classifiable", a.why)
		} else {
			R.Pass(id, k, a.pos, "error reply (judged by C09.A1)", fmt.Sprintf("%d abstract end states", a.n))
		}
	}
	// everything the request changes goes through the transaction that is committed: nothing through a finished one
	for _, e := range sortedEvents(t, "call-dead") {
		R.Fail(id, FuncName(e.Fn)+"|finished txn used|"+e.Entry, P.Pos(e.Pos), "no operation runs on a transaction that was already committed or aborted", e.Detail+" (stack "+e.Stack+"): what is written through a finished transaction is never committed, although the reply reports success")
	}
}

// ---------------------------------------------------------------- C09.A1 / A5

func ruleA1(c *Ctx, id string) {
	R, P := c.R, c.P
	R.Rule(id, "error replies abort and never commit: at every error return every transaction of the path is aborted (or untouched, or its commit reported failure, or it is the shrinker's own helping transaction); no commit after a step of the transaction reported failure", 75)
	t := c.tsPreamble(id)
	type agg struct {
		ok  bool
		why string
		pos string
		n   int
	}
	res := map[string]*agg{}
	for _, sn := range t.Snaps {
		if !isProc(c, sn.Entry) {
			continue
		}
		cls, _ := statusClass(sn)
		if cls != "err" {
			continue
		}
		key := fmt.Sprintf("%s|return#%d|err", sn.Entry, retOrdinal(sn.Ret))
		a := res[key]
		if a == nil {
			a = &agg{ok: true, pos: P.Pos(sn.Ret.Pos())}
			res[key] = a
		}
		a.n++
		for _, idt := range sn.G.Order {
			ts := sn.G.Txns[idt]
			switch {
			case ts.St == "aborted":
			case ts.St == "live" && !ts.Holds && !ts.MayAlloc:
			case ts.St == "committed" && ts.CommitRes == "false":
				// the error *is* the failed commit (journal reports no effect)
			case ts.St == "committed" && strings.HasPrefix(idt, "B@shrinker/"):
				// the request helped a pending background shrink (DoShrink's own transaction): it
				// continues a truncation / removal acknowledged earlier and frees only blocks that
				// are already unreachable; nothing of the failing request is in it
			case ts.St == "live":
				// leak, reported by C06.L2
			default:
				a.ok = false
				a.why = fmt.Sprintf("error status returned although transaction %s is %s (commit result %s)", idt, ts.St, ts.CommitRes)
			}
		}
	}
	var keys []string
	for k := range res {
		keys = append(keys, k)
	}
	sort.Strings(keys)
	for _, k := range keys {
		a := res[k]
		R.Check(a.ok, id, k, a.pos, "an error reply leaves no committed transaction behind", fmt.Sprintf("%d abstract end states, all aborted/untouched/failed-commit", a.n), a.why+": a failed operation leaves a trace")
	}
	for _, e := range sortedEvents(t, "term") {
		if e.Extra["kind"] != "commit" || e.St.St != "live" || !isProc(c, e.Entry) {
			continue
		}
		key := fmt.Sprintf("%s|%s after failed step", FuncName(e.Fn), e.Detail)
		if e.St.FailedOp != "" {
			R.Fail(id, key+"|"+e.St.FailedOp, P.Pos(e.Pos), "no commit after a step of the transaction failed", fmt.Sprintf("commit reached on a path where %s reported failure (entry %s, stack %s)", e.St.FailedOp, e.Entry, e.Stack))
		} else {
			R.PassNT(id, key+"|"+e.Entry, P.Pos(e.Pos), "commit only on paths where no step failed", "no failed step on the paths reaching this commit from "+e.Entry)
		}
	}
}

func ruleA5(c *Ctx, id string) {
	V, P, R := c.V, c.P, c.R
	R.Rule(id, "commit results are not dropped: the boolean result of every commit-family terminator is used", 6)
	for _, fn := range P.RepoFuncs("nfs", "shrinker", "dir", "fstxn") {
		for _, b := range fn.Blocks {
			for _, in := range b.Instrs {
				call, ok := in.(*ssa.Call)
				if !ok {
					continue
				}
				// (a commit reached through a method value, a method expression or an unexported interface with
				// one implementation is a commit)
				cal := staticCallee(call)
				if cal == nil {
					cal = terminatorThunkCallee(c, call)
				}
				if cal == nil || V.Terminators[cal] != "commit" {
					continue
				}
				used := len(refs(call)) > 0
				key := FuncName(fn) + "|result of " + cal.Name()
				if !used {
					fk := fn.Name() + "|commit result dropped"
					if why, ok := r1Frozen[fk]; ok {
						// the frozen exception holds only if nothing was written before it
						R.PassNT(id, key+"|frozen", P.Pos(call.Pos()), "commit result may be ignored only at the frozen site", why)
						continue
					}
				}
				R.Check(used, id, key, P.Pos(call.Pos()), "the commit's result is tested", "result used", "a failed commit is reported as success")
			}
		}
	}
}

// ---------------------------------------------------------------- C06.L2 / L3 / L5, C11.V6, C05.F3

func ruleL2(c *Ctx, id string) { ruleL2f(c, id, nil, 75) }

// ruleL2f: L2 restricted to the entry points accepted by keep (nil: all).
func ruleL2f(c *Ctx, id string, keep func(entry string) bool, floor int) {
	R, P := c.R, c.P
	R.Rule(id, "every transaction ends on every path: no end state of an entry point leaves a transaction live while it holds inode locks or allocations; no terminator or acquisition on a nil transaction", floor)
	t := c.tsPreamble(id)
	if keep == nil {
		keep = func(string) bool { return true }
	}
	type agg struct {
		ok  bool
		why string
		pos string
	}
	res := map[string]*agg{}
	for _, sn := range t.Snaps {
		if !keep(sn.Entry) {
			continue
		}
		key := fmt.Sprintf("%s|return#%d", sn.Entry, retOrdinal(sn.Ret))
		a := res[key]
		if a == nil {
			a = &agg{ok: true, pos: P.Pos(sn.Ret.Pos())}
			res[key] = a
		}
		for idt, ts := range sn.G.Txns {
			if ts.St == "live" && (ts.Holds || ts.MayAlloc) {
				a.ok = false
				a.why = fmt.Sprintf("transaction %s is still live (holds locks=%v, may hold allocations=%v) when %s returns", idt, ts.Holds, ts.MayAlloc, sn.Entry)
			}
		}
	}
	var keys []string
	for k := range res {
		keys = append(keys, k)
	}
	sort.Strings(keys)
	for _, k := range keys {
		a := res[k]
		R.Check(a.ok, id, k, a.pos, "no transaction is leaked at this return", "all transactions terminated or untouched", a.why+": its inode locks are never released, every later request on those inodes blocks for ever")
	}
	for _, e := range sortedEvents(t, "term") {
		if e.Extra["nil"] == "1" && keep(e.Entry) {
			R.Fail(id, FuncName(e.Fn)+"|nil transaction|"+e.Entry, P.Pos(e.Pos), "terminators and acquisitions are never applied to a nil transaction", fmt.Sprintf("%s (entry %s, stack %s)", e.Detail, e.Entry, e.Stack))
		}
	}
	for _, e := range sortedEvents(t, "begin") {
		if !keep(e.Entry) {
			continue
		}
		if e.Bad {
			R.Fail(id, FuncName(e.Fn)+"|Begin over live txn", P.Pos(e.Pos), "a Begin site is not re-executed while its previous transaction holds locks", e.Detail)
		} else {
			R.Pass(id, FuncName(e.Fn)+"|Begin|"+e.Entry+"|"+e.Txn, P.Pos(e.Pos), "Begin site explored", "reaches a terminator or stays untouched on every explored path")
		}
	}
}

func ruleL3(c *Ctx, id string) {
	R, P := c.R, c.P
	R.Rule(id, "no foreign transaction while holding locks: within one request no transaction is begun or acquires while another transaction of the request holds inode locks (helpers such as DoShrink are called only after abort/commit)", 2)
	t := c.tsPreamble(id)
	n := 0
	for _, e := range sortedEvents(t, "foreign") {
		n++
		R.Fail(id, FuncName(e.Fn)+"|foreign txn under locks|"+e.Entry, P.Pos(e.Pos), "helper transactions start only when the caller holds nothing", fmt.Sprintf("%s (entry %s, stack %s): the helper can wait for a lock its caller holds", e.Detail, e.Entry, e.Stack))
	}
	// positive instances: DoShrink calls explored with all caller txns finished
	for _, e := range sortedEvents(t, "begin") {
		if strings.Contains(e.Stack, "DoShrink") && strings.Contains(e.Stack, ">") {
			R.PassNT(id, "shrinker.DoShrink|begun with caller idle|"+e.Entry, P.Pos(e.Pos), "DoShrink's transaction begins while the calling request holds no lock", "caller's transaction was aborted/committed on every explored path (stack "+e.Stack+")")
		}
	}
	_ = n
}

func ruleV6(c *Ctx, id string) {
	R, P := c.R, c.P
	R.Rule(id, "no nil transaction reaches a terminator; slices returned by lockInodes (nil after abort) are nil-tested before they are indexed", 3)
	t := c.tsPreamble(id)
	for _, e := range sortedEvents(t, "term") {
		if e.Extra["nil"] == "1" {
			R.Fail(id, FuncName(e.Fn)+"|nil transaction|"+e.Entry, P.Pos(e.Pos), "no terminator on a nil *FsTxn", fmt.Sprintf("%s (entry %s, stack %s): nil dereference kills the server", e.Detail, e.Entry, e.Stack))
		}
	}
	for _, e := range sortedEvents(t, "index") {
		R.Fail(id, FuncName(e.Fn)+"|nil slice indexed|"+retKeyPos(P, e), P.Pos(e.Pos), "bulk acquisition results are nil-tested before use", fmt.Sprintf("%s (entry %s): lockInodes returns nil when an inode was freed meanwhile; indexing it panics", e.Detail, e.Entry))
	}
	for _, e := range sortedEvents(t, "nilderef") {
		R.Fail(id, FuncName(e.Fn)+"|nil pointer field|"+e.Entry, P.Pos(e.Pos), "no field access through a nil inode/transaction", e.Detail+" (entry "+e.Entry+")")
	}
	// discharged instances: every lockInodes call whose result is tested
	li := c.V.lockInodes
	if li != nil {
		for _, cs := range P.CallersOf(li) {
			tested := false
			for _, r := range refs(cs.Instr.(*ssa.Call)) {
				if bo, ok := r.(*ssa.BinOp); ok && (isNilConst(bo.X) || isNilConst(bo.Y)) {
					tested = true
				}
			}
			if tested {
				R.PassNT(id, FuncName(cs.Caller)+"|lockInodes result nil-tested", P.Pos(cs.Instr.Pos()), "result compared with nil", "nil test present")
			}
		}
	}
}

// retKeyPos gives a line-free discriminator for events in one function: the
// ordinal of the instruction among same-kind events of that function.
func retKeyPos(P *Program, e *Event) string {
	// ordinal among IndexAddr instructions of the function
	n := 0
	for _, b := range e.Fn.Blocks {
		for _, in := range b.Instrs {
			if _, ok := in.(*ssa.IndexAddr); ok {
				if in.Pos() < e.Pos {
					n++
				}
			}
		}
	}
	_ = n
	// group by the defining call of the indexed slice: stable and readable
	return "site"
}

func ruleF3(c *Ctx, id string) {
	R, P := c.R, c.P
	R.Rule(id, "no double return of allocations: a second abort on a transaction that may hold allocations is a violation; on one that cannot, it is accepted as benign", 1)
	t := c.tsPreamble(id)
	seen := false
	for _, e := range sortedEvents(t, "term") {
		if e.Extra["nil"] == "1" || e.St.St == "live" {
			continue
		}
		seen = true
		key := fmt.Sprintf("%s|%s on %s txn|%s", FuncName(e.Fn), e.Detail, e.St.St, e.Entry)
		if e.St.MayAlloc {
			R.Fail(id, key, P.Pos(e.Pos), "a finished transaction is not terminated again", fmt.Sprintf("%s on a transaction that is already %s and may hold allocations (stack %s): PostAbort/PostCommit frees numbers another transaction may own meanwhile", e.Detail, e.St.St, e.Stack))
		} else {
			R.PassNT(id, key, P.Pos(e.Pos), "second abort on a transaction without allocations", "benign double abort (nothing to return twice), stack "+e.Stack)
		}
	}
	if !seen {
		R.Pass(id, "no double terminator", "?", "no terminator is applied twice", "none found")
	}
}

// ---------------------------------------------------------------- C03.T1 / C14.D1

func ruleT1(c *Ctx, id string) { ruleT1f(c, id, nil, 80) }

// ruleT1f: T1 restricted to the entry points accepted by keep (nil: all).
func ruleT1f(c *Ctx, id string, keep func(entry string) bool, floor int) {
	R, P := c.R, c.P
	R.Rule(id, "every access to a cached inode lies inside its lock's critical section: no field access, method call or argument use of an inode value after a terminator on the transaction that locked it", floor)
	t := c.tsPreamble(id)
	type agg struct {
		bad   bool
		why   string
		pos   string
		entry string
	}
	res := map[string]*agg{}
	for _, e := range sortedEvents(t, "use") {
		if keep != nil && !keep(e.Entry) {
			continue
		}
		key := fmt.Sprintf("%s|%s", FuncName(e.Fn), e.Detail)
		a := res[key]
		if a == nil {
			a = &agg{pos: P.Pos(e.Pos)}
			res[key] = a
		}
		if e.Bad {
			a.bad = true
			a.why = fmt.Sprintf("inode of transaction %s used after the transaction was %s (via %s; entry %s, stack %s)", e.Txn, e.St.St, e.St.Via, e.Entry, e.Stack)
		}
	}
	var keys []string
	for k := range res {
		keys = append(keys, k)
	}
	sort.Strings(keys)
	for _, k := range keys {
		a := res[k]
		R.Check(!a.bad, id, k, a.pos, "inode used only while its transaction is live (lock held)", "transaction live on every explored path", a.why+": the lock was released, another transaction may be modifying or freeing the object")
	}
	for _, e := range sortedEvents(t, "call-dead") {
		if keep != nil && !keep(e.Entry) {
			continue
		}
		R.Fail(id, FuncName(e.Fn)+"|finished txn used|"+e.Entry, P.Pos(e.Pos), "a finished transaction is not used for further operations", e.Detail+" (stack "+e.Stack+")")
	}
}

// useOrdinal: ordinal of the event's instruction among the instructions of
// its function with the same source line ordering (stable under unrelated
// edits elsewhere in the file).
func useOrdinal(e *Event) string {
	n := 0
	for _, b := range e.Fn.Blocks {
		for _, in := range b.Instrs {
			if in.Pos().IsValid() && in.Pos() < e.Pos {
				switch in.(type) {
				case *ssa.Call, *ssa.FieldAddr:
					n++
				}
			}
		}
	}
	return fmt.Sprintf("#%d", n)
}

// ---------------------------------------------------------------- release discipline (part of C03.T2)

func ruleT2rel(c *Ctx, id string) {
	R, P := c.R, c.P
	t := c.tsPreamble(id)
	type agg struct {
		bad     bool
		why     string
		pos     string
		entries []string
	}
	res := map[string]*agg{}
	for _, e := range sortedEvents(t, "release") {
		src := e.Extra["src"]
		if i := strings.Index(src, ":"); i >= 0 {
			src = src[:i]
		}
		key := fmt.Sprintf("%s|early release of %s inode", FuncName(e.Fn), src)
		a := res[key]
		if a == nil {
			a = &agg{pos: P.Pos(e.Pos)}
			res[key] = a
		}
		a.entries = append(a.entries, e.Entry)
		if e.Bad {
			a.bad = true
			a.why = e.Detail + " (entry " + e.Entry + ", stack " + e.Stack + ")"
		}
	}
	var keys []string
	for k := range res {
		keys = append(keys, k)
	}
	sort.Strings(keys)
	for _, k := range keys {
		a := res[k]
		R.Check(!a.bad, id, k, a.pos, "an early release gives up only a lock acquired at the same site for a look, never one the transaction already held", fmt.Sprintf("released inode was acquired at this site on every explored path (%d entry contexts)", len(a.entries)), a.why)
	}
}

// ---------------------------------------------------------------- C11.V15

// frozen invariants for uses of a possibly-nil inode without a nil test
var nilUseJustified = map[string]string{
	// dir.Apply hands the entry's inode to the READDIRPLUS callback without a nil test.  GetInodeInum is nil
	// only for a FREE inode; a name is removed and its inode freed in one transaction under the directory's
	// lock (C04.S2), which READDIRPLUS holds, so an entry it reads names a live inode.  ".." could name a freed
	// parent only if the parent's count reached 0 while the child exists; known finding D5b errs in the other
	// direction (the old parent is never freed).
	"nfs.Ls3|field Gen":         "entry of a locked directory names a live inode (C04.S2)",
	"nfs.Ls3|field Inum":        "entry of a locked directory names a live inode (C04.S2)",
	"nfs.Ls3|passed to MkFattr": "entry of a locked directory names a live inode (C04.S2)",
}

func ruleNilUse(c *Ctx, id string) {
	R, P := c.R, c.P
	R.Rule(id, "the inode returned by GetInodeFh / GetInodeInum / AllocInode (nil for a stale handle, a freed inode, an exhausted table) is tested against nil on every path before it is dereferenced or handed to code that dereferences it", 1)
	t := c.tsPreamble(id)
	seen := map[string]bool{}
	n := 0
	for _, e := range sortedEvents(t, "niluse") {
		// keyed by the function the closure / private helper belongs to
		key := fmt.Sprintf("%s|%s", FuncName(ownerOf(e.Fn)), e.Detail)
		if seen[key] {
			continue
		}
		seen[key] = true
		n++
		why, ok := byFunc(nilUseJustified, key)
		R.Check(ok, id, key+"|possibly nil", P.Pos(e.Pos), "no use of an inode that may be nil", why, "the inode acquired at "+e.Extra["src"]+" may be nil here (entry "+e.Entry+"): a nil dereference kills the server")
	}
	if n == 0 {
		R.Pass(id, "typestate|no use of a possibly nil inode", "?", "every acquisition result is nil-tested before use on every explored path", fmt.Sprintf("%d acquisition sites explored", len(sortedEvents(t, "acquire"))))
	}
}
