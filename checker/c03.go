package main

import (
	"fmt"
	"go/token"
	"go/types"
	"sort"
	"strings"

	"golang.org/x/tools/go/ssa"
)

func init() {
	props["C03"] = func(c *Ctx) {
		c.R.Expl = "Strict two-phase locking, decided on every path: (T1) cached inodes are used only while the transaction that locked them is live; (T2) inode locks are released only by the commit/abort epilogue after the durability point, and at three frozen early-release sites that give up only a lock taken for a look; the lock map is touched only by LockInode/ReleaseInode; (T3) abort-and-relock sites revalidate generation and name before the relocked inodes are used."
		c.R.NotDec = "existence of a linearization for a given history; the journal's commit order."
		ruleT1(c, "C03.T1")
		ruleT2(c, "C03.T2")
		ruleT3(c, "C03.T3")
		ruleSlot(c, "C03.T4")
		ruleA2(c, "C03.T5")
		ruleNoent(c, "C03.T6")
		ruleColdRead(c, "C03.T7")
		ruleR3(c, "C03.T8")
		ruleStale(c, "C03.T9")
		ruleT10(c, "C03.T10")
		// a freed inode is empty (Resize(0) before FreeInode): otherwise the next CREATE that is given the number
		// returns a file with the removed file's size and data - no order of the operations produces that
		ruleF1(c, "C03.T11")
		ruleT12(c, "C03.T12")
		ruleT13(c, "C03.T13")
		// what a retry finds after its relock is checked again, whatever the cached objects look like
		ruleG4(c, "C03.T14")
		// the simple server serialises the requests on one file by one lock
		ruleS17_1(c, "C03.T15")
		ruleObjGranularity(c, "C03.T16")
	}
}

// frozen early-release sites of C03.T2, each with its reason
var earlyRelease = map[string]string{
	"(*fstxn.FsTxn).releaseInodes": "commit/abort epilogue",
	"(*fstxn.FsTxn).GetInodeInum":  "free inode: nothing but Kind was read",
	"(*fstxn.FsTxn).GetInodeFh":    "generation mismatch: nothing of the object was used",
	"dir.Apply":                    "child read for attributes only while the listed directory stays locked",
}

func ruleT2(c *Ctx, id string) {
	V, P, R := c.V, c.P, c.R
	R.Rule(id, "locks are released only by the epilogue (after the durability point) and at the frozen early-release sites; lockmap Acquire/Release are called only by LockInode/ReleaseInode in the server packages", 8)
	for _, cs := range P.CallersOf(V.ReleaseInode) {
		if !IsRepoFunc(cs.Caller) {
			continue
		}
		who := FuncName(cs.Caller)
		why, ok := byFunc(earlyRelease, who)
		if !ok {
			// a block of statements extracted from one of the sites
			if o := ownerOf(cs.Caller); o != cs.Caller {
				if w2, ok2 := byFunc(earlyRelease, FuncName(o)); ok2 {
					who, why, ok = FuncName(o), w2, true
				}
			}
		}
		R.Check(ok, id, who+"|calls ReleaseInode", P.Pos(cs.Instr.Pos()), "ReleaseInode is called only from the epilogue and the frozen early-release sites", why, "a new early release breaks two-phase locking: another transaction can modify the object before this one commits")
	}
	for _, pr := range []struct {
		f     *ssa.Function
		owner *ssa.Function
	}{{V.LockAcquire, V.LockInode}, {V.LockRelease, V.ReleaseInode}} {
		for _, cs := range P.CallersOf(pr.f) {
			if !IsRepoFunc(cs.Caller) || !inServerPkg(cs.Caller) {
				continue
			}
			owner := pr.owner
			okOwner := cs.Caller == owner || actsFor(P, cs.Caller, func(g *ssa.Function) bool { return g == owner }, 0)
			R.Check(okOwner, id, FuncName(ownerOf(cs.Caller))+"|calls lockmap."+pr.f.Name(), P.Pos(cs.Instr.Pos()), "the lock map is operated only through LockInode/ReleaseInode", "owner", "locking outside the transaction's bookkeeping: the lock is not released by the epilogue")
		}
	}
	// who may call LockInode: GetInodeLocked only
	for _, cs := range P.CallersOf(V.LockInode) {
		if !IsRepoFunc(cs.Caller) || V.LockInode == V.GetInodeLocked {
			continue // (no separate LockInode in this tree: the acquirer rules speak about GetInodeLocked)
		}
		R.Check(cs.Caller == V.GetInodeLocked, id, FuncName(cs.Caller)+"|calls LockInode", P.Pos(cs.Instr.Pos()), "LockInode is called only by GetInodeLocked (which records the inode in the transaction)", "owner", "an inode locked without being recorded is never released")
	}
	// GetInodeLocked records the inode on every path
	if V.GetInodeLocked != nil {
		isRec := func(in ssa.Instruction) bool {
			mu, ok := in.(*ssa.MapUpdate)
			if !ok {
				return false
			}
			n, fl, _, _ := loadedField(mu.Map)
			return n == V.FsTxn && fl == "inodes"
		}
		entry := V.GetInodeLocked.Blocks[0].Instrs[0]
		rec := P.NewAlways(isRec)
		R.Check(MustAfter(V.GetInodeLocked, rec.Instr, nil)(entry), id, "fstxn.GetInodeLocked|records the locked inode", P.Pos(V.GetInodeLocked.Pos()), "every path stores the locked inode into op.inodes", "must-follow", "a locked inode is not recorded: releaseInodes will never unlock it")
	}
	// releaseInodes releases every recorded inode
	if V.releaseInodes != nil {
		calls := P.CallsIn(V.releaseInodes, funcIs(V.ReleaseInode))
		ok := len(calls) == 1 && reachableFrom(calls[0], calls[0])
		R.Check(ok, id, "fstxn.releaseInodes|loop over op.inodes", P.Pos(V.releaseInodes.Pos()), "releaseInodes releases inside a loop over the transaction's inodes", "ReleaseInode in a cycle", "not every held lock is released")
	}
	// ReleaseInode forgets the inode and releases the same number
	if V.ReleaseInode != nil {
		f := V.ReleaseInode
		entry := f.Blocks[0].Instrs[0]
		okRel := false
		for _, sc := range scopesOf(f) {
			for _, call := range P.CallsIn(sc.Fn, funcIs(V.LockRelease)) {
				n, fl, base, _ := loadedFieldS(argN(call, 0), sc.S)
				if n == V.Inode && fl == "Inum" && base == ssa.Value(f.Params[1]) {
					at := call
					okHelper := true
					if sc.Via != nil {
						// the release runs on every path of the helper, and the helper is called on every path
						okHelper = MustAfter(sc.Fn, func(in ssa.Instruction) bool { return in == call }, nil)(sc.Fn.Blocks[0].Instrs[0])
						at = sc.Via
					}
					okRel = okHelper && MustAfter(f, func(in ssa.Instruction) bool { return in == at }, nil)(entry)
				}
			}
		}
		R.Check(okRel, id, "fstxn.ReleaseInode|releases its own inode's number", P.Pos(f.Pos()), "Lockmap.Release(ip.Inum) on every path", "same inode", "ReleaseInode unlocks a different number or not at all")
		isDel := func(in ssa.Instruction) bool {
			cc := callCommon(in)
			if cc == nil {
				return false
			}
			bi, ok := cc.Value.(*ssa.Builtin)
			if !ok || bi.Name() != "delete" {
				return false
			}
			n, fl, _, _ := loadedField(cc.Args[0])
			return n == V.FsTxn && fl == "inodes"
		}
		R.Check(MustAfter(f, P.NewAlways(isDel).Instr, nil)(entry), id, "fstxn.ReleaseInode|forgets the inode", P.Pos(f.Pos()), "the inode is removed from op.inodes (no double release at the epilogue)", "must-follow", "a released inode stays recorded: the epilogue releases a lock it no longer holds")
	}
	// early release in GetInodeInum only on the FREE branch
	if V.GetInodeInum != nil {
		g := V.GetInodeInum
		for _, call := range P.CallsIn(g, funcIs(V.ReleaseInode)) {
			ok := guardedBy(g, call.Block(), func(cd Cond) (bool, bool) {
				n, fl, _, _ := loadedField(cd.X)
				k, isk := constInt(cd.Y)
				if n == V.Inode && fl == "Kind" && isk && k == 0 {
					return true, cd.Op == token.EQL
				}
				return false, false
			})
			R.Check(ok, id, "fstxn.GetInodeInum|early release only when FREE", P.Pos(call.Pos()), "the early release is dominated by Kind == NF3FREE", "guarded", "a live inode's lock is given up early")
		}
	}
	ruleT2rel(c, id)
}

// ---------------------------------------------------------------- T3

func ruleT3(c *Ctx, id string) {
	V, P, R := c.V, c.P, c.R
	R.Rule(id, "abort-and-relock revalidates: after a by-number bulk acquisition that follows an abort, the generation of every inode named by a client handle is compared with the handle, and every (directory, name) lookup that chose the numbers is repeated and compared, before the inodes are used", 8)
	lo := c.fn(id, "nfs.lookupOrdered")
	vr := c.fn(id, "nfs.validateRename")
	lookup := c.fn(id, "dir.LookupName")
	twoInums := P.Func("nfs.twoInums") // (a two-element slice builder; a tree may write the literal instead)
	if lo == nil || vr == nil || lookup == nil || V.lockInodes == nil {
		return
	}
	R.Analysed[FuncName(lo)] = true
	R.Analysed[FuncName(vr)] = true
	// twoInums stores its parameters at their own positions
	if twoInums != nil {
		ok := true
		cnt := 0
		for _, b := range twoInums.Blocks {
			for _, in := range b.Instrs {
				if st, isS := in.(*ssa.Store); isS {
					if ia, isI := st.Addr.(*ssa.IndexAddr); isI {
						k, isk := constInt(ia.Index)
						pm, isP := st.Val.(*ssa.Parameter)
						if !isk || !isP || twoInums.Params[k] != pm {
							ok = false
						}
						cnt++
					}
				}
			}
		}
		R.Check(ok && cnt == 2, id, "nfs.twoInums|positional", P.Pos(twoInums.Pos()), "twoInums(a, b) returns [a, b]", "parameter i stored at index i", "twoInums permutes its arguments: callers index the result by position")
	}
	// --- lookupOrdered
	lcalls := P.CallsIn(lo, funcIs(V.lockInodes))
	if len(lcalls) != 1 {
		R.Fail(id, "nfs.lookupOrdered|one bulk acquisition", P.Pos(lo.Pos()), "lookupOrdered acquires through one lockInodes call", fmt.Sprintf("%d calls", len(lcalls)))
	} else {
		L := lcalls[0].(*ssa.Call)
		numArgs := sliceElems(argN(L, 1), twoInums)
		if numArgs == nil {
			R.Undecided(id, "nfs.lookupOrdered|numbers", P.Pos(L.Pos()), "the numbers are built by twoInums or a slice literal", "unrecognised construction of the inum slice")
		} else {
			// position of the handle-derived number
			hpos, npos := -1, -1
			var hparam, nparam *ssa.Parameter
			for i, a := range numArgs {
				if f, ok := stripConv(a).(*ssa.Field); ok {
					if pm, ok := f.X.(*ssa.Parameter); ok && fieldNameOfValue(f) == "Ino" {
						hpos, hparam = i, pm
					}
				} else if pm, ok := stripConv(a).(*ssa.Parameter); ok {
					npos, nparam = i, pm
				}
				if cl, fl := fieldOfCallResult(a); cl != nil && fl == "Ino" {
					_ = cl
				}
			}
			if hparam == nil {
				// struct param passed by value is spilled: &parent.Ino load
				for i, a := range numArgs {
					if u, ok := stripConv(a).(*ssa.UnOp); ok && u.Op == token.MUL {
						if fa, ok := u.X.(*ssa.FieldAddr); ok && fieldNameAt(fa) == "Ino" {
							if al, ok := fa.X.(*ssa.Alloc); ok {
								if pm := paramSpilledTo(lo, al); pm != nil {
									hpos, hparam = i, pm
								}
							}
						}
					}
				}
			}
			if hparam == nil || nparam == nil {
				R.Undecided(id, "nfs.lookupOrdered|roles", P.Pos(L.Pos()), "one number comes from the parent handle and one is the child number", "cannot identify the handle-derived number")
			} else {
				isElem := func(v ssa.Value, k int) bool {
					u, ok := v.(*ssa.UnOp)
					if !ok || u.Op != token.MUL {
						return false
					}
					ia, ok := u.X.(*ssa.IndexAddr)
					if !ok || ia.X != ssa.Value(L) {
						return false
					}
					kk, isk := constInt(ia.Index)
					return isk && int(kk) == k
				}
				isHandleGen := func(v ssa.Value) bool {
					v = stripConv(v)
					if f, ok := v.(*ssa.Field); ok {
						return f.X == ssa.Value(hparam) && fieldNameOfValue(f) == "Gen"
					}
					if u, ok := v.(*ssa.UnOp); ok && u.Op == token.MUL {
						if fa, ok := u.X.(*ssa.FieldAddr); ok && fieldNameAt(fa) == "Gen" {
							if al, ok := fa.X.(*ssa.Alloc); ok {
								return paramSpilledTo(lo, al) == hparam
							}
						}
					}
					return false
				}
				for _, r := range nonConstReturns(lo, 0) {
					g1 := guardedBy(lo, r.Block(), func(cd Cond) (bool, bool) {
						if cd.Op != token.EQL && cd.Op != token.NEQ {
							return false, false
						}
						for _, pr := range [][2]ssa.Value{{cd.X, cd.Y}, {cd.Y, cd.X}} {
							n, fl, base, _ := loadedField(pr[0])
							if n == V.Inode && fl == "Gen" && isElem(base, hpos) && isHandleGen(pr[1]) {
								return true, cd.Op == token.EQL
							}
						}
						return false, false
					})
					R.Check(g1, id, "nfs.lookupOrdered|generation of the relocked parent", P.Pos(r.Pos()), fmt.Sprintf("the success return is dominated by inodes[%d].Gen == parent.Gen (inodes[%d] is the inode locked for parent.Ino)", hpos, hpos), "guard dominates", "the relocked parent's generation is not compared with the handle (or the wrong inode's is): a stale or foreign directory is accepted, or the request retries for ever")
					g2 := guardedBy(lo, r.Block(), func(cd Cond) (bool, bool) {
						if cd.Op != token.EQL && cd.Op != token.NEQ {
							return false, false
						}
						for _, pr := range [][2]ssa.Value{{cd.X, cd.Y}, {cd.Y, cd.X}} {
							ex, ok := pr[0].(*ssa.Extract)
							if !ok || ex.Index != 0 {
								continue
							}
							lc, ok := ex.Tuple.(*ssa.Call)
							if !ok || staticCallee(lc) != lookup {
								continue
							}
							if !isElem(lc.Call.Args[0], hpos) {
								continue
							}
							if stripConv(pr[1]) == ssa.Value(nparam) {
								return true, cd.Op == token.EQL
							}
						}
						return false, false
					})
					R.Check(g2, id, "nfs.lookupOrdered|name re-resolved in the relocked parent", P.Pos(r.Pos()), fmt.Sprintf("the success return is dominated by LookupName(inodes[%d], name) == inm", hpos), "guard dominates", "the name is not re-resolved after relocking: the child may have been renamed or replaced meanwhile")
					_ = npos
				}
				// failing revalidation aborts
				for _, b := range lo.Blocks {
					r, ok := b.Instrs[len(b.Instrs)-1].(*ssa.Return)
					if !ok || !isNilConst(r.Results[0]) || !reachableFrom(L, r) {
						continue
					}
					nilEdge := guardedBy(lo, b, func(cd Cond) (bool, bool) {
						if (cd.Op == token.EQL || cd.Op == token.NEQ) && cd.X == ssa.Value(L) && isNilConst(cd.Y) {
							return true, cd.Op == token.EQL
						}
						return false, false
					})
					if nilEdge {
						continue // lockInodes aborted already
					}
					R.Check(MustBefore(lo, callTo(V.Abort))(r), id, "nfs.lookupOrdered|failed revalidation aborts", P.Pos(r.Pos()), "a nil return after the acquisition is preceded by Abort", "must-precede", "locks are kept on the retry path: the next attempt deadlocks on them")
				}
			}
		}
	}
	// --- validateRename: the 'true' return is dominated by every equality
	var fhParams, nameParams []*ssa.Parameter
	for _, pm := range vr.Params {
		if isNamed(pm.Type(), "/fh", "Fh") {
			fhParams = append(fhParams, pm)
		}
		if n, ok := types.Unalias(pm.Type()).(*types.Named); ok && n.Obj().Name() == "Filename3" {
			nameParams = append(nameParams, pm)
		}
	}
	var trueRets []*ssa.Return
	for _, b := range vr.Blocks {
		if r, ok := b.Instrs[len(b.Instrs)-1].(*ssa.Return); ok {
			// "still valid" is the constant true, or the status NFS3_OK when the function reports a status
			if bv, isb := constBool(r.Results[0]); isb {
				if bv {
					trueRets = append(trueRets, r)
				}
			} else if k, isk := constInt(r.Results[0]); isk && isNamedStatus(r.Results[0].Type()) {
				if k == 0 {
					trueRets = append(trueRets, r)
				}
			} else {
				R.Undecided(id, "nfs.validateRename|boolean returns", P.Pos(r.Pos()), "validateRename returns constants (true/false or a status)", "non-constant result: cannot relate the result to the comparisons")
			}
		}
	}
	R.Check(len(fhParams) == 2 && len(nameParams) == 2 && len(trueRets) >= 1, id, "nfs.validateRename|signature", P.Pos(vr.Pos()), "validateRename takes both handles and both names", "2 handles, 2 names", "revalidation no longer receives both handles and both names")
	spill := func(v ssa.Value) *ssa.Parameter {
		v = stripConv(v)
		if f, ok := v.(*ssa.Field); ok {
			pm, _ := f.X.(*ssa.Parameter)
			return pm
		}
		if u, ok := v.(*ssa.UnOp); ok && u.Op == token.MUL {
			if fa, ok := u.X.(*ssa.FieldAddr); ok {
				if al, ok := fa.X.(*ssa.Alloc); ok {
					return paramSpilledTo(vr, al)
				}
			}
		}
		return nil
	}
	fieldOfParam := func(v ssa.Value) string {
		v = stripConv(v)
		if f, ok := v.(*ssa.Field); ok {
			return fieldNameOfValue(f)
		}
		if u, ok := v.(*ssa.UnOp); ok && u.Op == token.MUL {
			if fa, ok := u.X.(*ssa.FieldAddr); ok {
				return fieldNameAt(fa)
			}
		}
		return ""
	}
	for _, r := range trueRets {
		for _, hp := range fhParams {
			for _, fld := range []string{"Ino", "Gen"} {
				want := map[string]string{"Ino": "Inum", "Gen": "Gen"}[fld]
				g := guardedByX(vr, r.Block(), func(sub Subst) func(Cond) (bool, bool) {
					return func(cd Cond) (bool, bool) {
						if cd.Op != token.EQL && cd.Op != token.NEQ || cd.X == nil || cd.Y == nil {
							return false, false
						}
						for _, pr := range [][2]ssa.Value{{cd.X, cd.Y}, {cd.Y, cd.X}} {
							n, fl, _, _ := loadedFieldS(pr[0], sub)
							other := sub.resolve(stripConv(pr[1]))
							if n == V.Inode && fl == want && spill(other) == hp && fieldOfParam(other) == fld {
								return true, cd.Op == token.EQL
							}
						}
						return false, false
					}
				}, Subst{}, 0)
				R.Check(g, id, fmt.Sprintf("nfs.validateRename|%s.%s compared", hp.Name(), fld), P.Pos(r.Pos()), fmt.Sprintf("'return true' is dominated by <relocked dir>.%s == %s.%s", want, hp.Name(), fld), "guard dominates", "revalidation can succeed without this comparison: a reused directory inode is taken for the handle's directory")
			}
		}
		for _, np := range nameParams {
			g := guardedByX(vr, r.Block(), func(sub Subst) func(Cond) (bool, bool) {
				return func(cd Cond) (bool, bool) {
					if cd.Op != token.EQL && cd.Op != token.NEQ || cd.X == nil || cd.Y == nil {
						return false, false
					}
					for _, pr := range [][2]ssa.Value{{cd.X, cd.Y}, {cd.Y, cd.X}} {
						ex, ok := sub.resolve(stripConv(pr[0])).(*ssa.Extract)
						if !ok || ex.Index != 0 {
							continue
						}
						lc, ok := ex.Tuple.(*ssa.Call)
						if !ok || staticCallee(lc) != lookup || sub.resolve(stripConv(lc.Call.Args[2])) != ssa.Value(np) {
							continue
						}
						n, fl, _, _ := loadedFieldS(pr[1], sub)
						if n == V.Inode && fl == "Inum" {
							return true, cd.Op == token.EQL
						}
					}
					return false, false
				}
			}, Subst{}, 0)
			R.Check(g, id, fmt.Sprintf("nfs.validateRename|name %s re-resolved", np.Name()), P.Pos(r.Pos()), fmt.Sprintf("'return true' is dominated by LookupName(dir, %s) == <relocked inode>.Inum", np.Name()), "guard dominates", "revalidation can succeed although this name now denotes another object: RENAME unlinks one object and frees another")
		}
	}
	// --- RENAME uses the relocked inodes only under validateRename == true
	ren := c.fn(id, "nfs.(*Nfs).NFSPROC3_RENAME")
	if ren != nil {
		// every round of the retry loop resolves the names again: from a relock (a bulk acquisition of numbers
		// that came from name lookups) no path leads back to it without a fresh LookupName of each name - numbers
		// kept from an earlier round can be stale for ever, and then every round fails the same way
		nRelock := map[string]int{}
		for _, lc := range P.CallsIn(ren, funcIs(V.lockInodes)) {
			elems := sliceElems(argN(lc, 1), twoInums)
			names := map[string]bool{}
			for _, e := range elems {
				for w := range bwdSources(stripConv(e)) {
					if ex, ok := w.(*ssa.Extract); ok && ex.Index == 0 {
						if cl, ok := ex.Tuple.(*ssa.Call); ok && staticCallee(cl) == lookup {
							if _, path := paramFieldPath(cl.Call.Args[2]); path != "" {
								names[path] = true
							}
						}
					}
				}
			}
			if len(names) == 0 || !reachableFrom(lc, lc) {
				continue // numbers of handles, or not in a loop
			}
			var ns []string
			for nm := range names {
				ns = append(ns, nm)
			}
			sort.Strings(ns)
			for _, nm := range ns {
				nm := nm
				isLk := func(in ssa.Instruction) bool {
					cl, ok := in.(*ssa.Call)
					if !ok || staticCallee(cl) != lookup {
						return false
					}
					_, path := paramFieldPath(cl.Call.Args[2])
					return path == nm
				}
				// can the relock be reached again from itself avoiding the blocks that look the name up?
				seen := map[*ssa.BasicBlock]bool{}
				var free bool
				var walk func(b *ssa.BasicBlock)
				walk = func(b *ssa.BasicBlock) {
					if seen[b] || free {
						return
					}
					seen[b] = true
					for _, in := range b.Instrs {
						if isLk(in) {
							return
						}
					}
					if b == lc.Block() {
						free = true
						return
					}
					for _, sb := range b.Succs {
						walk(sb)
					}
				}
				for _, sb := range lc.Block().Succs {
					walk(sb)
				}
				nRelock[nm]++
				rk := fmt.Sprintf("NFSPROC3_RENAME|retry resolves %s again", nm)
				if nRelock[nm] > 1 {
					rk = fmt.Sprintf("%s#%d", rk, nRelock[nm])
				}
				R.Check(!free, id, rk, P.Pos(lc.Pos()), "every way round the retry loop back to the relock passes LookupName of "+nm, "no lookup-free cycle", "a retry reuses the inode number an earlier round found for "+nm+": once another client removes or rebinds that name the relock or the revalidation fails in every round, and the request spins for ever")
			}
		}
		ruleRoles(c, id, vr, ren, lookup, twoInums)
		vcalls := P.CallsIn(ren, funcIs(vr))
		R.Check(len(vcalls) == 1, id, "NFSPROC3_RENAME|calls validateRename", P.Pos(ren.Pos()), "the relock branch of RENAME calls validateRename", "one call", "relock without revalidation")
		if len(vcalls) == 1 {
			vc := vcalls[0].(*ssa.Call)
			// its inode slice must come from the relock lockInodes calls only
			okSrc, nLock := derivesOnlyFrom(argN(vc, 1), func(f *ssa.Function) bool { return f == V.lockInodes }, 0)
			R.Check(okSrc && nLock >= 1, id, "NFSPROC3_RENAME|validateRename sees the relocked inodes", P.Pos(vc.Pos()), "validateRename is given the slice returned by the relock", "value flow", "revalidation is applied to other inodes than the relocked ones")
			tEdge := boolEdge(ren, vc, true)
			fEdge := boolEdge(ren, vc, false)
			if isNamedStatus(vc.Type()) {
				// the status form: == NFS3_OK is "valid"
				okM := func(want bool) func(from, to *ssa.BasicBlock) bool {
					return condEdge(ren, func(cd Cond) (bool, bool) {
						if cd.X == nil || cd.Y == nil || stripConv(cd.X) != ssa.Value(vc) {
							return false, false
						}
						if k, isk := constInt(cd.Y); !isk || k != 0 {
							return false, false
						}
						switch cd.Op {
						case token.EQL:
							return true, want
						case token.NEQ:
							return true, !want
						}
						return false, false
					})
				}
				tEdge, fEdge = okM(true), okM(false)
			}
			var tBlk, fBlk *ssa.BasicBlock
			for _, b := range ren.Blocks {
				for _, s := range b.Succs {
					if tEdge(b, s) {
						tBlk = s
					}
					if fEdge(b, s) {
						fBlk = s
					}
				}
			}
			okUse := tBlk != nil && fBlk != nil
			if okUse {
				// every mutating call between the relock and the loop exit sits under the true edge
				for _, in := range P.CallsIn(ren, func(f *ssa.Function) bool {
					n := f.Name()
					return (relPkg(f) == "dir" && (n == "RemName" || n == "AddName" || n == "IsDirEmpty")) || n == "doDecLink" || f == V.DecLink
				}) {
					if !reachableFrom(vc, in) || !reachableFrom(in, vc) {
						continue // outside the retry loop body after validate
					}
					if !tBlk.Dominates(in.Block()) {
						okUse = false
					}
				}
				// the false side aborts before retrying
				if len(fBlk.Instrs) > 0 && !(callTo(V.Abort)(fBlk.Instrs[0]) || MustAfter(ren, callTo(V.Abort), nil)(fBlk.Instrs[0])) {
					okUse = false
				}
			}
			R.Check(okUse, id, "NFSPROC3_RENAME|relocked inodes used only when validated", P.Pos(vc.Pos()), "inside the retry loop the relocked inodes are modified only under validateRename == true; the false side aborts and retries", "dominance by the true edge; abort on the false edge", "the relocked inodes are used without (or despite failed) revalidation")
		}
	}
}

// paramSpilledTo: the parameter whose value is stored into local alloc al
// at function entry (struct parameters are spilled by go/ssa when their
// fields are addressed).
func paramSpilledTo(fn *ssa.Function, al *ssa.Alloc) *ssa.Parameter {
	for _, in := range refs(al) {
		if st, ok := in.(*ssa.Store); ok && st.Addr == ssa.Value(al) {
			if pm, ok := st.Val.(*ssa.Parameter); ok {
				return pm
			}
		}
	}
	return nil
}

var _ = strings.HasPrefix

// ---------------------------------------------------------------- slot under lock

// ruleSlot: the cached copy of an inode is reached only under that inode's
// lock.  The inode cache evicts slots that are in use, so a slot pointer taken
// before the lock was acquired may no longer be the slot other transactions
// see: two copies of one inode, the older one written over the newer.
func ruleSlot(c *Ctx, id string) {
	V, P, R := c.V, c.P, c.R
	R.Rule(id, "the inode-cache slot of a number is looked up only while that number's lock is held: in LockInode after Lockmap.Acquire of the same number on every path, in dropInodes for the inodes recorded as locked; nowhere else; the content of a slot (Cslot.Obj) is touched only by these holders of the lock", 6)
	look := c.fn(id, "cache.(*Cache).LookupSlot")
	if look == nil || V.LockInode == nil || V.LockAcquire == nil {
		return
	}
	drop := P.Func("fstxn.(*FsTxn).dropInodes")
	n := 0
	for _, cs := range P.CallersOf(look) {
		fn := cs.Caller
		if !IsRepoFunc(fn) || !inServerPkg(fn) {
			continue
		}
		n++
		R.Analysed[FuncName(fn)] = true
		arg := stripConv(argN(cs.Instr, 0))
		owner := fn
		if fn != V.LockInode && fn != drop {
			owner = ownerOf(fn) // a block of statements extracted from one of the two
			for _, sc := range scopesOf(owner) {
				if sc.Fn == fn {
					arg = sc.S.resolve(arg)
				}
			}
		}
		key := FuncName(owner) + "|slot looked up under the lock"
		switch owner {
		case V.LockInode:
			isAcq := func(in ssa.Instruction) bool {
				return callTo(V.LockAcquire)(in) && stripConv(argN(in, 0)) == arg
			}
			R.Check(MustBefore(fn, isAcq)(cs.Instr), id, key, P.Pos(cs.Instr.Pos()), "Lockmap.Acquire(inum) precedes Icache.LookupSlot(inum) on every path", "must-precede, same number", "the slot is looked up before the lock is held: while the request waits for the lock the slot can be evicted and re-created, and the request then works on (and writes back) a stale private copy of the inode")
		case drop:
			// the numbers are those of the inodes this transaction has locked
			okHeld := false
			if nm, fl, base, _ := loadedField(arg); nm == V.Inode && fl == "Inum" {
				for w := range bwdSources(base) {
					if nx, ok := w.(*ssa.Next); ok {
						if rg, ok := nx.Iter.(*ssa.Range); ok {
							if n2, f2, _, _ := loadedField(rg.X); n2 == V.FsTxn && f2 == "inodes" {
								okHeld = true
							}
						}
					}
				}
			}
			R.Check(okHeld, id, key, P.Pos(cs.Instr.Pos()), "dropInodes looks up the slots of the inodes recorded in op.inodes (locked by this transaction)", "range over op.inodes", "a slot of an inode this transaction does not hold is cleared")
		default:
			R.Fail(id, FuncName(fn)+"|slot lookup site", P.Pos(cs.Instr.Pos()), "Icache.LookupSlot is called only by LockInode and dropInodes", "a new lookup site outside the lock discipline")
		}
	}
	if n == 0 {
		R.Fail(id, "cache.LookupSlot|callers", P.Pos(look.Pos()), "the inode cache is used", "no caller found")
	}
	// the content of a slot is protected by the inode's lock, not by the cache's mutex: only the two functions that
	// hold that lock look into a slot, and only into the slot they obtained under it
	cslot := P.Named("cache", "Cslot")
	for _, fn := range P.RepoFuncs() {
		if fn.Blocks == nil {
			continue
		}
		for _, b := range fn.Blocks {
			for _, in := range b.Instrs {
				fa, ok := in.(*ssa.FieldAddr)
				if !ok {
					continue
				}
				nt, fld, base := FieldOf(fa)
				if nt == nil || cslot == nil || nt.Obj() != cslot.Obj() || fld != "Obj" {
					continue
				}
				root := stripConv(base)
				for {
					if f2, ok := root.(*ssa.FieldAddr); ok {
						root = stripConv(f2.X)
						continue
					}
					break
				}
				if _, fresh := root.(*ssa.Alloc); fresh {
					continue // the slot being built
				}
				owner := ownerOf(fn)
				okSite := false
				src := "neither GetInodeLocked nor dropInodes"
				if owner == V.GetInodeLocked || owner == drop {
					for _, sc := range scopesOf(owner) {
						if sc.Fn != fn {
							continue
						}
						want := V.LockInode
						if owner == drop || V.LockInode == V.GetInodeLocked {
							want = look
						}
						if okD, m := derivesOnlyFrom(sc.S.resolve(stripConv(base)), funcIs(want), 0); okD && m > 0 {
							okSite = true
						} else {
							src = "the slot is not the one returned by " + want.Name()
						}
					}
				}
				R.Check(okSite, id, FuncName(fn)+"|slot content touched under the inode lock", P.Pos(fa.Pos()), "Cslot.Obj is read or written only by GetInodeLocked (slot from LockInode) and dropInodes (slots of its own inodes)", "holder of the inode lock", "Cslot.Obj is accessed where the inode's lock is not held ("+src+"): the cache's own mutex does not protect the content of a slot - a data race with GetInodeLocked/dropInodes of the transaction that holds the lock")
			}
		}
	}
}

// ---------------------------------------------------------------- NOENT is the result of a lookup

// ruleNoent: "no such name" is answered only where a lookup of the name, made
// under the directory's lock, found nothing.  Anything else that goes wrong
// with a name that was found (the object vanished during a relock, a
// revalidation failed) must retry or report another error: in every
// sequential order of the operations the name exists.
func ruleNoent(c *Ctx, id string) {
	V, P, R := c.V, c.P, c.R
	R.Rule(id, "NFS3ERR_NOENT is produced only on the 'lookup found nothing' edge: every place in the server package where the constant flows into a status is dominated by LookupName(...) == NULLINUM", 2)
	lookup := c.fn(id, "dir.LookupName")
	if lookup == nil {
		return
	}
	noent := constOfPkg(P, "nfstypes", "NFS3ERR_NOENT")
	isLookupRes := func(v ssa.Value) bool {
		for w := range bwdSources(stripConv(v)) {
			if ex, ok := w.(*ssa.Extract); ok && ex.Index == 0 {
				if cl, ok := ex.Tuple.(*ssa.Call); ok && staticCallee(cl) == lookup {
					return true
				}
			}
		}
		return false
	}
	found := func(fn *ssa.Function, at *ssa.BasicBlock) bool {
		return guardedBy(fn, at, func(cd Cond) (bool, bool) {
			if cd.X == nil || cd.Y == nil {
				return false, false
			}
			a, b := cd.X, cd.Y
			if k, isk := constInt(a); isk && k == 0 {
				a, b = b, a
			}
			if k, isk := constInt(b); !isk || k != 0 || !isLookupRes(a) {
				return false, false
			}
			switch cd.Op {
			case token.EQL:
				return true, true
			case token.NEQ:
				return true, false
			}
			return false, false
		})
	}
	n := 0
	perFn := map[string]int{}
	forStatusConst(c, noent, func(fn *ssa.Function, at *ssa.BasicBlock, pos token.Pos) {
		n++
		k := FuncName(ownerOf(fn)) + "|NOENT"
		perFn[k]++
		key := k
		if perFn[k] > 1 {
			key = fmt.Sprintf("%s#%d", k, perFn[k])
		}
		R.Analysed[FuncName(fn)] = true
		R.Check(found(fn, at), id, key, P.Pos(pos), "NFS3ERR_NOENT is chosen on the edge where dir.LookupName returned NULLINUM", "dominated by lookup == NULLINUM", "'no such name' is answered on a path where the name was found (e.g. the object vanished while the directory was unlocked for a relock): another client's rename over the name makes LOOKUP/REMOVE fail although the name exists in every order")
	})
	if n == 0 {
		R.Fail(id, "nfs|NOENT sites", "?", "the server answers NFS3ERR_NOENT somewhere", "no use of the constant found")
	}
	_ = V
}

// statusEscapes: the idx-th result of fn is used by some caller as more than
// the operand of a comparison (stored, passed on, returned, merged): it can
// become a reply's status.  A status that every caller only compares with a
// constant is an internal signal.
func statusEscapes(fn *ssa.Function, idx int) bool {
	sites := staticSites[fn]
	if len(sites) == 0 {
		return true
	}
	for _, site := range sites {
		call, ok := site.(*ssa.Call)
		if !ok {
			return true
		}
		var vals []ssa.Value
		if fn.Signature.Results().Len() == 1 {
			vals = append(vals, call)
		} else {
			for _, r := range refs(call) {
				if ex, ok := r.(*ssa.Extract); ok && ex.Index == idx {
					vals = append(vals, ex)
				}
			}
		}
		for _, v := range vals {
			for _, r := range refs(v) {
				if bo, ok := r.(*ssa.BinOp); ok && (bo.Op == token.EQL || bo.Op == token.NEQ) {
					continue
				}
				return true
			}
		}
	}
	return false
}

// ---------------------------------------------------------------- a re-locked inode is read afresh

// ruleColdRead: a transaction may look at an inode, give its lock up early
// (the frozen early-release sites of T2: dir.Apply reads and releases every
// child) and lock the same inode again later.  Between the two another
// transaction may have changed and committed it.  jrnl.Op.ReadBuf answers from
// the transaction's own buffers when it has read the address before, so a cold
// read (cache slot empty) through ReadBuf hands the transaction its own stale
// copy, which then becomes the shared cached inode (defect D38).  As long as
// an early release exists, the inode decoded into an empty cache slot must come
// from the committed state: obj.Log.Load.
func ruleColdRead(c *Ctx, id string) {
	V, P, R := c.V, c.P, c.R
	R.Rule(id, "while early releases exist, the inode decoded into an empty cache slot by GetInodeLocked is read from the committed state (obj.Log.Load at Inum2Addr(inum)), never through the transaction's own buffer cache (jrnl.Op.ReadBuf), which may hold the copy read before the lock was given up", 1)
	if V.GetInodeLocked == nil || V.Decode == nil || V.ReleaseInode == nil {
		R.Fail(id, "vocabulary|GetInodeLocked/Decode/ReleaseInode", "", "the anchors exist", "GetInodeLocked, inode.Decode or ReleaseInode not found")
		return
	}
	early := 0
	for _, cs := range P.CallersOf(V.ReleaseInode) {
		if IsRepoFunc(cs.Caller) && inServerPkg(cs.Caller) && FuncName(ownerOf(cs.Caller)) != "(*fstxn.FsTxn).releaseInodes" {
			early++
		}
	}
	if early == 0 {
		R.Pass(id, "fstxn.GetInodeLocked|cold read from the committed state", P.Pos(V.GetInodeLocked.Pos()), "no early release of an inode lock exists: a transaction never locks an inode twice, its own buffers cannot be stale", "no caller of ReleaseInode outside the epilogue")
		return
	}
	n := 0
	for _, sc := range scopesOf(V.GetInodeLocked) {
		R.Analysed[FuncName(sc.Fn)] = true
		for _, call := range P.CallsIn(sc.Fn, funcIs(V.Decode)) {
			n++
			buf := sc.S.resolve(stripConv(argN(call, 0)))
			ok, m := derivesOnlyFrom(buf, funcIs(V.LogLoad), 0)
			// ... and is read under the inode's lock: what was read before the lock was obtained may be out of date by
			// the time the waiter gets it
			scopes := scopesOf(V.GetInodeLocked)
			if ps, other := producersOf(buf); !other {
				for _, pr := range ps {
					if staticCallee(pr.call) != V.LogLoad {
						continue
					}
					var psc Scope
					for _, s2 := range scopes {
						if s2.Fn == pr.call.Parent() {
							psc = s2
						}
					}
					if psc.Fn == nil {
						continue
					}
					top := topInstr(scopes, psc, pr.call)
					locked := top.Parent() == V.GetInodeLocked && MustBefore(V.GetInodeLocked, NewAlwaysInstr(P, callTo(V.LockAcquire)))(top)
					R.Check(locked, id, "fstxn.GetInodeLocked|cold read under the inode lock", P.Pos(pr.call.Pos()), "the inode is read after LockInode returned, on every path", "must-precede", "the inode is read before its lock is held: a request that waits for the lock decodes what it read before the holder changed and committed the inode, and installs that stale copy as the cached inode - the holder's update is lost")
				}
			}
			R.Check(ok && m > 0, id, "fstxn.GetInodeLocked|cold read from the committed state", P.Pos(call.Pos()), "the buffer decoded into the empty cache slot is the result of obj.Log.Load", fmt.Sprintf("every producer of the decoded buffer is obj.Log.Load (%d); %d early-release sites exist", m, early), "the inode is decoded from a buffer that is not read from the committed state (jrnl.Op.ReadBuf answers from the transaction's own buffers: after dir.Apply read and released this inode, a later lock of it in the same transaction works on the stale copy and writes it back)")
		}
	}
	if n == 0 {
		R.Fail(id, "fstxn.GetInodeLocked|cold read from the committed state", P.Pos(V.GetInodeLocked.Pos()), "GetInodeLocked decodes the inode with inode.Decode", "no call of inode.Decode found in GetInodeLocked or its helpers: the rule cannot tell where a cold inode comes from")
	}
}

// sliceElems: the elements, by position, of a small slice built in place:
// builder(a, b) (a positional two-element builder such as twoInums), a
// composite literal []T{a, b}, or make([]T, n) followed by stores at constant
// indices.  nil when the construction is not recognised.
func sliceElems(v ssa.Value, builder *ssa.Function) []ssa.Value {
	v = stripConv(v)
	if cl, ok := v.(*ssa.Call); ok {
		if builder != nil && staticCallee(cl) == builder {
			return cl.Call.Args
		}
		return nil
	}
	var root ssa.Value = v
	if sl, ok := v.(*ssa.Slice); ok {
		root = stripConv(sl.X)
	}
	switch root.(type) {
	case *ssa.Alloc, *ssa.MakeSlice:
	default:
		return nil
	}
	elems := map[int64]ssa.Value{}
	max := int64(-1)
	for _, base := range []ssa.Value{root, v} {
		for _, r := range refs(base) {
			ia, ok := r.(*ssa.IndexAddr)
			if !ok {
				continue
			}
			k, isk := constInt(ia.Index)
			if !isk {
				return nil
			}
			for _, r2 := range refs(ia) {
				if st, ok := r2.(*ssa.Store); ok && st.Addr == ssa.Value(ia) {
					if _, dup := elems[k]; dup {
						return nil
					}
					elems[k] = st.Val
					if k > max {
						max = k
					}
				}
			}
		}
	}
	if max < 0 {
		return nil
	}
	out := make([]ssa.Value, max+1)
	for k, e := range elems {
		out[k] = e
	}
	for _, e := range out {
		if e == nil {
			return nil
		}
	}
	return out
}

// forStatusConst calls f for every place in package nfs where the status
// constant k flows into a status: a store, an argument, a phi input (reported
// at the predecessor block), or a returned value that can become a reply's
// status.
func forStatusConst(c *Ctx, k int64, f func(fn *ssa.Function, at *ssa.BasicBlock, pos token.Pos)) {
	P := c.P
	is := func(v ssa.Value) bool {
		kk, isk := constInt(v)
		nt, _ := types.Unalias(v.Type()).(*types.Named)
		return isk && kk == k && nt != nil && nt.Obj().Name() == "Nfsstat3"
	}
	for _, fn := range P.RepoFuncs("nfs") {
		if strings.HasSuffix(P.Pos(fn.Pos()), "_test.go") || strings.Contains(P.Pos(fn.Pos()), "nfs_clnt.go") {
			continue
		}
		for _, b := range fn.Blocks {
			for _, in := range b.Instrs {
				switch x := in.(type) {
				case *ssa.Phi:
					for i, e := range x.Edges {
						if is(e) {
							f(fn, b.Preds[i], x.Pos())
						}
					}
				case *ssa.Store:
					if is(x.Val) {
						f(fn, b, x.Pos())
					}
				case *ssa.Return:
					for i, r := range x.Results {
						if is(r) && statusEscapes(fn, i) {
							f(fn, b, x.Pos())
						}
					}
				default:
					if cc := callCommon(in); cc != nil {
						for _, a := range cc.Args {
							if is(a) {
								f(fn, b, in.Pos())
							}
						}
					}
				}
			}
		}
	}
}

// ruleStale: "stale file handle" is the answer to a client handle that no
// longer names a live object - and to nothing else.  When the relock of
// RENAME (or of the ordered lookup) finds that an inode whose number came from
// a *name lookup* has vanished, the handle is as good as before: the request
// must retry (the name is gone or rebound, which the next round reports as
// such).  Every place where the constant flows into a status lies behind an
// edge on which a handle failed to resolve: GetInodeFh returned nil, the bulk
// acquisition of numbers that all come from decoded handles returned nil, or
// a generation compared unequal.
func ruleStale(c *Ctx, id string) {
	V, P, R := c.V, c.P, c.R
	R.Rule(id, "NFS3ERR_STALE is produced only where a client handle failed to resolve: every place where the constant flows into a status is reached only through 'GetInodeFh(...) == nil', 'lockInodes(<numbers of decoded handles>) == nil' or a generation mismatch", 8)
	stale := constOfPkg(P, "nfstypes", "NFS3ERR_STALE")
	twoInums := P.Func("nfs.twoInums")
	fromHandleLock := func(v ssa.Value) bool {
		okP, n := derivesOnlyFrom(v, funcIs(V.GetInodeFh), 0)
		if okP && n > 0 {
			return true
		}
		// lockInodes(op, numbers) with every number the Ino of a decoded handle
		ps, other := producersOf(stripConv(v))
		if other || len(ps) == 0 {
			return false
		}
		for _, p := range ps {
			if staticCallee(p.call) != V.lockInodes {
				return false
			}
			elems := sliceElems(argN(p.call, 1), twoInums)
			if elems == nil {
				return false
			}
			for _, e := range elems {
				if fhFieldOf(e) != "Ino" {
					return false
				}
			}
		}
		return true
	}
	n := 0
	perFn := map[string]int{}
	forStatusConst(c, stale, func(fn *ssa.Function, at *ssa.BasicBlock, pos token.Pos) {
		n++
		k := FuncName(ownerOf(fn)) + "|STALE"
		perFn[k]++
		key := k
		if perFn[k] > 1 {
			key = fmt.Sprintf("%s#%d", k, perFn[k])
		}
		R.Analysed[FuncName(fn)] = true
		nilEdge := condEdge(fn, func(cd Cond) (bool, bool) {
			if cd.X == nil || cd.Y == nil || (cd.Op != token.EQL && cd.Op != token.NEQ) {
				return false, false
			}
			for _, pr := range [][2]ssa.Value{{cd.X, cd.Y}, {cd.Y, cd.X}} {
				if isNilConst(pr[1]) && fromHandleLock(pr[0]) {
					return true, cd.Op == token.EQL
				}
			}
			return false, false
		})
		genEdge := condEdge(fn, func(cd Cond) (bool, bool) {
			if cd.X == nil || cd.Y == nil || (cd.Op != token.EQL && cd.Op != token.NEQ) {
				return false, false
			}
			for _, pr := range [][2]ssa.Value{{cd.X, cd.Y}, {cd.Y, cd.X}} {
				nm, fl, _, _ := loadedField(pr[0])
				if nm != V.Inode || fl != "Gen" {
					continue
				}
				if fhFieldOf(pr[1]) == "Gen" {
					return true, cd.Op == token.NEQ
				}
			}
			return false, false
		})
		R.Check(everyPathTakes(fn, at, nilEdge, genEdge), id, key, P.Pos(pos), "NFS3ERR_STALE is chosen only behind an edge on which a handle failed to resolve", "every path passes GetInodeFh == nil, lockInodes(handle numbers) == nil or a generation mismatch", "'stale handle' is answered where no handle failed (e.g. an inode found by name vanished during a relock): the client is told its valid handle is dead, and a RENAME racing with a REMOVE of its target fails although it succeeds in every sequential order")
	})
	if n == 0 {
		R.Fail(id, "nfs|STALE sites", "?", "the server answers NFS3ERR_STALE somewhere", "no use of the constant found")
	}
}

// fhFieldOf: v is field F of a decoded client handle (a value of type fh.Fh:
// the result of fh.MakeFh, or a parameter / local of that type); returns F.
func fhFieldOf(v ssa.Value) string {
	v = stripConv(v)
	switch x := v.(type) {
	case *ssa.Field:
		if isNamed(x.X.Type(), "/fh", "Fh") {
			return fieldNameOfValue(x)
		}
	case *ssa.UnOp:
		if x.Op == token.MUL {
			if fa, ok := x.X.(*ssa.FieldAddr); ok && isNamed(derefType(fa.X.Type()), "/fh", "Fh") {
				return fieldNameAt(fa)
			}
		}
	}
	return ""
}

// ruleT10: a request takes effect, and reads what it reports, at one point: its
// handler ends with one committed transaction.  A handler that commits a
// transaction and begins another one serves one request from two states of the
// file system - between the two, the locks are free and other requests run (a
// READ assembled from two transactions returns bytes no single moment held).
// Transactions of the shrinker's helping steps (begun in package shrinker) are
// self-contained by C01.R6 and exempt; transactions that were aborted do not
// count.
func ruleT10(c *Ctx, id string) {
	R, P := c.R, c.P
	R.Rule(id, "one request, one committed transaction: in the handlers of package nfs no transaction is begun after a transaction of the same request was committed (aborted attempts and the shrinker's own steps apart)", 20)
	t := c.tsPreamble(id)
	type agg struct {
		bad bool
		why string
		pos string
	}
	res := map[string]*agg{}
	for _, e := range sortedEvents(t, "rebegin") {
		if !isProc(c, e.Entry) || relPkg(e.Fn) == "shrinker" {
			continue
		}
		key := fmt.Sprintf("%s|begin@%s|%s", e.Entry, FuncName(ownerOf(e.Fn)), useOrdinal(e))
		a := res[key]
		if a == nil {
			a = &agg{pos: P.Pos(e.Pos)}
			res[key] = a
		}
		if e.Bad && !strings.Contains(e.Txn, "shrinker/") {
			a.bad = true
			a.why = e.Detail + " (via " + e.St.Via + "; stack " + e.Stack + ")"
		}
	}
	var keys []string
	for k := range res {
		keys = append(keys, k)
	}
	sort.Strings(keys)
	for _, k := range keys {
		a := res[k]
		R.Check(!a.bad, id, k, a.pos, "no transaction of the request is committed when this one begins", "only aborted or untouched predecessors on every explored path", a.why+": the request is served from two states of the file system")
	}
}

// ruleT12: a name is entered only if it was found free under the lock that is
// held when it is entered.  getAlloc retries in a fresh transaction after
// helping the shrinker; the directory was unlocked in between, so "the name
// does not exist" must be established again after every (re)acquisition of the
// directory, not once.
func ruleT12(c *Ctx, id string) {
	V, P, R := c.V, c.P, c.R
	R.Rule(id, "existence is checked under the lock in force: in getAlloc every path from an acquisition of the directory (GetInodeFh) to a return that may report success passes dir.LookupName", 1)
	ga := c.fn(id, "nfs.(*Nfs).getAlloc")
	lookup := c.fn(id, "dir.LookupName")
	if ga == nil || lookup == nil || V.GetInodeFh == nil {
		return
	}
	// the edges that carry a possibly-OK status into a return
	type edge struct{ f, t *ssa.BasicBlock }
	okEdge := map[edge]bool{}
	okRet := map[*ssa.BasicBlock]bool{}
	nres := ga.Signature.Results().Len()
	for _, rs := range returnSources(ga, nres-1) {
		if k, isk := constInt(stripConv(rs.Val)); isk && k != 0 {
			continue // an error status
		}
		if rs.To != nil {
			okEdge[edge{rs.From, rs.To}] = true
		} else {
			okRet[rs.From] = true
		}
	}
	// (the lookup may be made by a private helper that makes it on all its paths: "nameTaken(dip, op, name)")
	always := P.NewAlways(callTo(lookup)).Instr
	viaHelper := func(in ssa.Instruction) bool {
		if _, isC := in.(*ssa.Call); !isC {
			return false
		}
		g := staticCallee(in)
		return g != nil && g != lookup && isPrivateHelper(g) && always(in)
	}
	hasLookup := func(b *ssa.BasicBlock, after ssa.Instruction) bool {
		seenAfter := after == nil
		for _, in := range b.Instrs {
			if in == after {
				seenAfter = true
				continue
			}
			if seenAfter && (callTo(lookup)(in) || viaHelper(in)) {
				return true
			}
		}
		return false
	}
	// ... and its answer decides: an inode is allocated only on the side where the lookup found nothing
	{
		nA := 0
		for _, sc := range scopesOf(ga) {
			for _, a := range P.CallsIn(sc.Fn, func(g *ssa.Function) bool {
				return g != nil && g.Name() == "AllocInode" && funcPkg(g) != nil && strings.HasSuffix(funcPkg(g).Path(), "/fstxn")
			}) {
				nA++
				g := guardedUp(scopesOf(ga), sc, a.Block(), func(sub Subst) func(Cond) (bool, bool) {
					return func(cd Cond) (bool, bool) {
						if cd.Op != token.EQL && cd.Op != token.NEQ {
							return false, false
						}
						for _, pr := range [][2]ssa.Value{{cd.X, cd.Y}, {cd.Y, cd.X}} {
							if pr[0] == nil || pr[1] == nil {
								continue
							}
							k, isk := constIntDeep(pr[1])
							ex, isE := sub.resolve(stripConv(pr[0])).(*ssa.Extract)
							if !isk || k != 0 || !isE || ex.Index != 0 {
								continue
							}
							if cl, isC := ex.Tuple.(*ssa.Call); isC && staticCallee(cl) == lookup {
								return true, cd.Op == token.EQL
							}
						}
						return false, false
					}
				})
				R.Check(g, id, fmt.Sprintf("nfs.getAlloc|AllocInode#%d only when the name is free", nA), P.Pos(a.Pos()), "the allocation lies on the side of a test of LookupName's answer where no inode was found", "dominated by the == NULLINUM side", "the answer of the lookup does not decide: CREATE, MKDIR and SYMLINK of a name that exists add a second entry with that name - names are no longer unique, one of the two objects cannot be reached")
			}
		}
	}
	n := 0
	for _, g := range P.CallsIn(ga, funcIs(V.GetInodeFh)) {
		n++
		bad := ""
		if !hasLookup(g.Block(), g) {
			seen := map[*ssa.BasicBlock]bool{}
			var dfs func(b *ssa.BasicBlock)
			dfs = func(b *ssa.BasicBlock) {
				for _, s2 := range b.Succs {
					if bad != "" {
						return
					}
					if okEdge[edge{b, s2}] {
						bad = P.Pos(b.Instrs[len(b.Instrs)-1].Pos())
						return
					}
					if s2 == g.Block() || seen[s2] || hasLookup(s2, nil) {
						continue // back at the acquisition (checked from there), or the name is looked up here
					}
					seen[s2] = true
					if okRet[s2] {
						bad = P.Pos(s2.Instrs[len(s2.Instrs)-1].Pos())
						return
					}
					dfs(s2)
				}
			}
			if okRet[g.Block()] {
				bad = P.Pos(g.Pos())
			}
			dfs(g.Block())
		}
		R.Check(bad == "", id, fmt.Sprintf("nfs.getAlloc|name looked up after acquisition#%d", n), P.Pos(g.Pos()), "no path from this GetInodeFh to a possibly successful return avoids dir.LookupName", "every such path looks the name up", "a path reaches a possibly successful return ("+bad+") without looking the name up under this lock: while the request helped the shrinker the directory was unlocked, another client's CREATE of the same name completes, and both are acknowledged - the directory lists the name twice")
	}
	if n == 0 {
		R.Fail(id, "nfs.getAlloc|acquires the directory", P.Pos(ga.Pos()), "getAlloc locks the directory through its handle", "no GetInodeFh call")
	}
}

// ruleT13: when the target of a RENAME exists the handler drops its locks and
// takes them again in order, with one of two lists: both directories and both
// objects (four numbers), or - source and target in one directory - that
// directory and both objects (three).  Which list is right is decided by the
// comparison of the two directory inodes; the three-number list on the side
// where they differ leaves the target directory unlocked (and the handler then
// takes the source directory for it).
func ruleT13(c *Ctx, id string) {
	V, P, R := c.V, c.P, c.R
	R.Rule(id, "RENAME relocks what it needs: a bulk acquisition of three numbers (one directory and two objects) lies on the side where the two directory inodes are the same object; every position of a list is assigned", 2)
	ren := c.fn(id, "nfs.(*Nfs).NFSPROC3_RENAME")
	lock := c.fn(id, "nfs.lockInodes")
	if ren == nil || lock == nil {
		return
	}
	sameDir := func(want token.Token) CondMatcherX {
		return func(sub Subst) func(Cond) (bool, bool) {
			return func(cd Cond) (bool, bool) {
				op, x, y := cd.Op, cd.X, cd.Y
				if op == token.ILLEGAL && x != nil {
					// the outcome of the comparison handed on as a boolean (a parameter of a helper)
					bo, isB := sub.resolve(stripConv(x)).(*ssa.BinOp)
					if !isB || (bo.Op != token.EQL && bo.Op != token.NEQ) {
						return false, false
					}
					if derefNamed(bo.X.Type()) != V.Inode || derefNamed(bo.Y.Type()) != V.Inode || isNilConst(bo.X) || isNilConst(bo.Y) {
						return false, false
					}
					return true, bo.Op == want
				}
				if (op != token.EQL && op != token.NEQ) || x == nil || y == nil {
					return false, false
				}
				if derefNamed(x.Type()) != V.Inode || derefNamed(y.Type()) != V.Inode || isNilConst(x) || isNilConst(y) {
					return false, false
				}
				return true, op == want
			}
		}
	}
	n := 0
	allScopes := scopesOf(ren)
	for _, sc := range allScopes {
		for _, call := range P.CallsIn(sc.Fn, funcIs(lock)) {
			args := nonRecvArgs(call)
			if len(args) < 2 {
				continue
			}
			// the lists the call can be handed: one, or one per arm when the arms build the list and share the call
			type cand struct {
				v  ssa.Value
				at *ssa.BasicBlock
			}
			var cands []cand
			top := sc.S.resolve(stripConv(args[1]))
			if ph, isP := top.(*ssa.Phi); isP && ph.Block().Parent() == sc.Fn {
				for i, e := range ph.Edges {
					cands = append(cands, cand{sc.S.resolve(stripConv(e)), ph.Block().Preds[i]})
				}
			} else {
				cands = append(cands, cand{top, call.Block()})
			}
			for _, cd := range cands {
				ln := int64(-1)
				var holders []ssa.Value // the values whose IndexAddr stores fill the list
				switch x := cd.v.(type) {
				case *ssa.MakeSlice:
					ln, _ = constInt(x.Len)
					holders = append(holders, x)
				case *ssa.Slice:
					if al, ok := stripConv(x.X).(*ssa.Alloc); ok {
						if at, ok := derefType(al.Type()).Underlying().(*types.Array); ok {
							ln = at.Len()
							holders = append(holders, x, al)
						}
					}
				}
				if ln < 0 {
					continue // a list of another form (built by a helper): the roles of T3 judge it
				}
				filled := map[int64]bool{}
				for _, h := range holders {
					for _, r := range refs(h) {
						if ia, ok := r.(*ssa.IndexAddr); ok {
							if kk, isk := constInt(ia.Index); isk {
								for _, r2 := range refs(ia) {
									if st, ok := r2.(*ssa.Store); ok && st.Addr == ssa.Value(ia) {
										filled[kk] = true
									}
								}
							}
						}
					}
				}
				R.Check(int64(len(filled)) == ln, id, fmt.Sprintf("NFSPROC3_RENAME|relock list of %d: every position filled", ln), P.Pos(call.Pos()), "each of the positions of the list is assigned an inode number", fmt.Sprintf("%d of %d", len(filled), ln), fmt.Sprintf("only %d of the %d positions are assigned: the others are 0, the reserved inode number - the bulk acquisition fails (or locks the wrong inode) every time and RENAME onto an existing name retries for ever", len(filled), ln))
				n++
				R.Analysed[FuncName(ren)] = true
				if ln < 3 {
					// the two directories of the first phase: not a relock of directories and objects
					R.Pass(id, fmt.Sprintf("NFSPROC3_RENAME|list of %d inodes", ln), P.Pos(call.Pos()), "not a list of directories and objects", "first-phase acquisition")
				} else if ln >= 4 {
					// both directories and both objects: right on either side (a repeated number is skipped, C06.L1)
					R.Pass(id, fmt.Sprintf("NFSPROC3_RENAME|relock of %d inodes", ln), P.Pos(call.Pos()), "the list names both directories and both objects", "complete list")
				} else {
					g := guardedUp(allScopes, sc, cd.at, sameDir(token.EQL))
					R.Check(g, id, fmt.Sprintf("NFSPROC3_RENAME|relock of %d inodes only within one directory", ln), P.Pos(call.Pos()), "the short list is used on the side where source and target directory are the same inode", "dominated by that side", "a RENAME between two directories relocks only one of them: the target directory is changed without its lock (and the source directory is taken for it) - a concurrent operation in the target directory sees and overwrites half-applied updates")
				}
			}
		}
	}
}

// ruleObjGranularity: a transaction writes only what it holds the lock of.
// Inodes are 128-byte journal objects, 32 to a block, each under its own lock;
// the journal merges concurrent transactions object by object.  A whole-block
// access (ReadBuf/OverWrite of NBITBLOCK bits, alloctxn.ReadBlock, ZeroBlock,
// Block2addr) is for blocks that belong to one inode - data and index blocks,
// whose numbers come from the block map or the allocator.  A block number
// taken from an object's address (Inum2Addr(...).Blkno) or from the layout
// (InodeStart, the bitmap starts) names a block shared by objects under other
// locks: logging it whole writes the neighbours' old contents back over what
// their transactions committed meanwhile (the inode cache hides it until a
// restart) - acknowledged and even COMMITted data of another file is gone.
func ruleObjGranularity(c *Ctx, id string) {
	V, P, R := c.V, c.P, c.R
	R.Rule(id, "journal objects are written at the granularity of their lock: the block number of every whole-block access in the server packages (ReadBuf/OverWrite of NBITBLOCK bits, ReadBlock, ZeroBlock, Block2addr) does not derive from an object address's Blkno nor from the layout getters of the shared regions", 5)
	nbit := constOfPkg(P, jrnlPath+"/common", "NBITBLOCK")
	b2a := P.Func("super.(*FsSuper).Block2addr")
	shared := map[string]bool{"Inum2Addr": true, "InodeStart": true, "BitmapBlockStart": true, "BitmapInodeStart": true}
	n := 0
	per := map[string]int{}
	for _, fn := range P.RepoFuncs("inode", "alloctxn", "dir", "fstxn", "nfs", "shrinker") {
		if fn.Blocks == nil {
			continue
		}
		for _, b := range fn.Blocks {
			for _, in := range b.Instrs {
				cl, ok := in.(*ssa.Call)
				if !ok {
					continue
				}
				cal := staticCallee(cl)
				if cal == nil {
					continue
				}
				var subj ssa.Value
				as := nonRecvArgs(cl)
				switch {
				case (cal == V.ReadBuf || cal == V.OverWrite) && len(as) >= 2:
					if k, isk := constInt(stripConv(as[1])); isk && k == nbit {
						subj = as[0]
					}
				case (cal == V.ReadBlock || cal == V.ZeroBlock || (b2a != nil && cal == b2a)) && len(as) >= 1:
					subj = as[len(as)-1]
				}
				if subj == nil {
					continue
				}
				n++
				R.Analysed[FuncName(fn)] = true
				bad := ""
				for v := range bwdAll(subj) {
					switch x := v.(type) {
					case *ssa.FieldAddr:
						if fieldNameAt(x) == "Blkno" {
							bad = "the Blkno of an object address"
						}
					case *ssa.Field:
						if st, isS := x.X.Type().Underlying().(*types.Struct); isS && x.Field < st.NumFields() && st.Field(x.Field).Name() == "Blkno" {
							bad = "the Blkno of an object address"
						}
					case *ssa.Call:
						if g := staticCallee(x); g != nil && shared[g.Name()] && funcPkg(g) != nil && strings.HasSuffix(funcPkg(g).Path(), "/super") {
							bad = "the layout function " + g.Name()
						}
					}
				}
				base := FuncName(ownerOf(fn)) + "|whole-block access through " + cal.Name()
				per[base]++
				key := base
				if per[base] > 1 {
					key = fmt.Sprintf("%s#%d", base, per[base])
				}
				R.Check(bad == "", id, key, P.Pos(cl.Pos()), "the block accessed as a whole is a block of the inode at hand (its number comes from the block map, the allocator or a pointer slot)", "not a block of a shared region", "the block number derives from "+bad+": a block that holds objects under other locks is read and logged as a whole - the other objects' committed updates are overwritten with what this transaction read earlier")
			}
		}
	}
	R.Check(n >= 5, id, "inventory|whole-block accesses", "?", "the whole-block accesses of the server packages are found", fmt.Sprintf("%d sites", n), fmt.Sprintf("only %d whole-block accesses found", n))
}
