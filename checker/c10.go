package main

import (
	"fmt"
	"go/token"
	"go/types"
	"sort"
	"strings"

	"golang.org/x/tools/go/ssa"
)

func init() {
	props["C10"] = func(c *Ctx) {
		c.R.Expl = "Structural conditions of 'restart changes nothing': (W1) every store to a persistent field of a cached inode is followed, on every non-failing path, by WriteInode of that inode before control returns to a caller that does not itself write it through (dirty/clean summaries up to the handlers); (W2) the name cache is updated only on the success side of the directory write it mirrors, with the same name/number/offset; (W3) on-disk codecs are inverse and fit their slot; (W4) caches are dropped on abort; (W5) allocators mirror the bitmaps (C01.R3/R4, C05.F2)."
		c.R.NotDec = "the comparison of two servers' observable state; a wrong value written consistently on both sides."
		ruleW1(c, "C10.W1")
		ruleBmapFlag(c, "C10.W11")
		ruleW2(c, "C10.W2")
		ruleW3(c, "C10.W3")
		ruleA2(c, "C10.W4")
		ruleR3(c, "C10.W5")
		ruleF2(c, "C10.W5b")
		ruleSlot(c, "C10.W6")
		ruleR2(c, "C10.W7")
		ruleF3(c, "C10.W8")
		ruleRefused(c, "C10.W9")
		ruleT1(c, "C10.W10")
		ruleDoneMeansWritten(c, "C10.W12")
	}
}

var persistentInode = map[string]bool{"Kind": true, "Nlink": true, "Gen": true, "Size": true, "ShrinkSize": true, "Atime": true, "Mtime": true, "blks": true}

type w1 struct {
	c         *Ctx
	dirtyRet  map[string]bool // fn|paramIdx -> may return with param dirty on a non-failing path
	cleanAll  map[string]int  // memo: 0 unknown 1 in progress 2 yes 3 no
	dirtyMemo map[string]int
}

func isInodePtr(t types.Type) bool { return isNamed(t, "/inode", "Inode") && isPointer(t) }
func isPointer(t types.Type) bool {
	_, ok := t.Underlying().(*types.Pointer)
	return ok
}

// argIndex: position of value v among the call's arguments (receiver = 0).
func argIndexes(in ssa.Instruction, v ssa.Value) []int {
	c := callCommon(in)
	if c == nil || c.IsInvoke() {
		return nil
	}
	var out []int
	for i, a := range c.Args {
		if stripConv(a) == v {
			out = append(out, i)
		}
	}
	return out
}

func (w *w1) cleans(v ssa.Value, d int) func(ssa.Instruction) bool {
	V := w.c.V
	return func(in ssa.Instruction) bool {
		call, ok := in.(*ssa.Call)
		if !ok {
			return false
		}
		cal := staticCallee(call)
		if cal == nil {
			return false
		}
		idx := argIndexes(in, v)
		if len(idx) == 0 {
			return false
		}
		if cal == V.WriteInode && idx[0] == 0 {
			return true
		}
		if IsRepoFunc(cal) && d < 4 {
			for _, i := range idx {
				if w.cleanAlways(cal, i, d+1) {
					return true
				}
			}
		}
		return false
	}
}

// cleanAlways: every non-failing path of fn writes its i-th parameter through.
func (w *w1) cleanAlways(fn *ssa.Function, i int, d int) bool {
	if fn.Blocks == nil || i >= len(fn.Params) {
		return false
	}
	k := fmt.Sprintf("%s|%d", FuncName(fn), i)
	switch w.cleanAll[k] {
	case 1, 3:
		return false
	case 2:
		return true
	}
	w.cleanAll[k] = 1
	p := fn.Params[i]
	entry := fn.Blocks[0].Instrs[0]
	is := w.cleans(p, d)
	ok := is(entry) || MustAfterE(fn, is, nil, nil)(entry)
	if ok {
		w.cleanAll[k] = 2
	} else {
		w.cleanAll[k] = 3
	}
	return ok
}

// failingReturn: a return whose results say "failed" (constant false, or a
// constant non-OK status): the caller must not commit (C09.A1) and Abort
// discards the cached object (C09.A2).
// okResult: functions whose boolean result means "the step succeeded"
// (frozen by reading; Read's boolean is eof, bmap's is "allocated").
var okResult = map[string]bool{
	"(*inode.Inode).Write": true, "dir.AddName": true, "dir.RemName": true, "dir.InitDir": true,
	"dir.MkRootDir": true, "dir.AddNameDir": true, "dir.RemNameDir": true,
}

func failingReturn(r *ssa.Return) bool {
	for _, res := range r.Results {
		if b, ok := constBool(res); ok && !b && okStyle(r.Parent()) {
			return true
		}
		if k, ok := constInt(res); ok && k != 0 && isNamedStatus(res.Type()) {
			return true
		}
	}
	return false
}

type dirtyEvent struct {
	in   ssa.Instruction
	what string
	// cond: the event dirties only when this boolean value is true (bmap contract)
	cond ssa.Value
}

// dirtyEvents lists the instructions of fn that may leave inode value v with
// unwritten persistent state.
func (w *w1) dirtyEvents(fn *ssa.Function, v ssa.Value, d int) []dirtyEvent {
	V := w.c.V
	var out []dirtyEvent
	for _, b := range fn.Blocks {
		for _, in := range b.Instrs {
			switch x := in.(type) {
			case *ssa.Store:
				n, fl, base := FieldOf(x.Addr)
				if n == nil {
					// nested field (Atime.Seconds) or element (blks[i])
					if fa, ok := x.Addr.(*ssa.FieldAddr); ok {
						n, fl, base = FieldOf(fa.X)
					}
					if ia, ok := x.Addr.(*ssa.IndexAddr); ok {
						n, fl, base = fieldLoad(ia.X)
					}
				}
				if n == V.Inode && persistentInode[fl] && base != nil && stripConv(base) == v {
					out = append(out, dirtyEvent{in: in, what: "store to " + fl})
				}
			case *ssa.Call:
				cal := staticCallee(x)
				if cal == nil || !IsRepoFunc(cal) || cal == V.WriteInode {
					continue
				}
				// a local closure that works on the captured inode: its body belongs to this function
				if cal.Parent() == fn && d < 5 {
					for _, cv := range capturedAs(x, cal, v) {
						for _, ev := range w.dirtyEvents(cal, cv, d+1) {
							if !w.discharged(cal, cv, ev, d+1) {
								out = append(out, dirtyEvent{in: in, what: "call of closure " + cal.Name() + " (returns with unwritten changes)"})
								break
							}
						}
					}
				}
				for _, i := range argIndexes(in, v) {
					if cal == V.bmap && i == 0 {
						// frozen contract: dirty iff the second result is true
						var cond ssa.Value
						for _, r := range refs(x) {
							if ex, ok := r.(*ssa.Extract); ok && ex.Index == 1 {
								cond = ex
							}
						}
						out = append(out, dirtyEvent{in: in, what: "bmap (dirty iff it allocated)", cond: cond})
						continue
					}
					if d < 5 && w.returnsDirty(cal, i, d+1) {
						out = append(out, dirtyEvent{in: in, what: "call of " + cal.Name() + " (returns with unwritten changes)"})
					}
				}
			}
		}
	}
	return out
}

// returnsDirty: may fn return, on a non-failing path, with its i-th
// parameter holding unwritten persistent changes?
func (w *w1) returnsDirty(fn *ssa.Function, i int, d int) bool {
	if fn.Blocks == nil || i >= len(fn.Params) || !isInodePtr(fn.Params[i].Type()) {
		return false
	}
	k := fmt.Sprintf("%s|%d", FuncName(fn), i)
	switch w.dirtyMemo[k] {
	case 1:
		return false
	case 2:
		return true
	case 3:
		return false
	}
	w.dirtyMemo[k] = 1
	p := fn.Params[i]
	res := false
	for _, ev := range w.dirtyEvents(fn, p, d) {
		if !w.discharged(fn, p, ev, d) {
			res = true
		}
	}
	if res {
		w.dirtyMemo[k] = 2
	} else {
		w.dirtyMemo[k] = 3
	}
	return res
}

// discharged: after the event every non-failing path writes v through (or
// ends in an abort).
func (w *w1) discharged(fn *ssa.Function, v ssa.Value, ev dirtyEvent, d int) bool {
	V := w.c.V
	if fn == V.InodeWrite && (strings.HasPrefix(ev.what, "bmap") || w.bmapHelperCall(ev.in)) {
		ok, _ := w.writeContract(v)
		return ok
	}
	clean := w.cleans(v, d)
	alwaysAborts := NewAlwaysInstr(w.c.P, callTo(V.Abort))
	abortish := func(in ssa.Instruction) bool {
		cal := staticCallee(in)
		if cal == nil {
			return false
		}
		if cal == V.Abort || (V.errRet != nil && cal == V.errRet) {
			return true
		}
		return alwaysAborts(in)
	}
	isB := func(in ssa.Instruction) bool {
		if clean(in) || abortish(in) {
			return true
		}
		if r, ok := in.(*ssa.Return); ok && failingReturn(r) {
			return true
		}
		return false
	}
	var edge func(from, to *ssa.BasicBlock) bool
	if ev.cond != nil {
		edge = boolEdge(fn, ev.cond, false)
	}
	// a failing result may reach a shared return through a phi (named results, bare returns): the edge that
	// carries it is as good as a failing return
	fe := failingEdges(fn)
	cut := func(from, to *ssa.BasicBlock) bool {
		return (edge != nil && edge(from, to)) || fe(from, to)
	}
	return MustAfterE(fn, isB, nil, cut)(ev.in)
}

// failingEdges: the edges into a return block along which one of the returned
// values is a failing constant (false for the functions whose boolean result
// means success, a non-zero status).
func failingEdges(fn *ssa.Function) func(from, to *ssa.BasicBlock) bool {
	type edge struct{ f, t *ssa.BasicBlock }
	set := map[edge]bool{}
	for _, b := range fn.Blocks {
		r, ok := b.Instrs[len(b.Instrs)-1].(*ssa.Return)
		if !ok {
			continue
		}
		for _, res := range r.Results {
			ph, isP := res.(*ssa.Phi)
			if !isP || ph.Block() != b {
				continue
			}
			for i, e := range ph.Edges {
				if bv, isb := constBool(e); isb && !bv && okStyle(fn) {
					set[edge{b.Preds[i], b}] = true
				}
				if k, isk := constInt(e); isk && k != 0 && isNamedStatus(e.Type()) {
					set[edge{b.Preds[i], b}] = true
				}
			}
		}
	}
	return func(from, to *ssa.BasicBlock) bool { return set[edge{from, to}] }
}

// writeContract: frozen contract of Inode.Write (DESIGN C10.W1): any completed
// iteration makes cnt > 0, so the success return is reached through the
// WriteInode branch.  Decided as a presence check: every 'return _, true' is
// preceded by WriteInode of the receiver.
func (w *w1) writeContract(v ssa.Value) (bool, int) {
	fn := w.c.V.InodeWrite
	okP := true
	n := 0
	for _, b := range fn.Blocks {
		if r, isR := b.Instrs[len(b.Instrs)-1].(*ssa.Return); isR && len(r.Results) == 2 {
			if bv, isb := constBool(r.Results[1]); isb {
				if bv {
					n++
					if !MustBefore(fn, w.cleans(v, 0))(r) {
						okP = false
					}
				}
				continue
			}
			// the result reaches a shared return through a phi (named results): every edge that can carry
			// 'true' is a success return
			if ph, isP := r.Results[1].(*ssa.Phi); isP && ph.Block() == b {
				for i, e := range ph.Edges {
					// (a non-constant result is the 'nothing was written' answer of the frozen contract)
					if bv, isb := constBool(e); !isb || !bv {
						continue
					}
					n++
					pred := b.Preds[i]
					last := pred.Instrs[len(pred.Instrs)-1]
					if !MustBefore(fn, w.cleans(v, 0))(last) && !w.cleans(v, 0)(last) {
						okP = false
					}
				}
				continue
			}
		}
	}
	return okP && n > 0, n
}

func ruleW1(c *Ctx, id string) {
	V, P, R := c.V, c.P, c.R
	R.Rule(id, "write-through of cached inode fields: every store to a persistent Inode field is followed by WriteInode of the same inode on every non-failing path, within the function or (by summary) in every caller up to the handler", 28)
	w := &w1{c: c, dirtyRet: map[string]bool{}, cleanAll: map[string]int{}, dirtyMemo: map[string]int{}}
	fresh := map[*ssa.Function]bool{V.Decode: true}
	if f := P.Func("inode.MkRootInode"); f != nil {
		fresh[f] = true
	}
	var fns []*ssa.Function
	fns = append(fns, P.RepoFuncs("inode", "nfs", "fstxn", "dir", "shrinker")...)
	for _, fn := range fns {
		if fresh[fn] {
			continue
		}
		// inode-typed values of the function: parameters and call results
		vals := map[ssa.Value]string{}
		for _, p := range fn.Params {
			if isInodePtr(p.Type()) {
				vals[p] = "param " + p.Name()
			}
		}
		for _, b := range fn.Blocks {
			for _, in := range b.Instrs {
				if v, ok := in.(ssa.Value); ok && isInodePtr(v.Type()) {
					switch in.(type) {
					case *ssa.Call, *ssa.UnOp, *ssa.Phi, *ssa.Extract:
						vals[v] = "value " + v.Name()
					}
				}
			}
		}
		type kv struct {
			v ssa.Value
			s string
		}
		var vs []kv
		for v, s := range vals {
			vs = append(vs, kv{v, s})
		}
		sort.Slice(vs, func(i, j int) bool { return vs[i].v.Name() < vs[j].v.Name() })
		seenEv := map[string]int{}
		for _, x := range vs {
			_, isParam := x.v.(*ssa.Parameter)
			if fn.Parent() != nil && isFreeVarLoad(x.v) {
				continue // a captured variable of the enclosing function: judged there, at the closure's call sites
			}
			for _, ev := range w.dirtyEvents(fn, x.v, 0) {
				R.Analysed[FuncName(fn)] = true
				base := fmt.Sprintf("%s|%s", FuncName(fn), ev.what)
				seenEv[base]++
				key := base
				if seenEv[base] > 1 {
					key = fmt.Sprintf("%s#%d", base, seenEv[base])
				}
				ok := w.discharged(fn, x.v, ev, 0)
				if fn == V.InodeWrite && (strings.HasPrefix(ev.what, "bmap") || w.bmapHelperCall(ev.in)) {
					R.Check(ok, id, "(*inode.Inode).Write|bmap (dirty iff it allocated)|frozen contract", P.Pos(ev.in.Pos()), "Inode.Write: every 'success' return is preceded by WriteInode (frozen contract: a completed iteration makes cnt > 0)", "WriteInode dominates each constant-true return", "a success return of Inode.Write is not preceded by WriteInode: allocated blocks / the new size are lost at restart")
					continue
				}
				if ok {
					R.PassNT(id, key, P.Pos(ev.in.Pos()), "cached inode change is written through on every non-failing path", "WriteInode (or a callee that always writes through, or abort / failing return) follows on every path")
					continue
				}
				if isParam {
					// the obligation moves to the callers
					idx := -1
					for i, p := range fn.Params {
						if ssa.Value(p) == x.v {
							idx = i
						}
					}
					callers := P.CallersOf(fn)
					nRepo := 0
					for _, cs := range callers {
						if IsRepoFunc(cs.Caller) {
							nRepo++
						}
					}
					if nRepo > 0 && idx >= 0 {
						R.PassNT(id, key+"|delegated", P.Pos(ev.in.Pos()), "the function returns with the change unwritten: each caller must write it through", fmt.Sprintf("obligation carried to %d call sites (checked there as 'call of %s')", nRepo, fn.Name()))
						continue
					}
				}
				R.Fail(id, key, P.Pos(ev.in.Pos()), "cached inode change is written through on every non-failing path", fmt.Sprintf("after '%s' on %s a path returns without WriteInode: the running server sees the change, the disk does not (lost at restart or crash)", ev.what, x.s))
			}
		}
	}
}

// ---------------------------------------------------------------- W2

func ruleW2(c *Ctx, id string) {
	P, R := c.P, c.R
	R.Rule(id, "name cache mirrors the directory: Dcache.Add/Del and Lastoff stores occur only on the success side of the directory write of the same name/number/offset; mkDcache adds exactly what Apply enumerates", 8)
	dc := P.Named("dcache", "Dcache")
	add := c.fn(id, "dcache.(*Dcache).Add")
	del := c.fn(id, "dcache.(*Dcache).Del")
	addName := c.fn(id, "dir.AddName")
	remName := c.fn(id, "dir.RemName")
	addNameDir := c.fn(id, "dir.AddNameDir")
	remNameDir := c.fn(id, "dir.RemNameDir")
	apply := c.fn(id, "dir.Apply")
	if dc == nil || add == nil || del == nil || addName == nil || remName == nil || addNameDir == nil || remNameDir == nil || apply == nil {
		return
	}
	// the cache builder: a call of dir.Apply whose callback adds to the name cache - in mkDcache, or written
	// out where the cold cache is noticed
	type buildSite struct {
		fn   *ssa.Function
		call ssa.Instruction
		cb   *ssa.Function
		key  string
	}
	var builds []buildSite
	isBuilderCb := map[*ssa.Function]bool{}
	for _, fn := range P.RepoFuncs("dir") {
		for _, call := range P.CallsIn(fn, funcIs(apply)) {
			args := callCommon(call).Args
			mc, isMC := args[len(args)-1].(*ssa.MakeClosure)
			if !isMC {
				continue
			}
			cb, _ := mc.Fn.(*ssa.Function)
			if cb == nil || len(P.CallsIn(cb, funcIs(add))) == 0 {
				continue
			}
			key := "dir.mkDcache"
			if fn.Name() != "mkDcache" {
				key = "dir." + ownerOf(fn).Name() + "(cache rebuild)"
			}
			builds = append(builds, buildSite{fn, call, cb, key})
			isBuilderCb[cb] = true
		}
	}
	if len(builds) == 0 {
		R.Fail(id, "dir|cache builder", "?", "the name cache is rebuilt by a dir.Apply whose callback adds every entry", "no such call of dir.Apply in package dir")
		return
	}
	isBuildSite := func(in ssa.Instruction) bool {
		for _, b := range builds {
			if b.call == in {
				return true
			}
		}
		return false
	}
	buildAlways := P.NewAlways(isBuildSite)
	// who may call Add/Del and write Lastoff
	for _, pr := range []struct {
		f       *ssa.Function
		allowed []*ssa.Function
	}{{add, []*ssa.Function{addName}}, {del, []*ssa.Function{remName}}} {
		for _, cs := range P.CallersOf(pr.f) {
			if !IsRepoFunc(cs.Caller) {
				continue
			}
			ok := false
			for _, a := range pr.allowed {
				if cs.Caller == a {
					ok = true
				}
			}
			if isBuilderCb[cs.Caller] { // the enumeration callback
				ok = true
			}
			R.Check(ok, id, FuncName(cs.Caller)+"|calls Dcache."+pr.f.Name(), P.Pos(cs.Instr.Pos()), "the name cache is updated only by AddName/RemName and the cache builder", "known updater", "a new updater of the name cache")
		}
	}
	check := func(fn *ssa.Function, writer *ssa.Function, upd *ssa.Function, what string) {
		R.Analysed[FuncName(fn)] = true
		wcalls := P.CallsIn(fn, funcIs(writer))
		if len(wcalls) != 1 {
			R.Fail(id, FuncName(fn)+"|one directory write", P.Pos(fn.Pos()), "exactly one directory write per update", fmt.Sprintf("%d calls of %s", len(wcalls), writer.Name()))
			return
		}
		wc := wcalls[0].(*ssa.Call)
		var okv, offv ssa.Value
		for _, r := range refs(wc) {
			if ex, isE := r.(*ssa.Extract); isE {
				if ex.Index == 1 {
					okv = ex
				} else {
					offv = ex
				}
			}
		}
		tEdge := boolEdge(fn, okv, true)
		var tBlk *ssa.BasicBlock
		for _, b := range fn.Blocks {
			for _, s := range b.Succs {
				if okv != nil && tEdge(b, s) && len(s.Preds) == 1 {
					tBlk = s
				}
			}
		}
		// every cache update sits under ok == true
		for _, b := range fn.Blocks {
			for _, in := range b.Instrs {
				isUpd := false
				if callTo(upd)(in) {
					isUpd = true
				}
				if st, isS := in.(*ssa.Store); isS {
					if n, fl, _ := FieldOf(st.Addr); n == dc && fl == "Lastoff" {
						isUpd = true
						R.Check(stripConv(st.Val) == offv, id, FuncName(fn)+"|Lastoff is the written offset", P.Pos(in.Pos()), "Lastoff is set to the offset returned by the directory write", "same value", "Lastoff does not follow the directory")
					}
				}
				if !isUpd {
					continue
				}
				ok := tBlk != nil && tBlk.Dominates(in.Block())
				R.Check(ok, id, fmt.Sprintf("%s|%s only when the directory write succeeded", FuncName(fn), what), P.Pos(in.Pos()), "the cache update is dominated by the ok==true edge of "+writer.Name(), "dominated", "the name cache is updated although the directory was not written: a name that is not on disk resolves (or a name on disk does not) until restart")
			}
		}
		// the update is always made on success
		for _, call := range P.CallsIn(fn, funcIs(upd)) {
			if tBlk != nil {
				okAll := MustAfter(fn, func(in ssa.Instruction) bool { return in == call }, nil)(tBlk.Instrs[0]) || tBlk.Instrs[0] == call
				R.Check(okAll, id, fmt.Sprintf("%s|%s on every successful write", FuncName(fn), what), P.Pos(call.Pos()), "on the success side the cache update happens on every path", "must-follow", "a successful directory write is not mirrored in the name cache")
			}
			// arguments: same name (param), and for Add the same inum param and written offset
			nameOK := false
			for _, a := range nonRecvArgs(call) {
				if pm, isP := stripConv(a).(*ssa.Parameter); isP && pm == fn.Params[len(fn.Params)-1] {
					nameOK = true
				}
			}
			R.Check(nameOK, id, fmt.Sprintf("%s|%s uses the request's name", FuncName(fn), what), P.Pos(call.Pos()), "the cached name is the name written", "parameter", "cache and directory disagree on the name")
			if upd == add {
				a := append([]ssa.Value{nil}, nonRecvArgs(call)...) // (index 0: the receiver's place)
				okArgs := len(a) == 4 && stripConv(a[3]) == offv
				if okArgs {
					if pm, isP := stripConv(a[2]).(*ssa.Parameter); !isP || len(fn.Params) < 3 || pm != fn.Params[2] {
						okArgs = false
					}
					// the same inum must be what the directory write received
					if stripConv(argN(wc, 2)) != stripConv(a[2]) {
						okArgs = false
					}
				}
				R.Check(okArgs, id, FuncName(fn)+"|Add(name, inum, off) as written", P.Pos(call.Pos()), "the cache entry carries the inode number written and the offset returned", "value identity", "cache entry differs from the directory entry")
			}
		}
	}
	check(addName, addNameDir, add, "Dcache.Add")
	check(remName, remNameDir, del, "Dcache.Del")
	// the builder enumerates with dir.Apply (whose limits it sets beyond reach), not with a paging scanner
	for _, bs := range builds {
		k, isk := constIntDeep(argN(bs.call, 4))
		st, iss := constIntDeep(argN(bs.call, 2))
		okLim := isk && k >= 100000000 && iss && st == 0
		R.Check(okLim, id, bs.key+"|enumerates the whole directory", P.Pos(bs.call.Pos()), "the name cache is rebuilt by dir.Apply from offset 0 with a size limit no directory can reach", "Apply(dip, op, 0, dip.Size, >=1e8, ...)", "the cache is rebuilt by a scanner that can stop early (page limits): names at the end of a large directory are missing after a restart or eviction")
	}
	// the limits the builder passes cannot be reached: dircount = dip.Size and Apply charges less than
	// DIRENTSZ bytes per entry; maxcount exceeds what NInode entries can cost
	{
		direntsz := constOfPkg(P, "dir", "DIRENTSZ")
		maxname := constOfPkg(P, "dir", "MAXNAMELEN")
		baggage := constOfPkg(P, "dir", "entryplus3Baggage")
		ninode := constOfPkg(P, jrnlPath+"/common", "NINODEBITMAP") * constOfPkg(P, jrnlPath+"/common", "NBITBLOCK")
		// per-entry constant added to the dircount accumulator: Convert(c + len(name)) added to the phi compared with param dircount
		var dirc int64 = -1
		var dcp *ssa.Parameter
		if len(apply.Params) > 3 {
			dcp = apply.Params[3] // Apply(dip, op, start, dircount, maxcount, f)
		}
		// the comparison with dircount may sit in an accounting helper: look in every scope, under its substitution
		for _, sc := range scopesOf(apply) {
			for _, blk := range sc.Fn.Blocks {
				for _, in := range blk.Instrs {
					cmp, ok := in.(*ssa.BinOp)
					if !ok || dcp == nil {
						continue
					}
					switch cmp.Op {
					case token.GEQ, token.GTR, token.LSS, token.LEQ:
					default:
						continue
					}
					if sc.S.resolve(cmp.Y) != ssa.Value(dcp) {
						continue
					}
					// normal form of the accumulated quantity: (+ c <accumulator> len(name))
					acc := cmp.X
					if ld, isL := stripConv(acc).(*ssa.UnOp); isL && ld.Op == token.MUL {
						// the running total lives in a cell (captured by the function literal that holds the body, or a
						// field of a totals object handed to it): the value compared is the one the accumulating
						// statement stored just before
						var last *ssa.Store
						n := 0
						for _, st := range cellStores(ld.X) {
							if st.Parent() == sc.Fn && st.Addr == ld.X {
								n++
								last = st
							}
						}
						if fa, isFA := ld.X.(*ssa.FieldAddr); isFA && n == 0 {
							for _, b2 := range sc.Fn.Blocks {
								for _, in2 := range b2.Instrs {
									if st, isSt := in2.(*ssa.Store); isSt {
										if fa2, ok := st.Addr.(*ssa.FieldAddr); ok && fa2.Field == fa.Field && stripConv(fa2.X) == stripConv(fa.X) {
											n++
											last = st
										}
									}
								}
							}
						}
						if pm, isP := ld.X.(*ssa.Parameter); isP && n == 0 {
							// "*n += ...; return *n >= count" on a counter handed down by address
							for _, r := range refs(pm) {
								if st, isSt := r.(*ssa.Store); isSt && st.Addr == ssa.Value(pm) {
									n++
									last = st
								}
							}
						}
						if n == 1 && (last.Block() == ld.Block() || last.Block().Dominates(ld.Block())) {
							acc = last.Val
						}
					}
					form := sym(&symCtx{}, acc, sc.S, 0)
					var k int64
					if n, err := fmt.Sscanf(form, "(+ %d ", &k); err == nil && n == 1 && strings.Contains(form, "len(") {
						dirc = k
					}
				}
			}
		}
		for _, bs := range builds {
			n, fl, _, _ := loadedField(argN(bs.call, 3))
			sizeArg := n == c.V.Inode && fl == "Size"
			maxc, _ := constIntDeep(argN(bs.call, 4))
			okD := sizeArg && dirc >= 0 && dirc+maxname < direntsz
			R.Check(okD, id, bs.key+"|dircount limit unreachable", P.Pos(bs.call.Pos()), fmt.Sprintf("the builder passes dircount = dip.Size (entries*%d) and Apply charges %d + len(name) <= %d < %d per entry, so the rebuild cannot stop early", direntsz, dirc, dirc+maxname, direntsz), "constant arithmetic on the code's own constants", fmt.Sprintf("Apply charges %d + len(name) per entry against dircount = dip.Size: with names of %d bytes that is >= %d per %d-byte slot, the rebuild of the name cache stops before the end of the directory (names at the end disappear after a restart or eviction)", dirc, maxname, direntsz, direntsz))
			okM := maxc > 0 && baggage > 0 && maxc > 64+ninode*(baggage+maxname)
			R.Check(okM, id, bs.key+"|maxcount limit unreachable", P.Pos(bs.call.Pos()), fmt.Sprintf("maxcount %d exceeds 64 + NInode(%d) * (%d + %d)", maxc, ninode, baggage, maxname), "constant arithmetic", "the rebuild of the name cache can stop at maxcount for a directory the inode table allows")
		}
	}
	// the builder's callback passes name/inum/off through unchanged
	for _, bs := range builds {
		cf := bs.cb
		for _, call := range P.CallsIn(cf, funcIs(add)) {
			a := append([]ssa.Value{nil}, nonRecvArgs(call)...)
			ok := len(a) == 4 && len(cf.Params) == 4 && a[1] == ssa.Value(cf.Params[1]) && a[2] == ssa.Value(cf.Params[2]) && a[3] == ssa.Value(cf.Params[3])
			R.Check(ok, id, bs.key+"|adds what Apply enumerates", P.Pos(call.Pos()), "the cache builder passes (name, inum, off) through unchanged", "parameters passed through", "the rebuilt cache differs from the directory")
		}
	}
	// LookupName answers from the cache only after building it
	lookup := c.fn(id, "dir.LookupName")
	if lookup != nil {
		lk := c.fn(id, "dcache.(*Dcache).Lookup")
		for _, call := range P.CallsIn(lookup, funcIs(lk)) {
			// on the Dcache==nil edge mkDcache must run first
			var nilEdge func(from, to *ssa.BasicBlock) bool
			set := map[ssa.Value]bool{}
			for _, b := range lookup.Blocks {
				for _, in := range b.Instrs {
					if u, ok := in.(*ssa.UnOp); ok && u.Op == token.MUL {
						if n, fl, _ := FieldOf(u.X); n == c.V.Inode && fl == "Dcache" {
							set[u] = true
						}
					}
				}
			}
			nilEdge = cmpZeroEdge(lookup, set)
			okB := true
			for _, b := range lookup.Blocks {
				for _, s := range b.Succs {
					if nilEdge(b, s) {
						if !(MustAfter(lookup, buildAlways.Instr, nil)(s.Instrs[0]) || buildAlways.Instr(s.Instrs[0])) || !reachableFrom(s.Instrs[0], call) {
							okB = false
						}
					}
				}
			}
			R.Check(okB, id, "dir.LookupName|cold cache is built first", P.Pos(call.Pos()), "when the directory has no name cache it is built before the lookup", "mkDcache on the nil edge", "lookup on a nil/unbuilt cache")
		}
	}
}

// ---------------------------------------------------------------- W3

func ruleW3(c *Ctx, id string) {
	V, P, R := c.V, c.P, c.R
	R.Rule(id, "on-disk codecs are inverse and fit their slot: Inode.Encode/Decode (128 bytes), encodeDirEnt/decodeDirEnt (16 + name <= 128), handle codecs, simple.Inode codec", 10)
	inodesz := int64(-1)
	if cp := P.Pkg(jrnlPath + "/common"); cp != nil {
		if o := cp.Types.Scope().Lookup("INODESZ"); o != nil {
			inodesz, _ = constValInt(o)
		}
	}
	compareCodec(c, id, "inode.Inode", V.Encode, V.Decode, inodesz, true)
	// blks length: Decode reads NBLKINO, MkRootInode makes NBLKINO
	if V.Decode != nil {
		ops, _, _ := codecOps(V.Decode)
		var n int64 = -1
		for _, o := range ops {
			if o.Kind == "Ints" {
				n = o.Count
			}
		}
		nblk := int64(-2)
		if ip := P.Pkg("inode"); ip != nil {
			if o := ip.Types.Scope().Lookup("NBLKINO"); o != nil {
				nblk, _ = constValInt(o)
			}
		}
		mkn := int64(-3)
		if mk := P.Func("inode.MkRootInode"); mk != nil {
			for _, b := range mk.Blocks {
				for _, in := range b.Instrs {
					if ms, ok := in.(*ssa.MakeSlice); ok {
						mkn, _ = constInt(ms.Len)
					}
					if al, ok := in.(*ssa.Alloc); ok {
						if at, ok := al.Type().Underlying().(*types.Pointer).Elem().Underlying().(*types.Array); ok {
							mkn = at.Len()
						}
					}
				}
			}
		}
		fixed := int64(4 + 4 + 8 + 8 + 8 + 4*4)
		R.Check(n == nblk && mkn == nblk && fixed+8*nblk <= inodesz, id, "inode.Inode|blks length", P.Pos(V.Decode.Pos()), fmt.Sprintf("Decode reads NBLKINO=%d pointers, MkRootInode allocates as many, and %d + 8*%d <= %d", nblk, fixed, nblk, inodesz), "constants agree", fmt.Sprintf("Decode reads %d, MkRootInode makes %d, NBLKINO=%d, slot %d", n, mkn, nblk, inodesz))
	}
	// the entry encoder: a function of its own, or written out in the functions that build an entry
	enc := P.Func("dir.encodeDirEnt")
	var encHolders []*ssa.Function
	if enc == nil {
		for _, fn := range P.RepoFuncs("dir") {
			for _, b := range fn.Blocks {
				for _, in := range b.Instrs {
					if cal := staticCallee(in); cal != nil && cal.Name() == "NewEnc" && funcPkg(cal) != nil && strings.HasSuffix(funcPkg(cal).Path(), "tchajed/marshal") {
						if len(encHolders) == 0 || encHolders[len(encHolders)-1] != fn {
							encHolders = append(encHolders, fn)
						}
					}
				}
			}
		}
		if len(encHolders) == 0 {
			c.R.Unresolved(id, "dir.encodeDirEnt")
		}
	}
	dec := c.fn(id, "dir.decodeDirEnt")
	direntsz, maxname := int64(-1), int64(-1)
	if dp := P.Pkg("dir"); dp != nil {
		if o := dp.Types.Scope().Lookup("DIRENTSZ"); o != nil {
			direntsz, _ = constValInt(o)
		}
		if o := dp.Types.Scope().Lookup("MAXNAMELEN"); o != nil {
			maxname, _ = constValInt(o)
		}
	}
	compareCodec(c, id, "dir.dirEnt", enc, dec, direntsz, true)
	for _, h := range encHolders {
		compareCodec(c, id, "dir.dirEnt@"+h.Name(), h, dec, direntsz, true)
	}
	R.Check(16+maxname <= direntsz && maxname > 0, id, "dir.dirEnt|name bound fits", "?", fmt.Sprintf("16 + MAXNAMELEN(%d) <= DIRENTSZ(%d)", maxname, direntsz), "constant arithmetic", "the longest accepted name overflows the entry")
	// every caller of encodeDirEnt passes a name bounded by MAXNAMELEN (callers AddNameDir/RemNameDir are reached only through AddName/RemName, which test the length)
	{
		addName := P.Func("dir.AddName")
		remName := P.Func("dir.RemName")
		type encSite struct {
			Caller *ssa.Function
			Instr  ssa.Instruction
		}
		var encSites []encSite
		if enc != nil {
			for _, cs := range P.CallersOf(enc) {
				encSites = append(encSites, encSite{cs.Caller, cs.Instr})
			}
		}
		for _, h := range encHolders {
			encSites = append(encSites, encSite{h, h.Blocks[0].Instrs[0]})
		}
		for _, cs := range encSites {
			caller := cs.Caller
			ok := true
			why := ""
			for _, cs2 := range P.CallersOf(caller) {
				if !IsRepoFunc(cs2.Caller) {
					continue
				}
				if cs2.Caller != addName && cs2.Caller != remName {
					ok = false
					why = FuncName(cs2.Caller)
					continue
				}
				g := guardedBy(cs2.Caller, cs2.Instr.Block(), func(cd Cond) (bool, bool) {
					// len(name) OP MAXNAMELEN
					isLen := func(v ssa.Value) bool {
						v = stripConv(v)
						if call, ok := v.(*ssa.Call); ok {
							if bi, ok := call.Call.Value.(*ssa.Builtin); ok && bi.Name() == "len" {
								return true
							}
						}
						return false
					}
					k, isk := constInt(cd.Y)
					if !isLen(cd.X) || !isk {
						return false, false
					}
					switch cd.Op {
					case token.GEQ: // len >= k rejected -> accepted len <= k-1
						return k-1 <= maxname, false
					case token.GTR: // len > k rejected -> accepted len <= k
						return k <= maxname, false
					case token.LSS:
						return k-1 <= maxname, true
					case token.LEQ:
						return k <= maxname, true
					}
					return false, false
				})
				if !g {
					ok = false
					why = "no dominating length test in " + FuncName(cs2.Caller)
				}
			}
			R.Check(ok, id, FuncName(caller)+"|encodeDirEnt under the name bound", P.Pos(cs.Instr.Pos()), "every path to encodeDirEnt passes a test len(name) <= MAXNAMELEN", "guard dominates in AddName/RemName", "encodeDirEnt reachable with an unbounded name ("+why+"): the encoder overruns the 128-byte entry")
		}
	}
	compareCodec(c, id, "simple.Inode", c.fn(id, "simple.(*Inode).Encode"), c.fn(id, "simple.Decode"), inodesz, true)
	compareCodec(c, id, "simple.Fh", c.fn(id, "simple.(Fh).MakeFh3"), c.fn(id, "simple.MakeFh"), 16, true)
	compareCodec(c, id, "fh.Fh", c.fn(id, "fh.(Fh).MakeFh3"), c.fn(id, "fh.MakeFh"), 16, true)
	// WriteInode writes INODESZ*8 bits at Inum2Addr(ip.Inum)
	if V.WriteInode != nil {
		for _, call := range P.CallsIn(V.WriteInode, funcIs(V.OverWrite)) {
			sz, _ := constInt(argN(call, 1))
			encOK := false
			if dc, ok := stripConv(argN(call, 2)).(*ssa.Call); ok && staticCallee(dc) == V.Encode && recvOf(dc) == ssa.Value(V.WriteInode.Params[0]) {
				encOK = true
			}
			addrOK := false
			if ac, ok := stripConv(argN(call, 0)).(*ssa.Call); ok && staticCallee(ac) != nil && staticCallee(ac).Name() == "Inum2Addr" {
				n, fl, base, _ := loadedField(argN(ac, 0))
				addrOK = n == V.Inode && fl == "Inum" && base == ssa.Value(V.WriteInode.Params[0])
			}
			R.Check(sz == inodesz*8 && encOK && addrOK, id, "inode.WriteInode|writes Encode() at Inum2Addr(ip.Inum)", P.Pos(call.Pos()), "WriteInode overwrites exactly the inode's slot with its own encoding", "size INODESZ*8, address of ip.Inum, data ip.Encode()", "WriteInode writes another inode's slot, another size or other data")
		}
	}
	// GetInodeLocked decodes from the same address and size
	if V.GetInodeLocked != nil {
		for _, call := range P.CallsIn(V.GetInodeLocked, funcIs(V.ReadBuf, V.LogLoad)) {
			sz, _ := constInt(argN(call, 1))
			addrOK := false
			if ac, ok := stripConv(argN(call, 0)).(*ssa.Call); ok && staticCallee(ac) != nil && staticCallee(ac).Name() == "Inum2Addr" {
				addrOK = stripConv(argN(ac, 0)) == ssa.Value(V.GetInodeLocked.Params[1])
			}
			R.Check(sz == inodesz*8 && addrOK, id, "fstxn.GetInodeLocked|reads the slot WriteInode writes", P.Pos(call.Pos()), "the inode is read through the journal from Inum2Addr(inum), INODESZ*8 bits", "same address function and size", "inode read from a different slot/size than it is written to")
		}
	}
}

// isFreeVarLoad: v is (a load of) a variable captured from the enclosing function.
func isFreeVarLoad(v ssa.Value) bool {
	if _, ok := v.(*ssa.FreeVar); ok {
		return true
	}
	if u, ok := v.(*ssa.UnOp); ok && u.Op == token.MUL {
		_, isF := u.X.(*ssa.FreeVar)
		return isF
	}
	return false
}

// capturedAs: the values inside closure cal (called at call) that denote the
// enclosing function's inode value v: the free variable bound to v, or the
// loads of the free variable bound to the cell that holds v.
func capturedAs(call *ssa.Call, cal *ssa.Function, v ssa.Value) []ssa.Value {
	mc, _ := call.Call.Value.(*ssa.MakeClosure)
	if mc == nil {
		mc, _ = stripConv(call.Call.Value).(*ssa.MakeClosure)
	}
	if mc == nil {
		return nil
	}
	var out []ssa.Value
	for i, fv := range cal.FreeVars {
		if i >= len(mc.Bindings) {
			continue
		}
		b := mc.Bindings[i]
		if stripConv(b) == v {
			out = append(out, fv)
			continue
		}
		if al, ok := b.(*ssa.Alloc); ok {
			if st := singleStore(al); st != nil && stripConv(st) == v {
				for _, blk := range cal.Blocks {
					for _, in := range blk.Instrs {
						if u, ok := in.(*ssa.UnOp); ok && u.Op == token.MUL && u.X == ssa.Value(fv) {
							out = append(out, u)
						}
					}
				}
			}
		}
	}
	return out
}

// bmapHelperCall: in is the call, inside Inode.Write, of a private helper of
// Write that holds Write's block loop (the bmap call was moved there): the
// frozen contract of Write then speaks about that call.
func (w *w1) bmapHelperCall(in ssa.Instruction) bool {
	call, ok := in.(*ssa.Call)
	if !ok {
		return false
	}
	h := staticCallee(call)
	if h == nil || !(isPrivateHelper(h) || h.Parent() != nil) || h.Blocks == nil {
		return false
	}
	return len(w.c.P.CallsIn(h, funcIs(w.c.V.bmap))) > 0
}

// okStyle: fn is one of the functions whose boolean result means "it worked".
func okStyle(fn *ssa.Function) bool {
	v, _ := byFunc(okResult, FuncName(fn))
	return v
}

// ruleBmapFlag: W1 lets the callers of bmap write the inode "iff it
// allocated" - they believe bmap's second result.  For the direct blocks that
// result is a flag set after the allocation: the constant true must reach it
// only on the side where the pointer just stored is not null.  The other way
// round the callers skip WriteInode exactly when a block was linked: the
// cached inode has the pointer, the disk does not (and gets the bitmap bit at
// commit) - after a restart the block is allocated and belongs to nobody.
func ruleBmapFlag(c *Ctx, id string) {
	V, P, R := c.V, c.P, c.R
	R.Rule(id, "bmap reports what it did: a constant true reaches its 'allocated' result only on the not-null side of a test of a block pointer (a slot of Inode.blks or the allocator's answer)", 1)
	bm := V.bmap
	if bm == nil {
		return
	}
	// the 'allocated' result: the boolean one
	flagIdx := -1
	for i := 0; i < bm.Signature.Results().Len(); i++ {
		if bt, ok := bm.Signature.Results().At(i).Type().Underlying().(*types.Basic); ok && bt.Kind() == types.Bool {
			flagIdx = i
		}
	}
	if flagIdx < 0 {
		R.Undecided(id, "inode.bmap|'allocated' result", P.Pos(bm.Pos()), "bmap has a boolean result", "none found")
		return
	}
	isPtr := func(v ssa.Value) bool {
		v = stripConv(v)
		switch x := v.(type) {
		case *ssa.UnOp:
			if x.Op == token.MUL {
				if ia, ok := x.X.(*ssa.IndexAddr); ok {
					if nm, fl, _ := fieldLoad(ia.X); nm == V.Inode && fl == "blks" {
						return true
					}
				}
			}
		case *ssa.Call:
			return staticCallee(x) == V.AllocBlock
		}
		return false
	}
	notNull := func(Subst) func(Cond) (bool, bool) {
		return func(cd Cond) (bool, bool) {
			if cd.Op != token.EQL && cd.Op != token.NEQ {
				return false, false
			}
			for _, pr := range [][2]ssa.Value{{cd.X, cd.Y}, {cd.Y, cd.X}} {
				if pr[0] == nil || pr[1] == nil {
					continue
				}
				if k, ok := constInt(pr[1]); ok && k == 0 && isPtr(pr[0]) {
					return true, cd.Op == token.NEQ
				}
			}
			return false, false
		}
	}
	n := 0
	seen := map[ssa.Value]bool{}
	var walk func(v ssa.Value, from, to *ssa.BasicBlock, d int)
	walk = func(v ssa.Value, from, to *ssa.BasicBlock, d int) {
		if d > 8 {
			return
		}
		if ph, isP := v.(*ssa.Phi); isP {
			if seen[ph] {
				return
			}
			seen[ph] = true
			for i, e := range ph.Edges {
				walk(e, ph.Block().Preds[i], ph.Block(), d+1)
			}
			return
		}
		bv, isb := constBool(v)
		if !isb || !bv || from == nil {
			return // computed (root != ip.blks[...]) or false
		}
		n++
		R.Analysed[FuncName(bm)] = true
		g := edgeGuardedX(bm, from, to, notNull, nil, 0)
		R.Check(g, id, fmt.Sprintf("inode.bmap|'allocated' set#%d only where a pointer was linked", n), P.Pos(from.Instrs[len(from.Instrs)-1].Pos()), "the constant true reaches the result on the not-null side of a test of the pointer", "edge guarded by pointer != 0", "bmap says 'allocated' where no block was linked and 'nothing new' where one was: its callers skip WriteInode exactly when the inode changed - the pointer never reaches the disk while the bitmap bit does; after a restart the block is allocated and unreachable, and the bytes written to it are gone")
	}
	for _, b := range bm.Blocks {
		if r, ok := b.Instrs[len(b.Instrs)-1].(*ssa.Return); ok && flagIdx < len(r.Results) {
			walk(r.Results[flagIdx], nil, nil, 0)
		}
	}
	if n == 0 {
		// bmap links a block by storing the allocator's answer into a slot of the inode: then something must say so
		direct := false
		var sb *ssa.BasicBlock
		for _, b := range bm.Blocks {
			for _, in := range b.Instrs {
				if st, ok := in.(*ssa.Store); ok {
					if ia, ok := st.Addr.(*ssa.IndexAddr); ok {
						if nm, fl, _ := fieldLoad(ia.X); nm == V.Inode && fl == "blks" {
							if cl, ok := stripConv(st.Val).(*ssa.Call); ok && staticCallee(cl) == V.AllocBlock {
								direct, sb = true, b
							}
						}
					}
				}
			}
		}
		// what the result can be on the ways that come from that store: a computed value may be right
		computed := false
		if direct {
			for _, b := range bm.Blocks {
				if r, ok := b.Instrs[len(b.Instrs)-1].(*ssa.Return); ok && flagIdx < len(r.Results) {
					seenW := map[ssa.Value]bool{}
					var w func(v ssa.Value, d int)
					w = func(v ssa.Value, d int) {
						if seenW[v] || d > 8 {
							return
						}
						seenW[v] = true
						if ph, isP := v.(*ssa.Phi); isP {
							for i, e := range ph.Edges {
								if reachesBlockC10(sb, ph.Block().Preds[i]) {
									w(e, d+1)
								}
							}
							return
						}
						if _, isb := constBool(v); !isb {
							computed = true
						}
					}
					w(r.Results[flagIdx], 0)
				}
			}
		}
		if computed {
			direct = false
		}
		if direct {
			R.Check(false, id, "inode.bmap|'allocated' set where a pointer was linked", P.Pos(bm.Pos()), "the arm that stores the allocator's answer into a slot of the inode sets the result to true where that answer is not null", fmt.Sprintf("no constant true reaches the result (computed sources: %v)", computed), "bmap links a block into a direct slot and never says so: its callers skip WriteInode - the pointer never reaches the disk while the bitmap bit does; after a restart the block is allocated and unreachable, and the bytes written to it are gone")
		} else {
			R.Pass(id, "inode.bmap|'allocated' is computed", P.Pos(bm.Pos()), "no constant true reaches the result: it is computed from the pointers", "comparison of pointers")
		}
	}
}

func reachesBlockC10(a, b *ssa.BasicBlock) bool { return reachesBlock(a, b) }
