package main

import (
	"fmt"
	"go/token"
	"strings"

	"golang.org/x/tools/go/ssa"
)

func init() {
	props["C18"] = func(c *Ctx) {
		c.R.Expl = "Structural conditions of the key-value store's contract: (Q1) MultiPut is one journal operation begun before the loop, every pair is written on it, it is committed once, after the loop, with wait=true, and the commit's result is the function's result; Get reads through the journal and returns a copy of the journal's buffer; (Q2) the key-range predicates of MultiPut and Get accept the same set."
		c.R.NotDec = "anything about histories or crashes beyond 'one synchronous journal operation'; the journal's own atomicity."
		ruleQ1(c, "C18.Q1")
		ruleQ2(c, "C18.Q2")
		ruleQ3(c, "C18.Q3")
	}
}

// ruleQ3: Get is a reader.  A Get that dirties what it read (to "make the
// value durable", or to keep the block in the operation) commits a whole-block
// write of a value that may be stale by then: a complete MultiPut of that key
// that commits between Get's read and Get's commit is overwritten, durably,
// with the old value - the acknowledged put is lost and the other keys of the
// same multi-put keep their new values.
func ruleQ3(c *Ctx, id string) {
	V, P, R := c.V, c.P, c.R
	R.Rule(id, "Get is a reader: no function reachable from kvs.Get inside go-nfsd marks a journal buffer dirty or overwrites a journal object (SetDirty, OverWrite, BnumPut, raw disk writes)", 1)
	get := c.fn(id, "kvs.(*KVS).Get")
	if get == nil {
		return
	}
	writers := map[*ssa.Function]bool{}
	for _, w := range []*ssa.Function{V.OverWrite, V.SetDirty, V.BnumPut} {
		if w != nil {
			writers[w] = true
		}
	}
	reach := P.Reach([]*ssa.Function{get}, func(f *ssa.Function) bool { return !IsRepoFunc(f) })
	n, bad := 0, ""
	var pos ssa.Instruction
	for f := range reach {
		if !IsRepoFunc(f) || f.Blocks == nil {
			continue
		}
		n++
		R.Analysed[FuncName(f)] = true
		for _, b := range f.Blocks {
			for _, in := range b.Instrs {
				cal := staticCallee(in)
				if cal == nil {
					continue
				}
				raw := cal.Name() == "Write" && funcPkg(cal) != nil && strings.HasSuffix(funcPkg(cal).Path(), "primitive/disk")
				if writers[cal] || raw {
					bad = FuncName(f) + " calls " + FuncName(cal)
					pos = in
				}
			}
		}
	}
	at := P.Pos(get.Pos())
	if pos != nil {
		at = P.Pos(pos.Pos())
	}
	R.Check(bad == "" && n > 0, id, "kvs.Get|does not write", at, "Get only reads through the journal", fmt.Sprintf("%d functions reachable from Get, none writes", n), bad+": Get commits a write of the value it read - a multi-put that commits in between is undone, durably, for this key only")
}

func ruleQ1(c *Ctx, id string) {
	V, P, R := c.V, c.P, c.R
	R.Rule(id, "MultiPut: one Begin before the loop, OverWrite on that op, one CommitWait(true) after the loop whose result is returned; Get: ReadBuf through the journal, result cloned", 7)
	mp := c.fn(id, "kvs.(*KVS).MultiPut")
	get := c.fn(id, "kvs.(*KVS).Get")
	if mp == nil || get == nil {
		return
	}
	R.Analysed[FuncName(mp)] = true
	R.Analysed[FuncName(get)] = true
	begins := P.CallsIn(mp, funcIs(V.JrnlBegin))
	commits := P.CallsIn(mp, funcIs(V.JrnlCommitWait))
	// the writes of the pairs, in MultiPut or in a private helper it calls (seen as the call in MultiPut)
	type wsite struct {
		call ssa.Instruction // the OverWrite
		at   ssa.Instruction // where it happens in MultiPut
		sub  Subst
	}
	var wsites []wsite
	for _, sc := range scopesOf(mp) {
		for _, w := range P.CallsIn(sc.Fn, funcIs(V.OverWrite)) {
			at := w
			if sc.Via != nil {
				if sc.Via.Parent() != mp {
					continue
				}
				thisW := w
				if !MustAfter(sc.Fn, func(x ssa.Instruction) bool { return x == thisW }, nil)(sc.Fn.Blocks[0].Instrs[0]) {
					continue
				}
				at = sc.Via
			}
			wsites = append(wsites, wsite{w, at, sc.S})
		}
	}
	var writes []ssa.Instruction
	for _, ws := range wsites {
		writes = append(writes, ws.at)
	}
	ok := len(begins) == 1 && !reachableFrom(begins[0], begins[0])
	R.Check(ok, id, "kvs.MultiPut|one operation begun outside the loop", P.Pos(mp.Pos()), "a single jrnl.Begin that is not inside the loop", "one Begin, not in a cycle", "one transaction per pair (or none): the multi-put is not atomic")
	if !ok {
		return
	}
	op := begins[0].(*ssa.Call)
	for i, ws := range wsites {
		w := ws.at
		R.Check(ws.sub.resolve(recvOf(ws.call)) == ssa.Value(op), id, fmt.Sprintf("kvs.MultiPut|write#%d on the one operation", i+1), P.Pos(w.Pos()), "every pair is written on the operation begun", "same op", "a pair is written on another operation")
	}
	R.Check(len(writes) >= 1, id, "kvs.MultiPut|writes", P.Pos(mp.Pos()), "pairs are written through OverWrite", "present", "no write")
	// the write set is blind and complete: every iteration of the loop over the pairs writes its pair, and
	// nothing is read from the journal to decide what to write (such a decision can be stale at commit time)
	for i, w := range writes {
		wb := w.Block()
		every, nback := true, 0
		for _, h := range mp.Blocks {
			if !h.Dominates(wb) || h == wb {
				continue
			}
			for _, p := range h.Preds {
				if h.Dominates(p) && len(wb.Instrs) > 0 && (p == wb || reachableFrom(wb.Instrs[0], p.Instrs[len(p.Instrs)-1])) {
					nback++
				}
				if h.Dominates(p) && !wb.Dominates(p) && p != wb {
					// a back edge of an enclosing loop that does not pass the write
					every = false
				}
			}
		}
		R.Check(every && nback > 0, id, fmt.Sprintf("kvs.MultiPut|write#%d on every iteration", i+1), P.Pos(w.Pos()), "every path through the loop body passes the OverWrite of the pair (out-of-range keys panic)", "the write dominates every back edge of the loop", "some pairs are skipped: the put installs only part of its pairs, or decides from a read that is stale when it commits")
	}
	// the values are the caller's, in the caller's order: no buffer that the server will reuse is handed to the
	// journal (which keeps the slice until the block is installed), and nothing reorders or rewrites the pairs
	for i, ws := range wsites {
		pooled := ""
		for v := range bwdAll(ws.sub.resolve(argN(ws.call, 2))) {
			if cl, ok := v.(*ssa.Call); ok {
				if cal := staticCallee(cl); cal != nil && cal.Name() == "Get" && strings.Contains(FuncName(cal), "sync.Pool") {
					pooled = P.Pos(cl.Pos())
				}
			}
		}
		R.Check(pooled == "", id, fmt.Sprintf("kvs.MultiPut|write#%d hands over a buffer nobody recycles", i+1), P.Pos(ws.at.Pos()), "the slice given to OverWrite does not come from a sync.Pool", "no pooled buffer", "the value is copied into a pooled buffer ("+pooled+") that is handed to the journal: the journal keeps the slice (gets are served from it, the installer writes it home later), so the next put that draws the same buffer overwrites a value that was acknowledged as durable")
	}
	if len(mp.Params) >= 2 {
		pairs := ssa.Value(mp.Params[1])
		touched := ""
		for _, sc := range scopesOf(mp) {
			for _, b := range sc.Fn.Blocks {
				for _, in := range b.Instrs {
					switch x := in.(type) {
					case *ssa.Call:
						if _, isB := x.Call.Value.(*ssa.Builtin); isB {
							continue
						}
						if cf, _ := closureCallee(x); cf != nil {
							continue // a local closure of MultiPut: part of it
						}
						for _, a := range x.Call.Args {
							av := sc.S.resolve(stripConv(a))
							if mi, ok := av.(*ssa.MakeInterface); ok {
								av = sc.S.resolve(stripConv(mi.X))
							}
							if av == pairs {
								touched = "passed to " + x.Call.Value.Name() + " at " + P.Pos(x.Pos())
							}
						}
					case *ssa.Store:
						if ia, ok := x.Addr.(*ssa.IndexAddr); ok && sc.S.resolve(stripConv(ia.X)) == pairs {
							touched = "element stored at " + P.Pos(x.Pos())
						}
					}
				}
			}
		}
		R.Check(touched == "", id, "kvs.MultiPut|pairs written in the order given", P.Pos(mp.Pos()), "the slice of pairs is only read, in order (nothing sorts, filters or rewrites it)", "pairs reach no call and no store", "the pairs are "+touched+": when one multi-put names a key twice the last pair must win, and an (unstable) reordering can commit the earlier value")
	}
	reads := P.CallsIn(mp, funcIs(V.ReadBuf))
	R.Check(len(reads) == 0, id, "kvs.MultiPut|blind writes", P.Pos(mp.Pos()), "MultiPut reads nothing through the journal: its effect does not depend on a state that another multi-put may change before the commit", "no ReadBuf", fmt.Sprintf("%d journal reads inside the multi-put: a read-check-write without a lock", len(reads)))
	okC := len(commits) == 1
	if okC {
		cm := commits[0].(*ssa.Call)
		w, isc := constBool(argN(cm, 0))
		inLoop := reachableFrom(cm, cm)
		afterAll := true
		for _, wr := range writes {
			if reachableFrom(cm, wr) {
				afterAll = false
			}
		}
		entry := mp.Blocks[0].Instrs[0]
		always := MustAfter(mp, func(in ssa.Instruction) bool { return in == cm }, nil)(entry)
		R.Check(isc && w && !inLoop && afterAll && always && stripConv(recvOf(cm)) == ssa.Value(op), id, "kvs.MultiPut|one CommitWait(true) after the loop", P.Pos(cm.Pos()), "the operation is committed once, after all writes, waiting for durability, on every non-panicking path", "constant true, not in a cycle, after the writes", "the multi-put is committed per pair, asynchronously, or not on every path")
		retOK := true
		for _, b := range mp.Blocks {
			if r, isR := b.Instrs[len(b.Instrs)-1].(*ssa.Return); isR {
				if stripConv(r.Results[0]) != ssa.Value(cm) {
					retOK = false
				}
			}
		}
		R.Check(retOK, id, "kvs.MultiPut|returns the commit result", P.Pos(cm.Pos()), "the function's result is the commit's result", "same value", "a failed commit is reported as success")
	} else {
		R.Fail(id, "kvs.MultiPut|one CommitWait(true) after the loop", P.Pos(mp.Pos()), "exactly one commit", fmt.Sprintf("%d commits", len(commits)))
	}
	// Get
	rb := P.CallsIn(get, funcIs(V.ReadBuf))
	R.Check(len(rb) == 1, id, "kvs.Get|reads through the journal", P.Pos(get.Pos()), "Get reads with jrnl.ReadBuf (sees committed, uninstalled data)", "one ReadBuf", "Get bypasses the journal")
	if len(rb) == 1 {
		// a jrnl.Op keeps every object it has read: an operation that outlives one Get answers later Gets from its
		// own buffers, whatever has been committed since
		fresh, nb := derivesOnlyFrom(stripConv(recvOf(rb[0])), funcIs(V.JrnlBegin), 0)
		fresh = fresh && nb > 0
		R.Check(fresh, id, "kvs.Get|reads in an operation of its own", P.Pos(rb[0].Pos()), "the operation Get reads with is begun (jrnl.Begin) inside Get", "fresh operation per Get", "Get reads with an operation that outlives the call: jrnl.Op caches what it has read, so a key read once keeps its old value for every later Get although newer multi-puts are committed and durable")
	}
	cloned := false
	for _, b := range get.Blocks {
		for _, in := range b.Instrs {
			if cal := staticCallee(in); cal != nil && cal.Name() == "CloneByteSlice" {
				if n, fl, base, _ := loadedField(argN(in, 0)); n != nil && fl == "Data" && len(rb) == 1 && base == ssa.Value(rb[0].(*ssa.Call)) {
					// and the clone is what is returned
					cl := fwdClosure([]ssa.Value{in.(*ssa.Call)}, false)
					for _, b2 := range get.Blocks {
						for _, in2 := range b2.Instrs {
							if st, ok := in2.(*ssa.Store); ok && fieldPath(st.Addr) == "Val" && cl[st.Val] {
								cloned = true
							}
						}
					}
				}
			}
		}
	}
	// Get answers from the journal and from nothing else: every return is preceded by the read, every value it
	// hands out comes from that read, and the block read is the key's
	if len(rb) == 1 {
		isRB := func(in ssa.Instruction) bool { return in == rb[0] }
		okAll, okVal, nVal := true, true, 0
		for _, b := range get.Blocks {
			if r, isR := b.Instrs[len(b.Instrs)-1].(*ssa.Return); isR && !MustBefore(get, isRB)(r) {
				okAll = false
			}
		}
		// produced by the read: the read's buffer, or a clone of its Data
		fromReadV := func(v ssa.Value) bool {
			n := 0
			for src := range bwdSources(v) {
				cl, isC := src.(*ssa.Call)
				if !isC {
					continue
				}
				n++
				if cl == rb[0].(*ssa.Call) {
					continue
				}
				if cal := staticCallee(cl); cal != nil && cal.Name() == "CloneByteSlice" {
					if nm, fl, base, _ := loadedField(argN(cl, 0)); nm != nil && fl == "Data" && base == ssa.Value(rb[0].(*ssa.Call)) {
						continue
					}
				}
				return false
			}
			return n > 0
		}
		for _, sc := range scopesOf(get) {
			for _, b := range sc.Fn.Blocks {
				for _, in := range b.Instrs {
					if st, ok := in.(*ssa.Store); ok && fieldPath(st.Addr) == "Val" {
						nVal++
						if !fromReadV(st.Val) {
							okVal = false
						}
					}
				}
			}
		}
		R.Check(okAll && okVal && nVal > 0, id, "kvs.Get|answers from the journal only", P.Pos(rb[0].Pos()), "every return of Get follows the journal read, and every value it returns flows from that read", fmt.Sprintf("must-precede at every return; %d result stores, all from the read", nVal), "Get can answer without reading the journal (a cache, a 'never written' shortcut): such an answer is not ordered with the multi-puts by the journal - a stale or half-applied value can be returned for ever, and after a restart durable keys read as empty")
		okKey := false
		if ac, isA := stripConv(argN(rb[0], 0)).(*ssa.Call); isA && staticCallee(ac) != nil && staticCallee(ac).Name() == "MkAddr" && len(ac.Call.Args) == 2 {
			pm, isP := stripConv(ac.Call.Args[0]).(*ssa.Parameter)
			off, isk := constInt(stripConv(ac.Call.Args[1]))
			okKey = isP && pm.Parent() == get && isk && off == 0
		}
		R.Check(okKey, id, "kvs.Get|reads the block of its key", P.Pos(rb[0].Pos()), "the journal read is at addr.MkAddr(key, 0)", "the key parameter, offset 0", "Get reads another block than the one MultiPut writes for the key")
	}
	R.Check(cloned, id, "kvs.Get|returns a copy", P.Pos(get.Pos()), "the value returned is a clone of the journal's buffer", "CloneByteSlice(buf.Data) stored in the result", "the caller receives the journal's own buffer: later puts change a value already returned")
}

func ruleQ2(c *Ctx, id string) {
	P, R := c.P, c.R
	R.Rule(id, "sibling bounds agree: the key-range predicates of MultiPut and Get reject exactly the same keys (same comparison against the store size, same against LOGSIZE)", 2)
	type pred struct{ hi, lo string }
	extract := func(fn *ssa.Function) pred {
		var p pred
		// the predicate may live in a private helper shared by both siblings
		for _, sc := range scopesOf(fn) {
			// a helper that holds the journal access itself (the body of the loop as a local function) is part of
			// the sibling, not a predicate: its comparisons are read by the side that goes on
			inPredicate := sc.Fn != fn
			for _, hb := range sc.Fn.Blocks {
				for _, hin := range hb.Instrs {
					if g := staticCallee(hin); g != nil && (g == c.V.OverWrite || g.Name() == "ReadBuf") {
						inPredicate = false
					}
				}
			}
			for _, b := range sc.Fn.Blocks {
				for _, in := range b.Instrs {
					bo, ok := in.(*ssa.BinOp)
					if !ok {
						continue
					}
					switch bo.Op {
					case token.LSS, token.LEQ, token.GTR, token.GEQ, token.EQL, token.NEQ:
					default:
						continue
					}
					// which keys go on: the side of the comparison from which the journal is reached.  "key >= sz" that
					// leads to the panic and "key < sz" that leads on are the same predicate.
					accSide := func() (token.Token, bool) {
						iff, isIf := b.Instrs[len(b.Instrs)-1].(*ssa.If)
						if !isIf {
							return bo.Op, true
						}
						cond, neg := iff.Cond, false
						for {
							if u, isU := cond.(*ssa.UnOp); isU && u.Op == token.NOT {
								cond, neg = u.X, !neg
								continue
							}
							break
						}
						if cond != ssa.Value(bo) {
							return bo.Op, true
						}
						reaches := func(from *ssa.BasicBlock) bool {
							seen := map[*ssa.BasicBlock]bool{}
							work := []*ssa.BasicBlock{from}
							for len(work) > 0 {
								x := work[len(work)-1]
								work = work[:len(work)-1]
								if seen[x] {
									continue
								}
								seen[x] = true
								for _, i2 := range x.Instrs {
									if g := staticCallee(i2); g != nil && (g == c.V.OverWrite || g.Name() == "ReadBuf") {
										return true
									}
									if _, isP := i2.(*ssa.Panic); isP {
										return false
									}
								}
								if _, isR := x.Instrs[len(x.Instrs)-1].(*ssa.Return); isR && sc.Fn != fn {
									return true // a predicate helper: returning is going on
								}
								work = append(work, x.Succs...)
							}
							return false
						}
						t, f := b.Succs[0], b.Succs[1]
						if neg {
							t, f = f, t
						}
						switch {
						case reaches(t) && !reaches(f):
							return bo.Op, true
						case reaches(f) && !reaches(t):
							return negOp(bo.Op), true
						}
						return bo.Op, true
					}
					if _, fl, _, _ := loadedFieldS(bo.Y, sc.S); fl == "sz" {
						op, _ := accSide()
						p.hi = "key " + op.String() + " sz goes on"
						if inPredicate {
							p.hi = "key " + bo.Op.String() + " sz (in a predicate)"
						}
					}
					if k, isk := constIntDeep(bo.Y); isk && k == constOfPkg(P, jrnlPath+"/common", "LOGSIZE") {
						op, _ := accSide()
						p.lo = "key " + op.String() + " LOGSIZE goes on"
						if inPredicate {
							p.lo = "key " + bo.Op.String() + " LOGSIZE (in a predicate)"
						}
					}
				}
			}
		}
		return p
	}
	mp := c.fn(id, "kvs.(*KVS).MultiPut")
	get := c.fn(id, "kvs.(*KVS).Get")
	if mp == nil || get == nil {
		return
	}
	a, b := extract(mp), extract(get)
	R.Check(a.hi != "" && a.hi == b.hi, id, "kvs|upper key bound agrees", P.Pos(get.Pos()), "MultiPut and Get compare the key with the store size in the same way", a.hi, fmt.Sprintf("MultiPut: %s; Get: %s: a key one side accepts is refused (or crashes) on the other", a.hi, b.hi))
	R.Check(a.lo != "" && a.lo == b.lo, id, "kvs|lower key bound agrees", P.Pos(get.Pos()), "MultiPut and Get compare the key with LOGSIZE in the same way", a.lo, fmt.Sprintf("MultiPut: %s, Get: %s", a.lo, b.lo))
	// and the predicates refuse: what touches the journal (the write of a pair, the read of a key) lies on the
	// accepting side of both comparisons - an out-of-range key addresses the log or a block beyond the store
	logsize := constOfPkg(P, jrnlPath+"/common", "LOGSIZE")
	for _, fn := range []*ssa.Function{mp, get} {
		n := 0
		for _, b := range fn.Blocks {
			for _, in := range b.Instrs {
				g := staticCallee(in)
				if g == nil || (g != c.V.OverWrite && g.Name() != "ReadBuf") {
					continue
				}
				if _, isC := in.(*ssa.Call); !isC {
					continue
				}
				n++
				below := guardedByX(fn, b, func(sub Subst) func(Cond) (bool, bool) {
					return func(cd Cond) (bool, bool) {
						if cd.X == nil || cd.Y == nil {
							return false, false
						}
						if _, fl, _, _ := loadedFieldS(cd.Y, sub); fl != "sz" {
							return false, false
						}
						switch cd.Op {
						case token.LSS:
							return true, true
						case token.GEQ:
							return true, false
						}
						return false, false
					}
				}, nil, 0)
				above := guardedByX(fn, b, func(sub Subst) func(Cond) (bool, bool) {
					return func(cd Cond) (bool, bool) {
						if cd.X == nil || cd.Y == nil {
							return false, false
						}
						if k, isk := constIntDeep(cd.Y); !isk || k != logsize {
							return false, false
						}
						switch cd.Op {
						case token.GEQ:
							return true, true
						case token.LSS:
							return true, false
						}
						return false, false
					}
				}, nil, 0)
				R.Check(below && above, id, fmt.Sprintf("kvs.%s|journal access#%d only for keys in range", fn.Name(), n), P.Pos(in.Pos()), "the access lies on the side key < sz and on the side key >= LOGSIZE", "dominated by both accepting edges", "the range test no longer keeps an out-of-range key from the journal: a put over a block of the write-ahead log (key < LOGSIZE) destroys the log, a key >= sz reads or writes beyond the store")
			}
		}
	}
}
