package main

import (
	"fmt"
	"go/token"
	"go/types"
	"strings"

	"golang.org/x/tools/go/ssa"
)

func init() {
	props["C12"] = func(c *Ctx) {
		c.R.Expl = "Structural conditions of 'never-written bytes read as zero': (Z1) every freed block is zeroed in full, in the freeing transaction, before it is recorded as free, and blocks become free only through that path; (Z2) every cleared block pointer is paired with FreeBlock of the old value and pointer slots have fixed writers; (Z3) a mechanism clears the tail of the last kept block when a file shrinks to an unaligned size (presence, not arithmetic); (Z4) client buffers are not retained by the journal."
		c.R.NotDec = "the contents read back for any particular history; the arithmetic of which bytes are cleared."
		ruleZ1(c, "C12.Z1")
		ruleZ2(c, "C12.Z2")
		ruleZ3(c, "C12.Z3")
		ruleZ4(c, "C12.Z4")
		ruleW1(c, "C12.Z5")
		ruleA2(c, "C12.Z6")
		ruleF4(c, "C12.Z7")
		ruleF1(c, "C12.Z8")
		ruleF10(c, "C12.Z9")
		ruleZ10(c, "C12.Z10")
		ruleZ11(c, "C12.Z11")
		ruleZ12(c, "C12.Z12")
		// READ fills holes (it links a block): its transaction must end like any other, or the pointer reaches the
		// disk with a later operation while the bitmap bit does not - after a restart the block is handed to another file
		ruleZ14(c, "C12.Z14")
		// a READ that takes block 0 for the block of a hole returns the log header as file data
		ruleNullSource(c, "C12.Z15")
		ruleReadClamp(c, "C12.Z16")
		ruleMapFromPointers(c, "C12.Z17")
		ruleL2f(c, "C12.Z13", func(e string) bool { return strings.HasSuffix(e, "NFSPROC3_READ") }, 2)
	}
}

// fullZeroLoop reports whether fn zeroes every element of slice value s
// (store of constant 0 at s[i] inside "for i := range s").
func fullZeroLoop(fn *ssa.Function, isSlice func(ssa.Value) bool) (ssa.Instruction, bool) {
	for _, b := range fn.Blocks {
		for _, in := range b.Instrs {
			st, ok := in.(*ssa.Store)
			if !ok {
				continue
			}
			k, isk := constInt(st.Val)
			if !isk || k != 0 {
				continue
			}
			ia, ok := st.Addr.(*ssa.IndexAddr)
			if !ok || !isSlice(ia.X) {
				continue
			}
			isLen := func(v ssa.Value) bool {
				call, ok := v.(*ssa.Call)
				if !ok {
					return false
				}
				bi, ok := call.Call.Value.(*ssa.Builtin)
				return ok && bi.Name() == "len" && isSlice(call.Call.Args[0])
			}
			// the store runs on every iteration: its block dominates every back edge of the counter
			everyIter := func(phi *ssa.Phi) bool {
				n := 0
				for i := range phi.Edges {
					pred := phi.Block().Preds[i]
					if !phi.Block().Dominates(pred) {
						continue
					}
					n++
					if !b.Dominates(pred) {
						return false
					}
				}
				return n > 0
			}
			// range form: index = phi + 1 with phi starting at -1; loop bound len(same slice)
			if add, ok := ia.Index.(*ssa.BinOp); ok && add.Op == token.ADD {
				phi, ok := add.X.(*ssa.Phi)
				one, isone := constInt(add.Y)
				if !ok || !isone || one != 1 {
					continue
				}
				start := false
				for _, e := range phi.Edges {
					if k, ok := constInt(e); ok && k == -1 {
						start = true
					} else if e != ssa.Value(add) {
						start = false
						break
					}
				}
				bound := false
				for _, r := range refs(add) {
					if cmp, ok := r.(*ssa.BinOp); ok && cmp.Op == token.LSS && cmp.X == add && isLen(cmp.Y) {
						bound = true
					}
				}
				if start && bound && everyIter(phi) {
					return in, true
				}
				continue
			}
			// counted form: index = phi, phi = 0 on entry and phi + 1 on every back edge, body guarded by phi < len(same slice)
			if phi, ok := ia.Index.(*ssa.Phi); ok {
				shape := true
				for i, e := range phi.Edges {
					pred := phi.Block().Preds[i]
					if phi.Block().Dominates(pred) {
						bo, ok := e.(*ssa.BinOp)
						k, isk := int64(0), false
						if ok {
							k, isk = constInt(bo.Y)
						}
						if !ok || bo.Op != token.ADD || bo.X != ssa.Value(phi) || !isk || k != 1 {
							shape = false
						}
					} else if k, ok := constInt(e); !ok || k != 0 {
						shape = false
					}
				}
				bound := guardedBy(fn, b, func(cd Cond) (bool, bool) {
					if cd.Op == token.LSS && cd.X == ssa.Value(phi) && isLen(cd.Y) {
						return true, true
					}
					if cd.Op == token.GEQ && cd.X == ssa.Value(phi) && isLen(cd.Y) {
						return true, false
					}
					return false, false
				})
				// the loop is left only through that bound test
				if shape && bound && everyIter(phi) {
					return in, true
				}
			}
		}
	}
	return nil, false
}

func ruleZ1(c *Ctx, id string) {
	V, P, R := c.V, c.P, c.R
	R.Rule(id, "zero on free: FreeBlock zeroes the whole block (ZeroBlock) before recording it in freeBnums, on every path; freeBnums has no other writer; ZeroBlock stores 0 to every byte and marks the buffer dirty", 6)
	if V.FreeBlock == nil || V.ZeroBlock == nil {
		return
	}
	f := V.FreeBlock
	R.Analysed[FuncName(f)] = true
	R.Analysed[FuncName(V.ZeroBlock)] = true
	nw := 0
	for _, fn := range P.RepoFuncs() {
		for _, w := range FieldWrites(fn) {
			if w.Type == V.AllocTxn && w.Field == "freeBnums" && fn.Name() != "Begin" {
				nw++
				R.Check(fn == f, id, FuncName(fn)+"|writes freeBnums", P.Pos(w.Instr.Pos()), "blocks are recorded as free only by FreeBlock", "FreeBlock", "a block recorded as free without passing through the zeroing path")
				if fn != f {
					continue
				}
				var param ssa.Value = f.Params[1]
				zb := func(in ssa.Instruction) bool {
					return callTo(V.ZeroBlock)(in) && stripConv(argN(in, 0)) == param
				}
				R.Check(MustBefore(f, zb)(w.Instr), id, "alloctxn.FreeBlock|ZeroBlock precedes the free record", P.Pos(w.Instr.Pos()), "ZeroBlock(blkno) on every path before blkno is appended to freeBnums", "must-precede on the same block number", "a path frees a block without zeroing it: its old contents are exposed to the next owner")
				// appended value is the parameter
				cl := fwdClosure([]ssa.Value{param}, false)
				R.Check(cl[w.Val], id, "alloctxn.FreeBlock|records its argument", P.Pos(w.Instr.Pos()), "the block recorded is the block zeroed", "value flow", "the recorded block differs from the zeroed one")
			}
		}
	}
	// every path through FreeBlock with blkno != 0 records it
	{
		var param ssa.Value = f.Params[1]
		isRec := func(in ssa.Instruction) bool {
			st, ok := in.(*ssa.Store)
			if !ok {
				return false
			}
			n, fl, _ := FieldOf(st.Addr)
			return n == V.AllocTxn && fl == "freeBnums"
		}
		set := map[ssa.Value]bool{param: true}
		ok := MustAfterE(f, isRec, nil, cmpZeroEdge(f, set))(f.Blocks[0].Instrs[0])
		R.Check(ok, id, "alloctxn.FreeBlock|records every non-null block", P.Pos(f.Pos()), "every path with blkno != 0 records the block as freed", "must-follow except on the blkno==0 edge", "a path drops the block without recording it: the block is leaked (C05) and stays allocated for ever")
	}
	// ZeroBlock: full zero loop over buf.Data of ReadBlock(param), then SetDirty
	z := V.ZeroBlock
	rb := P.CallsIn(z, funcIs(V.ReadBlock))
	okRB := len(rb) == 1 && stripConv(argN(rb[0], 0)) == ssa.Value(z.Params[1])
	R.Check(okRB, id, "alloctxn.ZeroBlock|reads the block named", P.Pos(z.Pos()), "ZeroBlock obtains the buffer of its own argument through the journal", "ReadBlock(blkno)", "ZeroBlock zeroes a different block")
	if okRB {
		bufv := rb[0].(*ssa.Call)
		isData := func(v ssa.Value) bool {
			n, fl, base, _ := loadedField(v)
			return n != nil && n.Obj().Name() == "Buf" && fl == "Data" && base == bufv
		}
		st, ok := fullZeroLoop(z, isData)
		R.Check(ok, id, "alloctxn.ZeroBlock|zeroes every byte", P.Pos(z.Pos()), "for i := range buf.Data { buf.Data[i] = 0 }", "store of 0 at the range index over the whole buffer", "the block is not zeroed in full")
		if ok {
			sd := func(in ssa.Instruction) bool { return callTo(V.SetDirty)(in) && recvOf(in) == bufv }
			R.Check(MustAfter(z, sd, nil)(st) || MustAfter(z, sd, nil)(z.Blocks[0].Instrs[0]), id, "alloctxn.ZeroBlock|marks dirty", P.Pos(z.Pos()), "SetDirty on the zeroed buffer on every path", "must-follow", "the zeroes are never written: the buffer is not marked dirty")
		}
	}
}

func ruleZ2(c *Ctx, id string) {
	V, P, R := c.V, c.P, c.R
	R.Rule(id, "every pointer drop is a free: stores to Inode.blks slots have fixed writers; a slot is cleared only together with FreeBlock of its previous value; BnumPut(off,0) is paired with FreeBlock of the pointer read from the same offset", 5)
	freeIndex := P.Func("inode.(*Inode).freeIndex") // (FreeBlock(blks[i]); blks[i] = 0 - may be written out)
	indshrink := c.fn(id, "inode.(*Inode).indshrink")
	mkroot := P.Func("inode.MkRootInode")
	allowed := map[*ssa.Function]string{V.bmap: "allocation", freeIndex: "free", V.Decode: "decode", mkroot: "mkfs"}
	for _, fn := range P.RepoFuncs("inode", "nfs", "dir", "fstxn", "shrinker", "alloctxn") {
		for _, w := range FieldWrites(fn) {
			if w.Type != V.Inode || w.Field != "blks" {
				continue
			}
			role, ok := allowed[fn]
			if !ok {
				// a block of statements extracted from an allowed writer keeps its role
				if o := ownerOf(fn); o != fn && actsFor(P, fn, func(f *ssa.Function) bool { return f == o }, 0) {
					role, ok = allowed[o]
				}
			}
			if !ok && relPkg(fn) == "inode" && w.Element && w.Val != nil {
				if k, isk := constInt(w.Val); isk && k == 0 {
					role, ok = "free (judged by the pairing with FreeBlock below)", true
				}
			}
			R.Check(ok, id, FuncName(fn)+"|writes blks", P.Pos(w.Instr.Pos()), "Inode.blks is written only by bmap (allocate), freeIndex (free: a slot cleared together with FreeBlock), Decode and MkRootInode", "writer role: "+role, "a new writer of block pointers can drop a block without freeing it or alias one")
			if !w.Element || w.Val == nil {
				continue
			}
			if k, isk := constInt(w.Val); isk && k == 0 {
				// cleared slot: FreeBlock(load of same slot) must precede
				ia, _ := w.Instr.(*ssa.Store).Addr.(*ssa.IndexAddr)
				paired := func(in ssa.Instruction) bool {
					if !callTo(V.FreeBlock)(in) {
						return false
					}
					a := stripConv(argN(in, 0))
					u, ok := a.(*ssa.UnOp)
					if !ok || u.Op != token.MUL {
						return false
					}
					ia2, ok := u.X.(*ssa.IndexAddr)
					if !ok || ia == nil || !sameIndexExpr(fn, ia2.Index, ia.Index) {
						return false
					}
					n, fl, base := fieldLoad(ia2.X)
					return n == V.Inode && fl == "blks" && base == stripConv(w.Base)
				}
				R.Check(MustBefore(fn, paired)(w.Instr), id, FuncName(fn)+"|clear paired with FreeBlock", P.Pos(w.Instr.Pos()), "blks[i] = 0 is preceded on every path by FreeBlock(blks[i])", "same slot freed first", "a pointer is cleared without freeing (and zeroing) the block: the block is leaked with its contents")
			} else if fn == V.bmap {
				// stored value must come from the allocator (AllocBlock or indbmap result)
				src := stripConv(w.Val)
				ok := false
				if u, isU := src.(*ssa.UnOp); isU && u.Op == token.MUL {
					// local var load (root)
					_ = u
				}
				cl := bwdSources(src)
				for v := range cl {
					if call, isC := v.(*ssa.Call); isC {
						cal := staticCallee(call)
						if cal == V.AllocBlock || cal == V.indbmap {
							ok = true
						}
					}
				}
				R.Check(ok, id, FuncName(fn)+"|stores allocator results", P.Pos(w.Instr.Pos()), "the pointer stored by bmap comes from AllocBlock/indbmap", "value flow from the allocator", "bmap stores a pointer that does not come from the allocator")
			}
		}
	}
	// BnumPut sites
	for _, fn := range P.RepoFuncs("inode", "nfs", "dir", "fstxn", "shrinker", "alloctxn") {
		for _, call := range P.CallsIn(fn, funcIs(V.BnumPut)) {
			v := argN(call, 1)
			buf := recvOf(call)
			off := argN(call, 0)
			if k, isk := constInt(v); isk && k == 0 {
				// FreeBlock(x) after, where x derives from BnumGet(buf, off)
				getSame := func(g ssa.Value) bool {
					gc, ok := g.(*ssa.Call)
					return ok && staticCallee(gc) == V.BnumGet && recvOf(gc) == buf && argN(gc, 0) == off
				}
				isFree := func(in ssa.Instruction) bool {
					if !callTo(V.FreeBlock)(in) {
						return false
					}
					a := stripConv(argN(in, 0))
					if getSame(a) {
						return true
					}
					// result of the recursive shrink on the pointer read from the same slot
					if ex, isE := a.(*ssa.Extract); isE {
						// the block is one of several results of the recursive shrink
						a = ex.Tuple
					}
					if rc, ok := a.(*ssa.Call); ok && staticCallee(rc) == indshrink {
						return getSame(stripConv(argN(rc, 1)))
					}
					return false
				}
				R.Check(fn == indshrink && MustAfter(fn, isFree, nil)(call), id, FuncName(fn)+"|BnumPut(off,0) paired with FreeBlock", P.Pos(call.Pos()), "clearing an indirect slot is followed on every path by FreeBlock of the pointer read from that slot", "same buffer, same offset", "an indirect pointer is cleared without freeing the block it named")
			} else {
				// non-zero put: only indbmap, value from the allocation recursion
				R.Check(fn == V.indbmap, id, FuncName(fn)+"|BnumPut(off,x)", P.Pos(call.Pos()), "indirect pointers are installed only by indbmap", "indbmap", "a new writer of indirect pointers")
			}
		}
	}
	// converse: every FreeBlock of a pointer taken from a slot clears that slot
	for _, fn := range P.RepoFuncs("inode") {
		for i, call := range P.CallsIn(fn, funcIs(V.FreeBlock)) {
			a := stripConv(argN(call, 0))
			key := fmt.Sprintf("%s|FreeBlock#%d clears the slot it took the pointer from", FuncName(fn), i+1)
			// (a) blks[i]
			if u, ok := a.(*ssa.UnOp); ok && u.Op == token.MUL {
				if ia, ok := u.X.(*ssa.IndexAddr); ok {
					if n, fl, base := fieldLoad(ia.X); n == V.Inode && fl == "blks" {
						cleared := func(in ssa.Instruction) bool {
							st, ok := in.(*ssa.Store)
							if !ok {
								return false
							}
							ia2, ok := st.Addr.(*ssa.IndexAddr)
							if !ok || !sameIndexExpr(fn, ia2.Index, ia.Index) {
								return false
							}
							n2, f2, b2 := fieldLoad(ia2.X)
							k, isk := constInt(st.Val)
							return n2 == V.Inode && f2 == "blks" && stripConv(b2) == stripConv(base) && isk && k == 0
						}
						R.Check(MustAfter(fn, cleared, nil)(call), id, key, P.Pos(call.Pos()), "after FreeBlock(blks[i]) every path stores 0 into blks[i]", "must-follow", "a freed block stays referenced by the inode: once the allocator reuses it two files share the block")
						continue
					}
				}
			}
			// (b) pointer read from an indirect block (directly or through the recursive shrink)
			var get *ssa.Call
			if gc, ok := a.(*ssa.Call); ok && staticCallee(gc) == V.BnumGet {
				get = gc
			}
			if rc, ok := a.(*ssa.Call); ok && staticCallee(rc) == indshrink {
				if gc, ok := stripConv(argN(rc, 1)).(*ssa.Call); ok && staticCallee(gc) == V.BnumGet {
					get = gc
				}
			}
			if get == nil {
				continue
			}
			buf, off := recvOf(get), argN(get, 0)
			cleared := func(in ssa.Instruction) bool {
				if !callTo(V.BnumPut)(in) || recvOf(in) != buf || argN(in, 0) != off {
					return false
				}
				k, isk := constInt(argN(in, 1))
				return isk && k == 0
			}
			R.Check(MustBefore(fn, cleared)(call) || MustAfter(fn, cleared, nil)(call), id, key, P.Pos(call.Pos()), "the indirect slot the pointer was read from is cleared (BnumPut(off, 0)) on every path on which the block is freed", "paired on every path", "a freed block stays referenced from the indirect block: growing the file again maps the freed block back instead of a hole, and after reuse two files share it")
		}
	}
	// indshrink returns the root for freeing only when it is completely empty
	// (off==0 && ind==0) - structural presence of the guard
	if indshrink != nil {
		okg := false
		for _, r := range nonConstReturns(indshrink, 0) {
			if rp := paramM(indshrink, 2); rp != nil && r.Results[0] == rp && len(r.Block().Preds) > 0 {
				okg = true
			}
		}
		R.Check(okg, id, "inode.indshrink|returns its root", P.Pos(indshrink.Pos()), "indshrink hands back its own root (never another block) for freeing", "returns the parameter", "indshrink returns a block that is not the root it was given")
	}
}

// bwdSources: backward closure through phis, conversions and loads of local
// allocs (stores to them).
func bwdSources(v ssa.Value) map[ssa.Value]bool {
	seen := map[ssa.Value]bool{}
	var walk func(v ssa.Value)
	walk = func(v ssa.Value) {
		if v == nil || seen[v] {
			return
		}
		seen[v] = true
		switch x := v.(type) {
		case *ssa.Phi:
			for _, e := range x.Edges {
				walk(e)
			}
		case *ssa.Convert:
			walk(x.X)
		case *ssa.ChangeType:
			walk(x.X)
		case *ssa.Extract:
			walk(x.Tuple)
		case *ssa.Slice:
			walk(x.X)
		case *ssa.UnOp:
			if x.Op == token.MUL {
				switch x.X.(type) {
				case *ssa.Alloc, *ssa.FreeVar:
					for _, st := range cellStores(x.X) {
						walk(st.Val)
					}
				}
			}
		}
	}
	walk(v)
	return seen
}

// cellStores: every store into a local variable cell, whether made by the
// function that declares it or by a function literal that captured it.  addr
// is the cell's Alloc or a FreeVar bound to it.
func cellStores(addr ssa.Value) []*ssa.Store {
	// up to the declaring Alloc
	for i := 0; i < 4; i++ {
		fv, ok := addr.(*ssa.FreeVar)
		if !ok {
			break
		}
		cf := fv.Parent()
		idx := -1
		for j, q := range cf.FreeVars {
			if q == fv {
				idx = j
			}
		}
		par := cf.Parent()
		if par == nil || idx < 0 {
			return nil
		}
		var up ssa.Value
		for _, b := range par.Blocks {
			for _, in := range b.Instrs {
				if mc, ok := in.(*ssa.MakeClosure); ok && mc.Fn == ssa.Value(cf) && idx < len(mc.Bindings) {
					up = mc.Bindings[idx]
				}
			}
		}
		if up == nil {
			return nil
		}
		addr = up
	}
	var out []*ssa.Store
	var down func(cell ssa.Value, depth int)
	down = func(cell ssa.Value, depth int) {
		rs := cell.Referrers()
		if rs == nil || depth > 3 {
			return
		}
		for _, in := range *rs {
			switch x := in.(type) {
			case *ssa.Store:
				if x.Addr == cell {
					out = append(out, x)
				}
			case *ssa.MakeClosure:
				cf, ok := x.Fn.(*ssa.Function)
				if !ok {
					continue
				}
				for j, bnd := range x.Bindings {
					if bnd == cell && j < len(cf.FreeVars) {
						down(cf.FreeVars[j], depth+1)
					}
				}
			}
		}
	}
	down(addr, 0)
	return out
}

func ruleZ3(c *Ctx, id string) {
	V, P, R := c.V, c.P, c.R
	R.Rule(id, "a file that shrinks to an unaligned size has the rest of its last kept block cleared, at shrink time or before the bytes are re-exposed by growth: the clearing exists and runs on every unaligned shrink", 2)
	if V.Resize == nil {
		return
	}
	// A partial-block clearing = a function that stores constant 0 into
	// elements of a journal buffer's Data and is not ZeroBlock (whole-block
	// clearing of freed blocks), reachable from Resize not through FreeBlock,
	// or from Inode.Write.
	stop := func(f *ssa.Function) bool { return f == V.FreeBlock || !IsRepoFunc(f) }
	reach := P.Reach([]*ssa.Function{V.Resize}, stop)
	found := ""
	for fn := range reach {
		if fn == V.ZeroBlock || fn == V.FreeBlock || !IsRepoFunc(fn) {
			continue
		}
		for _, b := range fn.Blocks {
			for _, in := range b.Instrs {
				if st, ok := in.(*ssa.Store); ok {
					if k, isk := constInt(st.Val); isk && k == 0 {
						if ia, ok := st.Addr.(*ssa.IndexAddr); ok {
							n, fl, _, _ := loadedField(ia.X)
							if n != nil && n.Obj().Name() == "Buf" && fl == "Data" {
								found = FuncName(fn)
							}
							// or a local slice derived from buf.Data
							if sl, ok := ia.X.(*ssa.Slice); ok {
								n, fl, _, _ := loadedField(sl.X)
								if n != nil && n.Obj().Name() == "Buf" && fl == "Data" {
									found = FuncName(fn)
								}
							}
						}
					}
				}
			}
		}
	}
	// the same clearing as one statement: clear(buf.Data[size%BlockSize:]) / clear(buf.Data[size%BlockSize:BlockSize])
	if found == "" {
		bsz := constOfPkg(P, "github.com/goose-lang/primitive/disk", "BlockSize")
		for fn := range reach {
			if fn == V.ZeroBlock || fn == V.FreeBlock || !IsRepoFunc(fn) {
				continue
			}
			for _, b := range fn.Blocks {
				for _, in := range b.Instrs {
					cl, ok := in.(*ssa.Call)
					if !ok {
						continue
					}
					bi, isB := cl.Call.Value.(*ssa.Builtin)
					if !isB || bi.Name() != "clear" || len(cl.Call.Args) != 1 {
						continue
					}
					sl, isS := cl.Call.Args[0].(*ssa.Slice)
					if !isS {
						continue
					}
					n, fl, base, _ := loadedField(sl.X)
					if n == nil || n.Obj().Name() != "Buf" || fl != "Data" {
						continue
					}
					found = FuncName(fn)
					var szv ssa.Value
					startOK := false
					if sl.Low != nil {
						if rem, isR := stripConv(sl.Low).(*ssa.BinOp); isR && rem.Op == token.REM {
							if d, isd := constInt(stripConv(rem.Y)); isd && d == bsz {
								startOK, szv = true, stripConv(rem.X)
							}
						}
					}
					R.Check(startOK, id, "inode.Resize|clearing starts at the new end of file", P.Pos(cl.Pos()), "the cleared range starts at <new size> % BlockSize", "clear(buf.Data[size % BlockSize:...])", "the clearing does not start at the new size's offset in its block: bytes in front of the new end are wiped, or bytes behind it are kept and reappear when the file grows")
					endOK := sl.High == nil
					if k, isk := constInt(stripConv(sl.High)); sl.High != nil && isk && k == bsz {
						endOK = true
					}
					R.Check(endOK, id, "inode.Resize|tail cleared to the end of the block", P.Pos(cl.Pos()), "the cleared range ends at the end of the block buffer", "to BlockSize", "the range cleared ends before the end of the block: bytes of the cut-off tail stay and reappear when the file grows")
					blkOK := false
					if rb, isC := stripConv(base).(*ssa.Call); isC && staticCallee(rb) == V.ReadBlock && szv != nil {
						as := fullArgs(rb)
						for v := range bwdAll(as[len(as)-1]) {
							if bc, isBC := v.(*ssa.Call); isBC && staticCallee(bc) == V.bmap {
								bas := fullArgs(bc)
								if q, isQ := stripConv(bas[len(bas)-1]).(*ssa.BinOp); isQ && q.Op == token.QUO && stripConv(q.X) == szv {
									if d, isd := constInt(stripConv(q.Y)); isd && d == bsz {
										blkOK = true
									}
								}
							}
						}
					}
					R.Check(blkOK, id, "inode.Resize|clearing in the block of the new end of file", P.Pos(cl.Pos()), "the block mapped is <new size> / BlockSize", "bmap(size / BlockSize)", "the tail is cleared in another block than the one that holds the new end of file")
					isDirty := func(x ssa.Instruction) bool {
						g := staticCallee(x)
						return g != nil && (g == V.SetDirty || g == V.OverWrite)
					}
					R.Check(MustAfter(fn, isDirty, nil)(cl), id, "inode.Resize|cleared bytes reach the journal", P.Pos(cl.Pos()), "every path from the clearing passes SetDirty (or an OverWrite) of the buffer", "must-follow", "the cleared bytes are never logged: after a restart (or eviction of the buffer) the old bytes are back")
				}
			}
		}
	}
	// ... and it clears up to the end of the block: the loop's bound must not be computed from the file's size (a
	// bound taken from the old end of file is right only when old and new end lie in the same block)
	for fn := range reach {
		if FuncName(fn) != found || found == "" {
			continue
		}
		for _, b := range fn.Blocks {
			for _, in := range b.Instrs {
				st, ok := in.(*ssa.Store)
				if !ok {
					continue
				}
				if k, isk := constInt(st.Val); !isk || k != 0 {
					continue
				}
				ia, ok := st.Addr.(*ssa.IndexAddr)
				if !ok {
					continue
				}
				// the tests that keep the loop going: branches in the store's cycle that compare the index
				idxCone := bwdArith(ia.Index)
				dep := ""
				nb := 0
				for _, br := range branches(fn) {
					if br.Cond.X == nil || br.Cond.Y == nil || !reachableFrom(st, br.Block.Instrs[len(br.Block.Instrs)-1]) || !reachableFrom(br.Block.Instrs[0], st) {
						continue
					}
					var bound ssa.Value
					if idxCone[stripConv(br.Cond.X)] {
						bound = br.Cond.Y
					} else if idxCone[stripConv(br.Cond.Y)] {
						bound = br.Cond.X
					} else {
						continue
					}
					nb++
					for v := range bwdArith(bound) {
						if n, fl, _, _ := loadedField(v); n == V.Inode && (fl == "Size" || fl == "ShrinkSize") {
							dep = P.Pos(br.Block.Instrs[len(br.Block.Instrs)-1].Pos())
						}
					}
					// the loop goes on while the index is below the bound: the store lies on that side of the test
					op := br.Cond.Op
					if idxCone[stripConv(br.Cond.Y)] && !idxCone[stripConv(br.Cond.X)] {
						op = flipOp(op)
					}
					side := br.True
					if op == token.GEQ || op == token.GTR {
						side = br.False
					}
					polOK := (op == token.LSS || op == token.LEQ || op == token.GEQ || op == token.GTR) && (side == st.Block() || side.Dominates(st.Block()))
					// a bound that is the size of the block is exclusive: index 4096 is outside the buffer
					if kb, isk := constIntDeep(bound); isk && kb == constOfPkg(P, "github.com/goose-lang/primitive/disk", "BlockSize") && (op == token.LEQ || op == token.GTR) {
						R.Fail(id, "inode.Resize|clearing loop stops before the end of the buffer", P.Pos(br.Block.Instrs[len(br.Block.Instrs)-1].Pos()), "index < BlockSize", "the loop admits index == BlockSize: a store behind the end of the 4096-byte buffer - the server panics on every unaligned truncation, with the inode locked")
					}
					R.Check(polOK, id, "inode.Resize|clearing loop runs while index < bound", P.Pos(br.Block.Instrs[len(br.Block.Instrs)-1].Pos()), "the zero store lies on the side of the loop test where the index is below the bound", "index "+op.String()+" bound", "the loop test is the wrong way round: the body never runs (or runs past the block), the bytes behind the new end of file stay and reappear when the file grows")
				}
				if nb > 0 {
					// the index advances: it is a loop variable incremented by a positive constant
					adv := false
					// "for i := range s": the index of the round is phi + 1, and that sum is what the phi takes next
					if bo, isB := stripConv(ia.Index).(*ssa.BinOp); isB && bo.Op == token.ADD {
						if ph, isP := stripConv(bo.X).(*ssa.Phi); isP {
							if k, isk := constInt(bo.Y); isk && k > 0 {
								for _, e := range ph.Edges {
									if stripConv(e) == ssa.Value(bo) {
										adv = true
									}
								}
							}
						}
					}
					if ph, isP := stripConv(ia.Index).(*ssa.Phi); isP {
						for _, e := range ph.Edges {
							if bo, isB := stripConv(e).(*ssa.BinOp); isB && bo.Op == token.ADD {
								if k, isk := constInt(bo.Y); isk && k > 0 && stripConv(bo.X) == ssa.Value(ph) {
									adv = true
								}
								if k, isk := constInt(bo.X); isk && k > 0 && stripConv(bo.Y) == ssa.Value(ph) {
									adv = true
								}
							}
						}
					}
					// where the clearing starts: at the new size's offset in its block, in the block that holds it - the
					// index starts at sz % BlockSize and the buffer is that of block sz / BlockSize
					if ph, isP := stripConv(ia.Index).(*ssa.Phi); isP {
						bsz := constOfPkg(P, "github.com/goose-lang/primitive/disk", "BlockSize")
						var base ssa.Value
						startOK := false
						// a value of the clearing function, or - when it is one of its parameters - what its callers pass
						viaCallers := func(v ssa.Value) []ssa.Value {
							v = stripConv(v)
							pm, isPm := v.(*ssa.Parameter)
							if !isPm || pm.Parent() != fn {
								return []ssa.Value{v}
							}
							idx := -1
							for i, q := range fn.Params {
								if q == pm {
									idx = i
								}
							}
							var out []ssa.Value
							for _, cs := range P.CallersOf(fn) {
								fa := fullArgs(cs.Instr)
								if idx >= 0 && idx < len(fa) {
									out = append(out, stripConv(fa[idx]))
								}
							}
							return out
						}
						for i, e := range ph.Edges {
							if ph.Block().Dominates(ph.Block().Preds[i]) {
								continue // the back edge
							}
							vals := viaCallers(e)
							all := len(vals) > 0
							for _, v := range vals {
								bo, isB := v.(*ssa.BinOp)
								if !isB || bo.Op != token.REM {
									all = false
									continue
								}
								if k, isk := constIntDeep(bo.Y); !isk || k != bsz {
									all = false
									continue
								}
								base = stripConv(bo.X)
							}
							if all {
								startOK = true
							}
						}
						R.Check(startOK, id, "inode.Resize|clearing starts at the new end of file", P.Pos(st.Pos()), "the index starts at <new size> % BlockSize", "phi initialised with size % BlockSize", "the clearing does not start at the new size's offset in its block: bytes in front of the new end are wiped, or bytes behind it are kept and reappear when the file grows")
						if startOK {
							blkOK, nb2 := true, 0
							for _, bc := range P.CallsIn(fn, funcIs(V.bmap)) {
								nb2++
								for _, a := range viaCallers(argN(bc, 1)) {
									bo, isB := a.(*ssa.BinOp)
									if !isB || bo.Op != token.QUO || stripConv(bo.X) != base {
										blkOK = false
									} else if k, isk := constIntDeep(bo.Y); !isk || k != bsz {
										blkOK = false
									}
								}
							}
							if nb2 > 0 {
								R.Check(blkOK, id, "inode.Resize|clearing in the block of the new end of file", P.Pos(st.Pos()), "the block mapped is <new size> / BlockSize", "bmap(size / BlockSize)", "the tail is cleared in another block than the one that holds the new end of file")
							}
						}
					}
					R.Check(adv, id, "inode.Resize|clearing loop advances", P.Pos(st.Pos()), "the index of the zero store is a loop variable that grows by a positive constant per round", "phi + constant", "the index never changes: the loop clears one byte for ever (the request never ends, holding the inode lock)")
					// and the cleared bytes are marked dirty (or written) on every path that follows
					isDirty := func(x ssa.Instruction) bool {
						g := staticCallee(x)
						return g != nil && (g.Name() == "SetDirty" || g == V.OverWrite)
					}
					R.Check(MustAfter(fn, isDirty, nil)(st), id, "inode.Resize|cleared bytes reach the journal", P.Pos(st.Pos()), "every path from the zero store passes SetDirty (or an OverWrite) of the buffer", "must-follow", "the tail is cleared in a buffer that is never marked dirty: the transaction does not log it, the old bytes stay on disk and reappear when the file grows")
				}
				if nb > 0 {
					R.Check(dep == "", id, "inode.Resize|tail cleared to the end of the block", P.Pos(st.Pos()), "the clearing loop's bound is the block size (not a value computed from the file's size)", "bound independent of Inode.Size", "the clearing stops at a position computed from the old file size: after a shrink across a block boundary the kept block still holds old bytes behind the new end, and growing the file shows them")
				}
			}
		}
	}
	// ... and it runs whenever the size shrinks to an unaligned value: a path through Resize that skips the
	// clearing takes the 'not smaller than the current size' edge or the 'aligned' edge
	if found != "" {
		f := V.Resize
		clearing := map[*ssa.Function]bool{}
		for fn := range reach {
			if FuncName(fn) == found {
				clearing[fn] = true
			}
		}
		clr := P.NewAlways(func(in ssa.Instruction) bool {
			cal := staticCallee(in)
			return cal != nil && clearing[cal]
		})
		sz := ssa.Value(f.Params[2])
		var sizeStores []ssa.Instruction
		for _, w := range FieldWrites(f) {
			if w.Type == V.Inode && w.Field == "Size" {
				sizeStores = append(sizeStores, w.Instr)
			}
		}
		isOldSize := func(v ssa.Value) bool {
			n, fl, base, _ := loadedField(v)
			if n != V.Inode || fl != "Size" || base != ssa.Value(f.Params[0]) {
				return false
			}
			ld, ok := stripConv(v).(ssa.Instruction)
			if !ok {
				return false
			}
			for _, st := range sizeStores {
				if reachableFrom(st, ld) {
					return false // the size was already overwritten
				}
			}
			return true
		}
		notSmaller := condEdge(f, func(cd Cond) (bool, bool) {
			op, a, b := cd.Op, cd.X, cd.Y
			if a == nil || b == nil {
				return false, false
			}
			if stripConv(b) == sz && isOldSize(a) {
				op, a, b = flipOp(op), b, a
			}
			if stripConv(a) != sz || !isOldSize(b) {
				return false, false
			}
			switch op {
			case token.LSS:
				return true, false
			case token.GEQ:
				return true, true
			}
			return false, false
		})
		bs := constOfPkg(P, "github.com/goose-lang/primitive/disk", "BlockSize")
		aligned := condEdge(f, func(cd Cond) (bool, bool) {
			rem, ok := stripConv(cd.X).(*ssa.BinOp)
			k, isk := constInt(cd.Y)
			if !ok || rem.Op != token.REM || stripConv(rem.X) != sz || !isk || k != 0 {
				return false, false
			}
			if d, isd := constInt(stripConv(rem.Y)); !isd || d != bs {
				return false, false
			}
			switch cd.Op {
			case token.NEQ:
				return true, false
			case token.EQL:
				return true, true
			}
			return false, false
		})
		// the clearing written out in Resize itself: it starts where the block to clear is looked up (a hole there
		// means there is nothing to clear, as in the helper)
		var inlineStart ssa.Instruction
		if clearing[f] {
			for _, b := range f.Blocks {
				for _, in := range b.Instrs {
					st, ok := in.(*ssa.Store)
					if !ok {
						continue
					}
					if k, isk := constInt(st.Val); !isk || k != 0 {
						continue
					}
					ia, ok := st.Addr.(*ssa.IndexAddr)
					if !ok {
						continue
					}
					n, fl, base, _ := loadedField(ia.X)
					if n == nil || n.Obj().Name() != "Buf" || fl != "Data" {
						continue
					}
					for v := range bwdAll(base) {
						if cl, ok := v.(*ssa.Call); ok && staticCallee(cl) == V.bmap && cl.Parent() == f {
							inlineStart = cl
						}
					}
				}
			}
		}
		okAll := true
		for _, b := range f.Blocks {
			if _, isRet := b.Instrs[len(b.Instrs)-1].(*ssa.Return); !isRet {
				continue
			}
			clrBlocks := func(from, to *ssa.BasicBlock) bool {
				for _, in := range to.Instrs {
					if clr.Instr(in) || (inlineStart != nil && in == inlineStart) {
						return true
					}
				}
				return false
			}
			if !everyPathTakes(f, b, clrBlocks, notSmaller, aligned) {
				okAll = false
			}
		}
		R.Check(okAll, id, "inode.Resize|clearing on every unaligned shrink", P.Pos(f.Pos()), "every path through Resize clears the tail, or finds the new size not smaller than the current one (compared before Size is overwritten), or finds it block-aligned", "no path avoids all three", "a shrink inside the last block (no block freed) keeps the cut-off bytes; growing the file again shows them")
	}
	R.Check(found != "", id, "inode.Resize|tail of the last kept block is cleared", P.Pos(V.Resize.Pos()), "from Resize (not through FreeBlock) a partial clearing of a data block's buffer is reachable", "clearing in "+found, "no mechanism clears bytes beyond the new size in the last kept block: shrinking to an unaligned size and growing again re-exposes the old bytes")
}

func ruleZ4(c *Ctx, id string) {
	V, P, R := c.V, c.P, c.R
	R.Rule(id, "client buffers are not retained: every data argument of jrnl.OverWrite in the server packages is a fresh slice (encoder output, make, composite literal, clone), never a window of a caller-supplied buffer", 3)
	for _, fn := range P.RepoFuncs("inode", "nfs", "dir", "fstxn", "shrinker", "alloctxn") {
		for _, call := range P.CallsIn(fn, funcIs(V.OverWrite)) {
			data := argN(call, 2)
			fresh, why := freshSlice(c, data, 0)
			key := FuncName(fn) + "|OverWrite data"
			R.Analysed[FuncName(fn)] = true
			R.Check(fresh, id, key, P.Pos(call.Pos()), "the slice handed to the journal is not aliased by the caller", why, "the journal keeps a reference to "+why+": the RPC layer recycles request buffers, so later requests overwrite logged (and installed) data")
		}
	}
}

// freshSlice: does v denote memory no caller can alias?
func freshSlice(c *Ctx, v ssa.Value, d int) (bool, string) {
	if d > 6 {
		return false, "unknown origin"
	}
	switch x := v.(type) {
	case *ssa.Slice:
		return freshSlice(c, x.X, d+1)
	case *ssa.Convert:
		// string -> []byte conversion allocates
		if b, ok := x.X.Type().Underlying().(*types.Basic); ok && b.Info()&types.IsString != 0 {
			return true, "string conversion"
		}
		return freshSlice(c, x.X, d+1)
	case *ssa.ChangeType:
		return freshSlice(c, x.X, d+1)
	case *ssa.MakeSlice:
		return true, "make"
	case *ssa.Alloc:
		return true, "composite literal"
	case *ssa.Phi:
		for _, e := range x.Edges {
			if e == v {
				continue
			}
			if ok, why := freshSliceNoPhi(c, e, x, d+1); !ok {
				return false, why
			}
		}
		return true, "all phi inputs fresh"
	case *ssa.Extract:
		if cl, ok := x.Tuple.(*ssa.Call); ok {
			if cal := staticCallee(cl); cal != nil && IsRepoFunc(cal) && cal.Blocks != nil {
				for _, b := range cal.Blocks {
					if r, ok := b.Instrs[len(b.Instrs)-1].(*ssa.Return); ok && len(r.Results) > x.Index {
						if ok, why := freshSlice(c, r.Results[x.Index], d+1); !ok {
							return false, why
						}
					}
				}
				return true, "result of " + FuncName(cal)
			}
		}
		return false, "result of a call"
	case *ssa.Parameter:
		return false, fmt.Sprintf("parameter %s of %s", x.Name(), FuncName(x.Parent()))
	case *ssa.Call:
		if bi, ok := x.Call.Value.(*ssa.Builtin); ok && bi.Name() == "append" {
			return freshSlice(c, x.Call.Args[0], d+1)
		}
		cal := staticCallee(x)
		if cal == nil {
			return false, "dynamic call result"
		}
		n := cal.Name()
		if n == "CloneByteSlice" || (n == "Finish" && strings.HasSuffix(funcPkg(cal).Path(), "marshal")) {
			return true, n
		}
		// a go-nfsd function all of whose returns are fresh
		if IsRepoFunc(cal) && cal.Blocks != nil {
			for _, b := range cal.Blocks {
				if r, ok := b.Instrs[len(b.Instrs)-1].(*ssa.Return); ok && len(r.Results) > 0 {
					if ok, why := freshSlice(c, r.Results[0], d+1); !ok {
						return false, why
					}
				}
			}
			return true, "result of " + FuncName(cal)
		}
		return false, "result of " + FuncName(cal)
	case *ssa.UnOp:
		if x.Op == token.MUL {
			if n, fl, _, _ := loadedField(x); n != nil {
				return false, "field " + n.Obj().Name() + "." + fl
			}
			// a local variable kept in a cell (a named result): everything stored into it is fresh, or is the
			// variable itself grown by append
			if al, ok := x.X.(*ssa.Alloc); ok {
				n := 0
				for _, r := range refs(al) {
					st, isS := r.(*ssa.Store)
					if !isS || st.Addr != ssa.Value(al) {
						continue
					}
					n++
					val := st.Val
					if cl, isC := val.(*ssa.Call); isC {
						if bi, isB := cl.Call.Value.(*ssa.Builtin); isB && bi.Name() == "append" {
							if ld, isL := cl.Call.Args[0].(*ssa.UnOp); isL && ld.Op == token.MUL && ld.X == ssa.Value(al) {
								continue
							}
						}
					}
					if ok, why := freshSlice(c, val, d+1); !ok {
						return false, why
					}
				}
				if n > 0 {
					return true, "local variable, fresh on every assignment"
				}
			}
		}
	}
	return false, fmt.Sprintf("%T", v)
}

func freshSliceNoPhi(c *Ctx, v ssa.Value, phi *ssa.Phi, d int) (bool, string) {
	// a slice of the phi itself (data = data[n:]) is as fresh as the phi
	if sl, ok := v.(*ssa.Slice); ok && sl.X == ssa.Value(phi) {
		return true, "self"
	}
	// the phi itself grown by append (a loop that collects into it)
	if cl, ok := v.(*ssa.Call); ok {
		if bi, isB := cl.Call.Value.(*ssa.Builtin); isB && bi.Name() == "append" && len(cl.Call.Args) > 0 && cl.Call.Args[0] == ssa.Value(phi) {
			return true, "self"
		}
	}
	return freshSlice(c, v, d)
}

// ruleZ10: ShrinkSize is the number of blocks the shrinker still has to look
// at; Resize derives it from byte sizes.  A size that is not a multiple of the
// block size occupies one more block than size/BlockSize: every block count
// that Resize stores into ShrinkSize must be rounded up, or the last, partly
// filled block is neither zeroed nor freed and stays linked beyond the new end
// of the file (its bytes reappear when the file, or the next owner of the
// inode, grows).
func ruleZ10(c *Ctx, id string) {
	V, P, R := c.V, c.P, c.R
	R.Rule(id, "block counts in Resize are rounded up: every value Resize stores into Inode.ShrinkSize is util.RoundUp(<bytes>, BlockSize) (or (bytes+BlockSize-1)/BlockSize), never a truncating division", 1)
	if V.Resize == nil {
		return
	}
	n := 0
	for _, sc := range scopesOf(V.Resize) {
		for _, w := range FieldWrites(sc.Fn) {
			if w.Type != V.Inode || w.Field != "ShrinkSize" {
				continue
			}
			var leaves []ssa.Value
			seen := map[ssa.Value]bool{}
			var walk func(v ssa.Value)
			walk = func(v ssa.Value) {
				v = sc.S.resolve(stripConv(v))
				if v == nil || seen[v] {
					return
				}
				seen[v] = true
				if ph, ok := v.(*ssa.Phi); ok {
					for _, e := range ph.Edges {
						walk(e)
					}
					return
				}
				// max(a, b, ...) chooses among its arguments like a phi; the pending ShrinkSize itself is a block count already
				if mc, ok := v.(*ssa.Call); ok {
					if bi, isB := mc.Call.Value.(*ssa.Builtin); isB && (bi.Name() == "max" || bi.Name() == "min") {
						for _, a := range mc.Call.Args {
							if nn, fl, _, _ := loadedField(stripConv(a)); nn == V.Inode && fl == "ShrinkSize" {
								continue
							}
							walk(a)
						}
						return
					}
				}
				leaves = append(leaves, v)
			}
			walk(w.Val)
			for _, lf := range leaves {
				n++
				ok := false
				form := symOf(sc.Fn, lf)
				if cl, isC := lf.(*ssa.Call); isC {
					if cal := staticCallee(cl); cal != nil && cal.Name() == "RoundUp" && len(cl.Call.Args) == 2 {
						if k, isk := constInt(cl.Call.Args[1]); isk && k == 4096 {
							ok = true
						}
					}
				}
				if strings.HasPrefix(form, "(/ (+ 4095 ") && strings.HasSuffix(form, " 4096)") {
					ok = true
				}
				R.Analysed[FuncName(sc.Fn)] = true
				R.Check(ok, id, "inode.Resize|ShrinkSize counts whole blocks rounded up ("+roundKey(form)+")", P.Pos(w.Instr.Pos()), "the block count is the byte size rounded up to whole blocks", form, "ShrinkSize is computed as "+form+": a truncating division drops the last, partly filled block - it is never zeroed or freed, stays linked past the end of the file and shows its old bytes when the file (or the next owner of the inode) grows")
			}
		}
	}
	if n == 0 {
		R.Fail(id, "inode.Resize|ShrinkSize", P.Pos(V.Resize.Pos()), "Resize maintains ShrinkSize", "no store to Inode.ShrinkSize found in Resize")
	}
}

// roundKey: a stable short name for the operand of a block-count expression.
func roundKey(form string) string {
	switch {
	case strings.Contains(form, "Size"):
		return "old size"
	case strings.Contains(form, "param:"):
		return "new size"
	}
	return "value"
}

// sameIndexExpr: two index expressions of fn denote the same slot: the same
// value, equal constants, or the same expression over fields of an object that
// nothing between the two evaluations can change (same block, no store to those
// fields and no call that is handed the object in between).
func sameIndexExpr(fn *ssa.Function, a, b ssa.Value) bool {
	a, b = stripConv(a), stripConv(b)
	if a == b {
		return true
	}
	if ka, ok := constInt(a); ok {
		kb, ok2 := constInt(b)
		return ok2 && ka == kb
	}
	sa, sb := symOf(fn, a), symOf(fn, b)
	if sa != sb || strings.Contains(sa, "?") {
		return false
	}
	ia, oka := a.(ssa.Instruction)
	ib, okb := b.(ssa.Instruction)
	if !oka || !okb || ia.Block() != ib.Block() {
		return false
	}
	// what the expressions read
	var bases []ssa.Value
	for v := range bwdArith(a) {
		if u, ok := v.(*ssa.UnOp); ok && u.Op == token.MUL {
			if fa, ok := u.X.(*ssa.FieldAddr); ok {
				bases = append(bases, stripConv(fa.X))
			}
		}
	}
	between := false
	for _, in := range ia.Block().Instrs {
		if in == ia || in == ib {
			if between {
				return true
			}
			between = true
			continue
		}
		if !between {
			continue
		}
		switch x := in.(type) {
		case *ssa.Store:
			if fa, ok := x.Addr.(*ssa.FieldAddr); ok {
				for _, bs := range bases {
					if stripConv(fa.X) == bs {
						return false
					}
				}
			}
		case *ssa.Call:
			for _, arg := range x.Call.Args {
				for _, bs := range bases {
					if stripConv(arg) == bs {
						return false
					}
				}
			}
		}
	}
	return true
}

// ruleZ11: a write that fills part of a block changes exactly the bytes it
// was asked to write.  The part of the last block behind the end of the file
// must stay zero (it becomes file content when the file grows): a bulk copy
// into a journal buffer is bounded by the per-block byte count - by slicing the
// source or the destination - and an element loop is bounded by it.
func ruleZ11(c *Ctx, id string) {
	V, P, R := c.V, c.P, c.R
	R.Rule(id, "partial-block writes are bounded: in Inode.Write every bulk copy into a buffer read through the journal has a source or destination slice with an explicit upper bound", 0)
	w := V.InodeWrite
	if w == nil {
		return
	}
	n := 0
	for _, sc := range scopesOf(w) {
		for _, b := range sc.Fn.Blocks {
			for _, in := range b.Instrs {
				call, ok := in.(*ssa.Call)
				if !ok {
					continue
				}
				bi, isB := call.Call.Value.(*ssa.Builtin)
				if !isB || bi.Name() != "copy" || len(call.Call.Args) != 2 {
					continue
				}
				// destination: (a slice of) the Data of a journal buffer
				dst := call.Call.Args[0]
				intoBuf := false
				for src := range bwdSources(dst) {
					if nm, fl, _, _ := loadedField(src); nm != nil && nm.Obj().Name() == "Buf" && fl == "Data" {
						intoBuf = true
					}
				}
				if !intoBuf {
					continue
				}
				n++
				bounded := false
				for _, a := range call.Call.Args {
					if sl, isS := stripConv(a).(*ssa.Slice); isS && sl.High != nil {
						bounded = true
					}
				}
				R.Check(bounded, id, fmt.Sprintf("%s|copy#%d into a block is bounded", FuncName(ownerOf(sc.Fn)), n), P.Pos(call.Pos()), "the copy into the block is limited to the bytes of this block (source or destination sliced with an upper bound)", "explicit bound", "the copy takes everything left in the caller's buffer: bytes beyond the count of the request are stored behind the end of the file and become file content when it grows")
			}
		}
	}
	if n == 0 {
		R.Pass(id, "inode.Write|no bulk copy into a block", P.Pos(w.Pos()), "partial blocks are written byte by byte under a loop bound (C11.V4 / C12.Z4)", "no copy() into a journal buffer")
	}
}

// ruleZ12: what Inode.Read returns is memory of that call.  The reply is
// encoded after the inode lock is released; a result buffer that lives in the
// inode (or anywhere two calls can reach) is overwritten by the next READ - a
// hole then reads as another READ's data.
func ruleZ12(c *Ctx, id string) {
	V, P, R := c.V, c.P, c.R
	R.Rule(id, "Inode.Read returns memory of its own call: the slice it returns is built from nil / make / append in the call, never from a field or a package-level variable", 1)
	f := V.InodeRead
	if f == nil {
		return
	}
	n := 0
	for _, b := range f.Blocks {
		r, ok := b.Instrs[len(b.Instrs)-1].(*ssa.Return)
		if !ok {
			continue
		}
		for _, res := range r.Results {
			if _, isS := res.Type().Underlying().(*types.Slice); !isS {
				continue
			}
			n++
			bad := ""
			for src := range bwdSources(res) {
				// follow append's first argument (the slice being extended)
				switch x := src.(type) {
				case *ssa.UnOp:
					if x.Op == token.MUL {
						if _, isF := x.X.(*ssa.FieldAddr); isF {
							bad = "a field (" + fieldPath(x.X) + ")"
						}
						if _, isG := x.X.(*ssa.Global); isG {
							bad = "a package-level variable"
						}
					}
				case *ssa.Parameter:
					bad = "a parameter"
				}
			}
			// bwdSources does not look through append: do it here
			var walk func(v ssa.Value, d int)
			seen := map[ssa.Value]bool{}
			walk = func(v ssa.Value, d int) {
				if d > 8 || seen[v] {
					return
				}
				seen[v] = true
				for src := range bwdSources(v) {
					if cl, isC := src.(*ssa.Call); isC {
						if bi, isB := cl.Call.Value.(*ssa.Builtin); isB && bi.Name() == "append" {
							walk(cl.Call.Args[0], d+1)
						}
					}
					if sl, isS := src.(*ssa.Slice); isS {
						walk(sl.X, d+1)
					}
					if u, isU := src.(*ssa.UnOp); isU && u.Op == token.MUL {
						if _, isF := u.X.(*ssa.FieldAddr); isF {
							bad = "a field (" + fieldPath(u.X) + ")"
						}
						if _, isG := u.X.(*ssa.Global); isG {
							bad = "a package-level variable"
						}
					}
				}
			}
			walk(res, 0)
			R.Check(bad == "", id, fmt.Sprintf("inode.Read|result#%d is the call's own memory", n), P.Pos(r.Pos()), "the returned slice grows from nil or make by append inside the call", "no field, global or parameter among its origins", "the returned slice comes from "+bad+": two READs of the file share the buffer, the second overwrites the reply of the first before it is encoded")
		}
	}
	if n == 0 {
		R.Fail(id, "inode.Read|result", P.Pos(f.Pos()), "Inode.Read returns a slice", "no slice result found")
	}
}

// ruleZ14: ShrinkSize is what tells Shrink which blocks the inode may still
// hold.  Nothing but Resize raises it (C05.F16: Size and ShrinkSize have fixed
// writers; Write grows Size only), so when Resize lowers the size, ShrinkSize
// must be raised to cover the size the file had: one of the values Resize
// stores into ShrinkSize derives from Inode.Size as it was before Resize
// stored the new size.  Otherwise the blocks between the new and the old size
// are never looked at: they stay linked, and when the file grows again their
// old bytes are read where nothing was ever written.
func ruleZ14(c *Ctx, id string) {
	V, P, R := c.V, c.P, c.R
	R.Rule(id, "a truncation gives up every block of the old size: a value Resize stores into Inode.ShrinkSize derives from Inode.Size read before Resize stores the new size", 1)
	if V.Resize == nil {
		return
	}
	scopes := scopesOf(V.Resize)
	// the stores of the new size
	type at struct {
		fn *ssa.Function
		in ssa.Instruction
	}
	var sizeStores []at
	for _, sc := range scopes {
		for _, w := range FieldWrites(sc.Fn) {
			if w.Type == V.Inode && w.Field == "Size" {
				sizeStores = append(sizeStores, at{sc.Fn, w.Instr})
			}
		}
	}
	n, covered := 0, false
	var pos ssa.Instruction
	for _, sc := range scopes {
		for _, w := range FieldWrites(sc.Fn) {
			if w.Type != V.Inode || w.Field != "ShrinkSize" {
				continue
			}
			n++
			pos = w.Instr
			seen := map[ssa.Value]bool{}
			var walk func(v ssa.Value, d int)
			walk = func(v ssa.Value, d int) {
				v = sc.S.resolve(stripConv(v))
				if v == nil || seen[v] || d > 12 {
					return
				}
				seen[v] = true
				switch x := v.(type) {
				case *ssa.Phi:
					for _, e := range x.Edges {
						walk(e, d+1)
					}
				case *ssa.BinOp:
					walk(x.X, d+1)
					walk(x.Y, d+1)
				case *ssa.Call:
					for _, a := range x.Call.Args {
						walk(a, d+1)
					}
				case *ssa.UnOp:
					if nm, fl, _, isElem := loadedField(x); !isElem && nm == V.Inode && fl == "Size" {
						// the old size: no store of the new size can come before this load
						old := true
						for _, st := range sizeStores {
							if st.fn == x.Parent() && reachableFrom(st.in, x) {
								old = false
							}
						}
						if old {
							covered = true
						}
					}
				}
			}
			walk(w.Val, 0)
		}
	}
	if n == 0 {
		R.Fail(id, "inode.Resize|ShrinkSize", P.Pos(V.Resize.Pos()), "Resize maintains ShrinkSize", "no store to Inode.ShrinkSize found in Resize")
		return
	}
	R.Analysed[FuncName(V.Resize)] = true
	R.Check(covered, id, "inode.Resize|ShrinkSize covers the old size", P.Pos(pos.Pos()), "a value stored into ShrinkSize derives from the size the file had when Resize was called", fmt.Sprintf("%d store(s) to ShrinkSize, %d store(s) to Size", n, len(sizeStores)), "Resize derives ShrinkSize from the new size only: after a truncation the blocks between the new and the old size are not freed (nothing else raises ShrinkSize reliably); they stay linked and show their old bytes when the file grows again")
}

// ruleReadClamp: Inode.Read maps (and, for a hole, allocates) every block it
// passes.  It must not pass the end of the file: the number of bytes its loop
// covers is clamped to Size - offset.  Without the clamp a READ over the end
// links blocks behind the file's size - ShrinkSize never covers them, no
// truncation or removal frees them - and returns bytes that are not part of
// the file.
func ruleReadClamp(c *Ctx, id string) {
	V, P, R := c.V, c.P, c.R
	R.Rule(id, "Inode.Read stops at the end of the file: the bound of its block loop can take the value Size - offset (a clamp of the requested count)", 1)
	rd := V.InodeRead
	if rd == nil || len(rd.Params) < 3 {
		return
	}
	isClamp := func(v ssa.Value) bool {
		bo, ok := stripConv(v).(*ssa.BinOp)
		if !ok || bo.Op != token.SUB {
			return false
		}
		nm, fl, _, isElem := loadedField(bo.X)
		return !isElem && nm == V.Inode && fl == "Size"
	}
	found, nLoops := false, 0
	for _, br := range branches(rd) {
		last := br.Block.Instrs[len(br.Block.Instrs)-1]
		if br.Cond.X == nil || br.Cond.Y == nil || !reachableFrom(last, last) {
			continue
		}
		switch br.Cond.Op {
		case token.LSS, token.LEQ, token.GTR, token.GEQ:
		default:
			continue
		}
		nLoops++
		for _, side := range []ssa.Value{br.Cond.X, br.Cond.Y} {
			seen := map[ssa.Value]bool{}
			var w func(v ssa.Value, d int)
			w = func(v ssa.Value, d int) {
				v = stripConv(v)
				if v == nil || seen[v] || d > 6 {
					return
				}
				seen[v] = true
				if isClamp(v) {
					found = true
				}
				if ph, ok := v.(*ssa.Phi); ok {
					for _, e := range ph.Edges {
						w(e, d+1)
					}
				}
				if cl, ok := v.(*ssa.Call); ok {
					if g := staticCallee(cl); g != nil && g.Name() == "Min" {
						for _, a := range cl.Call.Args {
							w(a, d+1)
						}
					}
				}
			}
			w(side, 0)
		}
	}
	R.Analysed[FuncName(rd)] = true
	if nLoops == 0 {
		R.Undecided(id, "inode.Read|count clamped to the file's size", P.Pos(rd.Pos()), "Inode.Read has a block loop bounded by a comparison", "no loop test found")
		return
	}
	// ... and it is taken when the request reaches the end of the file (not on the other side of the test): the
	// value is min(count, Size - offset), or the phi of "if offset+count >= Size { count = Size - offset }"
	{
		isSizeLoad := func(v ssa.Value) bool {
			nm, fl, _, isElem := loadedField(v)
			return !isElem && nm == V.Inode && fl == "Size"
		}
		nPol, okPol := 0, true
		for _, b := range rd.Blocks {
			for _, in := range b.Instrs {
				ph, isP := in.(*ssa.Phi)
				if !isP || len(ph.Edges) != 2 {
					continue
				}
				ci := -1
				for i, e := range ph.Edges {
					if isClamp(e) {
						ci = i
					}
				}
				if ci < 0 {
					continue
				}
				d := b.Idom()
				if d == nil {
					continue
				}
				for _, br := range branches(rd) {
					if br.Block != d || br.Cond.Y == nil {
						continue
					}
					x, y, op := stripConv(br.Cond.X), stripConv(br.Cond.Y), br.Cond.Op
					if isSizeLoad(x) {
						x, y, op = y, x, flipOp(op)
					}
					sum, isSum := x.(*ssa.BinOp)
					if !isSizeLoad(y) || !isSum || sum.Op != token.ADD {
						continue
					}
					nPol++
					// the side through which the clamp value arrives
					pred := b.Preds[ci]
					var side *ssa.BasicBlock
					if pred == d {
						side = b
					} else if len(pred.Preds) == 1 && pred.Preds[0] == d {
						side = pred
					}
					var reach *ssa.BasicBlock // the side on which offset+count reaches the size
					switch op {
					case token.GEQ, token.GTR:
						reach = br.True
					case token.LSS, token.LEQ:
						reach = br.False
					}
					if side == nil || reach == nil || side != reach {
						okPol = false
					}
				}
			}
		}
		if nPol > 0 {
			R.Check(okPol, id, "inode.Read|clamp taken on the side that reaches the end", P.Pos(rd.Pos()), "the count becomes Size - offset on the side of the test where offset+count reaches the size", "polarity of the clamp", "the clamp is applied on the wrong side of its test: a READ inside the file is stretched to the end of the file (more bytes than asked for), a READ over the end is not clamped at all")
		}
	}
	R.Check(found, id, "inode.Read|count clamped to the file's size", P.Pos(rd.Pos()), "one of the values the loop bound can take is Size - offset", "clamp found", "the loop covers the requested count whatever the file's size: a READ over the end maps - and for holes allocates and links - blocks behind the size, which nothing ever frees, and returns bytes that are not part of the file")
}

// ruleMapFromPointers: the block map answers from the block pointers.  Every
// block number bmap / indbmap hand back is, on every path, a pointer slot of
// the inode, an entry of an index block, what the allocator just gave, or the
// answer of the level below - never a number remembered elsewhere in the
// in-memory inode.  A remembered mapping that a truncation does not forget
// names a block that is free, or belongs to another file by now: a hole of the
// file grown again reads the other file's bytes.
func ruleMapFromPointers(c *Ctx, id string) {
	V, P, R := c.V, c.P, c.R
	R.Rule(id, "the block map answers from the block pointers: every block number bmap and indbmap return derives (through phis) from Inode.blks[i], an index-block entry (BnumGet), AllocBlock, indbmap's own answer, a parameter or the constant 0 - not from any other field of the inode", 2)
	for _, f := range []*ssa.Function{V.bmap, V.indbmap} {
		if f == nil {
			continue
		}
		R.Analysed[FuncName(f)] = true
		nres := f.Signature.Results().Len()
		for idx := 0; idx < nres; idx++ {
			if b, isB := f.Signature.Results().At(idx).Type().Underlying().(*types.Basic); !isB || b.Info()&types.IsInteger == 0 {
				continue
			}
			ok, why, n := true, "", 0
			seen := map[ssa.Value]bool{}
			var leaf func(v ssa.Value)
			leaf = func(v ssa.Value) {
				v = stripConv(v)
				if seen[v] {
					return
				}
				seen[v] = true
				n++
				switch x := v.(type) {
				case *ssa.Phi:
					for _, e := range x.Edges {
						leaf(e)
					}
					return
				case *ssa.Const, *ssa.Parameter:
					return
				case *ssa.Extract:
					if cl, isC := x.Tuple.(*ssa.Call); isC {
						if g := staticCallee(cl); g != nil && (g == V.indbmap || g == V.bmap) {
							return
						}
						// a private helper of the block map (an arm extracted): what it returns
						if g := staticCallee(cl); g != nil && isPrivateHelper(g) && g.Blocks != nil && relPkg(g) == relPkg(f) && n < 200 {
							for _, rs := range returnSources(g, x.Index) {
								leaf(rs.Val)
							}
							return
						}
					}
				case *ssa.Call:
					if g := staticCallee(x); g != nil && (g == V.AllocBlock || g.Name() == "BnumGet") {
						return
					}
					if g := staticCallee(x); g != nil && isPrivateHelper(g) && g.Blocks != nil && relPkg(g) == relPkg(f) && g != V.bmap && g != V.indbmap && n < 200 {
						for _, rs := range returnSources(g, 0) {
							leaf(rs.Val)
						}
						return
					}
				case *ssa.UnOp:
					if x.Op == token.MUL {
						if ia, isI := x.X.(*ssa.IndexAddr); isI {
							if nm, fl, _ := fieldLoad(ia.X); nm == V.Inode && fl == "blks" {
								return
							}
						}
						if al, isA := x.X.(*ssa.Alloc); isA {
							for _, r := range refs(al) {
								if st, isS := r.(*ssa.Store); isS && st.Addr == ssa.Value(al) {
									leaf(st.Val)
								}
							}
							return
						}
						if nm, fl, _, _ := loadedField(x); nm != nil {
							ok, why = false, "field "+nm.Obj().Name()+"."+fl
							return
						}
					}
				}
				ok, why = false, symOf(f, v)
			}
			for _, rs := range returnSources(f, idx) {
				leaf(rs.Val)
			}
			R.Check(ok && n > 0, id, fmt.Sprintf("%s|result %d comes from the pointers", FuncName(f), idx), P.Pos(f.Pos()), "the block number returned is a pointer slot, an index entry, a fresh allocation or the lower level's answer", fmt.Sprintf("%d sources", n), "a block number comes from "+why+": a mapping kept outside the pointers survives a truncation - the file grown again reads (or writes) a block that is free or belongs to another file")
		}
	}
}
