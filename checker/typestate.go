package main

// E3: transaction typestate.  A disjunctive (ESP-style) abstract interpreter
// over go/ssa: the abstract state is explored per path over a finite domain
// (transaction states, nil-ness and constants of booleans / statuses /
// pointers), phis are evaluated per incoming edge, branch conditions refine
// the facts, go-nfsd helpers in packages nfs, dir and shrinker are analysed
// in the calling context (inlining; the call depth is small and bounded).
// Nothing is executed: values are abstract, loops reach a fixpoint because the
// domain is finite.

import (
	"fmt"
	"go/token"
	"go/types"
	"sort"
	"strings"

	"golang.org/x/tools/go/ssa"
)

type AVKind int

const (
	KTop AVKind = iota
	KInt
	KNotInt
	KBool
	KNil
	KTxn
	KAtxn
	KInode
	KISlice
	KPtr
	KTuple
	KFunc
	KArg  // (part of) the entry point's request argument; Cell = field path
	KFact // a boolean of unknown value; when it equals B the fact named Cell holds (Src: the transaction under whose lock)
)

type AV struct {
	K      AVKind
	I      int64
	B      bool
	Txns   []string // KTxn/KAtxn: one id; KInode/KISlice: set
	MayNil bool
	Src    string // KInode: "acq:<site>" | "owned:<site>" | "elem"
	Cell   string
	Tup    []AV
	Fn     *ssa.Function
	Binds  []AV
}

var top = AV{K: KTop}

func (a AV) key() string {
	switch a.K {
	case KTop:
		return "T"
	case KInt:
		return fmt.Sprintf("i%d", a.I)
	case KNotInt:
		return fmt.Sprintf("!i%d", a.I)
	case KBool:
		return fmt.Sprintf("b%v", a.B)
	case KNil:
		return "nil"
	case KTxn:
		return "txn:" + strings.Join(a.Txns, ",")
	case KAtxn:
		return "atxn:" + strings.Join(a.Txns, ",")
	case KInode:
		return fmt.Sprintf("ino:%s:%v:%s", strings.Join(a.Txns, ","), a.MayNil, a.Src)
	case KISlice:
		return fmt.Sprintf("isl:%s:%v", strings.Join(a.Txns, ","), a.MayNil)
	case KPtr:
		return "ptr:" + a.Cell
	case KTuple:
		var s []string
		for _, t := range a.Tup {
			s = append(s, t.key())
		}
		return "(" + strings.Join(s, ";") + ")"
	case KArg:
		return "arg:" + a.Cell
	case KFact:
		return fmt.Sprintf("fact:%v:%s:%s", a.B, a.Cell, a.Src)
	case KFunc:
		var s []string
		for _, t := range a.Binds {
			s = append(s, t.key())
		}
		return "fn:" + a.Fn.Name() + "[" + strings.Join(s, ";") + "]"
	}
	return "?"
}

func addTxns(a []string, b ...string) []string {
	m := map[string]bool{}
	for _, x := range a {
		m[x] = true
	}
	for _, x := range b {
		m[x] = true
	}
	var out []string
	for x := range m {
		out = append(out, x)
	}
	sort.Strings(out)
	return out
}

type TxnSt struct {
	St        string // live | committed | aborted
	Holds     bool
	MayAlloc  bool
	FailedOp  string // a mutating step on this txn reported failure (site)
	CommitRes string // for committed: "unknown" | "true" | "false" | "dropped"
	Sync      bool   // committed through a synchronous durability point
	Via       string // terminator name
}

type Global struct {
	Txns  map[string]TxnSt
	Cells map[string]AV
	Order []string // txn ids in creation order
}

func (g *Global) clone() *Global {
	n := &Global{Txns: make(map[string]TxnSt, len(g.Txns)), Cells: make(map[string]AV, len(g.Cells))}
	for k, v := range g.Txns {
		n.Txns[k] = v
	}
	for k, v := range g.Cells {
		n.Cells[k] = v
	}
	n.Order = append([]string{}, g.Order...)
	return n
}

func (g *Global) key() string {
	var ks []string
	for k, v := range g.Txns {
		ks = append(ks, fmt.Sprintf("%s=%v", k, v))
	}
	for k, v := range g.Cells {
		ks = append(ks, k+"="+v.key())
	}
	sort.Strings(ks)
	return strings.Join(ks, "|")
}

type State struct {
	G   *Global
	Env map[ssa.Value]AV
}

func (s *State) clone() *State {
	n := &State{G: s.G.clone(), Env: make(map[ssa.Value]AV, len(s.Env))}
	for k, v := range s.Env {
		n.Env[k] = v
	}
	return n
}

func (s *State) key() string {
	var ks []string
	for k, v := range s.Env {
		ks = append(ks, k.Name()+"="+v.key())
	}
	sort.Strings(ks)
	return s.G.key() + "#" + strings.Join(ks, "|")
}

// Events collected for the rules.
type Event struct {
	Kind   string // acquire | release | use | term | begin | return | index | foreign | call-dead
	Fn     *ssa.Function
	Pos    token.Pos
	Stack  string
	Entry  string
	Detail string
	Txn    string
	St     TxnSt
	Bad    bool
	Extra  map[string]string
}

type Snapshot struct {
	Entry   string
	Ret     *ssa.Return
	G       *Global
	Results []AV
}

type TS struct {
	c            *Ctx
	Events       map[string]*Event // dedup by key
	Snaps        []Snapshot
	Undec        []string
	entry        *ssa.Function
	stack        []*ssa.Function
	budget       int
	memo         map[string][]outcome
	pendingLegal map[string]AV
	inline       map[*ssa.Function]bool
	allocReach   map[*ssa.Function]bool
	visitedFns   map[*ssa.Function]bool
}

func NewTS(c *Ctx) *TS {
	t := &TS{c: c, Events: map[string]*Event{}, inline: map[*ssa.Function]bool{}, visitedFns: map[*ssa.Function]bool{}}
	for _, fn := range c.P.RepoFuncs("nfs", "dir", "shrinker") {
		t.inline[fn] = true
	}
	// functions from which the allocators are reachable
	t.allocReach = map[*ssa.Function]bool{}
	for _, fn := range c.P.RepoFuncs() {
		r := c.P.Reach([]*ssa.Function{fn}, func(f *ssa.Function) bool { return f == c.V.AllocNum })
		if r[c.V.AllocNum] {
			t.allocReach[fn] = true
		}
	}
	return t
}

func (t *TS) stackStr() string {
	var s []string
	for _, f := range t.stack {
		s = append(s, f.Name())
	}
	return strings.Join(s, ">")
}

func (t *TS) event(kind string, in ssa.Instruction, detail, txn string, st TxnSt, bad bool, extra map[string]string) {
	fn := in.Parent()
	k := fmt.Sprintf("%s|%s|%d|%s|%s|%v|%v|%s", kind, FuncName(fn), in.Pos(), detail, txn, st, bad, t.entry.Name())
	if _, ok := t.Events[k]; ok {
		return
	}
	t.Events[k] = &Event{Kind: kind, Fn: fn, Pos: in.Pos(), Stack: t.stackStr(), Entry: t.entry.Name(), Detail: detail, Txn: txn, St: st, Bad: bad, Extra: extra}
}

// RunEntry explores one entry function.
func (t *TS) RunEntry(fn *ssa.Function) {
	t.entry = fn
	t.budget = 200000
	st := &State{G: &Global{Txns: map[string]TxnSt{}, Cells: map[string]AV{}}, Env: map[ssa.Value]AV{}}
	var eargs []AV
	rq := requestParam(fn)
	for _, p := range fn.Params {
		if p == rq {
			eargs = append(eargs, AV{K: KArg, Cell: ""})
		} else {
			eargs = append(eargs, top)
		}
	}
	outs := t.execFn(fn, eargs, nil, st)
	for _, o := range outs {
		t.Snaps = append(t.Snaps, Snapshot{Entry: fn.Name(), Ret: o.ret, G: o.G, Results: o.results})
	}
}

type outcome struct {
	G       *Global
	results []AV
	tags    []*AV // result tags (commit / step results) travelling with the returned values
	ret     *ssa.Return
}

func isTrackedType(ty types.Type) bool {
	switch u := ty.Underlying().(type) {
	case *types.Basic:
		return u.Kind() == types.Bool || (u.Info()&types.IsInteger != 0 && isNamedStatus(ty))
	case *types.Pointer:
		return isNamed(u, "/fstxn", "FsTxn") || isNamed(u, "/inode", "Inode") || isNamed(u, "/alloctxn", "AllocTxn")
	case *types.Slice:
		return isNamed(u.Elem(), "/inode", "Inode")
	case *types.Signature:
		return true
	}
	return false
}

// holdsTracked: a go-nfsd struct type with a field of a tracked type (directly
// or in a nested struct).
func holdsTracked(ty types.Type, d int) bool {
	if d > 2 {
		return false
	}
	n, ok := types.Unalias(ty).(*types.Named)
	if !ok || n.Obj().Pkg() == nil || !strings.HasPrefix(n.Obj().Pkg().Path(), modPath) {
		return false
	}
	st, ok := n.Underlying().(*types.Struct)
	if !ok {
		return false
	}
	// the file system's own shared objects are not contexts
	switch n.Obj().Name() {
	case "Inode", "FsTxn", "AllocTxn", "FsState", "Nfs", "Cache", "Dcache":
		return false
	}
	for i := 0; i < st.NumFields(); i++ {
		ft := st.Field(i).Type()
		if isTrackedType(ft) || holdsTracked(ft, d+1) {
			return true
		}
	}
	return false
}

func isNamedStatus(ty types.Type) bool {
	n, ok := types.Unalias(ty).(*types.Named)
	if !ok {
		return false
	}
	switch n.Obj().Name() {
	case "Nfsstat3", "Stable_how":
		return true
	}
	return false
}

func zeroAV(ty types.Type) AV {
	switch u := ty.Underlying().(type) {
	case *types.Basic:
		if u.Kind() == types.Bool {
			return AV{K: KBool, B: false}
		}
		if u.Info()&types.IsInteger != 0 {
			return AV{K: KInt, I: 0}
		}
	case *types.Pointer, *types.Slice, *types.Signature, *types.Interface, *types.Map:
		return AV{K: KNil}
	}
	return top
}

// eval gives the abstract value of an SSA value in state s.
func (t *TS) eval(s *State, v ssa.Value) AV {
	switch x := v.(type) {
	case *ssa.Const:
		if x.Value == nil {
			return AV{K: KNil}
		}
		if b, ok := constBool(x); ok {
			return AV{K: KBool, B: b}
		}
		if i, ok := constInt(x); ok {
			return AV{K: KInt, I: i}
		}
		return top
	case *ssa.Function:
		return AV{K: KFunc, Fn: x}
	}
	if a, ok := s.Env[v]; ok {
		return a
	}
	switch v.(type) {
	case *ssa.FieldAddr, *ssa.Alloc:
		if _, isPtr := v.Type().Underlying().(*types.Pointer); isPtr {
			if c, elem, ok := cellOf(v); ok && (isTrackedType(elem) || holdsTracked(elem, 0)) {
				// (a local struct that carries a transaction, an inode or a status - the context object of a
				// function split into phases - is a bundle of cells)
				return AV{K: KPtr, Cell: c}
			}
		}
	}
	return top
}

func cellOf(addr ssa.Value) (string, types.Type, bool) {
	var path []string
	cur := addr
	for {
		switch x := cur.(type) {
		case *ssa.FieldAddr:
			st := derefStruct(x.X.Type())
			if st == nil {
				return "", nil, false
			}
			path = append([]string{st.Field(x.Field).Name()}, path...)
			cur = x.X
			continue
		case *ssa.Alloc:
			fnn := ""
			if x.Parent() != nil {
				fnn = x.Parent().Name()
			}
			elem := addr.Type().Underlying().(*types.Pointer).Elem()
			return fnn + ":" + x.Name() + "(" + x.Comment + ")." + strings.Join(path, "."), elem, true
		}
		return "", nil, false
	}
}

func (t *TS) execFn(fn *ssa.Function, args []AV, binds []AV, s *State) []outcome {
	if fn.Blocks == nil {
		return []outcome{{G: s.G}}
	}
	for _, f := range t.stack {
		if f == fn {
			// recursion: treat as opaque
			return []outcome{{G: s.G, results: nil}}
		}
	}
	if len(t.stack) > 12 {
		t.Undec = append(t.Undec, "inlining depth exceeded at "+FuncName(fn))
		return []outcome{{G: s.G}}
	}
	var mk strings.Builder
	mk.WriteString(FuncName(fn))
	for _, a := range args {
		mk.WriteString("/" + a.key())
	}
	for _, a := range binds {
		mk.WriteString("^" + a.key())
	}
	mk.WriteString("//" + s.G.key())
	memoKey := mk.String()
	if t.memo == nil {
		t.memo = map[string][]outcome{}
	}
	if o, ok := t.memo[t.entry.Name()+"::"+memoKey]; ok {
		return o
	}
	t.stack = append(t.stack, fn)
	t.visitedFns[fn] = true
	defer func() { t.stack = t.stack[:len(t.stack)-1] }()
	ns := &State{G: s.G.clone(), Env: map[ssa.Value]AV{}}
	for i, p := range fn.Params {
		if i < len(args) {
			ns.Env[p] = args[i]
		}
	}
	for k, v := range t.pendingLegal {
		ns.G.Cells[k] = v
	}
	t.pendingLegal = nil
	for i, fv := range fn.FreeVars {
		if i < len(binds) {
			ns.Env[fv] = binds[i]
		}
	}
	var outs []outcome
	outKeys := map[string]bool{}
	visited := map[string]bool{}
	type item struct {
		b    *ssa.BasicBlock
		pred *ssa.BasicBlock
		s    *State
	}
	work := []item{{fn.Blocks[0], nil, ns}}
	for len(work) > 0 {
		it := work[len(work)-1]
		work = work[:len(work)-1]
		t.budget--
		if t.budget < 0 {
			t.Undec = append(t.Undec, "state budget exceeded in "+FuncName(fn)+" (entry "+t.entry.Name()+")")
			return outs
		}
		// phis first (per incoming edge), simultaneously
		st := it.s
		if it.pred != nil {
			idx := -1
			for i, p := range it.b.Preds {
				if p == it.pred {
					idx = i
				}
			}
			upd := map[ssa.Value]AV{}
			for _, in := range it.b.Instrs {
				phi, ok := in.(*ssa.Phi)
				if !ok {
					break
				}
				if idx >= 0 && isTrackedType(phi.Type()) {
					upd[phi] = t.eval(st, phi.Edges[idx])
					// a status variable takes an error constant here: a refusal is decided on this path
					if cst, isC := phi.Edges[idx].(*ssa.Const); isC && isNamedStatus(phi.Type()) {
						if k, isk := constInt(cst); isk && k != 0 && strings.HasSuffix(phi.Type().String(), "Nfsstat3") {
							st.G.Cells["$refusal"] = AV{K: KInt, I: k, Src: t.c.P.Pos(phi.Pos())}
						}
					}
					if tag, ok := st.G.Cells[resKey(phi.Edges[idx], -1)]; ok {
						st.G.Cells[resKey(phi, -1)] = tag
					} else {
						delete(st.G.Cells, resKey(phi, -1))
					}
				}
			}
			for k, v := range upd {
				if v.K == KTop {
					delete(st.Env, k)
				} else {
					st.Env[k] = v
				}
			}
		}
		// forget what is dead here: values of earlier loop iterations must not keep states apart
		{
			lv := liveIn(fn)[it.b.Index]
			for v := range st.Env {
				if lv[v] {
					continue
				}
				if phi, ok := v.(*ssa.Phi); ok && phi.Block() == it.b {
					continue
				}
				if ins, ok := v.(ssa.Instruction); ok && ins.Parent() != fn {
					continue
				}
				// parameters and free variables do not change inside the activation
				// (and request paths are resolved through them): keep
				if _, isP := v.(*ssa.Parameter); isP {
					continue
				}
				if _, isF := v.(*ssa.FreeVar); isF {
					continue
				}
				delete(st.Env, v)
				delete(st.G.Cells, resKey(v, -1))
			}
		}
		k := fmt.Sprintf("%d#%s", it.b.Index, st.key())
		if visited[k] {
			continue
		}
		visited[k] = true
		// execute the instructions; calls may fork
		states := []*State{st}
		for _, in := range it.b.Instrs {
			if _, ok := in.(*ssa.Phi); ok {
				continue
			}
			var next []*State
			for _, cs := range states {
				next = append(next, t.step(cs, in)...)
			}
			states = next
			if len(states) == 0 {
				break
			}
		}
		last := it.b.Instrs[len(it.b.Instrs)-1]
		for _, cs := range states {
			switch x := last.(type) {
			case *ssa.Return:
				var res []AV
				var tags []*AV
				tkey := ""
				for _, r := range x.Results {
					res = append(res, t.eval(cs, r))
					if tag, ok := cs.G.Cells[resKey(r, -1)]; ok {
						tg := tag
						tags = append(tags, &tg)
						tkey += tg.key()
					} else {
						tags = append(tags, nil)
						tkey += "-"
					}
				}
				if len(t.stack) > 1 {
					pruneLocals(cs.G, fn)
				}
				o := outcome{G: cs.G, results: res, tags: tags, ret: x}
				ok := o.G.key() + "/" + AV{K: KTuple, Tup: res}.key() + tkey + fmt.Sprint(x.Pos())
				if !outKeys[ok] {
					outKeys[ok] = true
					outs = append(outs, o)
				}
			case *ssa.Jump:
				work = append(work, item{it.b.Succs[0], it.b, cs})
			case *ssa.If:
				tv, fv := t.branch(cs, x)
				if tv != nil {
					work = append(work, item{it.b.Succs[0], it.b, tv})
				}
				if fv != nil {
					work = append(work, item{it.b.Succs[1], it.b, fv})
				}
			case *ssa.Panic:
				// path ends
			}
		}
	}
	t.memo[t.entry.Name()+"::"+memoKey] = outs
	return outs
}

// pruneLocals drops the cells that belong to the returning activation.
func pruneLocals(g *Global, fn *ssa.Function) {
	p1 := fn.Name() + ":"
	for k := range g.Cells {
		if strings.HasPrefix(k, p1) && len(fn.Blocks) > 0 {
			// keep cells of the entry function's own frame only while it runs
			delete(g.Cells, k)
			continue
		}
		if strings.HasPrefix(k, "$res:") && strings.HasSuffix(k, "~"+fn.Name()) {
			delete(g.Cells, k)
		}
		if strings.HasPrefix(k, "$legal:"+fn.Name()+":") {
			delete(g.Cells, k)
		}
	}
}

// branch evaluates an If and returns the refined states for the true and the
// false successor (nil if infeasible).
func (t *TS) branch(s *State, ifi *ssa.If) (*State, *State) {
	cond := ifi.Cond
	neg := false
	for {
		if u, ok := cond.(*ssa.UnOp); ok && u.Op == token.NOT {
			cond = u.X
			neg = !neg
			continue
		}
		break
	}
	var tv, fv *State
	a := t.eval(s, cond)
	if a.K == KBool {
		if _, isC := cond.(*ssa.Const); !isC {
			t.noteBool(s, cond, a.B)
		}
		if call, ok := cond.(*ssa.Call); ok && !a.B {
			if cal := call.Call.StaticCallee(); cal != nil && cal.Name() == "IllegalName" && len(call.Call.Args) == 1 {
				if k := nameKey(call.Call.Args[0]); k != "" {
					s.G.Cells["$legal:"+k] = AV{K: KBool, B: true}
				}
			}
		}
		if a.B != neg {
			return s, nil
		}
		return nil, s
	}
	if a.K == KFact {
		tv, fv = s.clone(), s
		on := fv
		if a.B {
			on = tv
		}
		on.G.Cells[a.Cell] = AV{K: KBool, B: true, Src: a.Src}
		if _, isC := cond.(*ssa.Const); !isC {
			tv.Env[cond] = AV{K: KBool, B: true}
			fv.Env[cond] = AV{K: KBool, B: false}
		}
		if neg {
			return fv, tv
		}
		return tv, fv
	}
	tv, fv = s.clone(), s
	setBool := func(st *State, b bool) {
		if _, isC := cond.(*ssa.Const); !isC {
			st.Env[cond] = AV{K: KBool, B: b}
			t.noteBool(st, cond, b)
		}
	}
	if bo, ok := cond.(*ssa.BinOp); ok && (bo.Op == token.EQL || bo.Op == token.NEQ) {
		eqS, neS := tv, fv
		if bo.Op == token.NEQ {
			eqS, neS = fv, tv
		}
		for _, pr := range [][2]ssa.Value{{bo.X, bo.Y}, {bo.Y, bo.X}} {
			if n, fl, _, _ := loadedField(pr[0]); n == t.c.V.Inode && fl == "Gen" {
				if mc, f2 := fieldOfCallResult(pr[1]); mc != nil && f2 == "Gen" && mc.Call.StaticCallee() != nil && mc.Call.StaticCallee().Name() == "MakeFh" {
					if p, ok := t.argPath(s, mc.Call.Args[0]); ok {
						owner := ""
						if _, _, base, _ := loadedField(pr[0]); base != nil {
							if av := t.eval(s, base); len(av.Txns) == 1 {
								owner = av.Txns[0]
							}
						}
						eqS.G.Cells["$fh:"+p] = AV{K: KBool, B: true, Src: owner}
					}
				} else if ap, ok := t.argPath(s, pr[1]); ok && strings.HasPrefix(ap, "fh(") && strings.HasSuffix(ap, ").Gen") {
					// the decoded handle was handed down (as a parameter) to the function that compares
					p := strings.TrimSuffix(strings.TrimPrefix(ap, "fh("), ").Gen")
					owner := ""
					if _, _, base, _ := loadedField(pr[0]); base != nil {
						if av := t.eval(s, base); len(av.Txns) == 1 {
							owner = av.Txns[0]
						}
					}
					eqS.G.Cells["$fh:"+p] = AV{K: KBool, B: true, Src: owner}
				}
			}
		}
		t.refineEq(eqS, neS, bo.X, bo.Y)
		t.refineEq(eqS, neS, bo.Y, bo.X)
	}
	setBool(tv, true)
	setBool(fv, false)
	// "v, listed := table[k]; if listed": in a package-level table of status constants that only its initialiser
	// fills, a listed key gives one of the listed constants, an unlisted one the zero value
	if ex, ok := cond.(*ssa.Extract); ok && ex.Index == 1 {
		if lk, isL := ex.Tuple.(*ssa.Lookup); isL && lk.CommaOk {
			if ld, isLd := lk.X.(*ssa.UnOp); isLd && ld.Op == token.MUL {
				if g, isG := ld.X.(*ssa.Global); isG {
					if ents, okT := constTable(t.c.P, g); okT && len(ents) > 0 {
						allNZ, allConst := true, true
						for _, e := range ents {
							k, isk := constInt(stripConv(e.val))
							if !isk {
								allConst = false
							} else if k == 0 {
								allNZ = false
							}
						}
						for _, r := range refs(lk) {
							if v0, isE := r.(*ssa.Extract); isE && v0.Index == 0 && isTrackedType(v0.Type()) {
								if allConst && allNZ {
									tv.Env[v0] = AV{K: KNotInt, I: 0}
								}
								fv.Env[v0] = AV{K: KInt, I: 0}
							}
						}
					}
				}
			}
		}
	}
	if call, ok := cond.(*ssa.Call); ok {
		if cal := call.Call.StaticCallee(); cal != nil && cal.Name() == "Equal" && relPkg(cal) == "fh" && len(call.Call.Args) == 2 {
			pa, oka := t.argPath(s, call.Call.Args[0])
			pb, okb := t.argPath(s, call.Call.Args[1])
			if oka && okb {
				tv.G.Cells["$fheq:"+pa+"="+pb] = AV{K: KBool, B: true}
			}
		}
		if cal := call.Call.StaticCallee(); cal != nil && cal.Name() == "IllegalName" && len(call.Call.Args) == 1 {
			if k := nameKey(call.Call.Args[0]); k != "" {
				fv.G.Cells["$legal:"+k] = AV{K: KBool, B: true}
			}
		}
	}
	if neg {
		return fv, tv
	}
	return tv, fv
}

// fhCompare: bo compares the generation of a locked inode with the generation
// of a decoded client handle; returns the handle's request path and the
// transaction that holds the inode.
func (t *TS) fhCompare(s *State, bo *ssa.BinOp) (string, string, bool) {
	for _, pr := range [][2]ssa.Value{{bo.X, bo.Y}, {bo.Y, bo.X}} {
		n, fl, base, _ := loadedField(pr[0])
		if n != t.c.V.Inode || fl != "Gen" {
			continue
		}
		owner := ""
		if base != nil {
			if av := t.eval(s, base); len(av.Txns) == 1 {
				owner = av.Txns[0]
			}
		}
		if mc, f2 := fieldOfCallResult(pr[1]); mc != nil && f2 == "Gen" && mc.Call.StaticCallee() != nil && mc.Call.StaticCallee().Name() == "MakeFh" {
			if p, ok := t.argPath(s, mc.Call.Args[0]); ok {
				return p, owner, true
			}
		} else if ap, ok := t.argPath(s, pr[1]); ok && strings.HasPrefix(ap, "fh(") && strings.HasSuffix(ap, ").Gen") {
			return strings.TrimSuffix(strings.TrimPrefix(ap, "fh("), ").Gen"), owner, true
		}
	}
	return "", "", false
}

// nameKey identifies a name-typed value by function, parameter and field path.
func nameKey(v ssa.Value) string {
	pm, path := paramFieldPath(v)
	if pm == nil {
		return ""
	}
	return pm.Parent().Name() + ":" + pm.Name() + "." + path
}

// refineEq refines x given that it is compared with constant y.
func (t *TS) refineEq(eqS, neS *State, x, y ssa.Value) {
	if _, isC := x.(*ssa.Const); isC {
		return
	}
	ya := t.eval(eqS, y)
	xa := t.eval(eqS, x)
	switch ya.K {
	case KNil:
		eqS.Env[x] = AV{K: KNil}
		switch xa.K {
		case KInode, KISlice, KTxn:
			xa.MayNil = false
			neS.Env[x] = xa
		}
	case KInt:
		if isTrackedType(x.Type()) {
			eqS.Env[x] = ya
			if xa.K == KTop {
				neS.Env[x] = AV{K: KNotInt, I: ya.I}
			}
		}
	}
}

// noteBool: a boolean value became known on this path; if it is the result
// of a commit-family terminator or of a fallible step, record it.
func (t *TS) noteBool(s *State, v ssa.Value, b bool) {
	tag, ok := s.G.Cells[resKey(v, -1)]
	if !ok {
		return
	}
	id := tag.Cell
	ts, ok := s.G.Txns[id]
	if !ok {
		return
	}
	if tag.Src == "commit" {
		if b {
			ts.CommitRes = "true"
		} else {
			ts.CommitRes = "false"
		}
	} else if tag.Src == "step" && !b {
		ts.FailedOp = tag.Fn.Name()
	}
	s.G.Txns[id] = ts
}

func evalCmp(op token.Token, a, b AV) (bool, bool) {
	eq, known := false, false
	switch {
	case a.K == KInt && b.K == KInt:
		eq, known = a.I == b.I, true
	case a.K == KBool && b.K == KBool:
		eq, known = a.B == b.B, true
	case a.K == KNil && b.K == KNil:
		eq, known = true, true
	case (a.K == KInt && b.K == KNotInt && a.I == b.I) || (b.K == KInt && a.K == KNotInt && a.I == b.I):
		eq, known = false, true
	case a.K == KNil && (b.K == KInode || b.K == KISlice || b.K == KTxn || b.K == KFunc) && !b.MayNil:
		eq, known = false, true
	case b.K == KNil && (a.K == KInode || a.K == KISlice || a.K == KTxn || a.K == KFunc) && !a.MayNil:
		eq, known = false, true
	}
	if !known {
		return false, false
	}
	if op == token.EQL {
		return eq, true
	}
	return !eq, true
}

func (t *TS) txnOf(a AV) (string, bool) {
	if (a.K == KTxn || a.K == KAtxn) && len(a.Txns) == 1 {
		return a.Txns[0], true
	}
	return "", false
}

// useInode records a dereference / passing of an inode value.
func (t *TS) useInode(s *State, in ssa.Instruction, a AV, what string) {
	if a.K != KInode && a.K != KISlice {
		return
	}
	if a.K == KInode && a.Src != "" {
		if _, rel := s.G.Cells["$rel:"+a.Src]; rel {
			t.event("use", in, what, "", TxnSt{St: "released-early", Via: "ReleaseInode"}, true, nil)
			return
		}
	}
	for _, id := range a.Txns {
		ts := s.G.Txns[id]
		bad := ts.St != "live"
		t.event("use", in, what, id, ts, bad, nil)
	}
	// a possibly-nil inode (GetInodeFh / GetInodeInum / AllocInode result not yet tested) that is dereferenced or
	// handed to code that will dereference it; handing it to an inlined helper is judged inside the helper
	if a.K == KInode && a.MayNil && !strings.HasPrefix(what, "argument of ") {
		t.event("niluse", in, what, "", TxnSt{}, true, map[string]string{"src": a.Src})
	}
}

// step executes one non-phi, non-terminator instruction.
func (t *TS) step(s *State, in ssa.Instruction) []*State {
	// a re-executed instruction (loop) recomputes its value: what an earlier
	// iteration learnt about it (branch outcome, result tag) no longer holds
	if v, ok := in.(ssa.Value); ok {
		if _, had := s.Env[v]; had {
			delete(s.Env, v)
		}
		delete(s.G.Cells, resKey(v, -1))
	}
	switch x := in.(type) {
	case *ssa.Alloc:
		// re-executed allocs reset their cells
		prefix := ""
		if x.Parent() != nil {
			prefix = x.Parent().Name() + ":" + x.Name() + "("
		}
		for k := range s.G.Cells {
			if strings.HasPrefix(k, prefix) {
				delete(s.G.Cells, k)
			}
		}
		if isArrayOfInodes(x.Type()) {
			s.Env[x] = AV{K: KISlice}
		}
	case *ssa.MakeSlice:
		if isTrackedType(x.Type()) {
			s.Env[x] = AV{K: KISlice}
		}
	case *ssa.Slice:
		if a := t.eval(s, x.X); a.K == KISlice {
			s.Env[x] = a
		}
	case *ssa.MakeClosure:
		var bs []AV
		for _, b := range x.Bindings {
			ba := t.eval(s, b)
			if ba.K == KTop {
				if c, _, ok := cellOf(b); ok {
					ba = AV{K: KPtr, Cell: c}
				}
			}
			bs = append(bs, ba)
		}
		s.Env[x] = AV{K: KFunc, Fn: x.Fn.(*ssa.Function), Binds: bs}
	case *ssa.FieldAddr:
		base := t.eval(s, x.X)
		switch base.K {
		case KInode:
			t.useInode(s, in, base, "field "+fieldNameAt(x))
		case KPtr:
			// field of a variable reached through a pointer (a struct captured by reference): the cell of the
			// enclosing frame, named as cellOf names it there
			if base.Cell != "$elem" && base.Cell != "" {
				sep := ""
				if !strings.HasSuffix(base.Cell, ".") {
					sep = "."
				}
				s.Env[x] = AV{K: KPtr, Cell: base.Cell + sep + fieldNameAt(x)}
			}
		case KNil:
			if isNamed(x.X.Type(), "/inode", "Inode") || isNamed(x.X.Type(), "/fstxn", "FsTxn") {
				t.event("nilderef", in, "field access through a nil pointer", "", TxnSt{}, true, nil)
			}
		}
	case *ssa.IndexAddr:
		base := t.eval(s, x.X)
		if base.K == KISlice {
			if base.MayNil {
				t.event("index", in, "slice that may be nil is indexed without a nil test", "", TxnSt{}, true, nil)
			}
			s.Env[x] = AV{K: KPtr, Cell: "$elem", Txns: base.Txns}
		} else if base.K == KNil && isTrackedType(x.X.Type()) {
			t.event("index", in, "nil slice is indexed", "", TxnSt{}, true, nil)
			return nil // run-time panic: the path ends here
		}
	case *ssa.UnOp:
		switch x.Op {
		case token.NOT:
			if a := t.eval(s, x.X); a.K == KBool {
				s.Env[x] = AV{K: KBool, B: !a.B}
			} else if a.K == KFact {
				a.B = !a.B
				s.Env[x] = a
			}
		case token.MUL:
			// load
			if fa, ok := x.X.(*ssa.FieldAddr); ok {
				base := t.eval(s, fa.X)
				if base.K == KTxn && fieldNameAt(fa) == "Atxn" {
					s.Env[x] = AV{K: KAtxn, Txns: base.Txns}
					return []*State{s}
				}
			}
			pa := t.eval(s, x.X)
			if pa.K == KPtr && pa.Cell == "$elem" {
				s.Env[x] = AV{K: KInode, Txns: pa.Txns, Src: "elem"}
				return []*State{s}
			}
			cell := ""
			if pa.K == KPtr {
				cell = pa.Cell
			} else if c, _, ok := cellOf(x.X); ok {
				cell = c
			}
			if cell != "" && !isTrackedType(x.Type()) {
				// request-derived values (e.g. a decoded handle kept in a local) keep their path
				if v, ok := s.G.Cells[cell]; ok && v.K == KArg {
					s.Env[x] = v
				}
			}
			if cell != "" && isTrackedType(x.Type()) {
				if v, ok := s.G.Cells[cell]; ok {
					if v.K != KTop {
						s.Env[x] = v
					}
				} else if ra, isAlloc := rootAlloc(x.X); (isAlloc && !wholeStored(ra)) || (!isAlloc && pa.K == KPtr) {
					// a local variable that was never assigned holds its zero value - but not one that was
					// assigned as a whole (a struct parameter spilled into a cell: "*t0 = args"): its fields are
					// whatever the caller passed
					s.Env[x] = zeroAV(x.Type())
				}
			}
		}
	case *ssa.Store:
		va := t.eval(s, x.Val)
		pa := t.eval(s, x.Addr)
		if pa.K == KPtr && pa.Cell == "$elem" {
			// store into a slice element: the slice carries the inode's txns
			if ia, ok := x.Addr.(*ssa.IndexAddr); ok {
				base := t.eval(s, ia.X)
				if base.K == KISlice && va.K == KInode {
					base.Txns = addTxns(base.Txns, va.Txns...)
					s.Env[ia.X] = base
				}
			}
			return []*State{s}
		}
		if ia, ok := x.Addr.(*ssa.IndexAddr); ok {
			base := t.eval(s, ia.X)
			if base.K == KISlice && va.K == KInode {
				base.Txns = addTxns(base.Txns, va.Txns...)
				s.Env[ia.X] = base
			}
			return []*State{s}
		}
		cell := ""
		if pa.K == KPtr {
			cell = pa.Cell
		} else if c, _, ok := cellOf(x.Addr); ok {
			cell = c
		}
		if cell != "" {
			if isTrackedType(x.Val.Type()) || va.K == KArg {
				s.G.Cells[cell] = va
			} else if old, had := s.G.Cells[cell]; had && old.K == KArg {
				delete(s.G.Cells, cell)
			}
		}
		// a store through an inode pointer is a use (handled at FieldAddr)
	case *ssa.BinOp:
		if x.Op == token.EQL || x.Op == token.NEQ {
			if r, ok := evalCmp(x.Op, t.eval(s, x.X), t.eval(s, x.Y)); ok {
				s.Env[x] = AV{K: KBool, B: r}
			} else if p, owner, ok := t.fhCompare(s, x); ok {
				// the comparison of an inode's generation with a handle's, used as a value
				// ("return ip.Inum == ino && ip.Gen == gen"): whoever branches on it learns the fact
				s.Env[x] = AV{K: KFact, B: x.Op == token.EQL, Cell: "$fh:" + p, Src: owner}
			}
		}
	case *ssa.Extract:
		if a := t.eval(s, x.Tuple); a.K == KTuple && x.Index < len(a.Tup) {
			if a.Tup[x.Index].K != KTop {
				s.Env[x] = a.Tup[x.Index]
				// result tags travel with extraction
			}
		}
		if tag, ok := s.G.Cells[resKey(x.Tuple, x.Index)]; ok {
			s.G.Cells[resKey(x, -1)] = tag
		}
	case *ssa.ChangeType:
		if a := t.eval(s, x.X); a.K != KTop {
			s.Env[x] = a
		}
	case *ssa.MakeInterface:
		// a transaction or an inode handed on as a value of an interface type is still that object
		switch a := t.eval(s, x.X); a.K {
		case KTxn, KAtxn, KInode, KISlice, KNil:
			s.Env[x] = a
		}
	case *ssa.ChangeInterface:
		if a := t.eval(s, x.X); a.K != KTop {
			s.Env[x] = a
		}
	case *ssa.TypeAssert:
		if !x.CommaOk {
			if a := t.eval(s, x.X); a.K != KTop {
				s.Env[x] = a
			}
		}
	case *ssa.Convert:
		if a := t.eval(s, x.X); a.K == KInt || a.K == KNotInt {
			if isTrackedType(x.Type()) {
				s.Env[x] = a
			}
		}
	case *ssa.Call:
		return t.call(s, x)
	case *ssa.Go, *ssa.Defer:
		// arguments handed to another goroutine / deferred: uses
		for _, a := range callCommon(in).Args {
			av := t.eval(s, a)
			t.useInode(s, in, av, "passed to go/defer")
		}
	}
	return []*State{s}
}

// wholeStored: the cell (or a struct/array inside it) is assigned as a whole somewhere - a store of a
// value that is not a zero-value constant to the Alloc itself or to a field address whose type is a struct or
// array; or its address escapes into a call.
func wholeStored(al *ssa.Alloc) bool {
	var visit func(addr ssa.Value, d int) bool
	visit = func(addr ssa.Value, d int) bool {
		if d > 4 {
			return true
		}
		for _, r := range refs(addr) {
			switch x := r.(type) {
			case *ssa.Store:
				if x.Addr != addr {
					return true // the address itself is stored somewhere
				}
				switch derefType(addr.Type()).Underlying().(type) {
				case *types.Struct, *types.Array:
					if c, isC := x.Val.(*ssa.Const); isC && c.Value == nil {
						continue // zero value
					}
					return true
				}
			case *ssa.FieldAddr:
				switch derefType(x.Type()).Underlying().(type) {
				case *types.Struct, *types.Array:
					if visit(x, d+1) {
						return true
					}
				}
			case ssa.CallInstruction:
				return true
			case *ssa.MakeClosure:
				return true
			}
		}
		return false
	}
	return visit(al, 0)
}

func rootAlloc(addr ssa.Value) (*ssa.Alloc, bool) {
	for {
		switch x := addr.(type) {
		case *ssa.FieldAddr:
			addr = x.X
		case *ssa.Alloc:
			return x, true
		default:
			return nil, false
		}
	}
}

func isArrayOfInodes(t types.Type) bool {
	p, ok := t.Underlying().(*types.Pointer)
	if !ok {
		return false
	}
	a, ok := p.Elem().Underlying().(*types.Array)
	return ok && isNamed(a.Elem(), "/inode", "Inode")
}

func fieldNameAt(fa *ssa.FieldAddr) string {
	if st := derefStruct(fa.X.Type()); st != nil {
		return st.Field(fa.Field).Name()
	}
	return "?"
}

func (t *TS) setResTag(s *State, call *ssa.Call, idx int, kind, txn string, fn *ssa.Function) {
	s.G.Cells[resKey(call, idx)] = AV{K: KPtr, Cell: txn, Src: kind, Fn: fn}
}

// call handles primitives, inlined go-nfsd helpers and opaque calls.
func (t *TS) call(s *State, call *ssa.Call) []*State {
	V := t.c.V
	cc := call.Common()
	callee := cc.StaticCallee()
	var fav AV
	if callee == nil {
		if _, isB := cc.Value.(*ssa.Builtin); isB {
			return t.builtin(s, call)
		}
		if !cc.IsInvoke() {
			fav = t.eval(s, cc.Value)
			if fav.K == KFunc {
				callee = fav.Fn
			}
		}
	}
	if callee == nil && !cc.IsInvoke() {
		// a call through a function value that can only be a transaction terminator taken as a method expression
		// ("commit := (*fstxn.FsTxn).Commit; ...; commit(op)", a table of them): the weakest of the candidates
		if tf := terminatorThunkCallee(t.c, call); tf != nil {
			callee = tf
		}
	}
	var recvArgs []AV // receiver(s) that do not travel in cc.Args: bound method values, interface calls
	if callee == nil && !cc.IsInvoke() {
		// a call through a function-typed variable that the call graph resolves to one go-nfsd function
		// ("var beginTxn = fstxn.Begin")
		if cands := t.c.P.Callees(call); len(cands) == 1 && IsRepoFunc(cands[0]) && cands[0].Parent() == nil && cands[0].Synthetic == "" {
			callee = cands[0]
		}
	}
	if callee == nil && cc.IsInvoke() {
		// a call through an (unexported) interface with one implementation in the program: that method
		if cands := t.c.P.Callees(call); len(cands) == 1 && IsRepoFunc(cands[0]) {
			callee = cands[0]
			recvArgs = []AV{t.eval(s, cc.Value)}
		}
	}
	if callee != nil && callee.Synthetic != "" && callee.Parent() == nil {
		// the compiler-made wrapper of a method taken as a value: "(*T).M" (the receiver is the first argument)
		// or "x.M" (the receiver is bound in the closure)
		if target := wrappedMethod(callee); target != nil {
			if len(callee.FreeVars) == 1 {
				a := fav
				if a.K != KFunc {
					a = t.eval(s, cc.Value)
				}
				if a.K == KFunc && len(a.Binds) == 1 {
					recvArgs = []AV{a.Binds[0]}
					callee = target
					fav = AV{}
				}
			} else if len(callee.FreeVars) == 0 {
				callee = target
			}
		}
	}
	if callee != nil && callee.Parent() != nil && fav.K != KFunc {
		// a closure called directly: its captured variables come with the closure value
		if a := t.eval(s, cc.Value); a.K == KFunc {
			fav = a
		}
	}
	var args []AV
	for _, a := range cc.Args {
		av := t.eval(s, a)
		if av.K == KTop {
			if p, ok := t.argPath(s, a); ok {
				av = AV{K: KArg, Cell: p}
			}
		}
		args = append(args, av)
	}
	if len(recvArgs) > 0 {
		args = append(append([]AV{}, recvArgs...), args...)
	}
	// ---- primitives of the transaction API
	if callee != nil {
		switch {
		case callee == V.Begin:
			id := fmt.Sprintf("B@%s", t.c.P.Pos(call.Pos()))
			if old, ok := s.G.Txns[id]; ok && old.St == "live" && (old.Holds || old.MayAlloc) {
				t.event("begin", call, "Begin re-executed while the previous transaction of this site is live and holds locks or allocations", id, old, true, nil)
			}
			for oid, o := range s.G.Txns {
				if oid != id && o.St == "live" && o.Holds {
					t.event("foreign", call, "a new transaction is begun while transaction "+oid+" holds inode locks", oid, o, true, nil)
				}
			}
			// one request, one committed transaction: what was committed earlier in this request (same or other site)
			for oid, o := range s.G.Txns {
				if o.St == "committed" {
					t.event("rebegin", call, "a transaction is begun after transaction "+oid+" of the same request was committed", oid, o, true, nil)
				}
			}
			t.event("rebegin", call, "begin", id, TxnSt{}, false, nil)
			var no []string
			for _, o := range s.G.Order {
				if o != id {
					no = append(no, o)
				}
			}
			s.G.Order = append(no, id)
			s.G.Txns[id] = TxnSt{St: "live"}
			s.Env[call] = AV{K: KTxn, Txns: []string{id}}
			t.event("begin", call, "begin", id, TxnSt{St: "live"}, false, nil)
			return []*State{s}
		case V.Terminators[callee] != "":
			kind := V.Terminators[callee]
			if args[0].K == KNil {
				t.event("term", call, "terminator "+callee.Name()+" on a nil transaction", "", TxnSt{}, true, map[string]string{"nil": "1"})
				return nil // nil dereference: path dies
			}
			id, ok := t.txnOf(args[0])
			if !ok {
				t.Undec = append(t.Undec, fmt.Sprintf("%s: terminator on an untracked transaction value", t.c.P.Pos(call.Pos())))
				return []*State{s}
			}
			old := s.G.Txns[id]
			t.event("term", call, callee.Name(), id, old, old.St != "live", map[string]string{"kind": kind, "used": fmt.Sprint(len(refs(call)) > 0)})
			n := old
			n.Holds = false
			n.Via = callee.Name()
			if kind == "commit" {
				n.St = "committed"
				n.Sync = callee != V.CommitUnstable
				n.CommitRes = "unknown"
				if len(refs(call)) == 0 {
					n.CommitRes = "dropped"
				}
				t.setResTag(s, call, -1, "commit", id, callee)
			} else {
				n.St = "aborted"
				// handles validated under this transaction's locks are no longer known to be live
				for k, v := range s.G.Cells {
					if strings.HasPrefix(k, "$fh:") && v.Src == id {
						delete(s.G.Cells, k)
					}
				}
			}
			s.G.Txns[id] = n
			return []*State{s}
		case V.Acquirers[callee]:
			if args[0].K == KNil {
				t.event("term", call, "acquisition "+callee.Name()+" on a nil transaction", "", TxnSt{}, true, map[string]string{"nil": "1"})
				return nil
			}
			id, ok := t.txnOf(args[0])
			if !ok {
				t.Undec = append(t.Undec, fmt.Sprintf("%s: acquisition on an untracked transaction value", t.c.P.Pos(call.Pos())))
				return []*State{s}
			}
			old := s.G.Txns[id]
			t.event("acquire", call, callee.Name(), id, old, old.St != "live", map[string]string{"held": fmt.Sprint(old.Holds)})
			for oid, o := range s.G.Txns {
				if oid != id && o.St == "live" && o.Holds {
					t.event("foreign", call, "transaction "+id+" acquires while transaction "+oid+" of the same request holds inode locks", oid, o, true, nil)
				}
			}
			n := old
			n.Holds = true
			if callee == V.AllocInode {
				n.MayAlloc = true
			}
			s.G.Txns[id] = n
			if callee == V.GetInodeFh && len(args) > 1 && args[1].K == KArg {
				// valid as long as the validating transaction keeps the lock (void after its abort)
				s.G.Cells["$fh:"+args[1].Cell] = AV{K: KBool, B: true, Src: id}
			}
			mayNil := callee == V.GetInodeFh || callee == V.GetInodeInum || callee == V.AllocInode
			delete(s.G.Cells, "$rel:acq:"+t.c.P.Pos(call.Pos()))
			s.Env[call] = AV{K: KInode, Txns: []string{id}, MayNil: mayNil, Src: "acq:" + t.c.P.Pos(call.Pos())}
			return []*State{s}
		case callee == V.GetInodeUnlocked:
			id, _ := t.txnOf(args[0])
			s.Env[call] = AV{K: KInode, Txns: []string{id}, Src: "owned:" + t.c.P.Pos(call.Pos())}
			return []*State{s}
		case callee == V.OwnInum:
			return []*State{s}
		case callee == V.ReleaseInode:
			id, _ := t.txnOf(args[0])
			ia := args[1]
			bad := false
			why := "release of an inode acquired at " + ia.Src
			if ia.K != KInode || !strings.HasPrefix(ia.Src, "acq:") {
				bad = true
				why = "early release of an inode that was not acquired at this site (" + ia.Src + "): the lock of an object the transaction already used is dropped before commit"
			}
			t.event("release", call, why, id, s.G.Txns[id], bad, map[string]string{"src": ia.Src})
			if ia.K == KInode && strings.HasPrefix(ia.Src, "acq:") {
				s.G.Cells["$rel:"+ia.Src] = AV{K: KBool, B: true}
			}
			return []*State{s}
		}
	}
	if callee != nil && relPkg(callee) == "dir" && (callee.Name() == "RemName" || callee.Name() == "AddName") {
		nm := cc.Args[len(cc.Args)-1]
		if k := nameKey(nm); k != "" {
			_, legal := s.G.Cells["$legal:"+k]
			_, path := paramFieldPath(nm)
			t.event("namecheck", call, callee.Name()+"("+path+")", "", TxnSt{}, !legal, map[string]string{"name": path})
		}
	}
	// ---- inlined helpers
	if callee != nil && t.inline[callee] {
		tracked := fav.K == KFunc
		for _, a := range args {
			switch a.K {
			case KTxn, KAtxn, KInode, KISlice, KPtr, KFunc, KNil:
				tracked = true
			}
		}
		sig := callee.Signature
		for i := 0; i < sig.Results().Len(); i++ {
			if isTrackedType(sig.Results().At(i).Type()) {
				tracked = true
			}
		}
		if t.beginsTxn(callee) {
			tracked = true
		}
		if tracked {
			// uses of inode arguments at the call
			for _, a := range args {
				t.useInode(s, call, a, "argument of "+callee.Name())
				if id, ok := t.txnOf(a); ok {
					if ts := s.G.Txns[id]; ts.St != "live" && a.K == KTxn && V.Terminators[callee] == "" {
						// passing a finished txn to a helper is judged by what the helper does
						_ = ts
					}
				}
			}
			for _, a := range args {
				if id, ok := t.txnOf(a); ok && a.K == KTxn {
					t.event("enter", call, callee.Name(), id, s.G.Txns[id], false, nil)
				}
			}
			t.pendingLegal = nil
			for i, a := range cc.Args {
				if k := nameKey(a); k != "" && i < len(callee.Params) {
					if _, legal := s.G.Cells["$legal:"+k]; legal {
						if t.pendingLegal == nil {
							t.pendingLegal = map[string]AV{}
						}
						t.pendingLegal["$legal:"+callee.Name()+":"+callee.Params[i].Name()+"."] = AV{K: KBool, B: true}
					}
				}
			}
			outs := t.execFn(callee, args, fav.Binds, s)
			var res []*State
			for _, o := range outs {
				ns := &State{G: o.G.clone(), Env: make(map[ssa.Value]AV, len(s.Env))}
				for k, v := range s.Env {
					ns.Env[k] = v
				}
				switch len(o.results) {
				case 0:
				case 1:
					if o.results[0].K != KTop {
						ns.Env[call] = o.results[0]
					}
				default:
					ns.Env[call] = AV{K: KTuple, Tup: o.results}
				}
				for i, tg := range o.tags {
					if tg == nil {
						continue
					}
					if len(o.tags) == 1 {
						ns.G.Cells[resKey(call, -1)] = *tg
					} else {
						ns.G.Cells[resKey(call, i)] = *tg
					}
				}
				// fallible steps: boolean result of a dir mutator
				t.tagStep(ns, call, callee, args)
				res = append(res, ns)
			}
			return res
		}
	}
	// a decoded handle keeps the request path it was decoded from
	if callee != nil && callee.Name() == "MakeFh" && relPkg(callee) == "fh" && len(cc.Args) == 1 {
		if p, ok := t.argPath(s, cc.Args[0]); ok {
			s.Env[call] = AV{K: KArg, Cell: "fh(" + p + ")"}
			return []*State{s}
		}
	}
	// ---- opaque call
	name := "?"
	if callee != nil {
		name = callee.Name()
	}
	for i, a := range args {
		t.useInode(s, call, a, "passed to "+name)
		if id, ok := t.txnOf(a); ok {
			ts := s.G.Txns[id]
			if ts.St != "live" {
				t.event("call-dead", call, fmt.Sprintf("%s called with transaction %s which is %s", name, id, ts.St), id, ts, true, nil)
			}
			if callee != nil && t.allocReach[callee] {
				ts.MayAlloc = true
				s.G.Txns[id] = ts
			}
		}
		_ = i
	}
	if callee != nil {
		t.tagStep(s, call, callee, args)
	}
	return []*State{s}
}

// tagStep marks boolean results of fallible mutating steps so that a later
// branch on them records the failure on the transaction.
func (t *TS) tagStep(s *State, call *ssa.Call, callee *ssa.Function, args []AV) {
	fall := map[string]int{"AddName": 0, "RemName": 0, "InitDir": 0, "MkRootDir": 0, "Write": 1}
	idx, ok := fall[callee.Name()]
	if !ok {
		return
	}
	rp := relPkg(callee)
	if rp != "dir" && rp != "inode" {
		return
	}
	var id string
	for _, a := range args {
		if x, ok := t.txnOf(a); ok {
			id = x
		}
	}
	if id == "" {
		return
	}
	if callee.Signature.Results().Len() == 1 {
		t.setResTag(s, call, -1, "step", id, callee)
	} else {
		t.setResTag(s, call, idx, "step", id, callee)
	}
}

func (t *TS) beginsTxn(f *ssa.Function) bool {
	r := t.c.P.Reach([]*ssa.Function{f}, func(x *ssa.Function) bool { return x == t.c.V.Begin || !IsRepoFunc(x) })
	return r[t.c.V.Begin]
}

func (t *TS) builtin(s *State, call *ssa.Call) []*State {
	bi := call.Call.Value.(*ssa.Builtin)
	switch bi.Name() {
	case "len":
		a := t.eval(s, call.Call.Args[0])
		_ = a
	case "append":
		a := t.eval(s, call.Call.Args[0])
		if a.K == KISlice {
			s.Env[call] = a
		}
	}
	return []*State{s}
}

func resKey(v ssa.Value, idx int) string {
	fn := ""
	if in, ok := v.(ssa.Instruction); ok && in.Parent() != nil {
		fn = in.Parent().Name()
	}
	return fmt.Sprintf("$res:%s#%d~%s", v.Name(), idx, fn)
}

// argPath: if v is (a field of) a value bound to the request argument,
// returns its field path relative to the request.
func (t *TS) argPath(s *State, v ssa.Value) (string, bool) {
	if a := t.eval(s, v); a.K == KArg {
		return a.Cell, true
	}
	pm, path := paramFieldPath(v)
	if pm == nil {
		return "", false
	}
	a, ok := s.Env[pm]
	if !ok || a.K != KArg {
		return "", false
	}
	if a.Cell == "" {
		return path, true
	}
	if path == "" {
		return a.Cell, true
	}
	return a.Cell + "." + path, true
}

// ---------------------------------------------------------------- liveness

// liveIn computes, per block of fn, the SSA values live on entry (classic
// backward dataflow; phi operands are uses at the end of the predecessor).
// The interpreter drops dead values from its environment at block entry so
// that loop iterations converge to the same abstract state.
var liveMemo = map[*ssa.Function][]map[ssa.Value]bool{}

func liveIn(fn *ssa.Function) []map[ssa.Value]bool {
	if l, ok := liveMemo[fn]; ok {
		return l
	}
	n := len(fn.Blocks)
	in := make([]map[ssa.Value]bool, n)
	out := make([]map[ssa.Value]bool, n)
	for i := range in {
		in[i] = map[ssa.Value]bool{}
		out[i] = map[ssa.Value]bool{}
	}
	tracked := func(v ssa.Value) bool {
		switch v.(type) {
		case *ssa.Const, *ssa.Function, *ssa.Global, *ssa.Builtin:
			return false
		}
		return v != nil
	}
	changed := true
	for changed {
		changed = false
		for bi := n - 1; bi >= 0; bi-- {
			b := fn.Blocks[bi]
			o := out[bi]
			for _, s := range b.Succs {
				for v := range in[s.Index] {
					if !o[v] {
						o[v] = true
						changed = true
					}
				}
				// phi operands of the successor for this edge
				idx := -1
				for i, p := range s.Preds {
					if p == b {
						idx = i
					}
				}
				for _, ins := range s.Instrs {
					phi, ok := ins.(*ssa.Phi)
					if !ok {
						break
					}
					if idx >= 0 && tracked(phi.Edges[idx]) && !o[phi.Edges[idx]] {
						o[phi.Edges[idx]] = true
						changed = true
					}
				}
			}
			live := map[ssa.Value]bool{}
			for v := range o {
				live[v] = true
			}
			for i := len(b.Instrs) - 1; i >= 0; i-- {
				ins := b.Instrs[i]
				if v, ok := ins.(ssa.Value); ok {
					delete(live, v)
				}
				if _, isPhi := ins.(*ssa.Phi); isPhi {
					continue
				}
				for _, op := range ins.Operands(nil) {
					if *op != nil && tracked(*op) {
						live[*op] = true
					}
				}
			}
			for v := range live {
				if !in[bi][v] {
					in[bi][v] = true
					changed = true
				}
			}
		}
	}
	liveMemo[fn] = in
	return in
}

// wrappedMethod: the method a compiler-made wrapper (thunk or bound-method
// closure) forwards to, when it consists of exactly that one call.
func wrappedMethod(fn *ssa.Function) *ssa.Function {
	if fn == nil || fn.Synthetic == "" || fn.Blocks == nil {
		return nil
	}
	var found *ssa.Function
	n := 0
	for _, b := range fn.Blocks {
		for _, in := range b.Instrs {
			if ci, ok := in.(ssa.CallInstruction); ok {
				n++
				found = ci.Common().StaticCallee()
				if found == nil && theProg != nil {
					// the wrapper of an interface method value: the one implementation, if there is one
					if cands := theProg.Callees(in); len(cands) == 1 {
						found = cands[0]
					}
				}
			}
		}
	}
	if n == 1 {
		return found
	}
	return nil
}

// terminatorOf: fn is a transaction terminator, or the synthetic wrapper the
// compiler makes for one taken as a method expression / method value.
func terminatorOf(V *Vocab, fn *ssa.Function) *ssa.Function {
	if fn == nil {
		return nil
	}
	if V.Terminators[fn] != "" {
		return fn
	}
	if fn.Synthetic == "" || fn.Blocks == nil {
		return nil
	}
	var found *ssa.Function
	n := 0
	for _, b := range fn.Blocks {
		for _, in := range b.Instrs {
			if ci, ok := in.(ssa.CallInstruction); ok {
				n++
				if cal := ci.Common().StaticCallee(); cal != nil && V.Terminators[cal] != "" {
					found = cal
				}
			}
		}
	}
	if n == 1 {
		return found
	}
	return nil
}

// terminatorThunkCallee: every function the call graph gives for this dynamic
// call is (a wrapper of) a terminator of one kind; the one to assume is the
// weakest (the asynchronous commit if it is among them).
func terminatorThunkCallee(c *Ctx, call ssa.Instruction) *ssa.Function {
	V := c.V
	cands := c.P.Callees(call)
	if len(cands) == 0 {
		return nil
	}
	var pick *ssa.Function
	kind := ""
	for _, f := range cands {
		tf := terminatorOf(V, f)
		if tf == nil {
			return nil
		}
		if kind != "" && V.Terminators[tf] != kind {
			return nil
		}
		kind = V.Terminators[tf]
		if pick == nil || tf == V.CommitUnstable {
			pick = tf
		}
	}
	return pick
}
