package main

import (
	"fmt"
	"go/token"
	"strings"

	"golang.org/x/tools/go/ssa"
)

func init() {
	props["C13"] = func(c *Ctx) {
		c.R.Expl = "Structural conditions of paged directory enumeration: (P1) the cookie returned for an entry and the position the scan resumes from for that cookie add up to exactly the next slot, and no cookie can equal the 'start from the beginning' value 0; (P2) each call invokes the callback before it may stop at a limit, and the scan offset strictly increases on every path through the loop body; (P3) the inode, handle, attributes and file id handed out for an entry are those of that entry's own inode number; (P4) the resume position depends on the cookie only."
		c.R.NotDec = "completeness and uniqueness of an enumeration under concurrent updates; the byte accounting of count/dircount/maxcount."
		ruleP1(c, "C13.P1")
		ruleP2(c, "C13.P2")
		ruleP3(c, "C13.P3")
		ruleP4(c, "C13.P4")
		ruleP5(c, "C13.P5")
		ruleL2f(c, "C13.P6", func(e string) bool { return strings.Contains(e, "READDIR") }, 4)
		// the directory stays locked for the whole enumeration (T1 for the listing procedures): a scan that lets go
		// of the directory in the middle continues on entries that may be gone
		ruleT1f(c, "C13.P9", func(e string) bool { return strings.Contains(e, "READDIR") }, 4)
		// a directory holds each name once (the name/link co-update discipline of C04.S2): a stale slot left by a
		// replaced name is listed next to the new one
		ruleS2(c, "C13.P10")
		ruleP11(c, "C13.P11")
		ruleP12(c, "C13.P12")
		ruleKind(c, "C13.P7")
		ruleP8(c, "C13.P8")
		// no name twice: the name cache that decides whether a name exists holds every name (a partial cache lets
		// CREATE add a second slot for an existing name - the enumeration then returns the name twice)
		ruleW2(c, "C13.P13")
	}
}

// cookieAdd: in the listing callback (closure of lister), the constant a such
// that Cookie = off + a (off = the callback's offset parameter).
func cookieAdd(lister *ssa.Function) (int64, token.Pos, bool) {
	for _, af := range lister.AnonFuncs {
		for _, b := range af.Blocks {
			for _, in := range b.Instrs {
				st, ok := in.(*ssa.Store)
				if !ok || !strings.HasSuffix(fieldPath(st.Addr), "Cookie") {
					continue
				}
				v := stripConv(st.Val)
				offp := af.Params[len(af.Params)-1]
				if v == ssa.Value(offp) {
					return 0, st.Pos(), true
				}
				if bo, ok := v.(*ssa.BinOp); ok && bo.Op == token.ADD {
					if stripConv(bo.X) == ssa.Value(offp) {
						if k, isk := constInt(stripConv(bo.Y)); isk {
							return k, st.Pos(), true
						}
					}
					if stripConv(bo.Y) == ssa.Value(offp) {
						if k, isk := constInt(stripConv(bo.X)); isk {
							return k, st.Pos(), true
						}
					}
				}
				return -1, st.Pos(), false
			}
		}
	}
	return -1, token.NoPos, false
}

// resumeAdd: in the scanner (dir.Apply / ApplyEnts), the constant b such that
// the scan for a non-zero cookie starts at cookie + b.
func resumeAdd(scan *ssa.Function) (int64, bool) {
	if len(scan.Params) < 3 {
		return -1, false
	}
	start := scan.Params[2] // (dip, op, start, ...)
	// the loop's offset phi: its non-back-edge input is start or start+b (via a phi on start != 0)
	var b int64
	found := false
	for _, blk := range scan.Blocks {
		for _, in := range blk.Instrs {
			bo, ok := in.(*ssa.BinOp)
			if !ok || bo.Op != token.ADD || reachableFrom(in, in) {
				continue
			}
			if stripConv(bo.X) == ssa.Value(start) {
				if k, isk := constInt(stripConv(bo.Y)); isk {
					b, found = k, true
				}
			}
		}
	}
	if !found {
		return 0, true
	}
	return b, true
}

func ruleP1(c *Ctx, id string) {
	P, R := c.P, c.R
	R.Rule(id, "cookies are unambiguous: cookie(entry at off) = off + a with a > 0 (so no cookie equals the start value 0), and the scan for cookie k resumes at k + b with a + b = DIRENTSZ (exactly the next slot)", 2)
	direntsz := int64(-1)
	if dp := P.Pkg("dir"); dp != nil {
		if o := dp.Types.Scope().Lookup("DIRENTSZ"); o != nil {
			direntsz, _ = constValInt(o)
		}
	}
	for _, pr := range [][2]string{{"nfs.Ls3", "dir.Apply"}, {"nfs.Readdir3", "dir.ApplyEnts"}} {
		l := c.fn(id, pr[0])
		s := c.fn(id, pr[1])
		if l == nil || s == nil {
			continue
		}
		R.Analysed[FuncName(l)] = true
		R.Analysed[FuncName(s)] = true
		// the lister passes its callback to the scanner
		calls := P.CallsIn(l, funcIs(s))
		if len(calls) != 1 {
			R.Fail(id, pr[0]+"|uses "+pr[1], P.Pos(l.Pos()), "the lister enumerates through the scanner", "no call")
			continue
		}
		a, pos, okA := cookieAdd(l)
		b, okB := resumeAdd(s)
		if !okA || !okB {
			R.Undecided(id, pr[0]+"|cookie form", P.Pos(pos), "cookie = off + const and resume = cookie + const", "unrecognised cookie / resume computation")
			continue
		}
		R.Check(a > 0, id, pr[0]+"|cookie differs from the start sentinel", P.Pos(pos), "cookie = off + a with a > 0, so the first entry's cookie is not 0", fmt.Sprintf("a = %d", a), fmt.Sprintf("cookie = off + %d: the entry at offset 0 gets cookie 0 = 'start from the beginning'; a page that ends after it makes the client resume at 0 for ever", a))
		R.Check(a+b == direntsz, id, pr[0]+"|resume at the next slot", P.Pos(pos), fmt.Sprintf("a + b = DIRENTSZ (%d): resuming from an entry's cookie starts at the following entry", direntsz), fmt.Sprintf("a=%d b=%d", a, b), fmt.Sprintf("a=%d b=%d: entries are skipped or repeated across pages", a, b))
		// the start cookie given to the scanner is the request's cookie unchanged
		st := stripConv(argN(calls[0], 2))
		_, isP := st.(*ssa.Parameter)
		R.Check(isP, id, pr[0]+"|cookie passed through", P.Pos(calls[0].Pos()), "the scanner receives the client's cookie unchanged", "parameter", "cookie modified before the scan")
	}
}

func ruleP2(c *Ctx, id string) {
	P, R := c.P, c.R
	R.Rule(id, "every call makes progress: the scan offset strictly increases by a positive constant on every path back to the loop head, and a page limit can end the loop only after the callback ran for the current entry", 4)
	for _, spec := range []string{"dir.Apply", "dir.ApplyEnts"} {
		s := c.fn(id, spec)
		if s == nil {
			continue
		}
		// the scan offset: a register stepped on the back edges, or a cell advanced by the body / a local closure
		off := findLoopVar(s, constOfPkg(P, "dir", "DIRENTSZ"))
		bodyFn, sub := s, Subst{}
		if off == nil {
			// the loop is held by a private iterator that is handed the body as a function literal
			if m := scanModelOf(c, s); m != nil {
				off = m.off
				bs := m.bodyScope()
				bodyFn, sub = bs.Fn, bs.S
			}
		}
		if off == nil {
			R.Undecided(id, spec+"|offset variable", P.Pos(s.Pos()), "the scan loop has an offset variable", "no variable stepped by DIRENTSZ found")
			continue
		}
		okInc, nBack := off.alwaysAdvances()
		R.Check(okInc && nBack > 0, id, spec+"|offset strictly increases", P.Pos(off.pos()), "every back edge of the scan loop carries off + c with c > 0", fmt.Sprintf("%d advancing sites, every way round the loop passes one", nBack), "a path through the loop body does not advance the offset: the scan never terminates")
		// callback before limit test
		fparam := funcParam(s)
		isCb := func(in ssa.Instruction) bool {
			cc := callCommon(in)
			return cc != nil && !cc.IsInvoke() && sub.resolve(stripConv(cc.Value)) == ssa.Value(fparam)
		}
		nLim := 0
		// the limit tests: conditions of branches, and comparisons whose value is handed back ("return n >= count":
		// the iterator that called the body ends the scan on it)
		lims := branches(bodyFn)
		for _, b := range bodyFn.Blocks {
			for _, in := range b.Instrs {
				bo, ok := in.(*ssa.BinOp)
				if !ok {
					continue
				}
				switch bo.Op {
				case token.GEQ, token.GTR, token.LSS, token.LEQ:
				default:
					continue
				}
				isCond := false
				for _, r := range refs(bo) {
					if _, isIf := r.(*ssa.If); isIf {
						isCond = true
					}
				}
				if !isCond {
					lims = append(lims, Branch{Block: b, Cond: Cond{Op: bo.Op, X: bo.X, Y: bo.Y}})
				}
			}
		}
		for _, br := range lims {
			// limit tests compare against a parameter (count / dircount / maxcount)
			isLimit := false
			for _, v := range []ssa.Value{br.Cond.X, br.Cond.Y} {
				if v == nil {
					continue
				}
				// the size limits are the integer parameters between the start cookie and the callback
				if pm, ok := sub.resolve(stripConv(v)).(*ssa.Parameter); ok {
					for i, q := range s.Params {
						if q == pm && i > 2 && q != fparam {
							isLimit = true
						}
					}
				}
			}
			if !isLimit && br.Cond.Op == token.ILLEGAL {
				// "limit reached?" computed by an accounting helper that is handed a limit parameter
				cv := stripConv(br.Cond.X)
				var hc *ssa.Call
				if ex, ok := cv.(*ssa.Extract); ok {
					hc, _ = ex.Tuple.(*ssa.Call)
				} else {
					hc, _ = cv.(*ssa.Call)
				}
				if hc != nil && staticCallee(hc) != nil && isPrivateHelper(staticCallee(hc)) {
					for _, a := range hc.Call.Args {
						if pm, ok := sub.resolve(stripConv(a)).(*ssa.Parameter); ok {
							for i, q := range s.Params {
								if q == pm && i > 2 && q != fparam {
									isLimit = true
								}
							}
						}
					}
				}
			}
			if !isLimit {
				continue
			}
			nLim++
			last := br.Block.Instrs[len(br.Block.Instrs)-1]
			R.Check(MustBefore(bodyFn, isCb)(last), id, fmt.Sprintf("%s|limit#%d after the callback", spec, nLim), P.Pos(last.Pos()), "a page-size test is reached only after the callback was invoked in this call", "must-precede", "a page can end before any entry was produced: the client gets an empty non-final page and loops")
		}
		if nLim == 0 {
			R.Fail(id, spec+"|limits", P.Pos(s.Pos()), "the scanner tests its size limits", "no limit test found")
		}
	}
}

func ruleP3(c *Ctx, id string) {
	V, P, R := c.V, c.P, c.R
	R.Rule(id, "attributes and handles are those of the named object: the inode handed to the callback is acquired for the entry's own inode number; name and number come from the same decoded entry; Ls3 builds handle and attributes from that inode and the file id from that number", 5)
	ap := c.fn(id, "dir.Apply")
	ls := c.fn(id, "nfs.Ls3")
	if ap == nil || ls == nil {
		return
	}
	fparam := funcParam(ap)
	var sites []ssa.Instruction
	// the callback is invoked in Apply's body, or in the function literal Apply hands to a slot iterator
	for _, sc := range scopesOf(ap) {
		for _, b := range sc.Fn.Blocks {
			for _, in := range b.Instrs {
				cc := callCommon(in)
				if cc == nil || cc.IsInvoke() || sc.S.resolve(stripConv(cc.Value)) != ssa.Value(fparam) {
					continue
				}
				sites = append(sites, in)
			}
		}
	}
	{
		for _, in := range sites {
			cc := callCommon(in)
			// f(ip, de.name, de.inum, off)
			ipv, namev, inumv := cc.Args[0], cc.Args[1], cc.Args[2]
			_, nfl, nbase, _ := loadedField(namev)
			_, ifl, ibase, _ := loadedField(inumv)
			sameEnt := nfl == "name" && ifl == "inum" && nbase != nil && nbase == ibase
			R.Check(sameEnt, id, "dir.Apply|name and number of one entry", P.Pos(in.Pos()), "the callback receives name and inum of the same decoded entry", "same dirEnt value", "name and number come from different entries")
			okAcq := true
			nsrc := 0
			// judge: one producer of the inode value, under the substitution of the helper scope it lives in
			var judge func(v ssa.Value, sub Subst, depth int)
			judge = func(v ssa.Value, sub Subst, depth int) {
				cl, ok := v.(*ssa.Call)
				if !ok {
					return
				}
				cal := staticCallee(cl)
				if cal != nil && (V.Acquirers[cal] || cal == V.GetInodeUnlocked) {
					nsrc++
					_, afl, abase, _ := loadedFieldS(argN(cl, 0), sub)
					if afl != "inum" || abase != ibase {
						okAcq = false
					}
					return
				}
				// a private helper that returns the acquired inode: look at what it returns
				if cal == nil || !isPrivateHelper(cal) || cal.Blocks == nil || depth > 1 {
					okAcq = false
					return
				}
				hs := Subst{}
				for i, p := range cal.Params {
					if i < len(cl.Call.Args) {
						hs[p] = sub.resolve(cl.Call.Args[i])
					}
				}
				for _, b := range cal.Blocks {
					r, isR := b.Instrs[len(b.Instrs)-1].(*ssa.Return)
					if !isR {
						continue
					}
					for _, res := range r.Results {
						if !isNamed(res.Type(), "/inode", "Inode") {
							continue
						}
						for w := range bwdSources(res) {
							judge(w, hs, depth+1)
						}
					}
				}
			}
			for v := range bwdSources(ipv) {
				judge(v, Subst{}, 0)
				// an inode that was not acquired for this entry at all (the listed directory itself, a captured one)
				switch v.(type) {
				case *ssa.Parameter, *ssa.FreeVar, *ssa.Global:
					okAcq = false
				}
			}
			R.Check(okAcq && nsrc > 0, id, "dir.Apply|inode of the entry's number", P.Pos(in.Pos()), "the inode passed to the callback was acquired for de.inum of this entry", fmt.Sprintf("%d acquisition sources, all on de.inum", nsrc), "the attributes returned for a name are those of another object")
		}
	}
	for _, af := range ls.AnonFuncs {
		if len(af.Params) != 4 {
			continue
		}
		ip, inum := af.Params[0], af.Params[2]
		okFattr, okFh, okId := false, false, false
		for _, b := range af.Blocks {
			for _, in := range b.Instrs {
				if callTo(V.MkFattr)(in) && recvOf(in) == ssa.Value(ip) {
					okFattr = true
				}
				if st, ok := in.(*ssa.Store); ok {
					p := fieldPath(st.Addr)
					if p == "Ino" || p == "Gen" {
						n, fl, base, _ := loadedField(st.Val)
						want := map[string]string{"Ino": "Inum", "Gen": "Gen"}[p]
						if n == V.Inode && fl == want && base == ssa.Value(ip) {
							if p == "Gen" {
								okFh = true
							}
						}
					}
					if strings.HasSuffix(p, "Fileid") && stripConv(st.Val) == ssa.Value(inum) {
						okId = true
					}
				}
			}
		}
		R.Check(okFattr, id, "nfs.Ls3|attributes of the entry's inode", P.Pos(af.Pos()), "attributes are computed from the inode passed by the scanner", "ip.MkFattr()", "attributes of another inode")
		R.Check(okFh, id, "nfs.Ls3|handle of the entry's inode", P.Pos(af.Pos()), "the handle is (ip.Inum, ip.Gen) of that inode", "fields of ip", "handle of another object")
		R.Check(okId, id, "nfs.Ls3|file id is the entry's number", P.Pos(af.Pos()), "Fileid is the inode number of the directory entry", "inum parameter", "file id of another object")
	}
}

// ruleP4: end-of-directory is reported only when the scan ran off the end.
func ruleP4(c *Ctx, id string) {
	P, R := c.P, c.R
	R.Rule(id, "end-of-directory is honest: the scanners return eof = true only along the exit of the scan loop through its own bound test (offset < directory size is false); a page that stops at a limit returns the constant false", 2)
	for _, spec := range []string{"dir.Apply", "dir.ApplyEnts"} {
		s := c.fn(id, spec)
		if s == nil {
			continue
		}
		R.Analysed[FuncName(s)] = true
		_, bound := scanBound(c, s)
		if bound == nil {
			// the loop is not written in the scanner (a private iterator that is handed the body), or the result
			// lives in a cell: explored path by path
			m := scanModelOf(c, s)
			if m == nil {
				R.Undecided(id, spec+"|bound test", P.Pos(s.Pos()), "the scan loop tests offset < directory size", "no such test found")
				continue
			}
			scanPolarity(c, id, spec, m.loop.Fn, m.bound)
			ok, why, n := m.trueOnlyAtEnd()
			R.Check(ok && n > 0, id, spec+"|eof only at the end", P.Pos(s.Pos()), "the result is true only on paths that left the slot loop through its bound test", fmt.Sprintf("%d returning paths explored", n), why+": a page that ends before the last entry reports end-of-directory, the remaining entries are never returned")
			continue
		}
		scanPolarity(c, id, spec, s, bound)
		// a way out of the loop other than its bound test (a page limit) must be able to say "not at the end": the
		// result takes the constant false somewhere
		{
			cont := bound.True
			if cont == nil || !reachesBlock(cont, bound.Block) {
				cont = bound.False
			}
			inLoop := func(b *ssa.BasicBlock) bool {
				return b == bound.Block || (reachesBlock(cont, b) && reachesBlock(b, bound.Block))
			}
			limitExit := false
			for _, b := range s.Blocks {
				if b == bound.Block || !inLoop(b) {
					continue
				}
				for _, sx := range b.Succs {
					if !inLoop(sx) {
						if _, isPanic := sx.Instrs[len(sx.Instrs)-1].(*ssa.Panic); !isPanic {
							limitExit = true
						}
					}
				}
			}
			if limitExit {
				hasFalse := false
				seenV := map[ssa.Value]bool{}
				var walk func(v ssa.Value, d int)
				walk = func(v ssa.Value, d int) {
					if ph, isP := v.(*ssa.Phi); isP && d < 8 && !seenV[ph] {
						seenV[ph] = true
						for _, e := range ph.Edges {
							walk(e, d+1)
						}
						return
					}
					if bv, isb := constBool(v); isb && !bv {
						hasFalse = true
					}
					if _, isb := constBool(v); !isb {
						if _, isP := v.(*ssa.Phi); !isP {
							hasFalse = true // computed: judged by trueOnlyViaBound
						}
					}
				}
				for _, b := range s.Blocks {
					if r, isR := b.Instrs[len(b.Instrs)-1].(*ssa.Return); isR && len(r.Results) == 1 {
						walk(r.Results[0], 0)
					}
				}
				R.Check(hasFalse, id, spec+"|a page limit can say 'more'", P.Pos(s.Pos()), "the loop has a way out besides its bound test, and the result can be false", "constant false among the result's sources", "the loop is left at a page limit, but the result is true whatever way it was left: a page that stops early reports end-of-directory - the client stops asking and never sees the remaining entries")
			}
		}
		ok, why, n := trueOnlyViaBound(s, bound)
		R.Check(ok && n > 0, id, spec+"|eof only at the end", P.Pos(s.Pos()), "the result is true only through the loop's bound test and the constant false at every limit exit", fmt.Sprintf("%d constant sources, true only via the bound test", n), why+": a page that ends before the last entry reports end-of-directory, the remaining entries are never returned")
	}
}

// scanBound finds, in a directory scanner, the offset variable (a phi stepped
// by DIRENTSZ) and the loop's bound test "off < dip.Size" (dip = first parameter).
func scanBound(c *Ctx, s *ssa.Function) (*loopVar, *Branch) {
	off := findLoopVar(s, constOfPkg(c.P, "dir", "DIRENTSZ"))
	if off == nil {
		return nil, nil
	}
	for _, br := range branches(s) {
		br := br
		if br.Cond.X == nil || br.Cond.Y == nil {
			continue
		}
		// off < size (stay in the loop) or off >= size (leave it), either way round
		op, x, y := br.Cond.Op, br.Cond.X, br.Cond.Y
		if off.is(y) {
			op, x, y = flipOp(op), y, x
		}
		n, fl, base, _ := loadedField(y)
		if (op == token.LSS || op == token.GEQ) && off.is(x) && n == c.V.Inode && fl == "Size" && base == ssa.Value(s.Params[0]) {
			return off, &br
		}
	}
	return off, nil
}

// trueOnlyViaBound: the boolean result of s is built from constants only, and
// the constant true reaches a return only through the scan loop's bound test.
func trueOnlyViaBound(s *ssa.Function, bound *Branch) (bool, string, int) {
	ok, why, n := true, "", 0
	var visit func(v ssa.Value, pred *ssa.BasicBlock, seen map[ssa.Value]bool)
	visit = func(v ssa.Value, pred *ssa.BasicBlock, seen map[ssa.Value]bool) {
		if phi, isPhi := v.(*ssa.Phi); isPhi {
			if seen[phi] {
				return
			}
			seen[phi] = true
			for i, e := range phi.Edges {
				if e == ssa.Value(phi) {
					continue
				}
				visit(e, phi.Block().Preds[i], seen)
			}
			return
		}
		n++
		b, isb := constBool(v)
		if !isb {
			ok, why = false, "the result is computed ("+v.String()+"), not the constant of an exit"
			return
		}
		if b && pred != nil && pred != bound.Block && !pred.Dominates(bound.Block) {
			ok, why = false, "the constant true reaches the result from "+pred.String()+", not through the bound test"
		}
	}
	for _, b := range s.Blocks {
		if r, isR := b.Instrs[len(b.Instrs)-1].(*ssa.Return); isR && len(r.Results) == 1 {
			res := r.Results[0]
			if phi, isPhi := res.(*ssa.Phi); isPhi {
				for i, e := range phi.Edges {
					pred := phi.Block().Preds[i]
					if bv, isb := constBool(e); isb && bv && pred != bound.Block {
						ok, why = false, "true on an exit that is not the bound test"
					}
					visit(e, pred, map[ssa.Value]bool{})
				}
			} else {
				visit(res, nil, map[ssa.Value]bool{})
			}
		}
	}
	return ok, why, n
}

// ruleP5: every cookie the server hands out is accepted back.  The cookie of
// the entry in the last slot is the directory size itself (P1: cookie = offset
// + DIRENTSZ), and a page can end exactly there with eof = false.
func ruleP5(c *Ctx, id string) {
	V, P, R := c.V, c.P, c.R
	R.Rule(id, "handed-out cookies are accepted: a comparison of the request's cookie with the directory size refuses only cookies greater than the size (the last entry's cookie equals the size)", 0)
	n := 0
	for _, h := range V.NfsProcs {
		for _, br := range branches(h) {
			if br.Cond.X == nil || br.Cond.Y == nil {
				continue
			}
			op, a, b := br.Cond.Op, br.Cond.X, br.Cond.Y
			isCookie := func(v ssa.Value) bool {
				_, path := paramFieldPath(v)
				if path == "Cookie" {
					return true
				}
				if cv, ok := v.(*ssa.Convert); ok {
					_, p2 := paramFieldPath(cv.X)
					return p2 == "Cookie"
				}
				return false
			}
			isSize := func(v ssa.Value) bool {
				nm, fl, _, _ := loadedField(v)
				return nm == V.Inode && fl == "Size"
			}
			if isSize(a) && isCookie(b) {
				op, a, b = flipOp(op), b, a
			}
			if !isCookie(a) || !isSize(b) {
				continue
			}
			n++
			// which side is the error side?  the side from which a BAD_COOKIE / error status store is reached: accept
			// only the forms whose refusing side is cookie > size
			okForm := op == token.GTR || op == token.LEQ
			R.Check(okForm, id, fmt.Sprintf("%s|cookie vs directory size", h.Name()), P.Pos(h.Pos()), "the cookie is compared with the size as cookie > size (refuse) / cookie <= size (accept)", "strict", fmt.Sprintf("the test is cookie %s size: the cookie of the entry in the last slot (= size) is refused with BAD_COOKIE when a page ends exactly there; the enumeration never ends", op))
		}
	}
	if n == 0 {
		R.Pass(id, "handlers|no upper bound on cookies", "?", "no handler compares the cookie with the directory size: every aligned cookie is accepted (a cookie beyond the end yields an empty page with eof)", "nothing to agree")
	}
}

// ruleP8: a cookie stays valid while the client pages through a directory
// that changes under it: the entry that ended the previous page may be gone by
// the time the cookie comes back.  Whether a cookie is refused must therefore
// depend on the cookie (and at most the directory's size) alone - never on
// what the directory contains at that slot now.
func ruleP8(c *Ctx, id string) {
	V, P, R := c.V, c.P, c.R
	R.Rule(id, "a cookie is refused on its own merits: the tests that lead to NFS3ERR_BAD_COOKIE do not read the directory's content (no Inode.Read / block read in what they compute)", 1)
	bad := constOfPkg(P, "nfstypes", "NFS3ERR_BAD_COOKIE")
	readsContent := func(f *ssa.Function) bool {
		if f == nil || !IsRepoFunc(f) {
			return false
		}
		r := P.Reach([]*ssa.Function{f}, func(x *ssa.Function) bool { return !IsRepoFunc(x) })
		return r[V.InodeRead] || r[V.ReadBlock] || f == V.InodeRead || f == V.ReadBlock
	}
	n := 0
	seen := map[string]int{}
	forStatusConst(c, bad, func(fn *ssa.Function, at *ssa.BasicBlock, pos token.Pos) {
		n++
		k := FuncName(ownerOf(fn)) + "|BAD_COOKIE decided without reading the directory"
		seen[k]++
		if seen[k] > 1 {
			k = fmt.Sprintf("%s#%d", k, seen[k])
		}
		R.Analysed[FuncName(fn)] = true
		why := ""
		for _, br := range branches(fn) {
			// the tests this site hangs on: one side of the test dominates it, the other does not
			onT := br.True == at || (len(br.True.Preds) == 1 && br.True.Dominates(at))
			onF := br.False == at || (len(br.False.Preds) == 1 && br.False.Dominates(at))
			if onT == onF {
				continue
			}
			for _, v := range []ssa.Value{br.Cond.X, br.Cond.Y} {
				if v == nil {
					continue
				}
				for w := range bwdAll(v) {
					if cl, ok := w.(*ssa.Call); ok && readsContent(staticCallee(cl)) {
						why = FuncName(staticCallee(cl)) + " at " + P.Pos(cl.Pos())
					}
				}
			}
		}
		R.Check(why == "", id, k, P.Pos(pos), "the tests that lead to the refusal look at the cookie (and the directory's size) only", "no content read in the deciding conditions", "the refusal depends on what the directory holds now ("+why+"): when the entry that ended the previous page is removed between two calls, the cookie the client legitimately holds is answered BAD_COOKIE and the rest of the directory is never listed")
	})
	if n == 0 {
		R.Pass(id, "handlers|BAD_COOKIE never answered", "?", "no handler refuses cookies", "nothing to judge")
	}
}

// ruleP11: what the scanner enumerates reaches the client.  (a) the callback a
// lister hands to the scanner links every entry it is given into the list, on
// every path - the callback cannot tell the scanner to stop, so an entry it
// drops is lost while the scanner goes on to report end-of-directory; (b) the
// lister returns that list together with the scanner's own eof answer; (c) the
// handler puts the lister's result into the reply on every path to its
// success commit - also when the page has no entry: then the eof flag is all
// the client gets, and without it the enumeration never ends.
func ruleP11(c *Ctx, id string) {
	P, R := c.P, c.R
	R.Rule(id, "the listing reaches the client: the listers' callbacks link every entry they are handed on every path; the listers return that list with the scanner's eof; READDIR and READDIRPLUS store the lister's result in the reply on every path to the commit", 6)
	for _, pr := range []struct{ lister, scanner, handler string }{
		{"nfs.Ls3", "dir.Apply", "nfs.(*Nfs).NFSPROC3_READDIRPLUS"},
		{"nfs.Readdir3", "dir.ApplyEnts", "nfs.(*Nfs).NFSPROC3_READDIR"},
	} {
		ls := c.fn(id, pr.lister)
		sc := c.fn(id, pr.scanner)
		h := c.fn(id, pr.handler)
		if ls == nil || sc == nil || h == nil {
			continue
		}
		R.Analysed[FuncName(ls)] = true
		// (a) the callback
		var scan *ssa.Call
		for _, lsc := range scopesOf(ls) {
			for _, in := range P.CallsIn(lsc.Fn, funcIs(sc)) {
				if cl, ok := in.(*ssa.Call); ok {
					scan = cl
				}
			}
		}
		if scan == nil {
			R.Fail(id, pr.lister+"|scans", P.Pos(ls.Pos()), "the lister calls the scanner", "no call of "+pr.scanner)
			continue
		}
		var cb *ssa.Function
		args := scan.Call.Args
		switch a := args[len(args)-1].(type) {
		case *ssa.MakeClosure:
			cb, _ = a.Fn.(*ssa.Function)
		case *ssa.Function:
			cb = a
		}
		if cb == nil || cb.Blocks == nil {
			R.Undecided(id, pr.lister+"|callback", P.Pos(scan.Pos()), "the callback handed to the scanner is a function literal", "not recognised")
			continue
		}
		// the entry object made for this call, and the stores that link it: into a captured list variable or
		// into the Nextentry field of the previous entry
		linkStore := func(in ssa.Instruction, isEntry func(ssa.Value) bool) bool {
			st, ok := in.(*ssa.Store)
			if !ok || !isEntry(stripConv(st.Val)) {
				return false
			}
			if _, isFV := st.Addr.(*ssa.FreeVar); isFV {
				return true
			}
			if fa, isFA := st.Addr.(*ssa.FieldAddr); isFA {
				if n, f, _ := FieldOf(fa); n != nil && f == "Nextentry" {
					return true
				}
			}
			// through a "where the next entry goes" pointer kept outside the callback (*tail = e)
			if ld, isL := st.Addr.(*ssa.UnOp); isL && ld.Op == token.MUL {
				switch ld.X.(type) {
				case *ssa.FreeVar, *ssa.FieldAddr:
					return true
				}
			}
			return false
		}
		isNew := func(v ssa.Value) bool { _, ok := v.(*ssa.Alloc); return ok }
		isLink := func(in ssa.Instruction) bool {
			if linkStore(in, isNew) {
				return true
			}
			// the linking may be done by a local function that is handed the new entry
			call, ok := in.(*ssa.Call)
			if !ok {
				return false
			}
			var g *ssa.Function
			if f2, _ := closureCallee(call); f2 != nil {
				g = f2
			} else if sc2 := call.Call.StaticCallee(); sc2 != nil && isPrivateHelper(sc2) {
				g = sc2
			} else if ld, isL := call.Call.Value.(*ssa.UnOp); isL && ld.Op == token.MUL {
				// a local function kept in a variable that the callback captured
				var mcs []*ssa.MakeClosure
				sts := cellStores(ld.X)
				for _, st := range sts {
					if mc, isMC := st.Val.(*ssa.MakeClosure); isMC {
						mcs = append(mcs, mc)
					}
				}
				if len(sts) == 1 && len(mcs) == 1 {
					g, _ = mcs[0].Fn.(*ssa.Function)
				}
			} else if fv, isFV := call.Call.Value.(*ssa.FreeVar); isFV {
				// ... captured by value: the closure the enclosing function bound
				cf := fv.Parent()
				for i, q := range cf.FreeVars {
					if q != fv || cf.Parent() == nil {
						continue
					}
					for _, b2 := range cf.Parent().Blocks {
						for _, in2 := range b2.Instrs {
							if mc, isMC := in2.(*ssa.MakeClosure); isMC && mc.Fn == ssa.Value(cf) && i < len(mc.Bindings) {
								if inner, isIn := mc.Bindings[i].(*ssa.MakeClosure); isIn {
									g, _ = inner.Fn.(*ssa.Function)
								}
							}
						}
					}
				}
			}
			if g == nil || g.Blocks == nil {
				return false
			}
			for i, a := range call.Call.Args {
				if !isNew(stripConv(a)) || i >= len(g.Params) {
					continue
				}
				pm := g.Params[i]
				isP := func(v ssa.Value) bool { return v == ssa.Value(pm) }
				ls2 := func(x ssa.Instruction) bool { return linkStore(x, isP) }
				e0 := g.Blocks[0].Instrs[0]
				if ls2(e0) || MustAfter(g, ls2, nil)(e0) {
					return true
				}
			}
			return false
		}
		entry := cb.Blocks[0].Instrs[0]
		always := isLink(entry) || MustAfter(cb, isLink, nil)(entry)
		R.Check(always, id, pr.lister+"|callback links every entry", P.Pos(cb.Pos()), "every path of the callback stores the new entry into the list (head variable or the previous entry's Nextentry)", "must-follow from the callback's entry", "a path of the callback returns without linking the entry it was handed: the scanner cannot be told to stop, goes on to the end and reports end-of-directory - the dropped entries are never returned")
		// (a') the previous entry is written only where there is one: a store into the Nextentry of the entry a
		// captured variable points to lies on the "not nil" side of a test of that variable
		for _, g := range append([]*ssa.Function{cb}, cb.AnonFuncs...) {
			for _, b := range g.Blocks {
				for _, in := range b.Instrs {
					st, ok := in.(*ssa.Store)
					if !ok {
						continue
					}
					fa, isFA := st.Addr.(*ssa.FieldAddr)
					if !isFA {
						continue
					}
					if n, f, _ := FieldOf(fa); n == nil || f != "Nextentry" {
						continue
					}
					ld, isL := stripConv(fa.X).(*ssa.UnOp)
					if !isL || ld.Op != token.MUL {
						continue
					}
					cell, isFV := ld.X.(*ssa.FreeVar)
					if !isFV {
						continue
					}
					g2 := guardedBy(g, b, func(cd Cond) (bool, bool) {
						if cd.Op != token.EQL && cd.Op != token.NEQ {
							return false, false
						}
						for _, pr2 := range [][2]ssa.Value{{cd.X, cd.Y}, {cd.Y, cd.X}} {
							if pr2[0] == nil || pr2[1] == nil || !isNilConst(pr2[1]) {
								continue
							}
							if l2, ok := stripConv(pr2[0]).(*ssa.UnOp); ok && l2.Op == token.MUL && l2.X == ssa.Value(cell) {
								return true, cd.Op == token.NEQ
							}
						}
						return false, false
					})
					R.Check(g2, id, pr.lister+"|previous entry written only where there is one", P.Pos(st.Pos()), "the store into the previous entry's Nextentry lies on the side where the 'last entry' variable is not nil", "dominated by the != nil side", "the first entry of a page is linked behind a previous entry that does not exist: nil pointer dereference in the callback, with the directory locked - every listing crashes the server")
				}
			}
		}
		// (a'') head-and-last lists: when the callback links through "last.Nextentry" (last = a captured variable),
		// every path also makes the new entry the last one, and every path stores it either behind the previous
		// entry or into another captured variable (the head) - and the head is what the lister returns
		{
			var tail *ssa.FreeVar
			for _, b := range cb.Blocks {
				for _, in := range b.Instrs {
					if st, ok := in.(*ssa.Store); ok {
						if fa, isFA := st.Addr.(*ssa.FieldAddr); isFA {
							if n, f, _ := FieldOf(fa); n != nil && f == "Nextentry" {
								if ld, isL := stripConv(fa.X).(*ssa.UnOp); isL && ld.Op == token.MUL {
									if fv, isFV := ld.X.(*ssa.FreeVar); isFV {
										tail = fv
									}
								}
							}
						}
					}
				}
			}
			if tail == nil {
				// ... or the variable the callback tests for nil before it links
				for _, br := range branches(cb) {
					if br.Cond.Op != token.EQL && br.Cond.Op != token.NEQ {
						continue
					}
					for _, pr2 := range [][2]ssa.Value{{br.Cond.X, br.Cond.Y}, {br.Cond.Y, br.Cond.X}} {
						if pr2[0] == nil || pr2[1] == nil || !isNilConst(pr2[1]) {
							continue
						}
						if ld, isL := stripConv(pr2[0]).(*ssa.UnOp); isL && ld.Op == token.MUL {
							if fv, isFV := ld.X.(*ssa.FreeVar); isFV {
								tail = fv
							}
						}
					}
				}
			}
			if tail != nil {
				toCell := func(cell *ssa.FreeVar) func(ssa.Instruction) bool {
					return func(in ssa.Instruction) bool {
						st, ok := in.(*ssa.Store)
						return ok && st.Addr == ssa.Value(cell) && isNew(stripConv(st.Val))
					}
				}
				behind := func(in ssa.Instruction) bool {
					st, ok := in.(*ssa.Store)
					if !ok || !isNew(stripConv(st.Val)) {
						return false
					}
					fa, isFA := st.Addr.(*ssa.FieldAddr)
					if !isFA {
						return false
					}
					n, f, _ := FieldOf(fa)
					return n != nil && f == "Nextentry"
				}
				var heads []*ssa.FreeVar
				for _, fv := range cb.FreeVars {
					if fv == tail {
						continue
					}
					for _, r := range refs(fv) {
						if toCell(fv)(r) {
							heads = append(heads, fv)
							break
						}
					}
				}
				e0 := cb.Blocks[0].Instrs[0]
				lastOK := toCell(tail)(e0) || MustAfter(cb, toCell(tail), nil)(e0)
				R.Check(lastOK, id, pr.lister+"|every entry becomes the last one", P.Pos(cb.Pos()), "every path of the callback stores the new entry into the 'last entry' variable", "must-follow", "a path links the entry but does not make it the last one: the next entry is linked behind an older one and replaces what was there - entries vanish from the listing")
				placed := func(in ssa.Instruction) bool {
					if behind(in) {
						return true
					}
					for _, h := range heads {
						if toCell(h)(in) {
							return true
						}
					}
					return false
				}
				placedOK := placed(e0) || MustAfter(cb, placed, nil)(e0)
				R.Check(len(heads) > 0 && placedOK, id, pr.lister+"|every entry is placed in the list", P.Pos(cb.Pos()), "every path stores the new entry into the head variable or behind the previous entry", fmt.Sprintf("%d head variable(s)", len(heads)), "an entry is made the last one without being reachable from the head: the listing is empty, or ends after its first entry")
				// the head is what is returned: the lister's Entries come from a variable the callback fills
				fromHead := false
				for _, b := range ls.Blocks {
					for _, in := range b.Instrs {
						st, ok := in.(*ssa.Store)
						if !ok {
							continue
						}
						if _, f, _ := FieldOf(st.Addr); f != "Entries" {
							continue
						}
						if ld, isL := stripConv(st.Val).(*ssa.UnOp); isL && ld.Op == token.MUL {
							// the cell the lister owns, bound into the callback as one of its heads
							for i, fv := range cb.FreeVars {
								for _, h := range heads {
									if fv != h {
										continue
									}
									if mc, isMC := args[len(args)-1].(*ssa.MakeClosure); isMC && i < len(mc.Bindings) && mc.Bindings[i] == ld.X {
										fromHead = true
									}
								}
							}
						}
					}
				}
				if len(heads) > 0 {
					R.Check(fromHead, id, pr.lister+"|the list returned is the one built", P.Pos(ls.Pos()), "Entries is loaded from the head variable the callback fills", "same cell", "the lister returns another variable than the head of the list its callback builds")
				}
			}
		}
		// (b) the result: Entries from the list head, Eof from the scanner's answer
		okEof, okEnt := false, false
		for _, b := range ls.Blocks {
			for _, in := range b.Instrs {
				st, ok := in.(*ssa.Store)
				if !ok {
					continue
				}
				n, f, _ := FieldOf(st.Addr)
				if n == nil {
					continue
				}
				switch f {
				case "Eof":
					if stripConv(st.Val) == ssa.Value(scan) {
						okEof = true
					}
				case "Entries":
					okEnt = true
				}
			}
		}
		R.Check(okEof && okEnt, id, pr.lister+"|returns the list and the scanner's eof", P.Pos(scan.Pos()), "the result's Eof is the scanner's answer and its Entries the list built by the callback", "stores of both fields", "the lister reports another end-of-directory than the scanner found")
		// (c) the handler
		R.Analysed[FuncName(h)] = true
		for _, hsc := range scopesOf(h) {
			for _, in := range P.CallsIn(hsc.Fn, funcIs(ls)) {
				lc, ok := in.(*ssa.Call)
				if !ok {
					continue
				}
				isPut := func(x ssa.Instruction) bool {
					st, ok := x.(*ssa.Store)
					if !ok || stripConv(st.Val) != ssa.Value(lc) {
						return false
					}
					return strings.HasSuffix(fieldPath(st.Addr), "Reply")
				}
				// on every path on from the call (to the commit in this function, or to the return of the body that a
				// committing helper runs) the result is stored
				okAll := MustAfter(hsc.Fn, isPut, nil)(lc)
				R.Check(okAll, id, pr.handler[strings.LastIndex(pr.handler, ".")+1:]+"|listing stored in the reply on every path", P.Pos(lc.Pos()), "every path on from the lister's call stores its result in Resok.Reply", "must-follow", "a path commits and answers NFS3_OK without the listing (for instance when the page has no entry): the end-of-directory flag is lost, the client asks again with the same cookie for ever")
			}
		}
	}
}

// scanPolarity: the slot loop goes on while offset < size: what reads the slot
// (Inode.Read, or the body handed to an iterator) lies on that side of the
// bound test.  A test the wrong way round lists nothing and reports the end.
func scanPolarity(c *Ctx, id, spec string, loopFn *ssa.Function, bound *Branch) {
	V, P, R := c.V, c.P, c.R
	op := bound.Cond.Op
	// normalised to "offset op size" by the finders: LSS continues on True, GEQ on False
	if n, fl, _, _ := loadedField(bound.Cond.X); n == V.Inode && fl == "Size" {
		op = flipOp(op)
	}
	cont := bound.True
	if op == token.GEQ {
		cont = bound.False
	}
	nr := 0
	okAll := true
	for _, b := range loopFn.Blocks {
		for _, in := range b.Instrs {
			if _, isC := in.(*ssa.Call); !isC {
				continue
			}
			g := staticCallee(in)
			isRead := g != nil && g == V.InodeRead
			if !isRead {
				continue
			}
			if !reachableFrom(in, bound.Block.Instrs[len(bound.Block.Instrs)-1]) {
				continue // not in the loop
			}
			nr++
			if !(cont == b || cont.Dominates(b)) {
				okAll = false
			}
		}
	}
	if nr == 0 {
		return // the slot is read elsewhere (form B): trueOnlyAtEnd explores the paths
	}
	R.Check(okAll, id, spec+"|the loop runs while offset < size", P.Pos(bound.Block.Instrs[len(bound.Block.Instrs)-1].Pos()), "the read of the slot lies on the side of the bound test where the offset is below the directory size", "offset "+op.String()+" size", "the bound test is the wrong way round: the scan reads nothing (or reads past the end) and reports the end of the directory - a listing loses every entry")
}

// ruleP12: a listing names the live entries and nothing else: the scanners
// call the function they were handed only for slots in use - on the "not 0"
// side of a test of the decoded entry's inode number (a free slot decodes as
// number 0 with an empty name).
func ruleP12(c *Ctx, id string) {
	P, R := c.P, c.R
	R.Rule(id, "only live entries are listed: in dir.Apply and dir.ApplyEnts the callback is called on the 'not 0' side of a test of the decoded entry's inode number", 2)
	for _, spec := range []string{"dir.Apply", "dir.ApplyEnts"} {
		s := c.fn(id, spec)
		if s == nil {
			continue
		}
		fparam := funcParam(s)
		if fparam == nil {
			R.Undecided(id, spec+"|callback", P.Pos(s.Pos()), "the scanner has a function parameter", "none found")
			continue
		}
		scopes := scopesOf(s)
		n := 0
		for _, sc := range scopes {
			for _, b := range sc.Fn.Blocks {
				for _, in := range b.Instrs {
					cc := callCommon(in)
					if cc == nil || cc.IsInvoke() || sc.S.resolve(stripConv(cc.Value)) != ssa.Value(fparam) {
						continue
					}
					n++
					R.Analysed[FuncName(s)] = true
					g := guardedUp(scopes, sc, b, func(sub Subst) func(Cond) (bool, bool) {
						return func(cd Cond) (bool, bool) {
							if cd.Op != token.EQL && cd.Op != token.NEQ {
								return false, false
							}
							for _, pr := range [][2]ssa.Value{{cd.X, cd.Y}, {cd.Y, cd.X}} {
								if pr[0] == nil || pr[1] == nil {
									continue
								}
								k, isk := constIntDeep(pr[1])
								_, fl, _, _ := loadedFieldS(pr[0], sub)
								if isk && k == 0 && fl == "inum" {
									return true, cd.Op == token.NEQ
								}
							}
							return false, false
						}
					})
					R.Check(g, id, fmt.Sprintf("%s|callback#%d only for slots in use", spec, n), P.Pos(in.Pos()), "the callback runs only where the entry's number is not 0", "dominated by the != 0 side", "free slots are handed to the callback (and, with the test the wrong way round, live entries are skipped): a listing shows empty names with file id 0 and loses files that exist")
				}
			}
		}
		if n == 0 {
			R.Undecided(id, spec+"|callback", P.Pos(s.Pos()), "the scanner calls the function it was handed", "no such call found")
		}
	}
}

// reachesBlock: b can be reached from a (a == b counts).
func reachesBlock(a, b *ssa.BasicBlock) bool {
	if a == nil || b == nil {
		return false
	}
	seen := map[*ssa.BasicBlock]bool{}
	work := []*ssa.BasicBlock{a}
	for len(work) > 0 {
		x := work[len(work)-1]
		work = work[:len(work)-1]
		if x == b {
			return true
		}
		if seen[x] {
			continue
		}
		seen[x] = true
		work = append(work, x.Succs...)
	}
	return false
}
