package main

// Vocabulary extracted from the repository (DESIGN.md section 2): the slots of
// the rule templates, resolved through types.Objects.

import (
	"go/types"
	"sort"

	"golang.org/x/tools/go/ssa"
)

type Vocab struct {
	Missing []string

	NfsEntries    []*ssa.Function // 22 NFS + 6 MOUNT methods of *nfs.Nfs
	NfsProcs      []*ssa.Function // the 22 NFS ones
	SimpleEntries []*ssa.Function
	SimpleProcs   []*ssa.Function

	Begin                                                  *ssa.Function
	Commit, CommitData, CommitUnstable, CommitFh, Abort    *ssa.Function
	preCommit, postCommit, releaseInodes                   *ssa.Function
	ReleaseInode, LockInode, GetInodeLocked                *ssa.Function
	GetInodeInumFree, GetInodeInum, GetInodeFh, AllocInode *ssa.Function
	GetInodeUnlocked, OwnInum                              *ssa.Function
	errRet, commitReply, lockInodes                        *ssa.Function

	JrnlCommitWait, LogFlush, LogCommitWait, LogLoad, MkLog, JrnlBegin *ssa.Function
	OverWrite, ReadBuf, SetDirty, BnumPut, BnumGet                     *ssa.Function
	LockAcquire, LockRelease                                           *ssa.Function
	AllocNum, FreeNum                                                  *ssa.Function

	AllocINum, AllocBlock, FreeINum, FreeBlock, PreCommit, PostCommit, PostAbort *ssa.Function
	ZeroBlock, ReadBlock, AssertValidBlock                                       *ssa.Function

	WriteInode, InitInode, FreeInode, Resize, Shrink, IsShrinking, DecLink *ssa.Function
	InodeWrite, InodeRead, bmap, indbmap, Encode, Decode, MkFattr          *ssa.Function

	Inode, FsTxn, AllocTxn, Nfs *types.Named

	Terminators map[*ssa.Function]string // "commit" | "abort"
	Acquirers   map[*ssa.Function]bool
}

func methodsOfInterface(P *Program, iface *types.Named, recv *types.Named) []*ssa.Function {
	it, ok := iface.Underlying().(*types.Interface)
	if !ok {
		return nil
	}
	var out []*ssa.Function
	ms := P.Prog.MethodSets.MethodSet(types.NewPointer(recv))
	for i := 0; i < it.NumMethods(); i++ {
		m := it.Method(i)
		sel := ms.Lookup(m.Pkg(), m.Name())
		if sel == nil {
			continue
		}
		if f := P.Prog.MethodValue(sel); f != nil {
			out = append(out, f)
		}
	}
	sort.Slice(out, func(i, j int) bool { return out[i].Name() < out[j].Name() })
	return out
}

func resolveVocab(P *Program) *Vocab {
	v := &Vocab{Terminators: map[*ssa.Function]string{}, Acquirers: map[*ssa.Function]bool{}}
	get := func(dst **ssa.Function, spec string) {
		f := P.Func(spec)
		if f == nil {
			v.Missing = append(v.Missing, spec)
		}
		*dst = f
	}
	named := func(dst **types.Named, pkg, name string) {
		n := P.Named(pkg, name)
		if n == nil {
			v.Missing = append(v.Missing, pkg+"."+name)
		}
		*dst = n
	}
	named(&v.Inode, "inode", "Inode")
	named(&v.FsTxn, "fstxn", "FsTxn")
	named(&v.AllocTxn, "alloctxn", "AllocTxn")
	named(&v.Nfs, "nfs", "Nfs")

	nfsIface := P.Named("nfstypes", "NFS_PROGRAM_NFS_V3_handler")
	mntIface := P.Named("nfstypes", "MOUNT_PROGRAM_MOUNT_V3_handler")
	if nfsIface == nil || mntIface == nil {
		v.Missing = append(v.Missing, "nfstypes.NFS_PROGRAM_NFS_V3_handler / MOUNT_PROGRAM_MOUNT_V3_handler")
	} else {
		if v.Nfs != nil {
			v.NfsProcs = methodsOfInterface(P, nfsIface, v.Nfs)
			v.NfsEntries = append(append([]*ssa.Function{}, v.NfsProcs...), methodsOfInterface(P, mntIface, v.Nfs)...)
		}
		if sn := P.Named("simple", "Nfs"); sn != nil {
			v.SimpleProcs = methodsOfInterface(P, nfsIface, sn)
			v.SimpleEntries = append(append([]*ssa.Function{}, v.SimpleProcs...), methodsOfInterface(P, mntIface, sn)...)
		} else {
			v.Missing = append(v.Missing, "simple.Nfs")
		}
	}

	get(&v.Begin, "fstxn.Begin")
	get(&v.Commit, "fstxn.(*FsTxn).Commit")
	get(&v.CommitData, "fstxn.(*FsTxn).CommitData")
	get(&v.CommitUnstable, "fstxn.(*FsTxn).CommitUnstable")
	get(&v.CommitFh, "fstxn.(*FsTxn).CommitFh")
	get(&v.Abort, "fstxn.(*FsTxn).Abort")
	// thin wrappers of the allocator epilogues: a tree may write them out in the commit funnel
	v.preCommit = P.Func("fstxn.(*FsTxn).preCommit")
	v.postCommit = P.Func("fstxn.(*FsTxn).postCommit")
	get(&v.releaseInodes, "fstxn.(*FsTxn).releaseInodes")
	get(&v.ReleaseInode, "fstxn.(*FsTxn).ReleaseInode")
	get(&v.GetInodeLocked, "fstxn.(*FsTxn).GetInodeLocked")
	v.GetInodeInumFree = P.Func("fstxn.(*FsTxn).GetInodeInumFree") // a plain wrapper of GetInodeLocked: may be absent
	get(&v.GetInodeInum, "fstxn.(*FsTxn).GetInodeInum")
	get(&v.GetInodeFh, "fstxn.(*FsTxn).GetInodeFh")
	get(&v.AllocInode, "fstxn.(*FsTxn).AllocInode")
	get(&v.GetInodeUnlocked, "fstxn.(*FsTxn).GetInodeUnlocked")
	get(&v.OwnInum, "fstxn.(*FsTxn).OwnInum")
	// conveniences of package nfs (abort-and-set-status, commit-and-set-status): a tree that writes them out in
	// place is judged by what the handlers do; no rule depends on their existence
	v.errRet = P.Func("nfs.errRet")
	v.commitReply = P.Func("nfs.commitReply")
	get(&v.lockInodes, "nfs.lockInodes")

	get(&v.JrnlCommitWait, jrnlPath+"/jrnl.(*Op).CommitWait")
	get(&v.JrnlBegin, jrnlPath+"/jrnl.Begin")
	get(&v.OverWrite, jrnlPath+"/jrnl.(*Op).OverWrite")
	get(&v.ReadBuf, jrnlPath+"/jrnl.(*Op).ReadBuf")
	get(&v.LogFlush, jrnlPath+"/obj.(*Log).Flush")
	get(&v.LogLoad, jrnlPath+"/obj.(*Log).Load")
	get(&v.LogCommitWait, jrnlPath+"/obj.(*Log).CommitWait")
	get(&v.MkLog, jrnlPath+"/obj.MkLog")
	get(&v.SetDirty, jrnlPath+"/buf.(*Buf).SetDirty")
	get(&v.BnumPut, jrnlPath+"/buf.(*Buf).BnumPut")
	get(&v.BnumGet, jrnlPath+"/buf.(*Buf).BnumGet")
	get(&v.LockAcquire, jrnlPath+"/lockmap.(*LockMap).Acquire")
	get(&v.LockRelease, jrnlPath+"/lockmap.(*LockMap).Release")
	get(&v.AllocNum, jrnlPath+"/alloc.(*Alloc).AllocNum")
	get(&v.FreeNum, jrnlPath+"/alloc.(*Alloc).FreeNum")

	get(&v.AllocINum, "alloctxn.(*AllocTxn).AllocINum")
	get(&v.AllocBlock, "alloctxn.(*AllocTxn).AllocBlock")
	get(&v.FreeINum, "alloctxn.(*AllocTxn).FreeINum")
	get(&v.FreeBlock, "alloctxn.(*AllocTxn).FreeBlock")
	get(&v.PreCommit, "alloctxn.(*AllocTxn).PreCommit")
	get(&v.PostCommit, "alloctxn.(*AllocTxn).PostCommit")
	get(&v.PostAbort, "alloctxn.(*AllocTxn).PostAbort")
	get(&v.ZeroBlock, "alloctxn.(*AllocTxn).ZeroBlock")
	get(&v.ReadBlock, "alloctxn.(*AllocTxn).ReadBlock")
	get(&v.AssertValidBlock, "alloctxn.(*AllocTxn).AssertValidBlock")

	get(&v.WriteInode, "inode.(*Inode).WriteInode")
	get(&v.InitInode, "inode.(*Inode).InitInode")
	get(&v.FreeInode, "inode.(*Inode).FreeInode")
	get(&v.Resize, "inode.(*Inode).Resize")
	get(&v.Shrink, "inode.(*Inode).Shrink")
	get(&v.IsShrinking, "inode.(*Inode).IsShrinking")
	get(&v.DecLink, "inode.(*Inode).DecLink")
	get(&v.InodeWrite, "inode.(*Inode).Write")
	get(&v.InodeRead, "inode.(*Inode).Read")
	get(&v.bmap, "inode.(*Inode).bmap")
	get(&v.indbmap, "inode.(*Inode).indbmap")
	get(&v.Encode, "inode.(*Inode).Encode")
	get(&v.Decode, "inode.Decode")
	get(&v.MkFattr, "inode.(*Inode).MkFattr")

	// the function that takes an inode's lock: LockInode, or, in a tree that writes it out in place,
	// GetInodeLocked itself
	if v.LockInode = P.Func("fstxn.(*FsTxn).LockInode"); v.LockInode == nil {
		v.LockInode = v.GetInodeLocked
	}
	for _, f := range []*ssa.Function{v.Commit, v.CommitData, v.CommitUnstable, v.CommitFh} {
		if f != nil {
			v.Terminators[f] = "commit"
		}
	}
	if v.Abort != nil {
		v.Terminators[v.Abort] = "abort"
	}
	for _, f := range []*ssa.Function{v.GetInodeLocked, v.GetInodeInumFree, v.GetInodeInum, v.GetInodeFh, v.AllocInode} {
		if f != nil {
			v.Acquirers[f] = true
		}
	}
	learnListAliases(v)
	return v
}

var serverPkgs = []string{"nfs", "dir", "inode", "fstxn", "alloctxn", "shrinker", "cache", "dcache", "fh", "super"}

var vocabCache = map[*Program]*Vocab{}

// learnListAliases: the four bookkeeping lists of AllocTxn are vocabulary
// ("allocInums", "freeInums", "allocBnums", "freeBnums").  Their roles are
// fixed by who appends to them - AllocINum, FreeINum, AllocBlock, FreeBlock -
// so a tree that renames them or regroups them ("inodeLists.alloc") is read
// with the vocabulary names.
func learnListAliases(v *Vocab) {
	roles := []struct {
		fn   *ssa.Function
		name string
	}{{v.AllocINum, "allocInums"}, {v.FreeINum, "freeInums"}, {v.AllocBlock, "allocBnums"}, {v.FreeBlock, "freeBnums"}}
	for _, r := range roles {
		if r.fn == nil || r.fn.Blocks == nil {
			continue
		}
		var keys []string
		for _, b := range r.fn.Blocks {
			for _, in := range b.Instrs {
				st, ok := in.(*ssa.Store)
				if !ok {
					continue
				}
				cl, isC := st.Val.(*ssa.Call)
				if !isC {
					continue
				}
				if bi, isB := cl.Call.Value.(*ssa.Builtin); !isB || bi.Name() != "append" {
					continue
				}
				fa, isF := st.Addr.(*ssa.FieldAddr)
				if !isF {
					continue
				}
				n := derefNamed(fa.X.Type())
				if n == nil {
					continue
				}
				stt, isS := n.Underlying().(*types.Struct)
				if !isS {
					continue
				}
				inner := stt.Field(fa.Field).Name()
				if outer, isO := fa.X.(*ssa.FieldAddr); isO {
					if on := derefNamed(outer.X.Type()); on != nil && on == v.AllocTxn {
						if ost, isS2 := on.Underlying().(*types.Struct); isS2 {
							keys = append(keys, on.Obj().Name()+"."+ost.Field(outer.Field).Name()+"."+inner)
						}
					}
				} else if n == v.AllocTxn && inner != r.name {
					keys = append(keys, n.Obj().Name()+"."+inner)
				}
			}
		}
		if len(keys) == 1 {
			fieldAlias[keys[0]] = r.name
		}
	}
}

func resolveVocabCached(P *Program) *Vocab {
	if v, ok := vocabCache[P]; ok {
		return v
	}
	v := resolveVocab(P)
	vocabCache[P] = v
	return v
}
