package main

import (
	"fmt"
	"go/token"
	"go/types"
	"sort"
	"strings"

	"golang.org/x/tools/go/ssa"
)

// ruleR5: format is crash-atomic: the on-disk marker that makes the "file
// system absent" test false (a root inode with non-zero Kind) must become
// visible last - either it is written by the journal transaction that creates
// the root directory, or it is the last raw write of the format path and is
// separated from the earlier ones by a barrier.
func ruleR5(c *Ctx, id string) {
	V, P, R := c.V, c.P, c.R
	R.Rule(id, "format is crash-atomic: the 'formatted' marker (root inode with non-zero Kind) is written by the transaction that creates the root directory, after the raw bitmap writes; or it is the last raw write, after a barrier", 2)
	mk := c.fn(id, "nfs.MakeNfs")
	mkfs := c.fn(id, "nfs.makeFs")
	mkroot := c.fn(id, "nfs.(*Nfs).makeRootDir")
	if mk == nil || mkfs == nil || mkroot == nil {
		return
	}
	R.Analysed[FuncName(mkfs)] = true
	R.Analysed[FuncName(mkroot)] = true
	// raw writes of the format path, in order; the marker write = WriteDirect of an inode-sized buffer
	var marker ssa.Instruction
	var raws []ssa.Instruction
	for _, b := range mkfs.DomPreorder() {
		for _, in := range b.Instrs {
			if _, ok := in.(*ssa.Call); !ok {
				continue
			}
			if cal := staticCallee(in); cal != nil && cal.Name() == "WriteDirect" {
				marker = in
				raws = append(raws, in)
				continue
			}
			for _, cal := range P.Callees(in) {
				r := P.Reach([]*ssa.Function{cal}, func(f *ssa.Function) bool { return !IsRepoFunc(f) })
				for f := range r {
					for _, b2 := range f.Blocks {
						for _, i2 := range b2.Instrs {
							if k, ok := rawDiskOp(i2); ok && k == "write" {
								raws = append(raws, in)
							}
						}
					}
				}
			}
		}
	}
	if marker == nil {
		// the marker is not written raw: it must be written inside makeRootDir's transaction
		init := P.CallsIn(mkroot, funcIs(V.InitInode))
		wi := P.CallsIn(mkroot, funcIs(V.WriteInode))
		cm := P.CallsIn(mkroot, funcIs(V.Commit))
		ok := len(init) == 1 && len(wi) >= 1 && len(cm) == 1
		if ok {
			ok = MustBefore(mkroot, callTo(V.InitInode))(cm[0]) && MustBefore(mkroot, callTo(V.WriteInode))(cm[0]) && reachableFrom(init[0], wi[0])
		}
		R.Check(ok, id, "nfs.makeRootDir|marker written by the root-directory transaction", P.Pos(mkroot.Pos()), "the root inode is initialised and written through inside the transaction that creates '.' and '..', before its commit", "InitInode, WriteInode precede Commit", "the root inode marker is written neither raw nor in the root-directory transaction")
		// and makeFs (raw bitmaps) precedes makeRootDir in MakeNfs
		fsCalls := P.CallsIn(mk, funcIs(mkfs))
		rdCalls := P.CallsIn(mk, funcIs(mkroot))
		okOrder := len(fsCalls) == 1 && len(rdCalls) == 1 && reachableFrom(fsCalls[0], rdCalls[0]) && !reachableFrom(rdCalls[0], fsCalls[0])
		R.Check(okOrder, id, "nfs.MakeNfs|bitmaps before the marker", P.Pos(mk.Pos()), "the raw bitmap writes of mkfs precede the transaction that makes the file system visible", "makeFs before makeRootDir", "the marker can become durable before the bitmaps")
		return
	}
	last := true
	for _, r := range raws {
		if r != marker && reachableFrom(marker, r) {
			last = false
		}
	}
	barrier := false
	for _, b := range mkfs.Blocks {
		for _, in := range b.Instrs {
			if k, ok := rawDiskOp(in); ok && k == "barrier" && reachableFrom(in, marker) {
				barrier = true
			}
		}
	}
	R.Check(last && barrier, id, "nfs.makeFs|marker written last, after a barrier", P.Pos(marker.Pos()), "the raw write of the root inode (the 'formatted' marker) is the last raw write of mkfs and is preceded by a barrier", "ordered", "the marker is written first and without barrier: a crash during mkfs leaves a disk that looks formatted but has empty bitmaps and no root directory (after restart the first CREATE is handed inode 1, the locked root, and never returns)")
	R.Pass(id, "nfs.MakeNfs|format path identified", P.Pos(mk.Pos()), "format path found", "makeFs under root Kind == 0")
}

// ruleDiskWrapper: a type of go-nfsd that wraps a disk.Disk and is itself used
// as the disk (the timing wrapper installed by cmd/go-nfsd -stats) must hand
// every operation of the interface on to the wrapped disk - the barrier above
// all: the journal's durability rests on it.
func ruleDiskWrapper(c *Ctx, id string) {
	P, R := c.P, c.R
	R.Rule(id, "disk decorators delegate: every method of the disk.Disk interface implemented by a go-nfsd type that wraps a disk.Disk calls the same operation of the wrapped disk on every path (Barrier in particular)", 5)
	var iface *types.Interface
	for _, pk := range P.All {
		if strings.HasSuffix(pk.PkgPath, "/primitive/disk") && pk.Types != nil {
			if o := pk.Types.Scope().Lookup("Disk"); o != nil {
				iface, _ = o.Type().Underlying().(*types.Interface)
			}
		}
	}
	if iface == nil {
		R.Fail(id, "disk.Disk|interface", "?", "the disk interface is found", "UNRESOLVED-ANCHOR disk.Disk")
		return
	}
	n := 0
	for _, pk := range P.Pkgs {
		if pk.Types == nil {
			continue
		}
		for _, name := range pk.Types.Scope().Names() {
			tn, ok := pk.Types.Scope().Lookup(name).(*types.TypeName)
			if !ok {
				continue
			}
			st, ok := tn.Type().Underlying().(*types.Struct)
			if !ok {
				continue
			}
			ptr := types.NewPointer(tn.Type())
			if !types.Implements(ptr, iface) && !types.Implements(tn.Type(), iface) {
				continue
			}
			wrapped := ""
			for i := 0; i < st.NumFields(); i++ {
				if isDiskIface(st.Field(i).Type()) {
					wrapped = st.Field(i).Name()
				}
			}
			if wrapped == "" {
				continue
			}
			for i := 0; i < iface.NumMethods(); i++ {
				m := iface.Method(i)
				sel := P.Prog.MethodSets.MethodSet(ptr).Lookup(m.Pkg(), m.Name())
				if sel == nil {
					continue
				}
				fn := P.Prog.MethodValue(sel)
				if fn == nil || fn.Blocks == nil || !IsRepoFunc(fn) {
					continue
				}
				n++
				R.Analysed[FuncName(fn)] = true
				family := map[string]bool{m.Name(): true}
				if m.Name() == "Read" || m.Name() == "ReadTo" {
					family["Read"], family["ReadTo"] = true, true
				}
				deleg := P.NewAlways(func(in ssa.Instruction) bool {
					cc := callCommon(in)
					if cc == nil || !cc.IsInvoke() || !family[cc.Method.Name()] {
						return false
					}
					_, fl, _, _ := loadedField(cc.Value)
					return fl == wrapped
				})
				R.Check(deleg.Func(fn), id, FuncName(fn)+"|delegates to the wrapped disk", P.Pos(fn.Pos()), "every path of the method performs the same operation on the wrapped disk", "always-performs summary", "the decorator swallows "+m.Name()+": with the wrapper installed the real disk never sees it (a dropped Barrier makes every acknowledged write volatile)")
			}
		}
	}
	if n == 0 {
		R.Pass(id, "disk decorators|none", "?", "no go-nfsd type wraps a disk.Disk", "nothing to check")
	}
}

// ruleNullBlock: block number 0 means "no block" in inodes and index blocks,
// and block 0 of the disk is the header of the write-ahead log.
// AssertValidBlock lets 0 through (it is a legal pointer value), so a function
// that may be handed 0 must not turn it into a block address.  The functions
// that may be handed 0 say so themselves: they compare the number with 0.  In
// every such function each use of the same number as a block address
// (ZeroBlock, ReadBlock, Block2addr) must lie on the "not 0" side of such a
// comparison.
func ruleNullBlock(c *Ctx, id string) {
	V, P, R := c.V, c.P, c.R
	R.Rule(id, "the null block number never becomes a block address: in a function that compares a block number with 0, every ZeroBlock/ReadBlock/Block2addr of that number is dominated by the 'not 0' side of such a comparison (block 0 is the log header; a transaction that writes it destroys the log)", 1)
	b2a := P.Func("super.(*FsSuper).Block2addr")
	isAddrUse := funcIs(V.ZeroBlock, V.ReadBlock, b2a)
	n := 0
	for _, fn := range P.RepoFuncs("alloctxn", "inode", "dir", "nfs", "fstxn", "shrinker") {
		if fn.Blocks == nil {
			continue
		}
		// the numbers this function compares with 0
		tested := map[ssa.Value]bool{}
		for _, br := range branches(fn) {
			cd := br.Cond
			if cd.Op != token.EQL && cd.Op != token.NEQ {
				continue
			}
			for _, pr := range [][2]ssa.Value{{cd.X, cd.Y}, {cd.Y, cd.X}} {
				if pr[0] == nil || pr[1] == nil {
					continue
				}
				if k, ok := constInt(pr[1]); ok && k == 0 && isBnum(pr[0].Type()) {
					tested[stripConv(pr[0])] = true
				}
			}
		}
		if len(tested) == 0 {
			continue
		}
		for _, call := range P.CallsIn(fn, isAddrUse) {
			arg := stripConv(argN(call, 0))
			if !tested[arg] {
				continue
			}
			n++
			R.Analysed[FuncName(fn)] = true
			g := guardedBy(fn, call.Block(), func(cd Cond) (bool, bool) {
				if cd.Op != token.EQL && cd.Op != token.NEQ {
					return false, false
				}
				for _, pr := range [][2]ssa.Value{{cd.X, cd.Y}, {cd.Y, cd.X}} {
					if pr[0] == nil || pr[1] == nil {
						continue
					}
					if k, ok := constInt(pr[1]); ok && k == 0 && stripConv(pr[0]) == arg {
						return true, cd.Op == token.NEQ
					}
				}
				return false, false
			})
			R.Check(g, id, FuncName(fn)+"|"+staticCallee(call).Name()+" only of a non-null block", P.Pos(call.Pos()), "the block number is known to be non-zero where it is used as an address", "dominated by the != 0 side", "the function expects the number to be 0 sometimes (it tests for it) but addresses the block before/without that test: freeing a hole zeroes block 0, the header of the write-ahead log, inside a committed transaction - recovery then sees an empty or corrupt log")
		}
	}
	if n == 0 {
		R.Fail(id, "alloctxn.FreeBlock|null block guarded", "", "FreeBlock tests its argument for 0 before it zeroes the block", "no function was found that both tests a block number for 0 and addresses it: the rule has lost its instance")
	}
}

func isBnum(t types.Type) bool {
	n, ok := types.Unalias(t).(*types.Named)
	if ok && n.Obj().Name() == "Bnum" {
		return true
	}
	b, ok := t.Underlying().(*types.Basic)
	return ok && b.Kind() == types.Uint64
}

// ruleBlindBlock: a data block may be replaced as a whole, without being read
// first, only when the request supplies the whole block.  A partial write that
// builds "the rest" itself (from zeroes, because the block is believed to be
// new) destroys bytes acknowledged earlier whenever that belief is wrong - and
// bmap's "allocated" answer is not exact (it is true for every block of the
// doubly indirect range).
func ruleBlindBlock(c *Ctx, id string) {
	V, P, R := c.V, c.P, c.R
	R.Rule(id, "blind whole-block writes only for whole blocks: in Inode.Write every jrnl.OverWrite of NBITBLOCK bits is dominated by 'bytes to copy == BlockSize'; every other path modifies the block read through the journal", 1)
	w := V.InodeWrite
	if w == nil || V.OverWrite == nil {
		return
	}
	bs := constOfPkg(P, "github.com/goose-lang/primitive/disk", "BlockSize")
	n := 0
	wsc := scopesOf(w)
	for _, sc := range wsc {
		for _, call := range P.CallsIn(sc.Fn, funcIs(V.OverWrite)) {
			if k, isk := constInt(argN(call, 1)); !isk || k != bs*8 {
				continue
			}
			n++
			g := guardedUp(wsc, sc, call.Block(), func(sub Subst) func(Cond) (bool, bool) {
				return func(cd Cond) (bool, bool) {
					if cd.X == nil || cd.Y == nil || (cd.Op != token.EQL && cd.Op != token.NEQ) {
						return false, false
					}
					for _, pr := range [][2]ssa.Value{{cd.X, cd.Y}, {cd.Y, cd.X}} {
						if k, isk := constInt(pr[1]); isk && k == bs {
							if _, isC := pr[0].(*ssa.Const); !isC {
								return true, cd.Op == token.EQL
							}
						}
					}
					return false, false
				}
			})
			R.Check(g, id, fmt.Sprintf("inode.Write|whole-block OverWrite#%d only for a whole block", n), P.Pos(call.Pos()), "the block is overwritten without being read only when BlockSize bytes are supplied for it", "dominated by <bytes> == BlockSize", "a partial write replaces the whole block (the part it does not supply is made up, e.g. zeroes for a block believed to be new): bytes of that block acknowledged earlier are lost - bmap's 'allocated' answer is true for every block of the doubly indirect range")
		}
	}
	if n == 0 {
		R.Pass(id, "inode.Write|no blind block write", P.Pos(w.Pos()), "Inode.Write never overwrites a block without reading it", "no whole-block OverWrite")
	}
}

// ruleShrinkReserve: Shrink frees blocks until the transaction is nearly as
// large as the log.  The test "NDirty() + k < LogBlocks" is made before each
// round; k must cover what one more round and the end of the transaction can
// still add: the freed data block, an indirect and a doubly indirect block
// that become free with it, the inode's block, and the block-bitmap blocks the
// freed bits fall into (two when the range crosses a bitmap-block boundary): the
// authors' own count is 5.  With less, a shrink transaction can be one block
// larger than the log; the journal refuses it on every retry: the shrinker
// thread panics and the truncation can never be finished.
func ruleShrinkReserve(c *Ctx, id string) {
	V, P, R := c.V, c.P, c.R
	R.Rule(id, "a shrink transaction fits in the log: the round test of Inode.Shrink is NDirty() + <bitmap blocks PreCommit will write> + k < LogBlocks with k >= 5 (data block, indirect, doubly indirect, inode, and the bitmap blocks the round can add); the count of bitmap blocks looks at every list PreCommit writes", 2)
	if V.Shrink == nil {
		return
	}
	lb := constOfPkg(P, jrnlPath+"/jrnl", "LogBlocks")
	pcw, _ := preCommitWrites(c)
	lists := map[string]bool{}
	for _, w := range pcw {
		if w.list != "" {
			lists[w.list] = true
		}
	}
	n := 0
	for _, sc := range scopesOf(V.Shrink) {
		for _, b := range sc.Fn.Blocks {
			for _, in := range b.Instrs {
				bo, ok := in.(*ssa.BinOp)
				if !ok || bo.Op != token.LSS {
					continue
				}
				if k, isk := constInt(sc.S.resolve(bo.Y)); !isk || k != lb {
					continue
				}
				// the left side is a sum: flatten it
				var terms []ssa.Value
				var flat func(v ssa.Value, d int)
				flat = func(v ssa.Value, d int) {
					v = sc.S.resolve(stripConv(v))
					if add, ok := v.(*ssa.BinOp); ok && add.Op == token.ADD && d < 8 {
						flat(add.X, d+1)
						flat(add.Y, d+1)
						return
					}
					terms = append(terms, v)
				}
				flat(bo.X, 0)
				var kres int64
				nd, other := 0, 0
				var counters []*ssa.Function
				for _, t := range terms {
					if k, isk := constInt(t); isk {
						kres += k
						continue
					}
					if cl, isC := t.(*ssa.Call); isC && staticCallee(cl) != nil {
						g := staticCallee(cl)
						if g.Name() == "NDirty" {
							nd++
							continue
						}
						if IsRepoFunc(g) {
							counters = append(counters, g)
							continue
						}
					}
					other++
				}
				if nd != 1 {
					continue
				}
				n++
				R.Analysed[FuncName(sc.Fn)] = true
				R.Check(kres >= 5, id, "inode.Shrink|log reserve per round", P.Pos(in.Pos()), fmt.Sprintf("the round test keeps %d blocks of the log free for what the round and the end of the transaction still add", kres), "k >= 5", fmt.Sprintf("the reserve is %d blocks: a shrink transaction can reach LogBlocks+1 blocks (e.g. freed blocks on both sides of a bitmap-block boundary); the journal refuses it on every retry, the shrinker thread panics and WRITE/SETATTR on that file fail for ever", kres))
				// the bitmap blocks written by PreCommit are not dirty yet when the test is made: a term must count them,
				// from every list PreCommit writes
				seen := map[string]bool{}
				for _, g := range counters {
					for _, gs := range scopesOf(g) {
						for _, fr := range FieldAddrs(gs.Fn) {
							if fr.Type == V.AllocTxn {
								seen[fr.Field] = true
							}
						}
					}
				}
				var missing []string
				for l := range lists {
					if !seen[l] {
						missing = append(missing, l)
					}
				}
				sort.Strings(missing)
				R.Check(len(lists) > 0 && len(missing) == 0, id, "inode.Shrink|round test counts the bitmap blocks of the commit", P.Pos(in.Pos()), "the sum compared with LogBlocks has a term computed from every list PreCommit writes to the bitmaps", fmt.Sprintf("%d counting term(s); lists %v", len(counters), keysOf(lists)), fmt.Sprintf("the round test does not count the bitmap blocks of %v: they are written only at commit, on top of the blocks already dirty - when the freed blocks fall into three or more bitmap blocks the transaction is larger than the log, the journal refuses it (a RENAME or REMOVE answers SERVERFAULT) and forgets how far the next COMMIT must flush: acknowledged unstable writes are lost by a crash", missing))
			}
		}
	}
	if n == 0 {
		R.Undecided(id, "inode.Shrink|log reserve per round", P.Pos(V.Shrink.Pos()), "Shrink bounds its transaction by NDirty() + ... + k < LogBlocks", "no test of that form found in Shrink or its helpers: how the shrink transaction is kept within the log is not decided")
	}
}

// ruleShortWrite: Inode.Write answers ok = true as soon as it has written
// something and returns how much - the disk can fill up in the middle of a
// request.  A caller that drops the count takes a prefix for the whole: the
// operation is acknowledged (and committed) in part.  Every caller must let the
// count decide something: compare it, return it, or put it in the reply.
func ruleShortWrite(c *Ctx, id string) {
	V, P, R := c.V, c.P, c.R
	R.Rule(id, "no short write is taken for a whole one: every caller of Inode.Write uses the byte count it returns (compares it with what it asked for, or reports it)", 3)
	w := V.InodeWrite
	if w == nil {
		return
	}
	for _, cs := range P.CallersOf(w) {
		if !IsRepoFunc(cs.Caller) {
			continue
		}
		call, isC := cs.Instr.(*ssa.Call)
		if !isC {
			R.Fail(id, FuncName(ownerOf(cs.Caller))+"|Write count used", P.Pos(cs.Instr.Pos()), "Inode.Write is called for its results", "called by go/defer: both results dropped")
			continue
		}
		used := false
		for _, r := range refs(call) {
			ex, isE := r.(*ssa.Extract)
			if !isE || ex.Index != 0 {
				continue
			}
			// the count reaches a comparison, a return, a store or a call
			for v := range fwdClosure([]ssa.Value{ex}, true) {
				for _, u := range refs(v) {
					switch x := u.(type) {
					case *ssa.BinOp:
						switch x.Op {
						case token.EQL, token.NEQ, token.LSS, token.LEQ, token.GTR, token.GEQ:
							used = true
						}
					case *ssa.Return, *ssa.Store:
						used = true
					case *ssa.Call:
						if _, isB := x.Call.Value.(*ssa.Builtin); !isB {
							if cal := staticCallee(x); cal == nil || !strings.HasSuffix(cal.Name(), "DPrintf") {
								used = true
							}
						}
					}
				}
			}
		}
		R.Check(used, id, FuncName(ownerOf(cs.Caller))+"|Write count used", P.Pos(call.Pos()), "the number of bytes Inode.Write reports is compared, returned or stored by the caller", "count flows into a comparison / return / reply", "the count is dropped: when the disk fills up in the middle of the data, Write returns ok with a short count and the caller commits a prefix of what it was asked to store (a symbolic link to a prefix of its target) and answers OK")
	}
}

func keysOf(m map[string]bool) []string {
	var out []string
	for k := range m {
		out = append(out, k)
	}
	sort.Strings(out)
	return out
}

// ruleOkResults: the functions of package dir that change a directory answer
// "ok" - the write can fail (the disk is full, the name does not fit, the
// entry is not there).  A caller that drops the answer takes a failed half of
// its operation for done: the rest is committed and acknowledged - a RENAME
// that removed the old name and did not add the new one, a root directory
// without "." and "..".  Every call must let the answer decide something.
func ruleOkResults(c *Ctx, id string) {
	V, P, R := c.V, c.P, c.R
	R.Rule(id, "no failed directory update is taken for done: the ok result of every function of package dir that writes a directory (it reaches Inode.Write) is used at every call", 6)
	if V.InodeWrite == nil {
		return
	}
	var muts []*ssa.Function
	for _, f := range P.RepoFuncs("dir") {
		if f.Parent() != nil || f.Signature.Recv() != nil {
			continue
		}
		res := f.Signature.Results()
		if res.Len() == 0 {
			continue
		}
		if b, ok := res.At(res.Len() - 1).Type().Underlying().(*types.Basic); !ok || b.Kind() != types.Bool {
			continue
		}
		if P.Reach([]*ssa.Function{f}, func(g *ssa.Function) bool { return !IsRepoFunc(g) })[V.InodeWrite] {
			muts = append(muts, f)
		}
	}
	sort.Slice(muts, func(i, j int) bool { return FuncName(muts[i]) < FuncName(muts[j]) })
	per := map[string]int{}
	for _, m := range muts {
		R.Analysed[FuncName(m)] = true
		for _, cs := range P.CallersOf(m) {
			if !IsRepoFunc(cs.Caller) {
				continue
			}
			base := fmt.Sprintf("%s|result of %s used", FuncName(ownerOf(cs.Caller)), m.Name())
			per[base]++
			key := base
			if per[base] > 1 {
				key = fmt.Sprintf("%s#%d", base, per[base])
			}
			call, isC := cs.Instr.(*ssa.Call)
			if !isC {
				R.Fail(id, key, P.Pos(cs.Instr.Pos()), m.Name()+" is called for its result", "called by go/defer: the result is dropped")
				continue
			}
			used := false
			nres := m.Signature.Results().Len()
			if nres == 1 {
				used = len(refs(call)) > 0
			} else {
				for _, r := range refs(call) {
					if ex, isE := r.(*ssa.Extract); isE && ex.Index == nres-1 && len(refs(ex)) > 0 {
						used = true
					}
				}
			}
			R.Check(used, id, key, P.Pos(call.Pos()), "the caller looks at whether "+m.Name()+" succeeded", "result used", "the result of "+m.Name()+" is dropped: when the directory write fails (disk full, name too long, no such entry) the caller goes on, commits the rest of its operation and acknowledges it - half an operation becomes durable")
		}
	}
}

// ruleNullSource: the other half of R11.  R11 looks at functions that test a
// block number for 0; this rule starts from where a 0 can come from: the
// allocator (AllocBlock answers 0 when the disk is full), the block map (bmap
// and indbmap answer 0 when they could not allocate), a pointer slot of the
// inode or of an index block (0 = hole).  A number from such a source - as it
// is, or merged with others in a phi - must not become a block address
// (ReadBlock, ZeroBlock, Block2addr) unless the use lies on the "not 0" side of
// a comparison of that very value with 0.  (FreeBlock and AssertValidBlock
// accept 0.)  Block 0 is the header of the write-ahead log.
func ruleNullSource(c *Ctx, id string) {
	V, P, R := c.V, c.P, c.R
	R.Rule(id, "a block number that can be 0 (from AllocBlock, bmap, indbmap, a pointer slot) is used as a block address only on the 'not 0' side of a test of that value", 3)
	b2a := P.Func("super.(*FsSuper).Block2addr")
	isAddrUse := funcIs(V.ZeroBlock, V.ReadBlock, b2a)
	bnumGet := func(f *ssa.Function) bool { return f != nil && f.Name() == "BnumGet" }
	isSource := func(v ssa.Value) string {
		switch x := v.(type) {
		case *ssa.Call:
			g := staticCallee(x)
			if g == nil {
				return ""
			}
			if g == V.AllocBlock || bnumGet(g) {
				return g.Name()
			}
		case *ssa.Extract:
			if cl, ok := x.Tuple.(*ssa.Call); ok && x.Index == 0 {
				if g := staticCallee(cl); g != nil && (g == V.bmap || g == V.indbmap) {
					return g.Name()
				}
			}
		case *ssa.UnOp:
			if x.Op == token.MUL {
				if ia, ok := x.X.(*ssa.IndexAddr); ok {
					if nm, fl, _ := fieldLoad(ia.X); nm == V.Inode && fl == "blks" {
						return "Inode.blks[i]"
					}
				}
			}
		}
		return ""
	}
	n := 0
	for _, fn := range P.RepoFuncs("alloctxn", "inode", "dir", "nfs", "fstxn", "shrinker") {
		if fn.Blocks == nil {
			continue
		}
		per := map[string]int{}
		for _, call := range P.CallsIn(fn, isAddrUse) {
			arg := stripConv(argN(call, 0))
			// the values the argument can be: itself, and what a phi merges
			cands := map[ssa.Value]bool{}
			src := ""
			var walk func(v ssa.Value, d int)
			walk = func(v ssa.Value, d int) {
				v = stripConv(v)
				if v == nil || cands[v] || d > 6 {
					return
				}
				cands[v] = true
				if s := isSource(v); s != "" && src == "" {
					src = s
				}
				if ph, ok := v.(*ssa.Phi); ok {
					for _, e := range ph.Edges {
						walk(e, d+1)
					}
				}
			}
			walk(arg, 0)
			if src == "" {
				continue
			}
			n++
			R.Analysed[FuncName(fn)] = true
			base := fmt.Sprintf("%s|%s of a number from %s", FuncName(fn), staticCallee(call).Name(), src)
			per[base]++
			key := base
			if per[base] > 1 {
				key = fmt.Sprintf("%s#%d", base, per[base])
			}
			notNull := func(v ssa.Value) CondMatcherX {
				return func(Subst) func(Cond) (bool, bool) {
					return func(cd Cond) (bool, bool) {
						if cd.Op != token.EQL && cd.Op != token.NEQ {
							return false, false
						}
						for _, pr := range [][2]ssa.Value{{cd.X, cd.Y}, {cd.Y, cd.X}} {
							if pr[0] == nil || pr[1] == nil {
								continue
							}
							if k, ok := constInt(pr[1]); ok && k == 0 && stripConv(pr[0]) == v {
								return true, cd.Op == token.NEQ
							}
						}
						return false, false
					}
				}
			}
			// known non-zero at block at: tested there, or a phi every edge of which carries a value tested on its way
			var nonNull func(v ssa.Value, at *ssa.BasicBlock, d int) bool
			nonNull = func(v ssa.Value, at *ssa.BasicBlock, d int) bool {
				v = stripConv(v)
				if guardedByX(fn, at, notNull(v), nil, 0) {
					return true
				}
				ph, isP := v.(*ssa.Phi)
				if !isP || d > 4 {
					return false
				}
				for i, e := range ph.Edges {
					pred := ph.Block().Preds[i]
					ev := stripConv(e)
					if edgeGuardedX(fn, pred, ph.Block(), notNull(ev), nil, 0) || nonNull(ev, pred, d+1) {
						continue
					}
					return false
				}
				return true
			}
			g := nonNull(arg, call.Block(), 0)
			if !g {
				// the callee may say "no block" with an error result: the use lies on the err == nil side, and the
				// callee answers a nil error only where the number it returns was tested not to be 0
				if ex, isE := arg.(*ssa.Extract); isE {
					if cl, isC := ex.Tuple.(*ssa.Call); isC {
						if callee := staticCallee(cl); callee != nil && callee.Blocks != nil {
							errIdx := -1
							rs := callee.Signature.Results()
							for i := 0; i < rs.Len(); i++ {
								if types.Identical(rs.At(i).Type(), types.Universe.Lookup("error").Type()) {
									errIdx = i
								}
							}
							if errIdx >= 0 {
								sib := func(Subst) func(Cond) (bool, bool) {
									return func(cd Cond) (bool, bool) {
										if cd.Op != token.EQL && cd.Op != token.NEQ {
											return false, false
										}
										for _, pr := range [][2]ssa.Value{{cd.X, cd.Y}, {cd.Y, cd.X}} {
											if pr[0] == nil || pr[1] == nil || !isNilConst(pr[1]) {
												continue
											}
											if e2, ok := stripConv(pr[0]).(*ssa.Extract); ok && e2.Tuple == ex.Tuple && e2.Index == errIdx {
												return true, cd.Op == token.EQL
											}
										}
										return false, false
									}
								}
								useOK := guardedByX(fn, call.Block(), sib, nil, 0)
								// in the callee: a return with a nil error returns a number tested != 0
								calleeOK := true
								for _, b := range callee.Blocks {
									r, isR := b.Instrs[len(b.Instrs)-1].(*ssa.Return)
									if !isR || errIdx >= len(r.Results) || ex.Index >= len(r.Results) {
										continue
									}
									if !isNilConst(r.Results[errIdx]) {
										continue
									}
									rv := stripConv(r.Results[ex.Index])
									if !guardedByX(callee, b, notNull(rv), nil, 0) {
										calleeOK = false
									}
								}
								g = useOK && calleeOK
							}
						}
					}
				}
			}
			R.Check(g, id, key, P.Pos(call.Pos()), "the number is known to be non-zero where it is used as an address", "dominated by the != 0 side of a test of this value (or of every value merged into it)", "the number can be 0 (no block: the disk is full, or a hole) and is used as a block address without a test: block 0 is the header of the write-ahead log - it is read as file data, or zeroed / written inside a committed transaction")
		}
	}
}

// dirMutators: the functions of package dir with an ok result that reach
// Inode.Write (AddName, RemName, AddNameDir, RemNameDir, InitDir, MkRootDir).
func dirMutators(c *Ctx) []*ssa.Function {
	V, P := c.V, c.P
	var muts []*ssa.Function
	for _, f := range P.RepoFuncs("dir") {
		if f.Parent() != nil || f.Signature.Recv() != nil || f.Blocks == nil {
			continue
		}
		res := f.Signature.Results()
		if res.Len() == 0 {
			continue
		}
		if b, ok := res.At(res.Len() - 1).Type().Underlying().(*types.Basic); !ok || b.Kind() != types.Bool {
			continue
		}
		if P.Reach([]*ssa.Function{f}, func(g *ssa.Function) bool { return !IsRepoFunc(g) })[V.InodeWrite] {
			muts = append(muts, f)
		}
	}
	sort.Slice(muts, func(i, j int) bool { return FuncName(muts[i]) < FuncName(muts[j]) })
	return muts
}

// ruleDoneMeansWritten: the other direction of ruleOkResults.  "ok" from a
// function that changes a directory means the directory block was written in
// this transaction.  A shortcut that answers ok because the name cache already
// says so ("idempotent add") trusts the cache over the disk: the name cache of
// a cached inode survives the inode's death and rebirth, so the "." and ".."
// of a recycled directory are never written - the running server sees them, a
// restarted one does not.
func ruleDoneMeansWritten(c *Ctx, id string) {
	V, P, R := c.V, c.P, c.R
	R.Rule(id, "a directory update reported done was written: in every function of package dir that writes a directory, each way of answering ok other than the constant false follows, on every path, a call of Inode.Write or of another such function", 6)
	muts := dirMutators(c)
	isW := map[*ssa.Function]bool{V.InodeWrite: true}
	for _, m := range muts {
		isW[m] = true
	}
	for _, m := range muts {
		R.Analysed[FuncName(m)] = true
		idx := m.Signature.Results().Len() - 1
		pre := MustBefore(m, func(in ssa.Instruction) bool {
			cal := staticCallee(in)
			return cal != nil && cal != m && isW[cal]
		})
		ok, n, where := true, 0, m.Pos()
		for _, rs := range returnSources(m, idx) {
			if bv, isb := constBool(stripConv(rs.Val)); isb && !bv {
				continue
			}
			n++
			at := ssa.Instruction(rs.Ret)
			if rs.From != rs.To {
				at = rs.From.Instrs[len(rs.From.Instrs)-1]
			}
			if !pre(at) {
				ok, where = false, rs.Ret.Pos()
			}
		}
		R.Check(ok && n > 0, id, FuncName(m)+"|ok only after the directory write", P.Pos(where), "every answer that can be true follows the write of the directory (or the call of the function that does it)", fmt.Sprintf("%d answers", n), "the function can answer ok without having written the directory in this transaction (a shortcut through the name cache): cache and disk disagree, the entry is missing after a restart")
	}
	R.Check(len(muts) >= 4, id, "inventory|directory-writing functions", "?", "the functions of package dir that write a directory are found", fmt.Sprintf("%d functions", len(muts)), "fewer directory-writing functions than AddName/RemName/AddNameDir/RemNameDir")
}
