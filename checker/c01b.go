package main

func ruleR5(c *Ctx, id string) {}
func ruleR1(c *Ctx, id string) {}
