package main

import (
	"golang.org/x/tools/go/ssa"
)

// ruleR5: format is crash-atomic: the on-disk marker that makes the "file
// system absent" test false (a root inode with non-zero Kind) must become
// visible last - either it is written by the journal transaction that creates
// the root directory, or it is the last raw write of the format path and is
// separated from the earlier ones by a barrier.
func ruleR5(c *Ctx, id string) {
	V, P, R := c.V, c.P, c.R
	R.Rule(id, "format is crash-atomic: the 'formatted' marker (root inode with non-zero Kind) is written by the transaction that creates the root directory, after the raw bitmap writes; or it is the last raw write, after a barrier", 2)
	mk := c.fn(id, "nfs.MakeNfs")
	mkfs := c.fn(id, "nfs.makeFs")
	mkroot := c.fn(id, "nfs.(*Nfs).makeRootDir")
	if mk == nil || mkfs == nil || mkroot == nil {
		return
	}
	R.Analysed[FuncName(mkfs)] = true
	R.Analysed[FuncName(mkroot)] = true
	// raw writes of the format path, in order; the marker write = WriteDirect of an inode-sized buffer
	var marker ssa.Instruction
	var raws []ssa.Instruction
	for _, b := range mkfs.DomPreorder() {
		for _, in := range b.Instrs {
			if _, ok := in.(*ssa.Call); !ok {
				continue
			}
			if cal := staticCallee(in); cal != nil && cal.Name() == "WriteDirect" {
				marker = in
				raws = append(raws, in)
				continue
			}
			for _, cal := range P.Callees(in) {
				r := P.Reach([]*ssa.Function{cal}, func(f *ssa.Function) bool { return !IsRepoFunc(f) })
				for f := range r {
					for _, b2 := range f.Blocks {
						for _, i2 := range b2.Instrs {
							if k, ok := rawDiskOp(i2); ok && k == "write" {
								raws = append(raws, in)
							}
						}
					}
				}
			}
		}
	}
	if marker == nil {
		// the marker is not written raw: it must be written inside makeRootDir's transaction
		init := P.CallsIn(mkroot, funcIs(V.InitInode))
		wi := P.CallsIn(mkroot, funcIs(V.WriteInode))
		cm := P.CallsIn(mkroot, funcIs(V.Commit))
		ok := len(init) == 1 && len(wi) >= 1 && len(cm) == 1
		if ok {
			ok = MustBefore(mkroot, callTo(V.InitInode))(cm[0]) && MustBefore(mkroot, callTo(V.WriteInode))(cm[0]) && reachableFrom(init[0], wi[0])
		}
		R.Check(ok, id, "nfs.makeRootDir|marker written by the root-directory transaction", P.Pos(mkroot.Pos()), "the root inode is initialised and written through inside the transaction that creates '.' and '..', before its commit", "InitInode, WriteInode precede Commit", "the root inode marker is written neither raw nor in the root-directory transaction")
		// and makeFs (raw bitmaps) precedes makeRootDir in MakeNfs
		fsCalls := P.CallsIn(mk, funcIs(mkfs))
		rdCalls := P.CallsIn(mk, funcIs(mkroot))
		okOrder := len(fsCalls) == 1 && len(rdCalls) == 1 && reachableFrom(fsCalls[0], rdCalls[0]) && !reachableFrom(rdCalls[0], fsCalls[0])
		R.Check(okOrder, id, "nfs.MakeNfs|bitmaps before the marker", P.Pos(mk.Pos()), "the raw bitmap writes of mkfs precede the transaction that makes the file system visible", "makeFs before makeRootDir", "the marker can become durable before the bitmaps")
		return
	}
	last := true
	for _, r := range raws {
		if r != marker && reachableFrom(marker, r) {
			last = false
		}
	}
	barrier := false
	for _, b := range mkfs.Blocks {
		for _, in := range b.Instrs {
			if k, ok := rawDiskOp(in); ok && k == "barrier" && reachableFrom(in, marker) {
				barrier = true
			}
		}
	}
	R.Check(last && barrier, id, "nfs.makeFs|marker written last, after a barrier", P.Pos(marker.Pos()), "the raw write of the root inode (the 'formatted' marker) is the last raw write of mkfs and is preceded by a barrier", "ordered", "the marker is written first and without barrier: a crash during mkfs leaves a disk that looks formatted but has empty bitmaps and no root directory (after restart the first CREATE is handed inode 1, the locked root, and never returns)")
	R.Pass(id, "nfs.MakeNfs|format path identified", P.Pos(mk.Pos()), "format path found", "makeFs under root Kind == 0")
}
