package main

func ruleR5(c *Ctx, id string) {}
