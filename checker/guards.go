package main

import (
	"go/token"

	"golang.org/x/tools/go/ssa"
)

// A Cond is a normalised branch condition: X op Y, with negation folded into
// the edge polarity.
type Cond struct {
	Op   token.Token
	X, Y ssa.Value
}

// branchConds enumerates, for fn, every If with a comparison (or plain
// boolean) condition together with the successor taken when the normalised
// condition holds and the one taken when it does not.
type Branch struct {
	Block       *ssa.BasicBlock
	Cond        Cond // comparison; Op==ILLEGAL means plain boolean value in X
	True, False *ssa.BasicBlock
}

func branches(fn *ssa.Function) []Branch {
	var out []Branch
	for _, b := range fn.Blocks {
		if len(b.Instrs) == 0 {
			continue
		}
		ifi, ok := b.Instrs[len(b.Instrs)-1].(*ssa.If)
		if !ok {
			continue
		}
		c := ifi.Cond
		t, f := b.Succs[0], b.Succs[1]
		for {
			if u, ok := c.(*ssa.UnOp); ok && u.Op == token.NOT {
				c = u.X
				t, f = f, t
				continue
			}
			break
		}
		if bo, ok := c.(*ssa.BinOp); ok {
			switch bo.Op {
			case token.EQL, token.NEQ, token.LSS, token.LEQ, token.GTR, token.GEQ:
				out = append(out, Branch{Block: b, Cond: Cond{bo.Op, bo.X, bo.Y}, True: t, False: f})
				out = append(out, minBranches(b, bo, t, f)...)
				continue
			}
		}
		out = append(out, Branch{Block: b, Cond: Cond{token.ILLEGAL, c, nil}, True: t, False: f})
	}
	return out
}

// noSide stands for the side of a derived comparison about which nothing is
// known: no edge leads to it, it dominates nothing.
var noSide = &ssa.BasicBlock{Comment: "no-side"}

// minOperands: v is util.Min(a, b) or the builtin min(a, b).
func minOperands(v ssa.Value) (ssa.Value, ssa.Value, bool) {
	cl, ok := stripConv(v).(*ssa.Call)
	if !ok || len(cl.Call.Args) != 2 {
		return nil, nil, false
	}
	if bi, isB := cl.Call.Value.(*ssa.Builtin); isB {
		if bi.Name() == "min" {
			return cl.Call.Args[0], cl.Call.Args[1], true
		}
		return nil, nil, false
	}
	if g := cl.Call.StaticCallee(); g != nil && g.Name() == "Min" && g.Pkg != nil && g.Pkg.Pkg.Name() == "util" {
		return cl.Call.Args[0], cl.Call.Args[1], true
	}
	return nil, nil, false
}

// minBranches: "x > min(a, b)" refuses what "x > a || x > b" refuses: on the
// side where the comparison with the minimum says "not above", x is not above
// either operand.  The derived comparisons have one known side only.
func minBranches(b *ssa.BasicBlock, bo *ssa.BinOp, t, f *ssa.BasicBlock) []Branch {
	op, x, y := bo.Op, bo.X, bo.Y
	if _, _, isMin := minOperands(x); isMin {
		op, x, y = flipOp(op), y, x
	}
	m1, m2, isMin := minOperands(y)
	if !isMin {
		return nil
	}
	var out []Branch
	for _, m := range []ssa.Value{m1, m2} {
		switch op {
		case token.GTR, token.GEQ: // false side: x <= m (x < m) for both operands
			out = append(out, Branch{Block: b, Cond: Cond{op, x, m}, True: noSide, False: f})
		case token.LEQ, token.LSS: // true side: x <= m (x < m) for both operands
			out = append(out, Branch{Block: b, Cond: Cond{op, x, m}, True: t, False: noSide})
		}
	}
	return out
}

// edgeDominates: taking edge (from -> to) is necessary to reach target:
// to's only predecessor is from and to dominates target.
func edgeDominates(from, to, target *ssa.BasicBlock) bool {
	if len(to.Preds) != 1 || to.Preds[0] != from {
		// allow a 'to' all of whose preds are 'from' (both arms same)
		return false
	}
	return to.Dominates(target)
}

// guardedBy reports whether target is dominated by an edge on which match
// holds.  match(cond) returns (applies, polarity): if applies, the edge of
// interest is the True edge when polarity is true, else the False edge.
func guardedBy(fn *ssa.Function, target *ssa.BasicBlock, match func(Cond) (bool, bool)) bool {
	for _, br := range branches(fn) {
		ok, pol := match(br.Cond)
		if !ok {
			continue
		}
		s := br.False
		if pol {
			s = br.True
		}
		if edgeDominates(br.Block, s, target) {
			return true
		}
	}
	return false
}

// flipOp mirrors a comparison (X op Y  ==  Y flip(op) X).
func flipOp(op token.Token) token.Token {
	switch op {
	case token.LSS:
		return token.GTR
	case token.GTR:
		return token.LSS
	case token.LEQ:
		return token.GEQ
	case token.GEQ:
		return token.LEQ
	}
	return op
}

// negOp negates a comparison.
func negOp(op token.Token) token.Token {
	switch op {
	case token.EQL:
		return token.NEQ
	case token.NEQ:
		return token.EQL
	case token.LSS:
		return token.GEQ
	case token.GEQ:
		return token.LSS
	case token.GTR:
		return token.LEQ
	case token.LEQ:
		return token.GTR
	}
	return op
}

// nonNilReturns lists the Return instructions of fn whose i-th result is not
// the nil/zero constant.
func nonConstReturns(fn *ssa.Function, i int) []*ssa.Return {
	var out []*ssa.Return
	for _, b := range fn.Blocks {
		if r, ok := b.Instrs[len(b.Instrs)-1].(*ssa.Return); ok && i < len(r.Results) {
			if mayBeNonZero(fn, r.Results[i], b, b, 0) {
				out = append(out, r)
			}
		}
	}
	return out
}

// mayBeNonZero: can v, as it flows along the edge from -> to (from == to: at
// the block itself), be something else than the nil/zero constant?  A value
// that the path has just compared equal to nil ("if x == nil { return }" with
// a named result) cannot.
func mayBeNonZero(fn *ssa.Function, v ssa.Value, from, to *ssa.BasicBlock, d int) bool {
	if c, ok := v.(*ssa.Const); ok {
		_ = c
		return false
	}
	if d > 6 {
		return true
	}
	if ph, ok := v.(*ssa.Phi); ok && (ph.Block() == to || ph.Block() == from) {
		for i, e := range ph.Edges {
			if mayBeNonZero(fn, e, ph.Block().Preds[i], ph.Block(), d+1) {
				return true
			}
		}
		return false
	}
	isZero := func(cd Cond) (bool, bool) {
		if cd.X == nil || cd.Y == nil || (cd.Op != token.EQL && cd.Op != token.NEQ) {
			return false, false
		}
		for _, pr := range [][2]ssa.Value{{cd.X, cd.Y}, {cd.Y, cd.X}} {
			if stripConv(pr[0]) != stripConv(v) {
				continue
			}
			if k, isk := constInt(pr[1]); isNilConst(pr[1]) || (isk && k == 0) {
				return true, cd.Op == token.EQL
			}
		}
		return false, false
	}
	if from != to {
		for _, br := range branches(fn) {
			if br.Block != from || br.True == br.False {
				continue
			}
			if ok, pol := isZero(br.Cond); ok {
				succ := br.False
				if pol {
					succ = br.True
				}
				if succ == to {
					return false
				}
			}
		}
	}
	return !guardedBy(fn, from, isZero)
}

// SubjectGuard builds, for a subject value, the matcher of the comparisons
// that guard it (same contract as guardedBy's match).
type SubjectGuard func(v ssa.Value) func(Cond) (bool, bool)

// guardedByS: like guardedBy for a guard on one subject value, but the guard
// may also be established by a predicate helper: a go-nfsd function called
// with the subject, whose result is tested by the caller, and all of whose
// returns of the tested class are themselves guarded on the corresponding
// parameter ("if err := check(x); err != OK { return }").
// FieldGuard builds the matcher for a plain value v that stands for field
// `field` of the subject (a helper that is handed ip.Kind instead of ip).
type FieldGuard func(field string, v ssa.Value) func(Cond) (bool, bool)

func guardedByS(fn *ssa.Function, at *ssa.BasicBlock, subj ssa.Value, mk SubjectGuard, depth int, fmk ...FieldGuard) bool {
	if guardedBy(fn, at, mk(subj)) {
		return true
	}
	if depth > 2 {
		return false
	}
	same := func(a, b ssa.Value) bool {
		return stripConv(a) == stripConv(b) || sameParamField(a, b)
	}
	for _, br := range branches(fn) {
		var call *ssa.Call
		// class: 1 = boolean true, 0 = boolean false, 2 = status OK
		type cls struct {
			class int
			succ  *ssa.BasicBlock
		}
		var classes []cls
		switch {
		case br.Cond.Op == token.ILLEGAL:
			if c, ok := br.Cond.X.(*ssa.Call); ok {
				call = c
				classes = []cls{{1, br.True}, {0, br.False}}
			}
		case br.Cond.Op == token.EQL || br.Cond.Op == token.NEQ:
			c, ok := stripConv(br.Cond.X).(*ssa.Call)
			k, isk := constInt(br.Cond.Y)
			if ok && isk && k == 0 && isNamedStatus(c.Type()) {
				call = c
				if br.Cond.Op == token.EQL {
					classes = []cls{{2, br.True}}
				} else {
					classes = []cls{{2, br.False}}
				}
			}
		}
		if call == nil {
			continue
		}
		h := staticCallee(call)
		if h == nil || !IsRepoFunc(h) || h.Blocks == nil || h == fn {
			continue
		}
		idx := -1
		fieldOf := ""
		for i, a := range call.Call.Args {
			if same(a, subj) && i < len(h.Params) {
				idx = i
			}
		}
		if idx < 0 && len(fmk) > 0 {
			// the helper is handed a field of the subject
			for i, a := range call.Call.Args {
				if _, fl, base, _ := loadedField(a); fl != "" && base == stripConv(subj) && i < len(h.Params) {
					idx, fieldOf = i, fl
				}
			}
		}
		if idx < 0 {
			continue
		}
		for _, c := range classes {
			if !edgeDominates(br.Block, c.succ, at) {
				continue
			}
			all, n := true, 0
			for _, b := range h.Blocks {
				r, ok := b.Instrs[len(b.Instrs)-1].(*ssa.Return)
				if !ok || len(r.Results) != 1 {
					continue
				}
				inClass := true // unknown results count for every class
				res := r.Results[0]
				if pm, isP := stripConv(res).(*ssa.Parameter); isP {
					// the helper hands back one of its arguments: classify by what is passed at this call
					for i, q := range h.Params {
						if q == pm && i < len(call.Call.Args) {
							res = call.Call.Args[i]
						}
					}
				}
				if bv, isb := constBool(res); isb {
					inClass = (c.class == 1 && bv) || (c.class == 0 && !bv)
				} else if k, isk := constInt(res); isk {
					inClass = c.class == 2 && k == 0
				}
				if !inClass {
					continue
				}
				n++
				if fieldOf != "" {
					if !guardedBy(h, b, fmk[0](fieldOf, h.Params[idx])) {
						all = false
					}
				} else if !guardedByS(h, b, h.Params[idx], mk, depth+1, fmk...) {
					all = false
				}
			}
			if all && n > 0 {
				return true
			}
		}
	}
	// The subject is one result of a helper that also answers a flag or a status ("op, ip, st := begin(...);
	// if st != OK { return }"): on the side where the caller saw the good answer, the subject is what the helper
	// returned with that answer - the guard may have been established inside the helper, on the returned value.
	if ex, ok := stripConv(subj).(*ssa.Extract); ok {
		if call, ok := ex.Tuple.(*ssa.Call); ok {
			h := staticCallee(call)
			if h != nil && IsRepoFunc(h) && h.Blocks != nil && h != fn {
				for _, br := range branches(fn) {
					var other *ssa.Extract
					type cls struct {
						class int
						succ  *ssa.BasicBlock
					}
					var classes []cls
					switch {
					case br.Cond.Op == token.ILLEGAL:
						if e2, ok := stripConv(br.Cond.X).(*ssa.Extract); ok && e2.Tuple == ex.Tuple {
							other = e2
							classes = []cls{{1, br.True}, {0, br.False}}
						}
					case br.Cond.Op == token.EQL || br.Cond.Op == token.NEQ:
						e2, ok := stripConv(br.Cond.X).(*ssa.Extract)
						k, isk := constInt(br.Cond.Y)
						if ok && e2.Tuple == ex.Tuple && isk && k == 0 && isNamedStatus(e2.Type()) {
							other = e2
							if br.Cond.Op == token.EQL {
								classes = []cls{{2, br.True}}
							} else {
								classes = []cls{{2, br.False}}
							}
						}
					}
					if other == nil || other.Index == ex.Index {
						continue
					}
					for _, c := range classes {
						if !edgeDominates(br.Block, c.succ, at) {
							continue
						}
						all, n := true, 0
						for _, b := range h.Blocks {
							r, ok := b.Instrs[len(b.Instrs)-1].(*ssa.Return)
							if !ok || len(r.Results) <= other.Index || len(r.Results) <= ex.Index {
								continue
							}
							inClass := true // an answer that is not a constant counts for every class
							if bv, isb := constBool(r.Results[other.Index]); isb {
								inClass = (c.class == 1 && bv) || (c.class == 0 && !bv)
							} else if k, isk := constInt(r.Results[other.Index]); isk {
								inClass = c.class == 2 && k == 0
							}
							if !inClass {
								continue
							}
							n++
							if !guardedByS(h, b, r.Results[ex.Index], mk, depth+1, fmk...) {
								all = false
							}
						}
						if all && n > 0 {
							return true
						}
					}
				}
			}
		}
	}
	return false
}

// CondMatcherX builds, for a scope described by a substitution (helper
// parameters -> the values passed at the call under consideration), the
// matcher of the comparisons that establish a condition.  With the empty
// substitution it matches in the function itself.
type CondMatcherX func(sub Subst) func(Cond) (bool, bool)

// guardedByX: the block at is dominated by an edge on which the condition
// holds, where the condition may be tested directly or by a predicate helper
// (bool result, possibly one of several results, or a status compared with
// OK) all of whose answers of the dominating class are themselves guarded,
// inside the helper, by the condition on the corresponding parameters.
func guardedByX(fn *ssa.Function, at *ssa.BasicBlock, mk CondMatcherX, sub Subst, depth int) bool {
	if guardedBy(fn, at, mk(sub)) {
		return true
	}
	if depth > 2 {
		return false
	}
	for _, br := range branches(fn) {
		var call *ssa.Call
		idx := 0
		type cls struct {
			class int // 1 true, 0 false, 2 status OK
			succ  *ssa.BasicBlock
		}
		var classes []cls
		tupleOf := func(v ssa.Value) (*ssa.Call, int) {
			v = stripConv(v)
			if ex, ok := v.(*ssa.Extract); ok {
				if c, ok := ex.Tuple.(*ssa.Call); ok {
					return c, ex.Index
				}
				return nil, 0
			}
			c, _ := v.(*ssa.Call)
			return c, 0
		}
		switch {
		case br.Cond.Op == token.ILLEGAL:
			call, idx = tupleOf(br.Cond.X)
			classes = []cls{{1, br.True}, {0, br.False}}
		case br.Cond.Op == token.EQL || br.Cond.Op == token.NEQ:
			c, i := tupleOf(br.Cond.X)
			k, isk := constInt(br.Cond.Y)
			if c != nil && isk && k == 0 && isNamedStatus(stripConv(br.Cond.X).Type()) {
				call, idx = c, i
				if br.Cond.Op == token.EQL {
					classes = []cls{{2, br.True}}
				} else {
					classes = []cls{{2, br.False}}
				}
			}
		}
		if call == nil {
			continue
		}
		h := staticCallee(call)
		if h == nil || !IsRepoFunc(h) || h.Blocks == nil || h == fn || !(isPrivateHelper(h) || h.Parent() != nil) {
			continue
		}
		hs := Subst{}
		for k, v := range sub {
			hs[k] = v
		}
		for i, p := range h.Params {
			if i < len(call.Call.Args) {
				hs[p] = sub.resolve(call.Call.Args[i])
			}
		}
		for _, c := range classes {
			if !edgeDominates(br.Block, c.succ, at) {
				continue
			}
			all, n := true, 0
			for _, b := range h.Blocks {
				r, ok := b.Instrs[len(b.Instrs)-1].(*ssa.Return)
				if !ok || idx >= len(r.Results) {
					continue
				}
				inCls, holds := resultImplies(h, r.Results[idx], c.class, b, b, mk, hs, depth+1, 0)
				if !inCls {
					continue
				}
				n++
				if !holds {
					all = false
				}
			}
			if all && n > 0 {
				return true
			}
		}
	}
	return false
}

// guardedUp: the block at of scope sc is guarded (guardedByX) inside its own
// function, or the call through which the scope runs is guarded in the
// enclosing scope, and so on up to the owner.
func guardedUp(scopes []Scope, sc Scope, at *ssa.BasicBlock, mk CondMatcherX) bool {
	for i := 0; i < 4; i++ {
		if guardedByX(sc.Fn, at, mk, sc.S, 0) {
			return true
		}
		if sc.Via == nil {
			return false
		}
		at = sc.Via.Block()
		parent := sc.Via.Parent()
		found := false
		for _, s2 := range scopes {
			if s2.Fn == parent {
				sc, found = s2, true
				break
			}
		}
		if !found {
			return false
		}
	}
	return false
}

// resultImplies: the value v, returned by helper h along the edge from -> to
// (from == to: at the return's own block), (a) can belong to the class the
// caller tests (1: true, 0: false, 2: status OK) and (b) if it does, the guard
// matched by mk holds.  A constant belongs to its class and needs the guard on
// its path; a comparison that *is* the guard implies it by its own truth
// ("return ip.Inum == ino && ip.Gen == gen"); a phi is judged edge by edge.
func resultImplies(h *ssa.Function, v ssa.Value, class int, from, to *ssa.BasicBlock, mk CondMatcherX, hs Subst, depth, d int) (bool, bool) {
	res := hs.resolve(v)
	if bv, isb := constBool(res); isb {
		in := (class == 1 && bv) || (class == 0 && !bv)
		return in, in && edgeGuardedX(h, from, to, mk, hs, depth)
	}
	if k, isk := constInt(res); isk {
		in := class == 2 && k == 0
		return in, in && edgeGuardedX(h, from, to, mk, hs, depth)
	}
	if d > 4 {
		return true, edgeGuardedX(h, from, to, mk, hs, depth)
	}
	switch x := v.(type) {
	case *ssa.Phi:
		if x.Block() == to || x.Block() == from {
			anyIn, all := false, true
			for i, e := range x.Edges {
				in, ok := resultImplies(h, e, class, x.Block().Preds[i], x.Block(), mk, hs, depth, d+1)
				if in {
					anyIn = true
					if !ok {
						all = false
					}
				}
			}
			return anyIn, anyIn && all
		}
	case *ssa.UnOp:
		if x.Op == token.NOT && class != 2 {
			return resultImplies(h, x.X, 1-class, from, to, mk, hs, depth, d+1)
		}
	case *ssa.BinOp:
		if class != 2 {
			if ok, pol := mk(hs)(Cond{Op: x.Op, X: x.X, Y: x.Y}); ok && pol == (class == 1) {
				return true, true
			}
		}
	}
	return true, edgeGuardedX(h, from, to, mk, hs, depth)
}

// edgeGuardedX: the edge from -> to of h is taken only when the guard holds:
// it is the matching side of the test that ends from, or from itself is
// guarded.
func edgeGuardedX(h *ssa.Function, from, to *ssa.BasicBlock, mk CondMatcherX, hs Subst, depth int) bool {
	if from != to {
		for _, br := range branches(h) {
			if br.Block != from || br.True == br.False {
				continue
			}
			if ok, pol := mk(hs)(br.Cond); ok {
				succ := br.False
				if pol {
					succ = br.True
				}
				if succ == to {
					return true
				}
			}
		}
	}
	return guardedByX(h, from, mk, hs, depth)
}
