package main

import (
	"go/token"

	"golang.org/x/tools/go/ssa"
)

// A Cond is a normalised branch condition: X op Y, with negation folded into
// the edge polarity.
type Cond struct {
	Op   token.Token
	X, Y ssa.Value
}

// branchConds enumerates, for fn, every If with a comparison (or plain
// boolean) condition together with the successor taken when the normalised
// condition holds and the one taken when it does not.
type Branch struct {
	Block      *ssa.BasicBlock
	Cond       Cond      // comparison; Op==ILLEGAL means plain boolean value in X
	True, False *ssa.BasicBlock
}

func branches(fn *ssa.Function) []Branch {
	var out []Branch
	for _, b := range fn.Blocks {
		if len(b.Instrs) == 0 {
			continue
		}
		ifi, ok := b.Instrs[len(b.Instrs)-1].(*ssa.If)
		if !ok {
			continue
		}
		c := ifi.Cond
		t, f := b.Succs[0], b.Succs[1]
		for {
			if u, ok := c.(*ssa.UnOp); ok && u.Op == token.NOT {
				c = u.X
				t, f = f, t
				continue
			}
			break
		}
		if bo, ok := c.(*ssa.BinOp); ok {
			switch bo.Op {
			case token.EQL, token.NEQ, token.LSS, token.LEQ, token.GTR, token.GEQ:
				out = append(out, Branch{Block: b, Cond: Cond{bo.Op, bo.X, bo.Y}, True: t, False: f})
				continue
			}
		}
		out = append(out, Branch{Block: b, Cond: Cond{token.ILLEGAL, c, nil}, True: t, False: f})
	}
	return out
}

// edgeDominates: taking edge (from -> to) is necessary to reach target:
// to's only predecessor is from and to dominates target.
func edgeDominates(from, to, target *ssa.BasicBlock) bool {
	if len(to.Preds) != 1 || to.Preds[0] != from {
		// allow a 'to' all of whose preds are 'from' (both arms same)
		return false
	}
	return to.Dominates(target)
}

// guardedBy reports whether target is dominated by an edge on which match
// holds.  match(cond) returns (applies, polarity): if applies, the edge of
// interest is the True edge when polarity is true, else the False edge.
func guardedBy(fn *ssa.Function, target *ssa.BasicBlock, match func(Cond) (bool, bool)) bool {
	for _, br := range branches(fn) {
		ok, pol := match(br.Cond)
		if !ok {
			continue
		}
		s := br.False
		if pol {
			s = br.True
		}
		if edgeDominates(br.Block, s, target) {
			return true
		}
	}
	return false
}

// flipOp mirrors a comparison (X op Y  ==  Y flip(op) X).
func flipOp(op token.Token) token.Token {
	switch op {
	case token.LSS:
		return token.GTR
	case token.GTR:
		return token.LSS
	case token.LEQ:
		return token.GEQ
	case token.GEQ:
		return token.LEQ
	}
	return op
}

// negOp negates a comparison.
func negOp(op token.Token) token.Token {
	switch op {
	case token.EQL:
		return token.NEQ
	case token.NEQ:
		return token.EQL
	case token.LSS:
		return token.GEQ
	case token.GEQ:
		return token.LSS
	case token.GTR:
		return token.LEQ
	case token.LEQ:
		return token.GTR
	}
	return op
}

// nonNilReturns lists the Return instructions of fn whose i-th result is not
// the nil/zero constant.
func nonConstReturns(fn *ssa.Function, i int) []*ssa.Return {
	var out []*ssa.Return
	for _, b := range fn.Blocks {
		if r, ok := b.Instrs[len(b.Instrs)-1].(*ssa.Return); ok && i < len(r.Results) {
			if _, isC := r.Results[i].(*ssa.Const); !isC {
				out = append(out, r)
			}
		}
	}
	return out
}
