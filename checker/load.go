package main

// Loading of /repo's current working tree: go/packages (type-checked syntax of
// the module and of every dependency), go/ssa for all packages, CHA+VTA call
// graph.  Nothing of go-nfsd is executed.

import (
	"fmt"
	"go/ast"
	"go/token"
	"go/types"
	"os"
	"path/filepath"
	"sort"
	"strings"
	"time"

	"golang.org/x/tools/go/callgraph"
	"golang.org/x/tools/go/callgraph/cha"
	"golang.org/x/tools/go/callgraph/vta"
	"golang.org/x/tools/go/packages"
	"golang.org/x/tools/go/ssa"
	"golang.org/x/tools/go/ssa/ssautil"
)

const modPath = "github.com/mit-pdos/go-nfsd"
const jrnlPath = "github.com/mit-pdos/go-journal"

type Program struct {
	RepoDir string
	Fset    *token.FileSet
	Pkgs    []*packages.Package          // go-nfsd packages (roots)
	All     map[string]*packages.Package // every package by path, deps included
	Prog    *ssa.Program
	SSAPkg  map[string]*ssa.Package
	cg      *callgraph.Graph
	LoadS   float64
	NFuncs  int
}

func loadEnv() []string {
	env := os.Environ()
	out := env[:0:0]
	for _, e := range env {
		if strings.HasPrefix(e, "GOWORK=") || strings.HasPrefix(e, "GOFLAGS=") ||
			strings.HasPrefix(e, "GOPROXY=") || strings.HasPrefix(e, "GOSUMDB=") ||
			strings.HasPrefix(e, "GOTOOLCHAIN=") {
			continue
		}
		out = append(out, e)
	}
	out = append(out, "GOWORK=off", "GOFLAGS=-mod=mod", "GOPROXY=off", "GOSUMDB=off", "GOTOOLCHAIN=local")
	return out
}

func Load(repo string) (*Program, error) {
	t0 := time.Now()
	fset := token.NewFileSet()
	cfg := &packages.Config{
		Mode:  packages.LoadAllSyntax,
		Dir:   repo,
		Fset:  fset,
		Env:   loadEnv(),
		Tests: false,
	}
	pkgs, err := packages.Load(cfg, "./...")
	if err != nil {
		return nil, fmt.Errorf("packages.Load: %v", err)
	}
	if len(pkgs) == 0 {
		return nil, fmt.Errorf("no packages loaded from %s", repo)
	}
	p := &Program{RepoDir: repo, Fset: fset, All: map[string]*packages.Package{}, SSAPkg: map[string]*ssa.Package{}}
	var errs []string
	packages.Visit(pkgs, nil, func(pk *packages.Package) {
		p.All[pk.PkgPath] = pk
		if strings.HasPrefix(pk.PkgPath, modPath) {
			for _, e := range pk.Errors {
				errs = append(errs, e.Error())
			}
		}
	})
	if len(errs) > 0 {
		return nil, fmt.Errorf("type errors in go-nfsd (a tree that does not type-check fails the check):\n  %s", strings.Join(errs, "\n  "))
	}
	for _, pk := range pkgs {
		if strings.HasPrefix(pk.PkgPath, modPath) {
			p.Pkgs = append(p.Pkgs, pk)
		}
	}
	sort.Slice(p.Pkgs, func(i, j int) bool { return p.Pkgs[i].PkgPath < p.Pkgs[j].PkgPath })
	if len(p.Pkgs) < 15 {
		return nil, fmt.Errorf("only %d go-nfsd packages loaded (expected >= 15)", len(p.Pkgs))
	}
	prog, _ := ssautil.AllPackages(pkgs, ssa.InstantiateGenerics)
	prog.Build()
	p.Prog = prog
	for _, sp := range prog.AllPackages() {
		p.SSAPkg[sp.Pkg.Path()] = sp
	}
	buildStaticSites(p)
	p.LoadS = time.Since(t0).Seconds()
	return p, nil
}

func (p *Program) CallGraph() *callgraph.Graph {
	if p.cg == nil {
		fns := ssautil.AllFunctions(p.Prog)
		p.NFuncs = len(fns)
		p.cg = vta.CallGraph(fns, cha.CallGraph(p.Prog))
	}
	return p.cg
}

// Pkg returns the go-nfsd package with the given path relative to the module
// ("nfs", "fstxn", ...), or a dependency by full path.
func (p *Program) Pkg(rel string) *packages.Package {
	if pk, ok := p.All[modPath+"/"+rel]; ok {
		return pk
	}
	return p.All[rel]
}

func (p *Program) SSA(rel string) *ssa.Package {
	if sp, ok := p.SSAPkg[modPath+"/"+rel]; ok {
		return sp
	}
	return p.SSAPkg[rel]
}

// Func resolves "pkg.Func" or "pkg.(*T).Method" / "pkg.(T).Method" to its SSA
// function through types.Objects.  pkg is relative to the go-nfsd module, or a
// full import path for dependencies.
func (p *Program) Func(spec string) *ssa.Function {
	if f := p.funcExact(spec); f != nil {
		return f
	}
	// an UNEXPORTED method may have been turned into a plain function of the same name (or the reverse): the
	// same helper under another spelling
	pkgrel, rest := splitSpec(spec)
	sp := p.SSA(pkgrel)
	if sp == nil || !IsModulePkg(pkgrel) {
		return nil
	}
	name := rest
	if strings.HasPrefix(rest, "(") {
		name = rest[strings.Index(rest, ")")+2:]
	}
	if name == "" || !(name[0] >= 'a' && name[0] <= 'z') {
		return nil
	}
	if strings.HasPrefix(rest, "(") {
		return sp.Func(name)
	}
	// function -> method of some type of the package
	var found *ssa.Function
	n := 0
	for _, m := range sp.Members {
		t, ok := m.(*ssa.Type)
		if !ok {
			continue
		}
		for _, T := range []types.Type{t.Type(), types.NewPointer(t.Type())} {
			if sel := p.Prog.MethodSets.MethodSet(T).Lookup(sp.Pkg, name); sel != nil {
				if f := p.Prog.MethodValue(sel); f != nil && f != found {
					found = f
					n++
				}
			}
		}
	}
	if n == 1 {
		return found
	}
	return nil
}

// IsModulePkg: rel names a package of the go-nfsd module (not a dependency).
func IsModulePkg(rel string) bool { return !strings.Contains(rel, ".") }

func (p *Program) funcExact(spec string) *ssa.Function {
	pkgrel, rest := splitSpec(spec)
	sp := p.SSA(pkgrel)
	if sp == nil {
		return nil
	}
	if strings.HasPrefix(rest, "(") {
		end := strings.Index(rest, ")")
		tn := strings.TrimPrefix(rest[1:end], "*")
		ptr := strings.HasPrefix(rest[1:end], "*")
		mn := rest[end+2:]
		tobj := sp.Pkg.Scope().Lookup(tn)
		if tobj == nil {
			return nil
		}
		var T types.Type = tobj.Type()
		if ptr {
			T = types.NewPointer(T)
		}
		sel := p.Prog.MethodSets.MethodSet(T).Lookup(sp.Pkg, mn)
		if sel == nil {
			return nil
		}
		return p.Prog.MethodValue(sel)
	}
	return sp.Func(rest)
}

func splitSpec(spec string) (string, string) {
	// the package part ends at the last '.' that precedes either '(' or the
	// final identifier
	if i := strings.Index(spec, ".("); i >= 0 {
		return spec[:i], spec[i+1:]
	}
	i := strings.LastIndex(spec, ".")
	return spec[:i], spec[i+1:]
}

// Named returns the named type pkg.T.
func (p *Program) Named(pkgrel, name string) *types.Named {
	pk := p.Pkg(pkgrel)
	if pk == nil || pk.Types == nil {
		return nil
	}
	o := pk.Types.Scope().Lookup(name)
	if o == nil {
		return nil
	}
	n, _ := o.Type().(*types.Named)
	return n
}

func (p *Program) Pos(pos token.Pos) string {
	if !pos.IsValid() {
		return "?"
	}
	ps := p.Fset.Position(pos)
	f := ps.Filename
	if r, err := filepath.Rel(p.RepoDir, f); err == nil && !strings.HasPrefix(r, "..") {
		f = r
	} else if i := strings.Index(f, "/pkg/mod/"); i >= 0 {
		f = f[i+len("/pkg/mod/"):]
	}
	return fmt.Sprintf("%s:%d", f, ps.Line)
}

// IsRepoFunc reports whether fn is declared in a go-nfsd package.
func IsRepoFunc(fn *ssa.Function) bool {
	pk := funcPkg(fn)
	return pk != nil && strings.HasPrefix(pk.Path(), modPath)
}

func funcPkg(fn *ssa.Function) *types.Package {
	if fn == nil {
		return nil
	}
	if fn.Pkg != nil {
		return fn.Pkg.Pkg
	}
	if fn.Parent() != nil {
		return funcPkg(fn.Parent())
	}
	if o := fn.Object(); o != nil {
		return o.Pkg()
	}
	if og := fn.Origin(); og != nil && og != fn {
		return funcPkg(og) // an instance of a generic function
	}
	return nil
}

func relPkg(fn *ssa.Function) string {
	pk := funcPkg(fn)
	if pk == nil {
		return ""
	}
	return strings.TrimPrefix(strings.TrimPrefix(pk.Path(), modPath), "/")
}

// FuncName gives a stable, line-free name: pkg.(*T).M, pkg.F, pkg.F$1.
func FuncName(fn *ssa.Function) string {
	if fn == nil {
		return "<nil>"
	}
	s := fn.String()
	s = strings.ReplaceAll(s, modPath+"/", "")
	s = strings.ReplaceAll(s, jrnlPath+"/", "go-journal/")
	return s
}

// RepoFuncs lists every source function (incl. closures) of the go-nfsd
// packages whose relative path is in pkgs (nil = all), sorted by name.
func (p *Program) RepoFuncs(pkgs ...string) []*ssa.Function {
	want := map[string]bool{}
	for _, k := range pkgs {
		want[k] = true
	}
	var out []*ssa.Function
	for fn := range ssautil.AllFunctions(p.Prog) {
		if fn.Blocks == nil {
			continue
		}
		// compiler-made functions (wrappers, thunks, initialisers) are not source functions - but the instances
		// of a generic function are: they are what runs.  The uninstantiated generic itself is skipped.
		isInstance := fn.Origin() != nil && fn.Origin() != fn && len(fn.TypeArgs()) > 0
		if fn.Synthetic != "" && !isInstance {
			continue
		}
		if fn.TypeParams() != nil && fn.TypeParams().Len() > 0 && len(fn.TypeArgs()) == 0 {
			continue
		}
		if !IsRepoFunc(fn) {
			continue
		}
		if len(want) > 0 && !want[relPkg(fn)] {
			continue
		}
		out = append(out, fn)
	}
	sort.Slice(out, func(i, j int) bool { return FuncName(out[i]) < FuncName(out[j]) })
	return out
}

// FileOf returns the syntax file containing pos among the go-nfsd packages.
func (p *Program) FileOf(pos token.Pos) (*packages.Package, *ast.File) {
	for _, pk := range p.All {
		for _, f := range pk.Syntax {
			if f.Pos() <= pos && pos < f.End() {
				return pk, f
			}
		}
	}
	return nil, nil
}

// FuncDecl finds the *ast.FuncDecl of a (non-closure) SSA function.
func (p *Program) FuncDecl(fn *ssa.Function) (*packages.Package, *ast.FuncDecl) {
	if fn == nil {
		return nil, nil
	}
	if fd, ok := fn.Syntax().(*ast.FuncDecl); ok {
		pk, _ := p.FileOf(fd.Pos())
		return pk, fd
	}
	return nil, nil
}
