package main

import (
	"fmt"
	"go/token"
	"go/types"
	"sort"
	"strings"

	"golang.org/x/tools/go/ssa"
)

func init() {
	props["C09"] = func(c *Ctx) {
		c.R.Expl = "Structural conditions of 'a failed operation leaves no trace': (A1) on every path an error reply leaves every transaction aborted (or untouched, or its commit failed) and no commit follows a failed step; (A2) Abort discards the in-place mutations of cached inodes before it releases their locks; (A3) allocations are returned exactly once (C05.F2/F3); (A4) handlers and paths that never begin a transaction are effect-free and do not claim success unless they are pure; (A5) commit results are tested."
		c.R.NotDec = "equality of the whole observable state before and after a failing request."
		ruleA1(c, "C09.A1")
		ruleA2(c, "C09.A2")
		ruleF2(c, "C09.A3")
		ruleF3(c, "C09.A3b")
		ruleA4(c, "C09.A4")
		ruleA5(c, "C09.A5")
		ruleW2(c, "C09.A6")
		ruleSlot(c, "C09.A7")
		ruleRefused(c, "C09.A8")
		ruleR3(c, "C09.A9")
		ruleW1(c, "C09.A10")
		ruleL2(c, "C09.A11")
		ruleX4(c, "C09.A12")
		// an inode released before the transaction ends is no longer dropped from the cache when the transaction
		// aborts: what was changed in it in place survives the error reply
		ruleT2(c, "C09.A13")
		// a request the server is going to fail must not reach the journal as a transaction too large for it: the
		// refusal is not traceless - the journal forgets how far the next COMMIT must flush
		ruleM6(c, "C09.A14")
	}
}

// invalidates: the instruction stores nil into a cache slot's Obj, or calls a
// go-nfsd function from which such a store is reachable.
func invalidates(c *Ctx) func(ssa.Instruction) bool {
	P, V := c.P, c.V
	cslot := P.Named("cache", "Cslot")
	look := P.Func("cache.(*Cache).LookupSlot")
	// a store of nil into the Obj of the slot looked up for ip.Inum, ip ranging over op.inodes
	dropStoreS := func(in ssa.Instruction, sub Subst) (*ssa.Next, bool) {
		st, ok := in.(*ssa.Store)
		if !ok {
			return nil, false
		}
		n, fl, slot := FieldOf(st.Addr)
		if n == nil || n != cslot || fl != "Obj" {
			return nil, false
		}
		if !isNilConst(st.Val) {
			if mi, ok := st.Val.(*ssa.MakeInterface); !ok || !isNilConst(mi.X) {
				return nil, false
			}
		}
		lc, ok := stripConv(slot).(*ssa.Call)
		if !ok || look == nil || staticCallee(lc) != look {
			return nil, false
		}
		nm, f2, base, _ := loadedFieldS(argN(lc, 0), sub)
		if nm != V.Inode || f2 != "Inum" {
			return nil, false
		}
		for w := range bwdSources(base) {
			if nx, ok := w.(*ssa.Next); ok {
				if rg, ok := nx.Iter.(*ssa.Range); ok {
					if n2, f3, _, _ := loadedField(rg.X); n2 == V.FsTxn && f3 == "inodes" {
						return nx, true
					}
				}
			}
		}
		return nil, false
	}
	// dropsAll: f clears the cached object of every inode recorded in op.inodes, on every path
	// (the store may sit in a helper that is handed the inode's number)
	dropsAll := func(f *ssa.Function) bool {
		if !IsRepoFunc(f) || f.Blocks == nil {
			return false
		}
		for _, sc := range scopesOf(f) {
			for _, b := range sc.Fn.Blocks {
				for _, in := range b.Instrs {
					nx, ok := dropStoreS(in, sc.S)
					if !ok || nx.Parent() != f {
						continue
					}
					// where the store happens as seen from f: the store itself, or the call of the helper
					at := b
					if sc.Via != nil {
						if sc.Via.Parent() != f {
							continue
						}
						thisIn := in
						if !MustAfter(sc.Fn, func(x ssa.Instruction) bool { return x == thisIn }, nil)(sc.Fn.Blocks[0].Instrs[0]) {
							continue
						}
						at = sc.Via.Block()
					}
					h := nx.Block()
					every, nback := true, 0
					for _, p := range h.Preds {
						if h.Dominates(p) {
							nback++
							if !at.Dominates(p) {
								every = false // an iteration can skip the store
							}
						}
					}
					isNext := func(x ssa.Instruction) bool { return x == ssa.Instruction(nx) }
					if every && nback > 0 && MustAfter(f, isNext, nil)(f.Blocks[0].Instrs[0]) {
						return true
					}
				}
			}
		}
		return false
	}
	always := P.NewAlways(func(in ssa.Instruction) bool {
		cal := staticCallee(in)
		return cal != nil && dropsAll(cal)
	})
	return func(in ssa.Instruction) bool {
		if _, ok := in.(*ssa.Call); !ok {
			return false
		}
		return always.Instr(in)
	}
}

func ruleA2(c *Ctx, id string) {
	V, P, R := c.V, c.P, c.R
	R.Rule(id, "abort discards in-place mutations: handlers mutate cached inodes (and their name caches) in place before commit, so Abort must drop the cached object of every inode it holds before releasing the locks", 3)
	if V.Abort == nil {
		return
	}
	// inventory of in-place writers reachable from handlers (what makes the rule necessary)
	reach := P.Reach(V.NfsProcs, func(f *ssa.Function) bool { return !IsRepoFunc(f) })
	writers := map[string]bool{}
	persistent := map[string]bool{"Kind": true, "Nlink": true, "Gen": true, "Size": true, "ShrinkSize": true, "Atime": true, "Mtime": true, "blks": true, "Dcache": true}
	dc := P.Named("dcache", "Dcache")
	for fn := range reach {
		if !IsRepoFunc(fn) {
			continue
		}
		for _, w := range FieldWrites(fn) {
			if (w.Type == V.Inode && persistent[w.Field]) || (dc != nil && w.Type == dc) {
				writers[FuncName(fn)] = true
			}
		}
	}
	var ws []string
	for w := range writers {
		ws = append(ws, w)
	}
	sort.Strings(ws)
	R.Check(len(ws) >= 8, id, "inventory|in-place writers of cached state", "?", "functions reachable from handlers that mutate cached inodes / name caches in place", fmt.Sprintf("%d writers: %s", len(ws), strings.Join(ws, ", ")), "inventory lost")
	f := V.Abort
	R.Analysed[FuncName(f)] = true
	inv := invalidates(c)
	rels := P.CallsIn(f, funcIs(V.releaseInodes))
	if len(rels) == 0 {
		R.Fail(id, "fstxn.Abort|releases", P.Pos(f.Pos()), "Abort releases the transaction's locks", "no releaseInodes call")
		return
	}
	for _, rel := range rels {
		if MustBefore(f, inv)(rel) {
			R.PassNT(id, "fstxn.Abort|cached inodes dropped before release", P.Pos(rel.Pos()), "on every path of Abort the cached objects of the held inodes are invalidated (cache slot Obj = nil) before their locks are released", "invalidation precedes releaseInodes unconditionally")
			continue
		}
		// conditional drop: a path may skip the invalidation only when the
		// transaction has neither a dirty buffer nor an allocation.  Given C10.W1
		// (every in-place store to a cached inode is followed by WriteInode, which
		// dirties a buffer, except on allocation-failure paths, which allocated),
		// such a transaction cannot have modified a cached inode.
		invBlocks := map[*ssa.BasicBlock]bool{}
		for _, b := range f.Blocks {
			for _, in := range b.Instrs {
				if inv(in) {
					invBlocks[b] = true
				}
			}
		}
		through := func(from, to *ssa.BasicBlock) bool { return invBlocks[to] }
		zeroEdgeIn := func(g *ssa.Function, method string) func(from, to *ssa.BasicBlock) bool {
			return condEdge(g, func(cd Cond) (bool, bool) {
				if cd.X == nil || cd.Y == nil {
					return false, false
				}
				cl, ok := stripConv(cd.X).(*ssa.Call)
				if !ok || staticCallee(cl) == nil || staticCallee(cl).Name() != method {
					return false, false
				}
				k, isk := constInt(cd.Y)
				if !isk || k != 0 {
					return false, false
				}
				switch cd.Op {
				case token.GTR, token.NEQ:
					return true, false
				case token.EQL, token.LEQ:
					return true, true
				}
				return false, false
			})
		}
		// ... or the false edge of a private predicate all of whose 'false' answers lie behind that zero edge
		zeroEdge := func(method string) func(from, to *ssa.BasicBlock) bool {
			direct := zeroEdgeIn(f, method)
			viaPred := condEdge(f, func(cd Cond) (bool, bool) {
				if cd.Op != token.ILLEGAL {
					return false, false
				}
				pc, ok := cd.X.(*ssa.Call)
				if !ok {
					return false, false
				}
				h := staticCallee(pc)
				if h == nil || !isPrivateHelper(h) || h.Blocks == nil {
					return false, false
				}
				ze := zeroEdgeIn(h, method)
				n := 0
				for _, hb := range h.Blocks {
					r, isR := hb.Instrs[len(hb.Instrs)-1].(*ssa.Return)
					if !isR || len(r.Results) != 1 {
						continue
					}
					if bv, isb := constBool(r.Results[0]); isb && bv {
						continue
					}
					// a return that may answer false
					n++
					if !everyPathTakes(h, hb, ze) {
						return false, false
					}
				}
				return n > 0, false
			})
			return func(from, to *ssa.BasicBlock) bool { return direct(from, to) || viaPred(from, to) }
		}
		okDirty := everyPathTakes(f, rel.Block(), through, zeroEdge("NDirty"))
		okAlloc := everyPathTakes(f, rel.Block(), through, zeroEdge("NAllocated"))
		R.Check(okDirty && okAlloc, id, "fstxn.Abort|cached inodes dropped before release", P.Pos(rel.Pos()), "every path of Abort invalidates the cached objects of the held inodes before releasing their locks, except paths on which the transaction has no dirty buffer AND no allocation (it cannot have modified a cached inode, by C10.W1)", "skip paths take both the NDirty()==0 and the NAllocated()==0 edge", fmt.Sprintf("a path releases the locks without invalidation although the transaction may have modified cached inodes (skips only under: no dirty buffer=%v, no allocation=%v): the inode cache keeps the aborted transaction's mutations (e.g. a RENAME that fails in AddName has already removed the source name from the cached directory; a WRITE that fails after allocating an indirect root keeps the pointer to the block PostAbort gives back)", okDirty, okAlloc))
	}
	// the invalidation must cover every held inode: it ranges over op.inodes and clears the slot of each
	// (this is part of what inv recognises: a nil store per iteration of a range over op.inodes)
	okLoop := false
	for _, b := range f.Blocks {
		for _, in := range b.Instrs {
			if inv(in) {
				okLoop = true
			}
		}
	}
	R.Check(okLoop, id, "fstxn.Abort|invalidation covers all held inodes", P.Pos(f.Pos()), "Abort calls a function that, for every inode in op.inodes, stores nil into the cache slot looked up for that inode's number, on every iteration", "nil store per iteration of the range over op.inodes", "only some cached inodes are dropped, or the cached object is replaced by something other than 'absent' (e.g. re-read through the aborting transaction, which sees its own aborted writes)")
	// ... and what the abort path leaves in a slot is "absent", nothing else: an object rebuilt there from the
	// committed inode with the old name cache attached (to spare the rebuild) keeps the aborted transaction's
	// edits of that name cache - a RENAME refused in AddName has already taken the source name out of it
	if cslot := P.Named("cache", "Cslot"); cslot != nil {
		nSt, okSt := 0, true
		var bad ssa.Instruction
		for g := range P.Reach([]*ssa.Function{f}, func(h *ssa.Function) bool { return !IsRepoFunc(h) || h == V.releaseInodes }) {
			if !IsRepoFunc(g) || g.Blocks == nil {
				continue
			}
			for _, w := range FieldWrites(g) {
				if w.Type == nil || w.Type.Obj() != cslot.Obj() || w.Field != "Obj" || w.Element {
					continue
				}
				nSt++
				if !isNilConst(w.Val) {
					okSt, bad = false, w.Instr
				}
			}
		}
		at := P.Pos(f.Pos())
		if bad != nil {
			at = P.Pos(bad.Pos())
		}
		R.Check(okSt && nSt > 0, id, "fstxn.Abort|slots are cleared, not refilled", at, "every store to a cache slot's object on the abort path stores nil", fmt.Sprintf("%d stores, all nil", nSt), "the abort path puts an object into the cache slot: whatever it is built from, parts of the aborted transaction's cached state (the name cache) survive the abort")
	}
}

func ruleA4(c *Ctx, id string) {
	V, P, R := c.V, c.P, c.R
	R.Rule(id, "handlers that never begin a transaction are effect-free; a path of a transactional handler that returns without ever beginning a transaction reports an error; the unsupported procedures report an error on every path", 8)
	t := c.tsPreamble(id)
	effectFns := []*ssa.Function{V.OverWrite, V.SetDirty, V.AllocNum, V.FreeNum, V.WriteInode, V.LockAcquire, V.JrnlCommitWait, V.LogFlush, V.BnumPut}
	isEffect := func(f *ssa.Function) bool {
		for _, e := range effectFns {
			if e == f {
				return true
			}
		}
		return false
	}
	unsupported := map[string]bool{"NFSPROC3_MKNOD": true, "NFSPROC3_LINK": true, "NFSPROC3_FSSTAT": true}
	pure := map[string]bool{}
	for _, h := range V.NfsProcs {
		reach := P.Reach([]*ssa.Function{h}, nil)
		if reach[V.Begin] {
			continue
		}
		pure[h.Name()] = true
		bad := ""
		for f := range reach {
			if isEffect(f) {
				bad = FuncName(f)
			}
			if IsRepoFunc(f) {
				for _, w := range FieldWrites(f) {
					if w.Type == V.Inode || w.Type == V.AllocTxn || (w.Type != nil && (w.Type.Obj().Name() == "Dcache" || w.Type.Obj().Name() == "Cache")) {
						bad = FuncName(f) + " writes " + w.Type.Obj().Name() + "." + w.Field
					}
				}
			}
		}
		R.Check(bad == "", id, h.Name()+"|effect-free", P.Pos(h.Pos()), "a handler that holds no transaction reaches no journal write, allocator, lock or cached-state store", "call-graph reachability", "reaches "+bad+" without a transaction: the effect is neither atomic nor undone on failure")
	}
	type agg struct {
		ok  bool
		why string
		pos string
	}
	res := map[string]*agg{}
	for _, sn := range t.Snaps {
		if !isProc(c, sn.Entry) {
			continue
		}
		cls, sv := statusClass(sn)
		if unsupported[sn.Entry] {
			key := sn.Entry + "|unsupported fails"
			a := res[key]
			if a == nil {
				a = &agg{ok: true, pos: P.Pos(sn.Ret.Pos())}
				res[key] = a
			}
			if cls != "err" {
				a.ok = false
				a.why = "status " + sv
			}
			continue
		}
		if len(sn.G.Order) == 0 && !pure[sn.Entry] {
			key := fmt.Sprintf("%s|return#%d before any Begin", sn.Entry, retOrdinal(sn.Ret))
			a := res[key]
			if a == nil {
				a = &agg{ok: true, pos: P.Pos(sn.Ret.Pos())}
				res[key] = a
			}
			if cls != "err" {
				a.ok = false
				a.why = "status " + sv + " although the operation never ran"
			}
		}
	}
	var keys []string
	for k := range res {
		keys = append(keys, k)
	}
	sort.Strings(keys)
	for _, k := range keys {
		a := res[k]
		R.Check(a.ok, id, k, a.pos, "rejected / unsupported request reports an error", "error status on every explored path", a.why)
	}
}

// ruleRefused: the journal can refuse a transaction (it does not fit in the
// log); jrnl.CommitWait then returns false and nothing was committed.  The
// commit funnel must undo such a transaction like an abort.
func ruleRefused(c *Ctx, id string) {
	V, P, R := c.V, c.P, c.R
	R.Rule(id, "a commit the journal refuses is undone like an abort: on every path of a commit terminator on which jrnl.CommitWait answered false (or its answer is not tested) the cached inodes are dropped before the locks are released, AllocTxn.PostAbort runs, and PostCommit does not", 3)
	if V.JrnlCommitWait == nil {
		return
	}
	cp := commitProtocol(c)
	var calls []*cpRefused
	for _, rf := range cp.refused {
		calls = append(calls, rf)
	}
	sort.Slice(calls, func(i, j int) bool { return calls[i].call.Pos() < calls[j].call.Pos() })
	if len(calls) == 0 {
		R.Fail(id, "fstxn|journal commit", "?", "the commit funnel calls jrnl.CommitWait", "no call in the server packages")
		return
	}
	for _, rf := range calls {
		f := rf.holder
		R.Analysed[FuncName(f)] = true
		key := FuncName(ownerOf(f))
		pos := P.Pos(rf.call.Pos())
		if !rf.seen {
			R.Fail(id, key+"|refused commit explored", pos, "the jrnl.CommitWait call is reached from a commit terminator", "not reached on any explored path")
			continue
		}
		R.Check(rf.drops == "", id, key+"|refused commit drops the cached inodes", pos, "every path on which CommitWait returned false invalidates the cached objects of the inodes the transaction holds", "holds on every explored path", "the journal refused the transaction, the reply is an error, but the inodes modified in place stay in the cache: GETATTR shows the size of a WRITE that failed, until the next restart ("+rf.drops+")")
		R.Check(rf.undo == "", id, key+"|refused commit returns its allocations", pos, "every path on which CommitWait returned false runs AllocTxn.PostAbort", "holds on every explored path", "blocks and inodes allocated by a transaction that was never committed stay marked in the in-memory allocators ("+rf.undo+")")
		why := rf.pub
		if why == "" {
			why = rf.order
		}
		// and the caller is told: the function that holds the call answers true only where the journal did
		if f.Signature.Results().Len() == 1 {
			if bt, isB := f.Signature.Results().At(0).Type().Underlying().(*types.Basic); isB && bt.Kind() == types.Bool {
				callV, _ := rf.call.(ssa.Value)
				accepted := func(Subst) func(Cond) (bool, bool) {
					return func(cd Cond) (bool, bool) {
						if cd.Op == token.ILLEGAL && callV != nil && stripConv(cd.X) == callV {
							return true, true
						}
						return false, false
					}
				}
				okAll, nT := true, 0
				seenV := map[ssa.Value]bool{}
				var walk func(v ssa.Value, from, to *ssa.BasicBlock, d int)
				walk = func(v ssa.Value, from, to *ssa.BasicBlock, d int) {
					if ph, isP := v.(*ssa.Phi); isP && d < 8 {
						if seenV[ph] {
							return
						}
						seenV[ph] = true
						for i, e := range ph.Edges {
							walk(e, ph.Block().Preds[i], ph.Block(), d+1)
						}
						return
					}
					if bv, isb := constBool(v); isb && bv {
						nT++
						at := from
						if at == nil {
							return
						}
						if !edgeGuardedX(f, from, to, accepted, nil, 0) {
							okAll = false
						}
					}
				}
				for _, b := range f.Blocks {
					if r, isR := b.Instrs[len(b.Instrs)-1].(*ssa.Return); isR && len(r.Results) == 1 {
						if bv, isb := constBool(r.Results[0]); isb && bv {
							nT++
							if !guardedByX(f, b, accepted, nil, 0) {
								okAll = false
							}
							continue
						}
						walk(r.Results[0], nil, nil, 0)
					}
				}
				R.Check(okAll, id, key+"|a refused commit is reported", pos, "the function answers the constant true only on the side where jrnl.CommitWait answered true", fmt.Sprintf("%d constant true result(s), all behind the accepted side", nT), "the function answers true on a path on which the journal refused the transaction: the handler reports NFS3_OK for an operation that was undone - an acknowledged operation is lost without a crash")
			}
		}
		R.Check(rf.pub == "" && rf.order == "", id, key+"|refused commit publishes nothing", pos, "PostCommit (frees become reusable) runs only when the journal accepted the commit; otherwise the locks are released only after the invalidation", "holds on every explored path", "frees of a transaction that was never committed are applied to the in-memory allocators (the blocks are still in use on disk), or the locks are released while the cache still holds the uncommitted inodes ("+why+")")
	}
}
