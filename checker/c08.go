package main

import (
	"fmt"
	"go/token"
	"go/types"
	"os"
	"strings"

	"golang.org/x/tools/go/ssa"
)

func init() {
	props["C08"] = func(c *Ctx) {
		c.R.Expl = "Structural conditions of handle stability: (G1) the handle codec is symmetric and carries (Ino, Gen); the root handle agrees with the root inode's first generation; Gen is persisted; (G2) Kind and Gen have fixed writers, and every birth (InitInode) and death (FreeInode) bumps Gen on every path; (G3) the checking accessor GetInodeFh returns an inode only under Kind != FREE and Gen == handle.Gen; (G4) every handle argument of every procedure is checked before a success reply."
		c.R.NotDec = "uniqueness of handles over a history (allocator run-time state); persistence of Gen across crashes (journal)."
		ruleG1(c, "C08.G1")
		ruleG2(c, "C08.G2")
		ruleG3(c, "C08.G3")
		ruleG4(c, "C08.G4")
		ruleG5(c, "C08.G5")
		ruleA2(c, "C08.G6")
		ruleS3(c, "C08.G7")
		ruleT3(c, "C08.G8")
		// a handle goes stale when its object is removed, and stays stale: the removal is durable when it is
		// acknowledged - the asynchronous commit is for WRITE only
		ruleU1(c, "C08.G9")
		ruleG10(c, "C08.G10")
		ruleG11(c, "C08.G11")
		// a handle goes stale when its object loses its last name: the unlink follows the removal of the name on
		// every path (REMOVE, RMDIR, RENAME over an existing target)
		ruleS2(c, "C08.G12")
	}
}

// ruleG5: every handle minted for a reply carries the number and the
// generation of one and the same inode.
func ruleG5(c *Ctx, id string) {
	V, P, R := c.V, c.P, c.R
	R.Rule(id, "handles are minted from one inode: every fh.Fh value built in the server takes Ino and Gen from the same inode object (or is the decoded client handle / the root constants)", 3)
	fhT := P.Named("fh", "Fh")
	if fhT == nil {
		R.Unresolved(id, "fh.Fh")
		return
	}
	for _, fn := range P.RepoFuncs("nfs", "dir", "fstxn") {
		type pair struct {
			ino, gen ssa.Value
			pos      ssa.Instruction
		}
		byAlloc := map[ssa.Value]*pair{}
		for _, b := range fn.Blocks {
			for _, in := range b.Instrs {
				st, ok := in.(*ssa.Store)
				if !ok {
					continue
				}
				n, fl, base := FieldOf(st.Addr)
				if n != fhT {
					continue
				}
				p := byAlloc[base]
				if p == nil {
					p = &pair{pos: in}
					byAlloc[base] = p
				}
				if fl == "Ino" {
					p.ino = st.Val
				}
				if fl == "Gen" {
					p.gen = st.Val
				}
			}
		}
		k := 0
		for _, p := range byAlloc {
			if p.ino == nil || p.gen == nil {
				continue
			}
			k++
			n1, f1, b1, _ := loadedField(p.ino)
			n2, f2, b2, _ := loadedField(p.gen)
			ok := n1 == V.Inode && n2 == V.Inode && f1 == "Inum" && f2 == "Gen" && b1 != nil && b1 == b2
			R.Analysed[FuncName(fn)] = true
			R.Check(ok, id, fmt.Sprintf("%s|handle#%d from one inode", FuncName(fn), k), P.Pos(p.pos.Pos()), "Fh{Ino: x.Inum, Gen: x.Gen} with the same inode x", "same inode object", "the handle combines the number of one object with the generation of another: it is stale at once or, worse, equals the handle of a removed object")
		}
	}
}

func ruleG1(c *Ctx, id string) {
	V, P, R := c.V, c.P, c.R
	R.Rule(id, "handle codec symmetric, 16 bytes, (Ino, Gen); root handle = (ROOTINUM, first generation); Gen persisted by Inode.Encode", 5)
	mk3 := c.fn(id, "fh.(Fh).MakeFh3")
	mk := c.fn(id, "fh.MakeFh")
	compareCodec(c, id, "fh.Fh", mk3, mk, 16, true)
	if mk3 != nil {
		ops, _, _ := codecOps(mk3)
		fields := []string{}
		for _, o := range ops {
			fields = append(fields, o.Field)
		}
		R.Check(strings.Join(fields, ",") == "Ino,Gen", id, "fh.Fh|carries Ino,Gen", P.Pos(mk3.Pos()), "the handle carries the inode number and the generation", "fields "+strings.Join(fields, ","), "handle fields are "+strings.Join(fields, ",")+": without the generation a reused number cannot be told apart")
	}
	// root handle constants
	root := c.fn(id, "fh.MkRootFh3")
	mkroot := c.fn(id, "inode.MkRootInode")
	if root != nil && mkroot != nil && V.InitInode != nil {
		var consts []int64
		rops, _, _ := codecOps(root)
		for _, o := range rops {
			if o.Kind != "Int" || !o.Put {
				continue
			}
			var k int64
			if os.Getenv("NFSVERIF_DEBUG") != "" {
				fmt.Fprintf(os.Stderr, "DEBUG G1 sym=%q\n", o.Sym)
			}
			if _, err := fmt.Sscanf(o.Sym, "%d", &k); err == nil && fmt.Sprint(k) == o.Sym {
				consts = append(consts, k)
			} else if k2, ok := constInt(stripConv(o.Src)); ok {
				consts = append(consts, k2)
			} else {
				consts = append(consts, -1)
			}
		}
		inc := genIncrement(c, V.InitInode)
		nInit := len(P.CallsIn(mkroot, funcIs(V.InitInode)))
		rootinum := int64(-2)
		if cst := P.Pkg(jrnlPath + "/common"); cst != nil {
			if o := cst.Types.Scope().Lookup("ROOTINUM"); o != nil {
				if k, ok := constValInt(o); ok {
					rootinum = k
				}
			}
		}
		ok := len(consts) == 2 && consts[0] == rootinum && nInit == 1 && inc > 0 && consts[1] == inc
		R.Check(ok, id, "fh.MkRootFh3|matches root inode", P.Pos(root.Pos()), "the mount handle is (ROOTINUM, generation of a freshly formatted root = one InitInode increment from 0)", fmt.Sprintf("consts %v, ROOTINUM %d, InitInode increment %d applied %d time", consts, rootinum, inc, nInit), fmt.Sprintf("root handle consts %v but ROOTINUM=%d, increment=%d x%d", consts, rootinum, inc, nInit))
	}
	if V.Encode != nil {
		ops, _, _ := codecOps(V.Encode)
		has := false
		for _, o := range ops {
			if o.Field == "Gen" && o.Kind == "Int" {
				has = true
			}
		}
		R.Check(has, id, "inode.Encode|persists Gen", P.Pos(V.Encode.Pos()), "the generation is part of the on-disk inode", "PutInt(Gen) present", "Gen is not encoded: generations restart after a reboot and stale handles become valid")
	}
}

// genIncrement: the positive constant c such that fn stores Gen = Gen + c on
// every path; 0 if not.
func genIncrement(c *Ctx, fn *ssa.Function) int64 {
	V := c.V
	var inc int64
	isBump := func(in ssa.Instruction) bool {
		st, ok := in.(*ssa.Store)
		if !ok {
			return false
		}
		n, f, base := FieldOf(st.Addr)
		if n != V.Inode || f != "Gen" {
			return false
		}
		bo, ok := st.Val.(*ssa.BinOp)
		if !ok || bo.Op != token.ADD {
			return false
		}
		n2, f2, base2, _ := loadedField(bo.X)
		k, isk := constInt(bo.Y)
		if n2 != V.Inode || f2 != "Gen" || base2 != base || !isk || k <= 0 {
			return false
		}
		inc = k
		return true
	}
	entry := fn.Blocks[0].Instrs[0]
	if isBump(entry) || MustAfter(fn, isBump, nil)(entry) {
		return inc
	}
	return 0
}

func ruleG2(c *Ctx, id string) {
	V, P, R := c.V, c.P, c.R
	R.Rule(id, "Kind and Gen are written only by InitInode, FreeInode and Decode; InitInode and FreeInode bump Gen on every path; InitInode is called only by AllocInode (on a FREE inode) and mkfs; FreeInode only where DecLink said the last link is gone, marks the inode FREE and writes it through", 10)
	mkroot := c.fn(id, "inode.MkRootInode")
	allowedW := map[*ssa.Function]bool{V.InitInode: true, V.FreeInode: true, V.Decode: true}
	for _, fn := range P.RepoFuncs() {
		if strings.HasPrefix(relPkg(fn), "cmd/") || relPkg(fn) == "simple" {
			continue
		}
		for _, w := range FieldWrites(fn) {
			if w.Type != V.Inode || (w.Field != "Kind" && w.Field != "Gen") {
				continue
			}
			R.Check(allowedW[fn], id, FuncName(fn)+"|writes "+w.Field, P.Pos(w.Instr.Pos()), "Inode."+w.Field+" is written only at birth, death and decode", "fixed writer", "a new writer of "+w.Field+" can resurrect or alias handles")
		}
	}
	for _, f := range []*ssa.Function{V.InitInode, V.FreeInode} {
		if f == nil {
			continue
		}
		inc := genIncrement(c, f)
		R.Check(inc > 0, id, FuncName(f)+"|bumps Gen on every path", P.Pos(f.Pos()), "Gen = Gen + c (c > 0) on every path", fmt.Sprintf("increment %d", inc), "a path creates or frees the object without changing the generation: handles of the old object denote the new one")
	}
	for _, cs := range P.CallersOf(V.InitInode) {
		if !IsRepoFunc(cs.Caller) {
			continue
		}
		ok := cs.Caller == V.AllocInode || cs.Caller == mkroot
		why := "known caller"
		if !ok && cs.Caller.Name() == "makeRootDir" && relPkg(cs.Caller) == "nfs" {
			// mkfs creates the root inode inside the root-directory transaction; only reachable from the constructor
			serving := P.Reach(V.NfsEntries, func(f *ssa.Function) bool { return !IsRepoFunc(f) })
			if !serving[cs.Caller] {
				ok, why = true, "mkfs (constructor only): root inode created in the root-directory transaction"
			}
		}
		R.Check(ok, id, FuncName(cs.Caller)+"|calls InitInode", P.Pos(cs.Instr.Pos()), "InitInode is called only by AllocInode and by mkfs", why, "an inode initialised outside allocation")
	}
	for _, cs := range P.CallersOf(V.FreeInode) {
		if !IsRepoFunc(cs.Caller) {
			continue
		}
		// the inode is freed where its link count has just reached zero: on the true side of DecLink of the same inode
		fip := stripConv(recvOf(cs.Instr))
		zero := guardedBy(cs.Caller, cs.Instr.Block(), func(cd Cond) (bool, bool) {
			if cd.Op != token.ILLEGAL {
				return false, false
			}
			dc, ok := cd.X.(*ssa.Call)
			if ok && staticCallee(dc) == V.DecLink && stripConv(recvOf(dc)) == fip {
				return true, true
			}
			return false, false
		})
		R.Check(zero, id, FuncName(ownerOf(cs.Caller))+"|calls FreeInode", P.Pos(cs.Instr.Pos()), "FreeInode is called only where DecLink of the same inode returned true (link count reached zero)", "dominated by DecLink() == true", "an inode freed outside the unlink path")
	}
	if V.FreeInode != nil {
		f := V.FreeInode
		entry := f.Blocks[0].Instrs[0]
		isKindFree := func(in ssa.Instruction) bool {
			st, ok := in.(*ssa.Store)
			if !ok {
				return false
			}
			n, fl, _ := FieldOf(st.Addr)
			k, isk := constInt(st.Val)
			return n == V.Inode && fl == "Kind" && isk && k == 0
		}
		R.Check(MustAfter(f, isKindFree, nil)(entry), id, "inode.FreeInode|marks FREE", P.Pos(f.Pos()), "Kind = NF3FREE on every path", "store of 0 to Kind on every path", "freed inode keeps its kind: GetInodeInum keeps handing it out")
		// write-through after the stores; FreeINum recorded
		wi := P.CallsIn(f, funcIs(V.WriteInode))
		okW := len(wi) > 0
		for _, b := range f.Blocks {
			for _, in := range b.Instrs {
				if st, ok := in.(*ssa.Store); ok {
					if n, fl, _ := FieldOf(st.Addr); n == V.Inode && (fl == "Kind" || fl == "Gen") {
						if !MustAfter(f, callTo(V.WriteInode), nil)(in) {
							okW = false
						}
					}
				}
			}
		}
		R.Check(okW, id, "inode.FreeInode|written through", P.Pos(f.Pos()), "WriteInode follows the Kind and Gen stores on every path", "must-follow", "the freed state or the new generation is not written to the journal")
		R.Check(MustAfter(f, callTo(V.FreeINum), nil)(entry), id, "inode.FreeInode|FreeINum", P.Pos(f.Pos()), "the inode number is recorded as freed on every path", "must-follow", "inode marked FREE on disk but its number never returns to the allocator")
	}
	// AllocInode initialises only a FREE, non-shrinking inode and writes it through
	if V.AllocInode != nil {
		f := V.AllocInode
		for _, call := range P.CallsIn(f, funcIs(V.InitInode)) {
			g := guardedBy(f, call.Block(), func(cd Cond) (bool, bool) {
				n, fl, _, _ := loadedField(cd.X)
				k, isk := constInt(cd.Y)
				if n == V.Inode && fl == "Kind" && isk && k == 0 {
					if cd.Op == token.NEQ {
						return true, false
					}
					if cd.Op == token.EQL {
						return true, true
					}
				}
				return false, false
			})
			R.Check(g, id, "fstxn.AllocInode|InitInode only on FREE", P.Pos(call.Pos()), "InitInode is dominated by Kind == NF3FREE (otherwise panic)", "guarded", "a live inode could be re-initialised: two handles, one object")
			R.Check(MustAfter(f, callTo(V.WriteInode), nil)(call), id, "fstxn.AllocInode|written through", P.Pos(call.Pos()), "WriteInode follows InitInode on every path", "must-follow", "new inode (and its new generation) not written to the journal")
			// the inode initialised is the one locked for the allocated number
			lk := P.CallsIn(f, funcIs(V.GetInodeLocked))
			al := P.CallsIn(f, funcIs(V.AllocINum))
			okv := len(lk) == 1 && len(al) == 1 && recvOf(call) == lk[0].(*ssa.Call) && stripConv(argN(lk[0], 0)) == al[0].(*ssa.Call) && stripConv(argN(call, 0)) == al[0].(*ssa.Call)
			R.Check(okv, id, "fstxn.AllocInode|same number", P.Pos(call.Pos()), "the number allocated, the inode locked and the inode initialised are the same", "value identity", "allocated number and initialised inode differ")
		}
	}
}

func ruleG3(c *Ctx, id string) {
	V, P, R := c.V, c.P, c.R
	R.Rule(id, "GetInodeFh returns an inode only when Kind != FREE (via GetInodeInum) and Gen == handle generation; mismatches release the lock", 4)
	if V.GetInodeFh == nil || V.GetInodeInum == nil {
		return
	}
	f := V.GetInodeFh
	R.Analysed[FuncName(f)] = true
	mk := P.Func("fh.MakeFh")
	for _, rs := range returnSources(f, 0) {
		if !mayBeNonZero(f, rs.Val, rs.From, rs.To, 0) {
			continue
		}
		// returned value must be the result of GetInodeInum on the decoded Ino
		res := rs.Val
		call, _ := res.(*ssa.Call)
		okSrc := call != nil && staticCallee(call) == V.GetInodeInum
		okIno := false
		if okSrc {
			if mc, fl := fieldOfCallResult(argN(call, 0)); mc != nil && staticCallee(mc) == mk && fl == "Ino" {
				if _, isP := mc.Call.Args[0].(*ssa.Parameter); isP {
					okIno = true
				}
			}
		}
		R.Check(okSrc && okIno, id, "fstxn.GetInodeFh|inode of the handle's number", P.Pos(rs.Ret.Pos()), "the inode returned is GetInodeInum(MakeFh(handle).Ino)", "value identity", "returned inode is not the one named by the handle")
		genMatch := func(cd Cond) (bool, bool) {
			if cd.Op != token.EQL && cd.Op != token.NEQ {
				return false, false
			}
			a, b := cd.X, cd.Y
			n, fl, base, _ := loadedField(a)
			if n != V.Inode {
				n, fl, base, _ = loadedField(b)
				a, b = b, a
			}
			if n != V.Inode || fl != "Gen" || base != stripConv(res) {
				return false, false
			}
			mc, fl2 := fieldOfCallResult(b)
			if mc == nil || fl2 != "Gen" || staticCallee(mc) != mk {
				return false, false
			}
			return true, cd.Op == token.EQL
		}
		// every path to this return compared the generations (equal edge) or carries a nil inode
		g := everyPathTakesEdge(f, rs.From, rs.To, condEdge(f, genMatch), cmpZeroEdge(f, fwdClosure([]ssa.Value{res}, false)))
		R.Check(g, id, "fstxn.GetInodeFh|generation compared", P.Pos(rs.Ret.Pos()), "a non-nil return is dominated by ip.Gen == handle.Gen", "guard dominates the return", "an inode is returned without comparing generations: stale handles are accepted after the number is reused")
	}
	// every path that returns nil after the acquisition releases the lock
	for _, call := range P.CallsIn(f, funcIs(V.GetInodeInum)) {
		cl := fwdClosure([]ssa.Value{call.(*ssa.Call)}, false)
		okRel := true
		for _, rs := range returnSources(f, 0) {
			if !isNilConst(rs.Val) {
				continue
			}
			last := rs.From.Instrs[len(rs.From.Instrs)-1]
			if !reachableFrom(call, last) {
				continue
			}
			// either on the ip==nil edge or ReleaseInode before it
			isNilTest := func(cd Cond) (bool, bool) {
				if cd.Op == token.EQL && cl[cd.X] && isNilConst(cd.Y) {
					return true, true
				}
				if cd.Op == token.NEQ && cl[cd.X] && isNilConst(cd.Y) {
					return true, false
				}
				return false, false
			}
			if guardedBy(f, rs.From, isNilTest) || (rs.To != nil && condEdge(f, isNilTest)(rs.From, rs.To)) {
				// (in single-exit form the nil edge itself leads to the shared return)
				continue
			}
			if !MustBefore(f, callTo(V.ReleaseInode))(last) && !callTo(V.ReleaseInode)(last) {
				okRel = false
			}
		}
		R.Check(okRel, id, "fstxn.GetInodeFh|mismatch releases", P.Pos(call.Pos()), "a nil return after a successful acquisition is preceded by ReleaseInode", "release on the mismatch path", "lock leaked on the stale-handle path: the inode is blocked for ever")
	}
	// GetInodeInum: non-nil only when Kind != FREE
	g := V.GetInodeInum
	R.Analysed[FuncName(g)] = true
	for _, rs := range returnSources(g, 0) {
		if !mayBeNonZero(g, rs.Val, rs.From, rs.To, 0) {
			continue
		}
		res := rs.Val
		kindMatch := func(cd Cond) (bool, bool) {
			n, fl, base, _ := loadedField(cd.X)
			k, isk := constInt(cd.Y)
			if n == V.Inode && fl == "Kind" && base == stripConv(res) && isk && k == 0 {
				if cd.Op == token.EQL {
					return true, false
				}
				if cd.Op == token.NEQ {
					return true, true
				}
			}
			return false, false
		}
		ok := everyPathTakesEdge(g, rs.From, rs.To, condEdge(g, kindMatch), cmpZeroEdge(g, fwdClosure([]ssa.Value{res}, false)))
		R.Check(ok, id, "fstxn.GetInodeInum|free inodes are not returned", P.Pos(rs.Ret.Pos()), "a non-nil return is dominated by Kind != NF3FREE", "guard dominates the return", "a freed inode can be returned to a handler: removed objects stay reachable through old handles")
	}
}

// retSrc: one way a value reaches result idx of a function: directly at the
// return (From == To), or along an edge into the return's block through a phi
// (named results, shared return).
type retSrc struct {
	Val      ssa.Value
	From, To *ssa.BasicBlock
	Ret      *ssa.Return
}

func returnSources(fn *ssa.Function, idx int) []retSrc {
	var out []retSrc
	for _, b := range fn.Blocks {
		r, ok := b.Instrs[len(b.Instrs)-1].(*ssa.Return)
		if !ok || idx >= len(r.Results) {
			continue
		}
		if ph, isP := r.Results[idx].(*ssa.Phi); isP && ph.Block() == b {
			for i, e := range ph.Edges {
				out = append(out, retSrc{e, b.Preds[i], b, r})
			}
			continue
		}
		out = append(out, retSrc{r.Results[idx], b, b, r})
	}
	return out
}

// everyPathTakesEdge: every path from the entry that runs along the edge
// from -> to (from == to: reaches the block) takes one of the edges.
func everyPathTakesEdge(fn *ssa.Function, from, to *ssa.BasicBlock, edges ...func(a, b *ssa.BasicBlock) bool) bool {
	if from != to {
		for _, e := range edges {
			if e(from, to) {
				return true
			}
		}
	}
	return everyPathTakes(fn, from, edges...)
}

func fieldNameOfValue(f *ssa.Field) string {
	if st := derefStruct(f.X.Type()); st != nil {
		return st.Field(f.Field).Name()
	}
	return ""
}

// ruleG10: the identity of an inode slot survives its reuse.  The generation
// number only ever moves forward (FreeInode's Gen+1, C08.G2); that is lost if
// an inode object is overwritten as a whole ("*ip = Inode{...}"): the fields
// the literal does not name - Gen above all - restart at zero, and the handles
// of the number's first life become valid again.
func ruleG10(c *Ctx, id string) {
	V, P, R := c.V, c.P, c.R
	R.Rule(id, "an inode object is never overwritten as a whole: no function stores an Inode struct value through an *Inode (the generation survives every reuse of the slot)", 1)
	n := 0
	for _, fn := range P.RepoFuncs() {
		if strings.HasPrefix(relPkg(fn), "cmd/") || relPkg(fn) == "simple" {
			continue
		}
		for _, b := range fn.Blocks {
			for _, in := range b.Instrs {
				st, ok := in.(*ssa.Store)
				if !ok {
					continue
				}
				pt, isP := st.Addr.Type().Underlying().(*types.Pointer)
				if !isP {
					continue
				}
				nm, _ := types.Unalias(pt.Elem()).(*types.Named)
				if nm == nil || nm != V.Inode {
					continue
				}
				// a store of a whole Inode value; the target is not a fresh local being built
				if al, isA := st.Addr.(*ssa.Alloc); isA && al.Parent() == fn {
					continue
				}
				n++
				R.Fail(id, FuncName(ownerOf(fn))+"|overwrites an inode object", P.Pos(st.Pos()), "inode objects are updated field by field", "a whole Inode value is stored through a pointer: every field the new value does not carry over (Gen, Nlink, block pointers) is reset - a handle of the slot's earlier life is accepted again")
			}
		}
	}
	R.Check(n == 0, id, "summary|no whole-value store to an inode", "?", "no store of an Inode struct value through an *Inode in the server packages", "0 such stores", fmt.Sprintf("%d stores (listed above)", n))
}

// ruleG11: lockInodes answers for every position of its argument.  The loop
// that puts a locked inode back "in the same position(s) as in inums" must
// look at every position: a list can name a number twice (two byte-different
// handles of one directory, a stale and a live handle of a reused number), and
// a position left nil is dereferenced by the generation check that should have
// answered STALE.
func ruleG11(c *Ctx, id string) {
	V, P, R := c.V, c.P, c.R
	R.Rule(id, "lockInodes fills every position: the loop that stores a locked inode into the result visits every element of the argument (no exit from the loop after a store)", 1)
	f := V.lockInodes
	if f == nil {
		return
	}
	n := 0
	for _, sc := range scopesOf(f) {
		for _, b := range sc.Fn.Blocks {
			for _, in := range b.Instrs {
				st, ok := in.(*ssa.Store)
				if !ok {
					continue
				}
				ia, isIA := st.Addr.(*ssa.IndexAddr)
				if !isIA || !isInodePtr(st.Val.Type()) {
					continue
				}
				if _, isMk := sc.S.resolve(stripConv(ia.X)).(*ssa.MakeSlice); !isMk {
					continue
				}
				if !reachableFrom(st, st) {
					continue // not in a loop
				}
				n++
				// the innermost loop around the store: the header is the nearest dominator of the store's block that
				// the store's block can reach back to
				var head *ssa.BasicBlock
				for d := st.Block(); d != nil; d = d.Idom() {
					back := false
					for _, p := range d.Preds {
						if d.Dominates(p) {
							back = true
						}
					}
					if back {
						head = d
						break
					}
				}
				ok2 := head != nil
				why := "no loop header found"
				if head != nil {
					// every way on from the store comes back to the header: no block that cannot
					canReach := func(from *ssa.BasicBlock) bool {
						seen := map[*ssa.BasicBlock]bool{}
						work := []*ssa.BasicBlock{from}
						for len(work) > 0 {
							x := work[len(work)-1]
							work = work[:len(work)-1]
							if x == head {
								return true
							}
							if seen[x] {
								continue
							}
							seen[x] = true
							for _, s2 := range x.Succs {
								if head.Dominates(s2) {
									work = append(work, s2)
								}
							}
						}
						return false
					}
					seen := map[*ssa.BasicBlock]bool{}
					work := append([]*ssa.BasicBlock{}, st.Block().Succs...)
					for len(work) > 0 {
						x := work[len(work)-1]
						work = work[:len(work)-1]
						if seen[x] || x == head {
							continue
						}
						seen[x] = true
						if !head.Dominates(x) || !canReach(x) {
							ok2, why = false, "after storing one position the loop is left ("+P.Pos(x.Instrs[0].Pos())+")"
							break
						}
						work = append(work, x.Succs...)
					}
				}
				R.Check(ok2, id, "nfs.lockInodes|every position is filled", P.Pos(st.Pos()), "after a position of the result is stored the scan over the argument goes on to the next element", "no exit from the filling loop after the store", why+": a number named twice gets an inode at its first position only - the other stays nil and the caller dereferences it")
			}
		}
	}
	if n == 0 {
		R.Fail(id, "nfs.lockInodes|fills its result", P.Pos(f.Pos()), "lockInodes stores the locked inodes into the slice it returns, in a loop", "no such store found")
	}
}
