package main

// E6: codec symmetry and sizing.  The sequence of (width, field) operations of
// an encoder is compared with that of its decoder.

import (
	"fmt"
	"go/token"
	"go/types"
	"sort"
	"strings"

	"golang.org/x/tools/go/ssa"
)

type codecOp struct {
	Kind  string    // Int, Int32, Ints, Bytes
	Field string    // field path touched ("" if unknown)
	Width int64     // constant width in bytes, -1 variable
	Count int64     // element count for Ints (constant) or -1
	Put   bool      // encoder-side operation
	Src   ssa.Value // encoder side: the value written
	Sym   string    // encoder side: normal form of the value written (helpers and composite literals seen through)
	Pos   token.Pos
}

func (o codecOp) String() string {
	return fmt.Sprintf("%s(%s,%d)", o.Kind, o.Field, o.Width)
}

// fieldPath renders &x.a.b as "a.b" (struct fields only).
func fieldPath(addr ssa.Value) string {
	var parts []string
	for {
		fa, ok := addr.(*ssa.FieldAddr)
		if !ok {
			break
		}
		n := derefStruct(fa.X.Type())
		if n == nil {
			break
		}
		parts = append([]string{n.Field(fa.Field).Name()}, parts...)
		addr = fa.X
	}
	return strings.Join(parts, ".")
}

func derefStruct(t types.Type) *types.Struct {
	if pt, ok := t.Underlying().(*types.Pointer); ok {
		t = pt.Elem()
	}
	st, _ := t.Underlying().(*types.Struct)
	return st
}

// srcField: the struct field path a value was loaded from (through
// conversions, len(), string->[]byte conversions).
func srcField(v ssa.Value) string {
	for i := 0; i < 8; i++ {
		switch x := v.(type) {
		case *ssa.Convert:
			v = x.X
			continue
		case *ssa.ChangeType:
			v = x.X
			continue
		case *ssa.UnOp:
			if x.Op == token.MUL {
				if p := fieldPath(x.X); p != "" {
					return p
				}
			}
		case *ssa.Field:
			// value-struct field (fh Fh is passed by value)
			if st, ok := x.X.Type().Underlying().(*types.Struct); ok {
				return st.Field(x.Field).Name()
			}
		case *ssa.Call:
			if bi, ok := x.Call.Value.(*ssa.Builtin); ok && bi.Name() == "len" {
				return "len(" + srcField(x.Call.Args[0]) + ")"
			}
		}
		break
	}
	return ""
}

// dstField: the struct field path a value ends up stored in.
func dstField(v ssa.Value) string {
	seen := map[ssa.Value]bool{}
	var walk func(v ssa.Value, d int) string
	walk = func(v ssa.Value, d int) string {
		if d > 6 || seen[v] {
			return ""
		}
		seen[v] = true
		for _, in := range refs(v) {
			switch x := in.(type) {
			case *ssa.Store:
				if x.Val == v {
					if p := fieldPath(x.Addr); p != "" {
						return p
					}
				}
			case *ssa.Convert:
				if p := walk(x, d+1); p != "" {
					return p
				}
			case *ssa.ChangeType:
				if p := walk(x, d+1); p != "" {
					return p
				}
			}
		}
		return ""
	}
	return walk(v, 0)
}

var marshalWidth = map[string]int64{"PutInt": 8, "GetInt": 8, "PutInt32": 4, "GetInt32": 4}

// takesCodec: fn has a marshal.Enc / marshal.Dec parameter.
func takesCodec(fn *ssa.Function) bool {
	for _, p := range fn.Params {
		if n := derefNamed(p.Type()); n != nil && n.Obj().Pkg() != nil && strings.HasSuffix(n.Obj().Pkg().Path(), "tchajed/marshal") {
			return true
		}
	}
	return false
}

// codecOps extracts the marshal.Enc/Dec operation sequence of fn in block
// order.  straight reports whether all operations lie on one straight path
// (each op's block dominates the next one's).
func codecOps(fn *ssa.Function) (ops []codecOp, capacity int64, straight bool) {
	return codecOpsD(fn, 0, 0)
}

// codecOpsSide: only the encoding (side > 0) or only the decoding (side < 0)
// operations of fn - for a function that holds an encoder written out in place
// next to calls of the decoder.
func codecOpsSide(fn *ssa.Function, side int) (ops []codecOp, capacity int64, straight bool) {
	return codecOpsD(fn, 0, side)
}

func joinPath(a, b string) string {
	if a == "" {
		return b
	}
	if b == "" {
		return a
	}
	return a + "." + b
}

func codecOpsD(fn *ssa.Function, depth int, side int) (ops []codecOp, capacity int64, straight bool) {
	capacity = -1
	straight = true
	var last *ssa.BasicBlock
	for _, b := range fn.DomPreorder() {
		for _, in := range b.Instrs {
			call, ok := in.(*ssa.Call)
			if !ok {
				continue
			}
			cal := call.Call.StaticCallee()
			if cal != nil && depth < 2 && cal != fn && IsRepoFunc(cal) && cal.Blocks != nil {
				// a helper that encodes/decodes a sub-structure: its operations, with the
				// field paths prefixed by the sub-structure's path at this call
				hops, hcap, hs := codecOpsD(cal, depth+1, side)
				if len(hops) == 0 {
					continue
				}
				if capacity < 0 {
					capacity = hcap
				}
				pSrc := ""
				for _, a := range call.Call.Args {
					if p := srcField(a); p != "" {
						pSrc = p
						break
					}
				}
				pDst := dstField(call)
				hsub := Subst{}
				for i, q := range cal.Params {
					if i < len(call.Call.Args) {
						hsub[q] = call.Call.Args[i]
					}
				}
				for _, o := range hops {
					if o.Put && o.Src != nil {
						o.Sym = sym(&symCtx{}, o.Src, hsub, 0)
					}
					if o.Put {
						if pm, isP := stripConv(o.Src).(*ssa.Parameter); isP && o.Field == "" {
							// the helper writes one of its parameters: the value is the argument
							for i, q := range cal.Params {
								if q == pm && i < len(call.Call.Args) {
									o.Src = call.Call.Args[i]
									o.Field = srcField(o.Src)
								}
							}
						} else {
							o.Field = joinPath(pSrc, o.Field)
						}
					} else {
						o.Field = joinPath(pDst, o.Field)
					}
					o.Pos = call.Pos()
					ops = append(ops, o)
				}
				if !hs || (last != nil && !last.Dominates(b)) {
					straight = false
				}
				last = b
				continue
			}
			if cal == nil || funcPkg(cal) == nil || !strings.HasSuffix(funcPkg(cal).Path(), "tchajed/marshal") {
				continue
			}
			name := cal.Name()
			switch name {
			case "NewEnc":
				if c, ok := constInt(call.Call.Args[0]); ok {
					capacity = c
				}
				continue
			case "NewDec", "Finish":
				continue
			}
			op := codecOp{Pos: call.Pos(), Width: -1, Count: -1, Put: strings.HasPrefix(name, "Put")}
			switch name {
			case "PutInt", "PutInt32":
				op.Kind = strings.TrimPrefix(name, "Put")
				op.Width = marshalWidth[name]
				op.Field = srcField(argN(call, 0))
				op.Src = argN(call, 0)
				op.Sym = sym(&symCtx{}, op.Src, Subst{}, 0)
			case "GetInt", "GetInt32":
				op.Kind = strings.TrimPrefix(name, "Get")
				op.Width = marshalWidth[name]
				op.Field = dstField(call)
			case "PutInts":
				op.Kind = "Ints"
				op.Field = srcField(argN(call, 0))
			case "GetInts":
				op.Kind = "Ints"
				op.Field = dstField(call)
				if c, ok := constInt(argN(call, 0)); ok {
					op.Count = c
					op.Width = 8 * c
				}
			case "PutBytes":
				op.Kind = "Bytes"
				op.Field = srcField(argN(call, 0))
			case "GetBytes":
				op.Kind = "Bytes"
				op.Field = dstField(call)
			default:
				op.Kind = name
			}
			if (side > 0 && !op.Put) || (side < 0 && op.Put) {
				continue
			}
			if last != nil && !last.Dominates(b) {
				straight = false
			}
			last = b
			ops = append(ops, op)
		}
	}
	return
}

// compareCodec checks that enc and dec perform the same operation sequence on
// the same fields and returns the constant total width (or -1).
func compareCodec(c *Ctx, id, name string, enc, dec *ssa.Function, slot int64, fieldsMatter bool) {
	R, P := c.R, c.P
	if enc == nil || dec == nil {
		return
	}
	R.Analysed[FuncName(enc)] = true
	R.Analysed[FuncName(dec)] = true
	eo, capEnc, es := codecOpsSide(enc, 1)
	do, _, ds := codecOpsSide(dec, -1)
	key := name + "|"
	R.Check(es && ds, id, key+"straight-line", P.Pos(enc.Pos()), "encoder and decoder perform their operations on one straight path", "each operation dominates the next", "conditional codec operations: layout depends on data")
	same := len(eo) == len(do) && len(eo) > 0
	var es2, ds2 []string
	for _, o := range eo {
		es2 = append(es2, o.String())
	}
	for _, o := range do {
		ds2 = append(ds2, o.String())
	}
	if same {
		for i := range eo {
			if eo[i].Kind != do[i].Kind {
				same = false
			}
			if fieldsMatter && eo[i].Field != "" && do[i].Field != "" && normField(eo[i].Field) != normField(do[i].Field) {
				same = false
			}
		}
	}
	R.Check(same, id, key+"encode/decode sequences agree", P.Pos(dec.Pos()), fmt.Sprintf("%s and %s perform the same (kind, field) sequence", FuncName(enc), FuncName(dec)), "sequences: "+strings.Join(es2, " "), "encoder "+strings.Join(es2, " ")+" vs decoder "+strings.Join(ds2, " "))
	// the encoder writes the fields as they are: a value transformed on its way to the disk (a time "normalised",
	// a count clamped) comes back different from what the cached object holds - the running server and a
	// restarted one disagree for exactly the values the transformation changes
	{
		okPlain, nPut, bad := true, 0, ""
		for _, o := range eo {
			if !o.Put || o.Src == nil {
				continue
			}
			nPut++
			v := stripConv(o.Src)
			plain := false
			switch x := v.(type) {
			case *ssa.Const, *ssa.Parameter, *ssa.Field:
				plain = true
			case *ssa.UnOp:
				plain = x.Op == token.MUL
			case *ssa.Slice:
				plain = true
			case *ssa.Call:
				if bi, isB := x.Call.Value.(*ssa.Builtin); isB && bi.Name() == "len" {
					plain = true
				}
			}
			if !plain {
				okPlain, bad = false, o.Field+" written as "+sym(&symCtx{}, o.Src, Subst{}, 0)
			}
		}
		if nPut > 0 {
			R.Check(okPlain, id, key+"encoder writes the fields as they are", P.Pos(enc.Pos()), "every value the encoder writes is a field (or a length, a constant, a parameter) after conversions, not the result of arithmetic", fmt.Sprintf("%d values written", nPut), bad+": the decoder returns another value than the one encoded - cache and disk disagree for the values the arithmetic changes")
		}
	}
	// no early answer: once the decoder has started to read, every return follows all of its reading operations - a
	// return in between hands back an object made up from part of the bytes (a slot "recognised" as free from its
	// length word alone), which the encoder's side of the sequence never produces
	{
		var dops []ssa.Instruction
		for _, b := range dec.Blocks {
			for _, in := range b.Instrs {
				cl, ok := in.(*ssa.Call)
				if !ok {
					continue
				}
				cal := staticCallee(cl)
				if cal == nil {
					continue
				}
				if pk := funcPkg(cal); pk != nil && strings.HasSuffix(pk.Path(), "tchajed/marshal") && strings.HasPrefix(cal.Name(), "Get") {
					dops = append(dops, in)
				} else if cal != dec && IsRepoFunc(cal) && cal.Blocks != nil {
					if hops, _, _ := codecOpsD(cal, 1, -1); len(hops) > 0 {
						dops = append(dops, in)
					}
				}
			}
		}
		// in the order in which they dominate each other: from every read, every path to a return passes the next read
		okAll, nRet := true, len(dops)
		pre := dec.DomPreorder()
		rank := map[*ssa.BasicBlock]int{}
		for i, b := range pre {
			rank[b] = i
		}
		idxIn := func(in ssa.Instruction) int {
			for i, x := range in.Block().Instrs {
				if x == in {
					return i
				}
			}
			return -1
		}
		sort.SliceStable(dops, func(i, j int) bool {
			bi, bj := dops[i].Block(), dops[j].Block()
			if bi != bj {
				return rank[bi] < rank[bj]
			}
			return idxIn(dops[i]) < idxIn(dops[j])
		})
		for k := 0; k+1 < len(dops); k++ {
			next := dops[k+1]
			if !MustAfter(dec, func(in ssa.Instruction) bool { return in == next }, nil)(dops[k]) {
				okAll = false
			}
		}
		if len(dops) > 0 {
			R.Check(okAll && nRet > 0, id, key+"decoder answers only after reading everything", P.Pos(dec.Pos()), "every return of the decoder that follows a read follows all of its reads", fmt.Sprintf("%d reads, each followed by the next on every path to a return", nRet), "the decoder can return after reading only part of the record: the object it hands back is made up (e.g. a slot taken for free because its length word is 0) - what was encoded is not what is decoded, the running server (cache) and a restarted one (disk) disagree")
		}
	}
	if slot > 0 {
		var total int64
		varw := false
		for i, o := range eo {
			w := o.Width
			if w < 0 && i < len(do) && do[i].Width >= 0 {
				w = do[i].Width
			}
			if w < 0 {
				varw = true
				continue
			}
			total += w
		}
		if !varw {
			R.Check(total <= slot && capEnc == slot, id, key+"fits slot", P.Pos(enc.Pos()), fmt.Sprintf("encoded width %d fits the slot of %d bytes and the encoder is sized to the slot", total, slot), fmt.Sprintf("width %d <= %d, NewEnc(%d)", total, slot, capEnc), fmt.Sprintf("width %d, slot %d, NewEnc(%d)", total, slot, capEnc))
		} else {
			R.Check(capEnc == slot, id, key+"encoder sized to slot", P.Pos(enc.Pos()), fmt.Sprintf("the encoder buffer is the slot size %d (fixed part %d bytes)", slot, total), "NewEnc(slot)", fmt.Sprintf("NewEnc(%d) but slot is %d", capEnc, slot))
		}
	}
}

func normField(f string) string {
	if strings.HasPrefix(f, "len(") {
		return "#" + strings.TrimSuffix(strings.TrimPrefix(f, "len("), ")")
	}
	return f
}
