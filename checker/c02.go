package main

// C02 - sequential semantics match a reference file system.
//
// Equality of every reply with a reference model is a statement about
// run-time values and is NOT decided here.  What is decided are structural
// necessary conditions of "READ returns exactly the bytes last written at each
// offset", "sizes follow writes" and "each reply describes the object it is
// about" - clauses whose truth is in the shape of the data path:
//
//  B1  the cursors of the block-by-block copy loops (the loops around
//      Inode.bmap) advance together: block index, file position, bytes left,
//      source/result position all move by the one per-round quantity, which is
//      min(bytes to the end of the block, bytes left); the block touched is
//      the one bmap returned for this round, at the in-block offset of the
//      file position;
//  B2  what a reply carries comes from where it has to come from: READ's
//      data/count/eof from Inode.Read, WRITE's count from Inode.Write,
//      READLINK's target from Inode.Read, and the handle and the attributes of
//      one reply describe one inode object;
//  B3  the size recorded by the write loop is "start + bytes written", stored
//      only where that is larger than the current size.
//
// The rest of the property's structural content is shared with other
// properties and evaluated here under C02 ids (names resolve to what was
// created there, removed objects disappear, requests fail when they must).

import (
	"fmt"
	"go/token"
	"go/types"
	"sort"
	"strings"

	"golang.org/x/tools/go/ssa"
)

func init() {
	props["C02"] = func(c *Ctx) {
		c.R.Expl = "Structural necessary conditions of 'every reply agrees with a reference file system': (B1) the block-by-block copy loops of Inode.Read and Inode.Write move their cursors together - block index, file position, bytes left and source/result position advance by one per-round quantity that is min(bytes to the end of the block, bytes left), the block touched is the one bmap returned for this round and it is touched at the in-block offset of the file position; (B2) reply fields come from their source: READ data/count/eof from Inode.Read, WRITE count from Inode.Write, READLINK target from Inode.Read, handle and attributes of one reply from one inode; (B3) the size recorded by a write is start + bytes written, only when larger; plus the clauses shared with C04/C08/C09/C11/C12/C13/C19 that state when a request must fail and what a name resolves to."
		c.R.NotDec = "equality of replies with a reference model over operation sequences; which bytes a particular history leaves in a file; error codes chosen among several applicable refusals; the eof flag's value; timestamps."
		ruleB1(c, "C02.B1")
		ruleB2(c, "C02.B2")
		ruleB3(c, "C02.B3")
		// shared clauses: a request fails exactly when it cannot be performed / a name resolves to what was put there
		ruleA4(c, "C02.B4")         // unsupported procedures fail without effect
		ruleT12(c, "C02.B5")        // CREATE of an existing name answers EXIST and creates nothing
		ruleS4(c, "C02.B6")         // a non-empty directory is not removed
		ruleSelfRename(c, "C02.B7") // RENAME x -> x leaves x alone
		ruleW2(c, "C02.B8")         // the name cache that answers every lookup holds every name
		ruleNoent(c, "C02.B9")      // NOENT only where the lookup found nothing
		ruleReadClamp(c, "C02.B10") // a READ over the end is clamped at the size
		ruleG4(c, "C02.B11")        // a stale handle is refused by every procedure
		ruleM1(c, "C02.B12")        // names up to the advertised length are accepted, longer ones refused
		ruleM3(c, "C02.B13")        // sizes up to the advertised maximum are accepted, larger ones refused
		ruleS2(c, "C02.B14")        // removed or replaced objects disappear: unlink follows the removal of the name
		ruleP11(c, "C02.B15")       // the listing built is the listing returned
		ruleW1(c, "C02.B16")
		ruleB17(c, "C02.B17")
		ruleMapFromPointers(c, "C02.B19") // the block read is the block the pointers name
		ruleB18(c, "C02.B18")
		ruleB20(c, "C02.B20")
		ruleB22(c, "C02.B22")
		ruleV3(c, "C02.B21") // offset+count arithmetic is tested for overflow wherever it decides a reply (COMMIT's range test)        // what a request changed in the cached inode is logged: sizes and contents survive a restart
	}
}

// ---------------------------------------------------------------- loops

type natLoop struct {
	head *ssa.BasicBlock
	body map[*ssa.BasicBlock]bool
}

// loopsOf: the natural loops of fn, merged per header.
func loopsOf(fn *ssa.Function) []*natLoop {
	byHead := map[*ssa.BasicBlock]*natLoop{}
	var out []*natLoop
	for _, t := range fn.Blocks {
		for _, h := range t.Succs {
			if !h.Dominates(t) {
				continue
			}
			l := byHead[h]
			if l == nil {
				l = &natLoop{head: h, body: map[*ssa.BasicBlock]bool{h: true}}
				byHead[h] = l
				out = append(out, l)
			}
			stack := []*ssa.BasicBlock{t}
			for len(stack) > 0 {
				b := stack[len(stack)-1]
				stack = stack[:len(stack)-1]
				if l.body[b] {
					continue
				}
				l.body[b] = true
				stack = append(stack, b.Preds...)
			}
		}
	}
	return out
}

func innermostLoop(ls []*natLoop, b *ssa.BasicBlock) *natLoop {
	var best *natLoop
	for _, l := range ls {
		if l.body[b] && (best == nil || len(l.body) < len(best.body)) {
			best = l
		}
	}
	return best
}

// cursor: a loop-carried variable (phi at the loop header) with its value on
// entry and the way every trip round the loop changes it.
type cursor struct {
	phi  *ssa.Phi
	init ssa.Value
	kind string    // "+", "-", "slice" (x = x[step:]), "" = something else
	step ssa.Value // canonical
}

func cursorOf(l *natLoop, phi *ssa.Phi) *cursor {
	cu := &cursor{phi: phi}
	first := true
	for i, e := range phi.Edges {
		pred := phi.Block().Preds[i]
		if !l.body[pred] {
			// entry edge
			if cu.init == nil {
				cu.init = rv(e)
			} else if cu.init != rv(e) {
				cu.init = nil
				return cu
			}
			continue
		}
		kind, step := "", ssa.Value(nil)
		switch x := e.(type) {
		case *ssa.BinOp:
			switch {
			case x.Op == token.ADD && x.X == ssa.Value(phi):
				kind, step = "+", stripConv(x.Y)
			case x.Op == token.ADD && x.Y == ssa.Value(phi):
				kind, step = "+", stripConv(x.X)
			case x.Op == token.SUB && x.X == ssa.Value(phi):
				kind, step = "-", stripConv(x.Y)
			}
		case *ssa.Slice:
			if x.X == ssa.Value(phi) && x.High == nil && x.Max == nil && x.Low != nil {
				kind, step = "slice", stripConv(x.Low)
			}
		}
		if first {
			cu.kind, cu.step = kind, step
			first = false
		} else if cu.kind != kind || !sameVal(cu.step, step) {
			cu.kind, cu.step = "", nil
		}
	}
	return cu
}

func sameVal(a, b ssa.Value) bool {
	if a == b {
		return true
	}
	if a == nil || b == nil {
		return false
	}
	ka, oka := constInt(a)
	kb, okb := constInt(b)
	return oka && okb && ka == kb
}

func headerCursors(l *natLoop) []*cursor {
	var out []*cursor
	for _, in := range l.head.Instrs {
		phi, ok := in.(*ssa.Phi)
		if !ok {
			break
		}
		out = append(out, cursorOf(l, phi))
	}
	return out
}

// rv: stripConv across the boundary of a private helper with one call site: a
// parameter stands for the argument passed there, a result of such a helper
// with one way of returning it for the value returned.
func rv(v ssa.Value) ssa.Value {
	for i := 0; i < 8; i++ {
		v = stripConv(v)
		switch x := v.(type) {
		case *ssa.Parameter:
			if a := uniqueArg(x); a != nil {
				v = a
				continue
			}
		case *ssa.Extract:
			if cl, ok := x.Tuple.(*ssa.Call); ok {
				if cal := staticCallee(cl); cal != nil && isPrivateHelper(cal) && cal.Blocks != nil {
					var src ssa.Value
					n := 0
					for _, rs := range returnSources(cal, x.Index) {
						if _, isC := stripConv(rs.Val).(*ssa.Const); isC {
							continue
						}
						if src == nil || src != rs.Val {
							n++
						}
						src = rs.Val
					}
					if n == 1 {
						v = src
						continue
					}
				}
			}
		}
		return v
	}
	return v
}

// loopInstrs: the instructions of the loop's blocks and of the private
// helpers with one call site called from them (two levels): a block of
// statements extracted from the loop body is still part of it.
func loopInstrs(l *natLoop) []ssa.Instruction {
	var out []ssa.Instruction
	var addFn func(f *ssa.Function, d int)
	visit := func(in ssa.Instruction, d int) {
		out = append(out, in)
		if cl, ok := in.(*ssa.Call); ok && d < 2 {
			if cal := staticCallee(cl); cal != nil && isPrivateHelper(cal) && cal.Blocks != nil && staticSites != nil && len(staticSites[cal]) == 1 {
				addFn(cal, d+1)
			}
		}
	}
	addFn = func(f *ssa.Function, d int) {
		for _, b := range f.Blocks {
			for _, in := range b.Instrs {
				visit(in, d)
			}
		}
	}
	var blocks []*ssa.BasicBlock
	for b := range l.body {
		blocks = append(blocks, b)
	}
	sort.Slice(blocks, func(i, j int) bool { return blocks[i].Index < blocks[j].Index })
	for _, b := range blocks {
		for _, in := range b.Instrs {
			visit(in, 0)
		}
	}
	return out
}

// binOf: v is X op K for the constant K (after conversions).
func binConst(v ssa.Value, op token.Token, k int64) (ssa.Value, bool) {
	bo, ok := rv(v).(*ssa.BinOp)
	if !ok || bo.Op != op {
		return nil, false
	}
	if kk, isk := constInt(rv(bo.Y)); isk && kk == k {
		return rv(bo.X), true
	}
	return nil, false
}

// asMin: v is the smaller of two values: util.Min(a, b), or the phi of
// "n := a; if b < n { n = b }" in any spelling of the comparison.
func asMin(v ssa.Value) (ssa.Value, ssa.Value, bool) {
	v = stripConv(v)
	if cl, ok := v.(*ssa.Call); ok {
		if g := staticCallee(cl); g != nil && g.Name() == "Min" && len(cl.Call.Args) == 2 && g.Pkg != nil && strings.HasSuffix(g.Pkg.Pkg.Path(), "/util") {
			return stripConv(cl.Call.Args[0]), stripConv(cl.Call.Args[1]), true
		}
		return nil, nil, false
	}
	phi, ok := v.(*ssa.Phi)
	if !ok || len(phi.Edges) != 2 {
		return nil, nil, false
	}
	b := phi.Block()
	// the deciding branch: the immediate dominator of the phi's block ends in a comparison of the two values
	d := b.Idom()
	if d == nil {
		return nil, nil, false
	}
	for _, br := range branches(d.Parent()) {
		if br.Block != d || br.Cond.Y == nil {
			continue
		}
		x, y := stripConv(br.Cond.X), stripConv(br.Cond.Y)
		e0, e1 := stripConv(phi.Edges[0]), stripConv(phi.Edges[1])
		if !((x == e0 && y == e1) || (x == e1 && y == e0)) {
			return nil, nil, false
		}
		// which value is taken on which side
		side := func(i int) *ssa.BasicBlock { // the successor of d through which edge i of the phi arrives
			p := b.Preds[i]
			if p == d {
				return b
			}
			if len(p.Preds) == 1 && p.Preds[0] == d {
				return p
			}
			return nil
		}
		s0, s1 := side(0), side(1)
		if s0 == nil || s1 == nil || s0 == s1 {
			return nil, nil, false
		}
		// on the side where "x < y" or "x <= y" holds the value must be x; on the other side y
		var lessSide, otherSide *ssa.BasicBlock
		small, large := x, y
		switch br.Cond.Op {
		case token.LSS, token.LEQ:
			lessSide, otherSide = br.True, br.False
		case token.GTR, token.GEQ:
			lessSide, otherSide = br.False, br.True
		default:
			return nil, nil, false
		}
		val := func(s *ssa.BasicBlock) ssa.Value {
			if s == s0 {
				return e0
			}
			if s == s1 {
				return e1
			}
			return nil
		}
		if val(lessSide) == small && val(otherSide) == large {
			return x, y, true
		}
		return nil, nil, false
	}
	return nil, nil, false
}

// ---------------------------------------------------------------- B1

func ruleB1(c *Ctx, id string) {
	V, P, R := c.V, c.P, c.R
	R.Rule(id, "the block-by-block copy loops move their cursors together: in every loop around Inode.bmap the block index follows the file position (position/BlockSize, one block per round), the per-round byte count is min(BlockSize - position%BlockSize, bytes left), position, bytes left / bytes done and the source slice all advance by exactly that count, the loop goes on while bytes are left, the block read or overwritten is the one bmap returned in this round, it is indexed at position%BlockSize + i for i below the per-round count, and the bytes come from / go to the matching position of the request's buffer", 16)
	if V.bmap == nil || V.ReadBlock == nil {
		return
	}
	bs := constOfPkg(P, "github.com/goose-lang/primitive/disk", "BlockSize")
	b2a := c.fn(id, "super.(*FsSuper).Block2addr")
	nLoops := 0
	for _, fn := range P.RepoFuncs() {
		if fn.Blocks == nil || strings.HasPrefix(relPkg(fn), "cmd/") {
			continue
		}
		calls := P.CallsIn(fn, funcIs(V.bmap))
		if len(calls) == 0 {
			continue
		}
		loops := loopsOf(fn)
		for _, ci := range calls {
			call, ok := ci.(*ssa.Call)
			if !ok {
				continue
			}
			l := innermostLoop(loops, call.Block())
			if l == nil {
				continue // a single mapping (Resize's tail clearing): no cursors
			}
			nLoops++
			R.Analysed[FuncName(fn)] = true
			b1Loop(c, id, fn, l, call, bs, b2a)
		}
	}
	R.Check(nLoops >= 2, id, "inventory|copy loops around bmap", "?", "the read loop and the write loop are found", fmt.Sprintf("%d loops", nLoops), fmt.Sprintf("%d loops around Inode.bmap found (Inode.Read and Inode.Write each have one)", nLoops))
}

func b1Loop(c *Ctx, id string, fn *ssa.Function, l *natLoop, bm *ssa.Call, bs int64, b2a *ssa.Function) {
	V, P, R := c.V, c.P, c.R
	name := FuncName(ownerOf(fn))
	key := func(s string) string { return name + "|" + s }
	pos := P.Pos(bm.Pos())
	args := fullArgs(bm)
	if len(args) == 0 {
		R.Undecided(id, key("block index"), pos, "bmap is called with a block index", "call shape")
		return
	}
	bi := stripConv(args[len(args)-1])
	cursors := headerCursors(l)
	byPhi := map[ssa.Value]*cursor{}
	for _, cu := range cursors {
		byPhi[cu.phi] = cu
	}
	for _, cu := range cursors {
		if _, isAl := cu.init.(*ssa.Alloc); isAl {
			R.Undecided(id, key("cursors"), pos, "the loop's variables are registers", "a loop variable lives in a cell (captured by a closure): not followed")
			return
		}
	}
	// --- the file position and the block index
	var posC *cursor
	blkOK, blkWhy := false, ""
	if cu := byPhi[bi]; cu != nil {
		// the index is a variable of its own: starts at <start>/BlockSize, one block per round
		start, isDiv := binConst(cu.init, token.QUO, bs)
		one := false
		if k, isk := constInt(cu.step); isk && k == 1 && cu.kind == "+" {
			one = true
		}
		if !isDiv {
			blkWhy = "the block index does not start at <position>/BlockSize"
		} else if !one {
			blkWhy = "the block index does not advance by one block per round"
		} else {
			for _, q := range cursors {
				if q.kind == "+" && q.init != nil && sameVal(q.init, start) && q.phi.Type() == cu.phi.Type() && q != cu {
					if _, isk := constInt(q.step); !isk {
						posC = q
					}
				}
			}
			if posC == nil {
				blkWhy = "no file position starting at the same value advances with the block index"
			} else {
				blkOK = true
			}
		}
	} else if x, isDiv := binConst(bi, token.QUO, bs); isDiv {
		if cu := byPhi[x]; cu != nil && cu.kind == "+" {
			posC, blkOK = cu, true
		} else {
			blkWhy = "the block index is <v>/BlockSize for a value that is not the advancing file position"
		}
	} else {
		blkWhy = "the block index is neither a variable stepped by one nor <position>/BlockSize"
	}
	R.Check(blkOK, id, key("block index follows the file position"), pos, "the block handed to bmap is position/BlockSize at the start and one further in every round, while the position advances by the bytes of the round", "index and position start together and advance together", blkWhy+": the loop maps the same block again (or skips blocks) - a request that spans several blocks reads or writes the wrong ones")
	if !blkOK {
		return
	}
	q := posC.step
	inBlk := func(v ssa.Value) bool { // v is position % BlockSize
		x, ok := binConst(v, token.REM, bs)
		return ok && x == ssa.Value(posC.phi)
	}
	toEnd := func(v ssa.Value) bool { // BlockSize - position%BlockSize
		bo, ok := rv(v).(*ssa.BinOp)
		if !ok || bo.Op != token.SUB {
			return false
		}
		k, isk := constInt(rv(bo.X))
		return isk && k == bs && inBlk(bo.Y)
	}
	// --- bytes left
	var remC, doneC *cursor
	var limit ssa.Value
	isLeft := func(v ssa.Value) bool {
		v = stripConv(v)
		if cu := byPhi[v]; cu != nil && cu.kind == "-" && sameVal(cu.step, q) {
			remC = cu
			return true
		}
		if bo, ok := v.(*ssa.BinOp); ok && bo.Op == token.SUB {
			if cu := byPhi[stripConv(bo.Y)]; cu != nil && cu.kind == "+" && sameVal(cu.step, q) {
				if k, isk := constInt(cu.init); isk && k == 0 {
					lim := stripConv(bo.X)
					if in, isI := lim.(ssa.Instruction); !isI || !l.body[in.Block()] {
						doneC, limit = cu, lim
						return true
					}
				}
			}
		}
		return false
	}
	a, b, isMin := asMin(q)
	qOK := isMin && ((toEnd(a) && isLeft(b)) || (toEnd(b) && isLeft(a)))
	R.Check(qOK, id, key("bytes per round"), P.Pos(posC.phi.Pos()), "the position advances by min(BlockSize - position%BlockSize, bytes left)", "the smaller of 'to the end of the block' and 'left'", "the per-round count is not the smaller of the bytes to the end of the block and the bytes left: the copy runs over the end of the block buffer, or past the request, or the next round starts in the middle of a block it believes to be at its beginning")
	if !qOK {
		return
	}
	// --- every other cursor that moves by the per-round count or by a block must be one of ours; those that
	// count bytes must use the same count
	for _, cu := range cursors {
		if cu == posC || cu.kind == "" {
			continue
		}
		if bt, isB := cu.phi.Type().Underlying().(*types.Basic); isB && bt.Info()&types.IsInteger != 0 {
			if k, isk := constInt(cu.step); isk && k == 1 {
				continue // the block index (checked) or a counter
			}
			R.Check(sameVal(cu.step, q), id, key("cursor "+cu.phi.Comment+" advances by the bytes of the round"), P.Pos(cu.phi.Pos()), "every byte counter of the loop moves by the per-round count", "same count", "a byte counter of the loop moves by another amount than the position: the bytes reported, the bytes left and the place in the file drift apart")
		}
	}
	// --- the loop goes on while bytes are left
	contOK := false
	for _, br := range branches(fn) {
		if br.Block != l.head || br.Cond.Y == nil {
			continue
		}
		x, y, op := stripConv(br.Cond.X), stripConv(br.Cond.Y), br.Cond.Op
		into := func(b *ssa.BasicBlock) bool { return l.body[b] && b != l.head }
		zero := func(v ssa.Value) bool { k, isk := constInt(v); return isk && k == 0 }
		switch {
		case remC != nil && x == ssa.Value(remC.phi) && zero(y) && (op == token.GTR || op == token.NEQ):
			contOK = into(br.True) && !into(br.False)
		case remC != nil && y == ssa.Value(remC.phi) && zero(x) && (op == token.LSS || op == token.NEQ):
			contOK = into(br.True) && !into(br.False)
		case remC != nil && x == ssa.Value(remC.phi) && zero(y) && (op == token.EQL || op == token.LEQ):
			contOK = into(br.False) && !into(br.True)
		case doneC != nil && x == ssa.Value(doneC.phi) && y == limit && op == token.LSS:
			contOK = into(br.True) && !into(br.False)
		case doneC != nil && y == ssa.Value(doneC.phi) && x == limit && op == token.GTR:
			contOK = into(br.True) && !into(br.False)
		case doneC != nil && x == ssa.Value(doneC.phi) && y == limit && op == token.GEQ:
			contOK = into(br.False) && !into(br.True)
		case doneC != nil && x == ssa.Value(doneC.phi) && y == limit && op == token.NEQ:
			contOK = into(br.True) && !into(br.False)
		}
	}
	R.Check(contOK, id, key("goes on while bytes are left"), P.Pos(l.head.Instrs[len(l.head.Instrs)-1].Pos()), "the loop is entered again exactly while the bytes left are not 0", "loop test on the bytes left", "the loop test is not 'bytes left > 0' on the quantity the rounds consume: the loop stops early (short transfer reported as complete) or runs on with nothing left")
	// --- the block of this round, at the in-block offset of the position
	var blkVal ssa.Value
	for _, r := range refs(bm) {
		if ex, ok := r.(*ssa.Extract); ok && ex.Index == 0 {
			blkVal = ex
		}
	}
	nUse := 0
	var bufs []*ssa.Call
	body := loopInstrs(l)
	for _, in := range body {
		{
			cl, ok := in.(*ssa.Call)
			if !ok {
				continue
			}
			cal := staticCallee(cl)
			if cal == nil || (cal != V.ReadBlock && cal != b2a) {
				continue
			}
			nUse++
			as := fullArgs(cl)
			ok2 := blkVal != nil && len(as) > 0 && (rv(as[len(as)-1]) == blkVal || rv(as[len(as)-1]) == rv(blkVal))
			R.Check(ok2, id, key(fmt.Sprintf("%s of the block of this round", cal.Name())), P.Pos(cl.Pos()), "the block read or addressed is the one bmap returned for this round's index", "result of this round's bmap", "the block touched is not the one mapped for this round: the bytes land in (or come from) another block of the file or of another file")
			if cal == V.ReadBlock {
				bufs = append(bufs, cl)
			}
		}
	}
	R.Check(nUse > 0, id, key("uses the mapped block"), pos, "the round reads or overwrites the block it mapped", fmt.Sprintf("%d uses", nUse), "the loop maps blocks but touches none")
	// accesses of the buffer's bytes
	isWrite := false
	for _, buf := range bufs {
		nAcc := 0
		for _, r := range refs(buf) {
			fa, ok := r.(*ssa.FieldAddr)
			if !ok || fieldNameAt(fa) != "Data" {
				continue
			}
			for _, r2 := range refs(fa) {
				ld, ok := r2.(*ssa.UnOp)
				if !ok || ld.Op != token.MUL {
					continue
				}
				for _, r3 := range refs(ld) {
					switch x := r3.(type) {
					case *ssa.IndexAddr:
						nAcc++
						okI, counter := inBlockIndex(x.Index, inBlk, l, q)
						R.Check(okI, id, key("in-block offset of the bytes copied"), P.Pos(x.Pos()), "the block buffer is indexed at position%BlockSize + i, i counting from 0 below the per-round count", "position%BlockSize + i, i < count", "the bytes of the round are not placed at (taken from) the in-block offset of the file position: data lands at the start of the block, or shifted - what is read back differs from what was written")
						// what is stored / loaded
						for _, r4 := range refs(x) {
							if st, isS := r4.(*ssa.Store); isS && st.Addr == ssa.Value(x) {
								isWrite = true
								b1Source(c, id, key, l, st, counter, q, byPhi)
							}
						}
					case *ssa.Slice:
						nAcc++
						okS := x.Low != nil && inBlk(x.Low)
						_ = okS
						R.Check(okS, id, key("in-block offset of the bytes copied"), P.Pos(x.Pos()), "the block buffer is sliced from position%BlockSize", "slice from the in-block offset", "the slice of the block buffer does not start at the in-block offset of the file position")
					}
				}
			}
		}
		R.Check(nAcc > 0, id, key("block buffer bytes are accessed"), P.Pos(buf.Pos()), "the buffer read for the round is indexed", fmt.Sprintf("%d accesses", nAcc), "the buffer of the round is never indexed")
	}
	// whole-block overwrite (OverWrite of the addressed block): its data is the first <count> bytes of the source
	for _, in := range body {
		{
			cl, ok := in.(*ssa.Call)
			if !ok || staticCallee(cl) != V.OverWrite {
				continue
			}
			isWrite = true
			as := fullArgs(cl)
			data := as[len(as)-1]
			srcOK := false
			for v := range bwdAll(data) {
				if sl, isS := v.(*ssa.Slice); isS {
					if cu := byPhi[rv(sl.X)]; cu != nil && cu.kind == "slice" && sameVal(cu.step, q) {
						lowOK := sl.Low == nil
						if k, isk := constInt(sl.Low); sl.Low != nil && isk && k == 0 {
							lowOK = true
						}
						if lowOK && sl.High != nil && sameVal(rv(sl.High), q) {
							srcOK = true
						}
					}
				}
			}
			R.Check(srcOK, id, key("whole-block overwrite takes the bytes of this round"), P.Pos(cl.Pos()), "the block is overwritten with source[0:count] of the advancing source slice", "source[0:count]", "the block is overwritten with other bytes than those the request supplies for this position")
		}
	}
	if !isWrite {
		b1Result(c, id, key, fn, l, bufs, byPhi)
	} else {
		// every round that goes on to the next has handed its bytes to the journal: no way round the loop from this
		// round's bmap back to the loop test avoids both the OverWrite of the block and the SetDirty of the buffer
		handsOver := func(b *ssa.BasicBlock) bool {
			for _, in := range b.Instrs {
				if cl, ok := in.(*ssa.Call); ok {
					cal := staticCallee(cl)
					if cal == V.OverWrite || cal == V.SetDirty {
						return true
					}
					// a private helper that does so on all its paths (the per-block body extracted)
					if cal != nil && isPrivateHelper(cal) && cal.Blocks != nil {
						always := P.NewAlways(func(x ssa.Instruction) bool {
							g := staticCallee(x)
							return g != nil && (g == V.OverWrite || g == V.SetDirty)
						})
						if always.Func(cal) {
							return true
						}
					}
				}
			}
			return false
		}
		seen := map[*ssa.BasicBlock]bool{}
		reachHead := false
		var walk func(b *ssa.BasicBlock, first bool)
		walk = func(b *ssa.BasicBlock, first bool) {
			if !l.body[b] {
				return
			}
			if b == l.head && !first {
				reachHead = true
				return
			}
			if seen[b] {
				return
			}
			seen[b] = true
			if !first && handsOver(b) {
				return
			}
			for _, s2 := range b.Succs {
				walk(s2, false)
			}
		}
		// from the block of the bmap call; a hand-over in that very block after the call counts too
		after := false
		hand0 := false
		for _, in := range bm.Block().Instrs {
			if in == ssa.Instruction(bm) {
				after = true
				continue
			}
			if after {
				if cl, ok := in.(*ssa.Call); ok {
					if cal := staticCallee(cl); cal == V.OverWrite || cal == V.SetDirty {
						hand0 = true
					}
				}
			}
		}
		if !hand0 {
			walk(bm.Block(), true)
		}
		R.Check(!reachHead, id, key("every round hands its bytes to the journal"), pos, "no way from this round's bmap to the next round avoids both OverWrite and SetDirty", "hand-over on every way round", "a round can go on to the next without logging what it copied (a dropped SetDirty, a missing arm for partial blocks): the count reported includes bytes that never reach the file")
	}
}

// inBlockIndex: idx is position%BlockSize + i where i is the counter of an
// inner loop that starts at 0, advances by 1 and stays below the per-round
// count.  Returns the counter.
func inBlockIndex(idx ssa.Value, inBlk func(ssa.Value) bool, l *natLoop, q ssa.Value) (bool, *ssa.Phi) {
	bo, ok := rv(idx).(*ssa.BinOp)
	if !ok || bo.Op != token.ADD {
		return false, nil
	}
	x, y := rv(bo.X), rv(bo.Y)
	if inBlk(y) {
		x, y = y, x
	}
	if !inBlk(x) {
		return false, nil
	}
	ph, ok := y.(*ssa.Phi)
	if !ok {
		return false, nil
	}
	return counterBelow(ph, q), ph
}

// counterBelow: ph is "for i := 0; i < q; i++".
func counterBelow(ph *ssa.Phi, q ssa.Value) bool {
	fn := ph.Parent()
	var inner *natLoop
	for _, il := range loopsOf(fn) {
		if il.head == ph.Block() {
			inner = il
		}
	}
	if inner == nil {
		return false
	}
	cu := cursorOf(inner, ph)
	k0, is0 := constInt(cu.init)
	k1, is1 := constInt(cu.step)
	if !(is0 && k0 == 0 && cu.kind == "+" && is1 && k1 == 1) {
		return false
	}
	for _, br := range branches(fn) {
		if br.Block != inner.head || br.Cond.Y == nil {
			continue
		}
		x, y, op := rv(br.Cond.X), rv(br.Cond.Y), br.Cond.Op
		in := func(b *ssa.BasicBlock) bool { return inner.body[b] && b != inner.head }
		switch {
		case x == ssa.Value(ph) && sameVal(y, q) && op == token.LSS:
			return in(br.True) && !in(br.False)
		case y == ssa.Value(ph) && sameVal(x, q) && op == token.GTR:
			return in(br.True) && !in(br.False)
		case x == ssa.Value(ph) && sameVal(y, q) && op == token.GEQ:
			return in(br.False) && !in(br.True)
		case x == ssa.Value(ph) && sameVal(y, q) && op == token.NEQ:
			return in(br.True) && !in(br.False)
		}
	}
	return false
}

// b1Source: the byte stored into the block buffer at counter i is source[i] of
// the source slice that advances by the per-round count (or request[done+i]).
func b1Source(c *Ctx, id string, key func(string) string, l *natLoop, st *ssa.Store, counter *ssa.Phi, q ssa.Value, byPhi map[ssa.Value]*cursor) {
	P, R := c.P, c.R
	ok, why := false, "the byte stored is not an element of the request's buffer"
	if ld, isL := stripConv(st.Val).(*ssa.UnOp); isL && ld.Op == token.MUL {
		if ia, isI := ld.X.(*ssa.IndexAddr); isI {
			src := rv(ia.X)
			idx := rv(ia.Index)
			if cu := byPhi[src]; cu != nil {
				switch {
				case cu.kind != "slice" || !sameVal(cu.step, q):
					why = "the source slice does not advance by the bytes of the round"
				case counter == nil || idx != ssa.Value(counter):
					why = "the source is not indexed by the counter that indexes the block"
				default:
					if _, isP := cu.init.(*ssa.Parameter); isP {
						ok = true
					} else {
						why = "the source slice does not start as the caller's buffer"
					}
				}
			} else if _, isP := src.(*ssa.Parameter); isP {
				// request[done + i]
				if bo, isB := idx.(*ssa.BinOp); isB && bo.Op == token.ADD {
					x, y := rv(bo.X), rv(bo.Y)
					if counter != nil && x == ssa.Value(counter) {
						x, y = y, x
					}
					if cu := byPhi[x]; cu != nil && counter != nil && y == ssa.Value(counter) && cu.kind == "+" && sameVal(cu.step, q) {
						if k, isk := constInt(cu.init); isk && k == 0 {
							ok = true
						}
					}
				}
				if !ok {
					why = "the caller's buffer is not indexed at bytes-done + i"
				}
			} else {
				why = "the source is neither the advancing source slice nor the caller's buffer"
			}
		}
	}
	R.Check(ok, id, key("source position of the bytes copied"), P.Pos(st.Pos()), "byte i of the round comes from source[i] of the slice that drops the bytes of every round (or from request[done+i])", "matching source position", why+": every round writes the first bytes of the request again (or bytes from the wrong place) - the file does not hold what was written")
}

// b1Result: a read loop appends the bytes of every round, in order, to the
// result it returns.
func b1Result(c *Ctx, id string, key func(string) string, fn *ssa.Function, l *natLoop, bufs []*ssa.Call, byPhi map[ssa.Value]*cursor) {
	P, R := c.P, c.R
	// the accumulator: a slice-typed header phi whose back-edge value derives, through phis of the loop, from
	// append(<accumulator or inner phi of it>, <bytes of the buffer>...)
	fromBuf := func(v ssa.Value) bool {
		for s := range bwdAll(v) {
			if ld, ok := s.(*ssa.UnOp); ok && ld.Op == token.MUL {
				if ia, ok := ld.X.(*ssa.IndexAddr); ok {
					if n, fl, base, _ := loadedField(stripConv(ia.X)); n != nil && fl == "Data" {
						for _, b := range bufs {
							if stripConv(base) == ssa.Value(b) {
								return true
							}
						}
					}
				}
			}
			if sl, ok := s.(*ssa.Slice); ok {
				if n, fl, base, _ := loadedField(stripConv(sl.X)); n != nil && fl == "Data" {
					for _, b := range bufs {
						if stripConv(base) == ssa.Value(b) {
							return true
						}
					}
				}
			}
		}
		return false
	}
	var acc *cursor
	okApp, nApp := true, 0
	for _, cu := range byPhi {
		if _, isSl := cu.phi.Type().Underlying().(*types.Slice); !isSl {
			continue
		}
		// walk from the back-edge values through phis / appends back to the header phi
		seen := map[ssa.Value]bool{}
		var walk func(v ssa.Value) bool
		walk = func(v ssa.Value) bool {
			if v == ssa.Value(cu.phi) {
				return true
			}
			if seen[v] {
				return true
			}
			seen[v] = true
			switch x := v.(type) {
			case *ssa.Phi:
				if !l.body[x.Block()] {
					return false
				}
				for _, e := range x.Edges {
					if !walk(e) {
						return false
					}
				}
				return true
			case *ssa.Call:
				if bi, ok := x.Call.Value.(*ssa.Builtin); ok && bi.Name() == "append" && len(x.Call.Args) == 2 {
					nApp++
					if !fromBuf(x.Call.Args[1]) {
						okApp = false
					}
					return walk(x.Call.Args[0])
				}
			}
			return false
		}
		all := true
		n0 := nApp
		for i, e := range cu.phi.Edges {
			if l.body[cu.phi.Block().Preds[i]] && !walk(e) {
				all = false
			}
		}
		if all && nApp > n0 {
			acc = cu
		} else {
			nApp = n0
		}
	}
	if acc != nil {
		// ... starting from nothing
		empty := false
		switch x := acc.init.(type) {
		case *ssa.Const:
			empty = x.Value == nil
		case *ssa.MakeSlice:
			if k, isk := constInt(x.Len); isk && k == 0 {
				empty = true
			}
		case *ssa.Slice:
			if k, isk := constInt(x.High); x.High != nil && isk && k == 0 {
				empty = true
			}
			if al, isA := x.X.(*ssa.Alloc); isA {
				if at, isArr := derefType(al.Type()).Underlying().(*types.Array); isArr && at.Len() == 0 {
					empty = true
				}
			}
		}
		R.Check(empty, id, key("the result starts empty"), P.Pos(l.head.Instrs[0].Pos()), "the accumulated result is an empty slice before the first round", "make(..., 0) / nil", "the result starts with bytes that were not read from the file: everything returned is shifted")
	}
	R.Check(acc != nil && okApp, id, key("bytes of every round are appended to the result"), P.Pos(l.head.Instrs[0].Pos()), "the loop-carried result grows only by append(result, <bytes of this round's block buffer>...)", "append of the buffer's bytes, in order", "the result of the read is not built by appending the bytes of each round's block in order")
	if acc == nil {
		return
	}
	// the result returned after the loop is the accumulator
	nRet, okRet := 0, true
	for _, rs := range returnSources(fn, 0) {
		v := stripConv(rs.Val)
		if cst, isC := v.(*ssa.Const); isC && cst.Value == nil {
			continue
		}
		if !reachesBlock(l.head, rs.From) {
			continue
		}
		nRet++
		reach := false
		for s := range bwdAll(v) {
			if s == ssa.Value(acc.phi) {
				reach = true
			}
		}
		if !reach {
			okRet = false
		}
	}
	R.Check(okRet && nRet > 0, id, key("the result built is the result returned"), P.Pos(fn.Pos()), "what the function returns after the loop is the accumulated slice", fmt.Sprintf("%d returns", nRet), "the function returns something else than the bytes it collected")
}

// ---------------------------------------------------------------- B2

type provTerm struct {
	kind string // "call", "const", "param", "other"
	fn   *ssa.Function
	idx  int
	call *ssa.Call
	len  bool // reached through len(...)
	desc string
}

// provenance: where a value comes from, through conversions, phis, cells,
// composite literals, results of go-nfsd helpers (into their returns) and
// parameters of private helpers with one call site.  stop(f): calls of f are
// terminals.
type provSub struct {
	m      map[*ssa.Parameter]ssa.Value
	parent *provSub
}

func provenance(v ssa.Value, stop func(*ssa.Function) bool) []provTerm {
	var out []provTerm
	type sk struct {
		v ssa.Value
		s *provSub
	}
	seen := map[sk]bool{}
	var walk func(v ssa.Value, isLen bool, d int, sub *provSub)
	walkCall := func(cl *ssa.Call, idx int, isLen bool, d int, sub *provSub) {
		cal := staticCallee(cl)
		if cal == nil {
			out = append(out, provTerm{kind: "other", desc: "dynamic call"})
			return
		}
		if stop(cal) || !IsRepoFunc(cal) || cal.Blocks == nil {
			out = append(out, provTerm{kind: "call", fn: cal, idx: idx, call: cl, len: isLen})
			return
		}
		// a go-nfsd helper: what it returns, its parameters standing for the arguments of this call
		ns := &provSub{m: map[*ssa.Parameter]ssa.Value{}, parent: sub}
		as := fullArgs(cl)
		for i, q := range cal.Params {
			if i < len(as) {
				ns.m[q] = as[i]
			}
		}
		for _, rs := range returnSources(cal, idx) {
			walk(rs.Val, isLen, d+1, ns)
		}
	}
	walk = func(v ssa.Value, isLen bool, d int, sub *provSub) {
		if v == nil {
			return
		}
		key := sk{v, sub}
		if seen[key] {
			return
		}
		seen[key] = true
		if d > 8 {
			out = append(out, provTerm{kind: "other", desc: "depth"})
			return
		}
		switch x := v.(type) {
		case *ssa.Const:
			out = append(out, provTerm{kind: "const", len: isLen})
		case *ssa.Convert:
			walk(x.X, isLen, d, sub)
		case *ssa.ChangeType:
			walk(x.X, isLen, d, sub)
		case *ssa.MakeInterface:
			walk(x.X, isLen, d, sub)
		case *ssa.Phi:
			for _, e := range x.Edges {
				walk(e, isLen, d, sub)
			}
		case *ssa.Slice:
			walk(x.X, isLen, d, sub)
		case *ssa.Parameter:
			if sub != nil {
				if a, ok := sub.m[x]; ok {
					walk(a, isLen, d+1, sub.parent)
					return
				}
			}
			if a := uniqueArg(x); a != nil {
				walk(a, isLen, d+1, nil)
			} else if a := literalArg(x); a != nil {
				walk(a, isLen, d+1, nil)
			} else {
				out = append(out, provTerm{kind: "param", desc: x.Name(), len: isLen})
			}
		case *ssa.UnOp:
			if x.Op != token.MUL {
				out = append(out, provTerm{kind: "other", desc: x.String()})
				return
			}
			root := x.X
			for {
				if fa, ok := root.(*ssa.FieldAddr); ok {
					root = fa.X
					continue
				}
				break
			}
			if al, ok := root.(*ssa.Alloc); ok {
				// a local (cell or composite literal): everything stored into it or into its fields
				n := 0
				var visit func(addr ssa.Value)
				visit = func(addr ssa.Value) {
					for _, r := range refs(addr) {
						switch y := r.(type) {
						case *ssa.Store:
							if y.Addr == addr {
								n++
								walk(y.Val, isLen, d+1, sub)
							}
						case *ssa.FieldAddr:
							visit(y)
						}
					}
				}
				visit(al)
				if n == 0 {
					out = append(out, provTerm{kind: "const", len: isLen}) // zero value
				}
				return
			}
			if n, fl, _, _ := loadedField(x); n != nil {
				out = append(out, provTerm{kind: "field", desc: n.Obj().Name() + "." + fl, len: isLen})
				return
			}
			out = append(out, provTerm{kind: "other", desc: "load"})
		case *ssa.Extract:
			cl, ok := x.Tuple.(*ssa.Call)
			if !ok {
				out = append(out, provTerm{kind: "other", desc: "extract"})
				return
			}
			walkCall(cl, x.Index, isLen, d, sub)
		case *ssa.Call:
			if bi, ok := x.Call.Value.(*ssa.Builtin); ok {
				switch bi.Name() {
				case "len":
					walk(x.Call.Args[0], true, d, sub)
					return
				case "append":
					for _, a := range x.Call.Args {
						walk(a, isLen, d, sub)
					}
					return
				}
				out = append(out, provTerm{kind: "other", desc: bi.Name()})
				return
			}
			walkCall(x, 0, isLen, d, sub)
		default:
			out = append(out, provTerm{kind: "other", desc: fmt.Sprintf("%T", v)})
		}
	}
	walk(v, false, 0, nil)
	return out
}

// literalArg: for a parameter of a function literal that is handed to one
// go-nfsd function as an argument and called there, through that parameter, at
// exactly one place: the argument passed at that call.
func literalArg(p *ssa.Parameter) ssa.Value {
	lit := p.Parent()
	if lit == nil || lit.Parent() == nil {
		return nil
	}
	pi := -1
	for i, q := range lit.Params {
		if q == p {
			pi = i
		}
	}
	var found ssa.Value
	n := 0
	for _, b := range lit.Parent().Blocks {
		for _, in := range b.Instrs {
			mc, ok := in.(*ssa.MakeClosure)
			if !ok || mc.Fn != ssa.Value(lit) {
				continue
			}
			for _, r := range refs(mc) {
				cl, ok := r.(*ssa.Call)
				if !ok {
					continue
				}
				g := staticCallee(cl)
				if g == nil || !IsRepoFunc(g) || g.Blocks == nil {
					return nil
				}
				as := fullArgs(cl)
				for k, a := range as {
					if a != ssa.Value(mc) || k >= len(g.Params) {
						continue
					}
					for _, gb := range g.Blocks {
						for _, gin := range gb.Instrs {
							if gc, ok := gin.(*ssa.Call); ok && gc.Call.Value == ssa.Value(g.Params[k]) && pi < len(gc.Call.Args) {
								found = gc.Call.Args[pi]
								n++
							}
						}
					}
				}
			}
		}
	}
	if n == 1 {
		return found
	}
	return nil
}

// addrPath: the root object and the field path of an address.
func addrPath(addr ssa.Value) (ssa.Value, []string) {
	var path []string
	for {
		fa, ok := addr.(*ssa.FieldAddr)
		if !ok {
			return addr, path
		}
		path = append([]string{fieldNameAt(fa)}, path...)
		addr = fa.X
	}
}

func ruleB2(c *Ctx, id string) {
	V, P, R := c.V, c.P, c.R
	R.Rule(id, "reply fields come from their source: READ3resok.Data/Count/Eof from Inode.Read (data, len(data), eof), WRITE3resok.Count from Inode.Write's count, READLINK3resok.Data from Inode.Read; in every reply that carries a handle and attributes, the handle's inode (Fh{Ino: x.Inum, Gen: x.Gen}) and the receiver of MkFattr are the same object", 8)
	if V.InodeRead == nil || V.InodeWrite == nil || V.MkFattr == nil {
		return
	}
	mk3 := c.fn(id, "fh.(Fh).MakeFh3")
	stop := func(f *ssa.Function) bool {
		return f == V.InodeRead || f == V.InodeWrite || f == V.MkFattr || f == mk3
	}
	type want struct {
		fn   *ssa.Function
		idx  int
		len  bool
		what string
	}
	table := map[string]want{
		"READ3resok.Data":     {V.InodeRead, 0, false, "the bytes Inode.Read returned"},
		"READ3resok.Count":    {V.InodeRead, 0, true, "the length of the bytes Inode.Read returned"},
		"READ3resok.Eof":      {V.InodeRead, 1, false, "Inode.Read's end-of-file answer"},
		"WRITE3resok.Count":   {V.InodeWrite, 0, false, "the count Inode.Write returned"},
		"READLINK3resok.Data": {V.InodeRead, 0, false, "the bytes Inode.Read returned"},
	}
	type replyObj struct {
		handles []provTerm
		attrs   []provTerm
		pos     token.Pos
		fn      *ssa.Function
	}
	nT := 0
	present := map[string]bool{}
	for _, fn := range P.RepoFuncs("nfs") {
		if fn.Blocks == nil {
			continue
		}
		objs := map[string]*replyObj{}
		var okeys []string
		for _, b := range fn.Blocks {
			for _, in := range b.Instrs {
				st, ok := in.(*ssa.Store)
				if !ok {
					continue
				}
				root, path := addrPath(st.Addr)
				if len(path) == 0 {
					continue
				}
				rn := derefNamed(root.Type())
				if rn == nil || rn.Obj().Pkg() == nil || !strings.HasSuffix(rn.Obj().Pkg().Path(), "/nfstypes") || !strings.HasSuffix(rn.Obj().Name(), "3res") {
					continue
				}
				if path[0] != "Resok" {
					continue
				}
				// the struct that holds the field stored
				holder := strings.TrimSuffix(rn.Obj().Name(), "res") + "resok"
				last := path[len(path)-1]
				if w, isT := table[holder+"."+last]; isT && len(path) == 2 {
					nT++
					present[holder+"."+last] = true
					R.Analysed[FuncName(fn)] = true
					terms := provenance(st.Val, stop)
					good, bad := 0, ""
					for _, t := range terms {
						switch {
						case t.kind == "const":
						case t.kind == "call" && t.fn == w.fn && t.idx == w.idx && t.len == w.len:
							good++
						default:
							bad = t.kind + " " + t.desc
							if t.fn != nil {
								bad = fmt.Sprintf("result %d of %s", t.idx, FuncName(t.fn))
								if t.len != w.len {
									bad += " (length/value mismatch)"
								}
							}
						}
					}
					R.Check(good > 0 && bad == "", id, FuncName(ownerOf(fn))+"|"+holder+"."+last, P.Pos(st.Pos()), "the field carries "+w.what, "flows from the data path's own answer", "the reply field is filled from "+bad+" instead of "+w.what+": the client is told something else than what the file system did (e.g. a short write or read reported with the requested count)")
					continue
				}
				// handles and attributes of one reply
				pstr := strings.Join(path, ".")
				isHandle := last == "Object" || last == "Handle" || (last == "Obj" && len(path) == 2)
				isAttr := strings.HasSuffix(last, "ttributes") && !strings.Contains(pstr, "wcc") && !strings.Contains(pstr, "Dir_attributes")
				if !isHandle && !isAttr {
					continue
				}
				o := objs[holder]
				if o == nil {
					o = &replyObj{pos: st.Pos(), fn: fn}
					objs[holder] = o
					okeys = append(okeys, holder)
				}
				for _, t := range provenance(st.Val, stop) {
					if t.kind == "call" && t.fn == mk3 && isHandle {
						o.handles = append(o.handles, t)
					}
					if t.kind == "call" && t.fn == V.MkFattr && isAttr {
						o.attrs = append(o.attrs, t)
					}
				}
			}
		}
		sort.Strings(okeys)
		for _, h := range okeys {
			o := objs[h]
			if len(o.handles) == 0 || len(o.attrs) == 0 {
				continue
			}
			nT++
			R.Analysed[FuncName(fn)] = true
			ok, why := true, ""
			var ref ssa.Value
			for _, t := range o.handles {
				x := handleInode(c, t.call)
				if x == nil {
					ok, why = false, "the handle is not built from an inode's Inum and Gen"
					break
				}
				if ref == nil {
					ref = x
				} else if ref != x {
					ok, why = false, "two different inodes supply the handle"
				}
			}
			for _, t := range o.attrs {
				y := canonX(stripConv(recvOf(t.call)))
				if ok && ref != nil && y != ref {
					ok, why = false, "the attributes are those of another inode object than the handle's"
				}
			}
			R.Check(ok, id, FuncName(ownerOf(fn))+"|"+h+": handle and attributes of one object", P.Pos(o.pos), "the handle returned and the attributes returned with it are taken from the same inode", "one inode object", why+": the client caches attributes (type, size, file id) under a handle they do not belong to")
		}
	}
	// every data-bearing field is filled at all (a reply whose Data or Count is never stored carries nothing)
	{
		var keys []string
		for k := range table {
			keys = append(keys, k)
		}
		sort.Strings(keys)
		for _, k := range keys {
			R.Check(present[k], id, "reply|"+k+" is filled", "?", "the handler stores the field", "stored", "no store to "+k+" in package nfs: the reply carries the zero value - no data, count 0 - with status OK")
		}
	}
	// how much is read: the request's count for a file, the link's size for a symbolic link - nothing else.
	// READLINK returns the whole target (SYMLINK accepts targets up to wtmax; a bound on the way - rtmax, a page -
	// cuts the target short with status OK); a READ returns at most what was asked for (a count replaced by the
	// object's size outside the symbolic-link arm - "0 means everything" - returns bytes nobody asked for, unbounded)
	{
		lnk := constOfPkg(P, "nfstypes", "NF3LNK")
		nR := 0
		for _, fn := range P.RepoFuncs("nfs") {
			if fn.Blocks == nil {
				continue
			}
			for _, ci := range P.CallsIn(fn, funcIs(V.InodeRead)) {
				as := fullArgs(ci)
				if len(as) < 4 {
					continue
				}
				nR++
				R.Analysed[FuncName(fn)] = true
				recv := stripConv(as[0])
				ok, why := true, ""
				seen := map[ssa.Value]bool{}
				var leaf func(v ssa.Value, at *ssa.BasicBlock)
				leaf = func(v ssa.Value, at *ssa.BasicBlock) {
					v = stripConv(v)
					if seen[v] {
						return
					}
					seen[v] = true
					switch x := v.(type) {
					case *ssa.Phi:
						for i, e := range x.Edges {
							leaf(e, x.Block().Preds[i])
						}
						return
					case *ssa.Parameter, *ssa.Const:
						return // the request's count (bounded by C19.M6), or the caller's placeholder
					}
					if n, fl, base, isElem := loadedField(v); !isElem && n == V.Inode && fl == "Size" && stripConv(base) == recv {
						g := guardedBy(fn, at, func(cd Cond) (bool, bool) {
							if cd.Y == nil {
								return false, false
							}
							n2, f2, b2, _ := loadedField(cd.X)
							k, isk := constInt(stripConv(cd.Y))
							if n2 != V.Inode || f2 != "Kind" || stripConv(b2) != recv || !isk || k != lnk {
								return false, false
							}
							switch cd.Op {
							case token.EQL:
								return true, true
							case token.NEQ:
								return true, false
							}
							return false, false
						})
						if !g {
							ok, why = false, "the object's size on a path that is not confined to symbolic links"
						}
						return
					}
					ok, why = false, symOf(fn, v)
				}
				leaf(as[3], ci.Block())
				R.Check(ok, id, FuncName(ownerOf(fn))+"|reads what was asked for, a link in full", P.Pos(ci.Pos()), "the count handed to Inode.Read is the caller's count, or - on the Kind == NF3LNK side only - the link's size", "request count / link size", "the count is "+why+": a link target is returned cut short with status OK, or a READ returns more than the count it was given")
			}
		}
		// READLINK asks for the link's size: with READLINK's own arguments, the count that reaches Inode.Read can be
		// the size (READLINK hands a placeholder 0 down: without the symbolic-link arm it reads nothing)
		if rl := P.Func("nfs.(*Nfs).NFSPROC3_READLINK"); rl != nil {
			found, nCalls := false, 0
			for _, sc := range scopesOf(rl) {
				for _, ci := range P.CallsIn(sc.Fn, funcIs(V.InodeRead)) {
					as := fullArgs(ci)
					if len(as) < 4 {
						continue
					}
					nCalls++
					k0, is0 := constInt(sc.S.resolve(stripConv(as[2])))
					R.Check(is0 && k0 == 0, id, "NFSPROC3_READLINK|reads the target from its start", P.Pos(ci.Pos()), "the offset READLINK's read is given is 0", "offset 0", "READLINK reads the target from another offset than 0: the first bytes of the target are missing")
					seen := map[ssa.Value]bool{}
					var leaf func(v ssa.Value)
					leaf = func(v ssa.Value) {
						v = stripConv(v)
						if seen[v] {
							return
						}
						seen[v] = true
						if ph, isP := v.(*ssa.Phi); isP {
							for _, e := range ph.Edges {
								leaf(e)
							}
							return
						}
						if n, fl, _, isElem := loadedField(v); !isElem && n == V.Inode && fl == "Size" {
							found = true
						}
					}
					leaf(as[3])
				}
			}
			R.Check(found && nCalls > 0, id, "NFSPROC3_READLINK|asks for the link's size", P.Pos(rl.Pos()), "the count READLINK's read is given can be the link's size", "Size among the values of the count", "READLINK reads with the placeholder count it hands down (0): the target returned is empty, status OK")
		}
		// READ is for regular files, READLINK for symbolic links: the read is on the side of a comparison of the
		// object's kind with the kind the procedure is about (a constant, or a parameter bound to constants)
		for _, fn := range P.RepoFuncs("nfs") {
			if fn.Blocks == nil {
				continue
			}
			for _, ci := range P.CallsIn(fn, funcIs(V.InodeRead)) {
				as := fullArgs(ci)
				recv := stripConv(as[0])
				g := guardedBy(fn, ci.Block(), func(cd Cond) (bool, bool) {
					if cd.Y == nil {
						return false, false
					}
					x, y := cd.X, cd.Y
					if n2, f2, _, _ := loadedField(y); n2 == V.Inode && f2 == "Kind" {
						x, y = y, x
					}
					n1, f1, b1, _ := loadedField(x)
					if n1 != V.Inode || f1 != "Kind" || stripConv(b1) != recv {
						return false, false
					}
					yv := stripConv(y)
					_, isK := constInt(yv)
					if pm, isP := yv.(*ssa.Parameter); isP && !isK {
						// a kind handed down by the callers: every call site passes a constant
						idx := -1
						for i, q := range fn.Params {
							if q == pm {
								idx = i
							}
						}
						isK = idx >= 0
						nSites := 0
						for _, cs := range P.CallersOf(fn) {
							if !IsRepoFunc(cs.Caller) || strings.HasSuffix(P.Pos(cs.Instr.Pos()), "_test.go") {
								continue
							}
							nSites++
							cc := fullArgs(cs.Instr)
							if idx >= len(cc) {
								isK = false
								continue
							}
							if _, isC := constInt(stripConv(cc[idx])); !isC {
								isK = false
							}
						}
						if nSites == 0 {
							isK = false
						}
					}
					if !isK {
						return false, false
					}
					switch cd.Op {
					case token.EQL:
						return true, true
					case token.NEQ:
						return true, false
					}
					return false, false
				})
				R.Check(g, id, FuncName(ownerOf(fn))+"|reads an object of the procedure's kind", P.Pos(ci.Pos()), "the read lies on the side where the object's kind equals the kind the procedure is about", "Kind == <the procedure's kind>", "the read is not confined to the kind of object the procedure is about: READ returns the raw entries of a directory or the target of a link as file data, READLINK the bytes of a regular file")
			}
		}
		R.Check(nR > 0, id, "inventory|reads of file content in the handlers", "?", "the handlers read through Inode.Read", fmt.Sprintf("%d reads", nR), "no Inode.Read call in package nfs")
	}
	R.Check(nT >= 7, id, "inventory|reply fields with a source", "?", "the data-bearing reply fields are found", fmt.Sprintf("%d sites", nT), fmt.Sprintf("only %d of the expected reply-field sites found", nT))
}

// handleInode: the inode x of fh.Fh{Ino: x.Inum, Gen: x.Gen}.MakeFh3().
func handleInode(c *Ctx, mk *ssa.Call) ssa.Value {
	V := c.V
	recv := recvOf(mk)
	ld, ok := recv.(*ssa.UnOp)
	if !ok || ld.Op != token.MUL {
		return nil
	}
	al, ok := ld.X.(*ssa.Alloc)
	if !ok {
		return nil
	}
	var ino, gen ssa.Value
	for _, r := range refs(al) {
		fa, ok := r.(*ssa.FieldAddr)
		if !ok {
			continue
		}
		for _, r2 := range refs(fa) {
			if st, ok := r2.(*ssa.Store); ok && st.Addr == ssa.Value(fa) {
				switch fieldNameAt(fa) {
				case "Ino":
					ino = st.Val
				case "Gen":
					gen = st.Val
				}
			}
		}
	}
	if ino == nil || gen == nil {
		return nil
	}
	n1, f1, b1, _ := loadedField(stripConv(ino))
	n2, f2, b2, _ := loadedField(stripConv(gen))
	if n1 != V.Inode || n2 != V.Inode || f1 != "Inum" || f2 != "Gen" || b1 == nil {
		return nil
	}
	x1, x2 := canonX(stripConv(b1)), canonX(stripConv(b2))
	if x1 != x2 {
		return nil
	}
	return x1
}

// ---------------------------------------------------------------- B3

func ruleB3(c *Ctx, id string) {
	V, P, R := c.V, c.P, c.R
	R.Rule(id, "sizes follow writes: the size Inode.Write records is <start offset> + <bytes written by the loop>, stored only on the side where that is larger than the current size; Resize records the size it was asked for", 3)
	w := V.InodeWrite
	if w == nil || V.Resize == nil {
		return
	}
	var wl *natLoop
	var cands []*ssa.Function
	var addC func(f *ssa.Function, d int)
	addC = func(f *ssa.Function, d int) {
		cands = append(cands, f)
		if d >= 2 {
			return
		}
		for _, b := range f.Blocks {
			for _, in := range b.Instrs {
				if cl, ok := in.(*ssa.Call); ok {
					if cal := staticCallee(cl); cal != nil && isPrivateHelper(cal) && cal.Blocks != nil && staticSites != nil && len(staticSites[cal]) == 1 {
						addC(cal, d+1)
					}
				}
			}
		}
	}
	addC(w, 0)
	for _, f := range cands {
		loops := loopsOf(f)
		for _, ci := range P.CallsIn(f, funcIs(V.bmap)) {
			if l := innermostLoop(loops, ci.Block()); l != nil {
				wl = l
			}
		}
	}
	n := 0
	for _, sc := range scopesOf(w) {
		for _, fw := range FieldWrites(sc.Fn) {
			if fw.Type != V.Inode || fw.Field != "Size" || fw.Element {
				continue
			}
			n++
			val := rv(fw.Val)
			ok, why := false, "the value stored is not <start> + <bytes written>"
			if bo, isB := val.(*ssa.BinOp); isB && bo.Op == token.ADD && wl != nil {
				x, y := rv(bo.X), rv(bo.Y)
				for i := 0; i < 2; i++ {
					if ph, isP := y.(*ssa.Phi); isP && ph.Block() == wl.head {
						cu := cursorOf(wl, ph)
						k, isk := constInt(cu.init)
						var posInit ssa.Value
						for _, q := range headerCursors(wl) {
							if q != nil && q.kind == "+" && sameVal(q.step, cu.step) && q.phi != ph {
								posInit = q.init
							}
						}
						if isk && k == 0 && cu.kind == "+" && posInit != nil && rv(posInit) == x {
							ok = true
						}
					}
					x, y = y, x
				}
			}
			R.Check(ok, id, "inode.Write|size recorded = start + bytes written", P.Pos(fw.Instr.Pos()), "Size = offset + cnt, cnt being the bytes the loop copied and offset the position it started at", "start + bytes done", why+": after a short write (disk full) or with another base the size no longer says where the data ends - later reads stop early or return bytes never written")
			// only when larger
			grow := guardedBy(sc.Fn, fw.Instr.Block(), func(cd Cond) (bool, bool) {
				if cd.Y == nil {
					return false, false
				}
				x, y, op := rv(cd.X), rv(cd.Y), cd.Op
				isSize := func(v ssa.Value) bool {
					nn, fl, _, isElem := loadedField(v)
					return !isElem && nn == V.Inode && fl == "Size"
				}
				if isSize(x) && sameAdd(y, val) {
					x, y, op = y, x, flipOp(op)
				}
				if !sameAdd(x, val) || !isSize(y) {
					return false, false
				}
				switch op {
				case token.GTR:
					return true, true
				case token.LEQ:
					return true, false
				}
				return false, false
			})
			R.Check(grow, id, "inode.Write|size only grows by writing", P.Pos(fw.Instr.Pos()), "the store lies on the side where offset+cnt > Size", "guarded by the comparison with the current size", "a write inside the file lowers its size (or the comparison is with something else): data behind the write disappears from reads")
		}
	}
	// ... and whenever bytes were written: a way from the loop to a return that passes no comparison of
	// <start + bytes written> with the size takes the side of a test on which the bytes written are 0
	if wl != nil {
		lf := wl.head.Parent()
		var done *cursor
		for _, q := range headerCursors(wl) {
			if k, isk := constInt(q.init); isk && k == 0 && q.kind == "+" {
				if _, isC := constInt(q.step); !isC {
					done = q
				}
			}
		}
		if done != nil {
			type edge struct{ from, to *ssa.BasicBlock }
			cut := map[edge]bool{}
			cmpBlocks := map[*ssa.BasicBlock]bool{}
			for _, br := range branches(lf) {
				if br.Cond.Y == nil {
					continue
				}
				x, y, op := rv(br.Cond.X), rv(br.Cond.Y), br.Cond.Op
				if k, isk := constInt(y); isk && k == 0 && x == ssa.Value(done.phi) {
					switch op {
					case token.GTR, token.NEQ:
						cut[edge{br.Block, br.False}] = true
					case token.EQL, token.LEQ:
						cut[edge{br.Block, br.True}] = true
					}
				}
				if k, isk := constInt(x); isk && k == 0 && y == ssa.Value(done.phi) && (op == token.LSS || op == token.NEQ) {
					cut[edge{br.Block, br.False}] = true
				}
				// the comparison with the current size
				isSize := func(v ssa.Value) bool {
					nn, fl, _, isElem := loadedField(v)
					return !isElem && nn == V.Inode && fl == "Size"
				}
				if (isSize(x) || isSize(y)) && (op == token.GTR || op == token.LSS || op == token.LEQ || op == token.GEQ) {
					cmpBlocks[br.Block] = true
				}
			}
			bad := false
			seen := map[*ssa.BasicBlock]bool{}
			work := []*ssa.BasicBlock{}
			for _, sx := range wl.head.Succs {
				if !wl.body[sx] {
					work = append(work, sx)
				}
			}
			for b := range wl.body {
				for _, sx := range b.Succs {
					if !wl.body[sx] {
						work = append(work, sx)
					}
				}
			}
			if lf == w {
				for len(work) > 0 {
					b := work[len(work)-1]
					work = work[:len(work)-1]
					if seen[b] || cmpBlocks[b] {
						continue
					}
					seen[b] = true
					if _, isR := b.Instrs[len(b.Instrs)-1].(*ssa.Return); isR {
						bad = true
					}
					for _, sx := range b.Succs {
						if !cut[edge{b, sx}] {
							work = append(work, sx)
						}
					}
				}
				R.Check(!bad, id, "inode.Write|a write that copied bytes records its size", P.Pos(w.Pos()), "every way from the copy loop to a return passes the comparison with the current size, or the side of a test on which no byte was written", "size comparison or 'bytes written == 0' on every way out", "a write that copied bytes can return without looking at the size (the test that leads to the update does not cover every count above 0): the bytes are in the block, the size does not cover them - a READ does not return what was written")
			}
		}
	}
	R.Check(n > 0, id, "inode.Write|records the size", P.Pos(w.Pos()), "Inode.Write stores the new size", fmt.Sprintf("%d stores", n), "no store to Size in Inode.Write")
	// Resize
	m := 0
	for _, sc := range scopesOf(V.Resize) {
		for _, fw := range FieldWrites(sc.Fn) {
			if fw.Type != V.Inode || fw.Field != "Size" || fw.Element {
				continue
			}
			m++
			v := sc.S.resolve(stripConv(fw.Val))
			_, isP := v.(*ssa.Parameter)
			R.Check(isP && v.Parent() == V.Resize, id, "inode.Resize|size recorded = size requested", P.Pos(fw.Instr.Pos()), "Resize stores its size parameter", "the parameter", "Resize records another size than the one SETATTR asked for")
		}
	}
	R.Check(m > 0, id, "inode.Resize|records the size", P.Pos(V.Resize.Pos()), "Resize stores the new size", fmt.Sprintf("%d stores", m), "no store to Size in Resize")
}

// sameAdd: a and b are the same value, or the same sum of the same two operands.
func sameAdd(a, b ssa.Value) bool {
	a, b = rv(a), rv(b)
	if a == b {
		return true
	}
	x, ok1 := a.(*ssa.BinOp)
	y, ok2 := b.(*ssa.BinOp)
	if !ok1 || !ok2 || x.Op != token.ADD || y.Op != token.ADD {
		return false
	}
	ax, ay, bx, by := rv(x.X), rv(x.Y), rv(y.X), rv(y.Y)
	return (ax == bx && ay == by) || (ax == by && ay == bx)
}

// ---------------------------------------------------------------- B17, B18

// ruleB17: RMDIR removes directories only.  RMDIR and REMOVE share one
// routine; what makes RMDIR refuse a regular file or a symbolic link is the
// flag it hands down.  Decided on the paths: with the arguments of RMDIR's own
// call substituted, every path to the removal of the name takes the edge on
// which the object's kind is NF3DIR.
func ruleB17(c *Ctx, id string) {
	V, P, R := c.V, c.P, c.R
	R.Rule(id, "RMDIR removes only directories: in RMDIR's code (the shared routine read with the arguments RMDIR passes, predicate helpers included), every path to dir.RemName takes the edge 'Kind == NF3DIR' of an inode other than the directory searched", 1)
	rmdir := c.fn(id, "nfs.(*Nfs).NFSPROC3_RMDIR")
	rem := c.fn(id, "dir.RemName")
	if rmdir == nil || rem == nil {
		return
	}
	dirK := constOfPkg(P, "nfstypes", "NF3DIR")
	type edge struct{ from, to *ssa.BasicBlock }
	// the edges of fn that cannot be taken (a flag the caller binds to a constant) or that establish "is a directory"
	var blockedEdges func(fn *ssa.Function, sub Subst, skip ssa.Value, d int) map[edge]bool
	// can fn (read with sub) answer with the given class - bool true/false, status OK/not OK - without taking a
	// "is a directory" edge?
	canAnswer := func(fn *ssa.Function, sub Subst, idx int, wantTrue bool, d int) bool {
		blocked := blockedEdges(fn, sub, nil, d)
		seen := map[*ssa.BasicBlock]bool{}
		work := []*ssa.BasicBlock{fn.Blocks[0]}
		for len(work) > 0 {
			b := work[len(work)-1]
			work = work[:len(work)-1]
			if seen[b] {
				continue
			}
			seen[b] = true
			if r, isR := b.Instrs[len(b.Instrs)-1].(*ssa.Return); isR && idx < len(r.Results) {
				v := stripConv(r.Results[idx])
				if bv, isb := constBool(v); isb {
					if bv == wantTrue {
						return true
					}
				} else if k, isk := constInt(v); isk {
					if (k == 0) == wantTrue {
						return true
					}
				} else {
					return true // not a constant: may be either
				}
			}
			for _, sx := range b.Succs {
				if !blocked[edge{b, sx}] {
					work = append(work, sx)
				}
			}
		}
		return false
	}
	blockedEdges = func(fn *ssa.Function, sub Subst, skip ssa.Value, d int) map[edge]bool {
		blocked := map[edge]bool{}
		for _, br := range branches(fn) {
			if br.True == noSide || br.False == noSide {
				continue
			}
			x := sub.resolve(stripConv(br.Cond.X))
			if br.Cond.Op == token.ILLEGAL {
				if bv, isb := constBool(x); isb {
					if bv {
						blocked[edge{br.Block, br.False}] = true
					} else {
						blocked[edge{br.Block, br.True}] = true
					}
					continue
				}
			}
			// a comparison of two values the caller's arguments make constant ("want == removeDirOnly")
			if (br.Cond.Op == token.EQL || br.Cond.Op == token.NEQ) && br.Cond.Y != nil {
				y := sub.resolve(stripConv(br.Cond.Y))
				eq, known := false, false
				if b1, ok1 := constBool(x); ok1 {
					if b2, ok2 := constBool(y); ok2 {
						eq, known = b1 == b2, true
					}
				} else if k1, ok1 := constInt(x); ok1 {
					if _, isC := x.(*ssa.Const); isC {
						if k2, ok2 := constInt(y); ok2 {
							if _, isC2 := y.(*ssa.Const); isC2 {
								eq, known = k1 == k2, true
							}
						}
					}
				}
				if known {
					holds := eq == (br.Cond.Op == token.EQL)
					if holds {
						blocked[edge{br.Block, br.False}] = true
					} else {
						blocked[edge{br.Block, br.True}] = true
					}
					continue
				}
			}
			// a predicate helper asked: the side on which it cannot have answered without the directory test
			var call *ssa.Call
			idx := 0
			switch y := stripConv(br.Cond.X).(type) {
			case *ssa.Call:
				call = y
			case *ssa.Extract:
				if cl, isC := y.Tuple.(*ssa.Call); isC {
					call, idx = cl, y.Index
				}
			}
			if call != nil && d < 2 {
				if h := staticCallee(call); h != nil && IsRepoFunc(h) && h.Blocks != nil && h != fn && relPkg(h) == "nfs" {
					hs := Subst{}
					as := fullArgs(call)
					for i, q := range h.Params {
						if i < len(as) {
							hs[q] = sub.resolve(stripConv(as[i]))
						}
					}
					isStatus := br.Cond.Op == token.EQL || br.Cond.Op == token.NEQ
					if k, isk := constInt(stripConv(br.Cond.Y)); br.Cond.Y != nil && (!isk || k != 0) {
						isStatus = false
					}
					if br.Cond.Op == token.ILLEGAL || isStatus {
						// the side that means "answered true / OK"
						okSide, otherSide := br.True, br.False
						if br.Cond.Op == token.NEQ {
							okSide, otherSide = br.False, br.True
						}
						if !canAnswer(h, hs, idx, true, d+1) {
							blocked[edge{br.Block, okSide}] = true
						}
						if !canAnswer(h, hs, idx, false, d+1) {
							blocked[edge{br.Block, otherSide}] = true
						}
					}
					continue
				}
			}
			if br.Cond.Y == nil {
				continue
			}
			nm, fl, base, _ := loadedField(br.Cond.X)
			k, isk := constInt(stripConv(br.Cond.Y))
			if nm != V.Inode || fl != "Kind" || !isk || k != dirK || (skip != nil && sub.resolve(stripConv(base)) == skip) {
				continue
			}
			switch br.Cond.Op {
			case token.EQL:
				blocked[edge{br.Block, br.True}] = true
			case token.NEQ:
				blocked[edge{br.Block, br.False}] = true
			}
		}
		return blocked
	}
	n := 0
	for _, sc := range scopesOf(rmdir) {
		sc := sc
		for _, ci := range P.CallsIn(sc.Fn, funcIs(rem)) {
			n++
			R.Analysed[FuncName(sc.Fn)] = true
			as := fullArgs(ci)
			blocked := blockedEdges(sc.Fn, sc.S, sc.S.resolve(stripConv(as[0])), 0)
			seen := map[*ssa.BasicBlock]bool{}
			work := []*ssa.BasicBlock{sc.Fn.Blocks[0]}
			for len(work) > 0 {
				b := work[len(work)-1]
				work = work[:len(work)-1]
				if seen[b] {
					continue
				}
				seen[b] = true
				for _, s := range b.Succs {
					if !blocked[edge{b, s}] || (len(b.Succs) == 2 && b.Succs[0] == b.Succs[1]) {
						work = append(work, s)
					}
				}
			}
			R.Check(!seen[ci.Block()], id, "NFSPROC3_RMDIR|the name is removed only for a directory", P.Pos(ci.Pos()), "with RMDIR's arguments, dir.RemName is reached only through the edge on which the object is a directory", "every path takes Kind == NF3DIR", "a path reaches the removal without the directory test (the flag RMDIR hands down does not arm it): RMDIR of a regular file or symbolic link unlinks it and answers OK")
		}
	}
	R.Check(n > 0, id, "NFSPROC3_RMDIR|removes a name", P.Pos(rmdir.Pos()), "RMDIR reaches dir.RemName in its own code", fmt.Sprintf("%d sites", n), "no dir.RemName found in RMDIR's code")
}

var inodeMutMemo = map[*ssa.Function]int{}

// mutatesInode: f (or a go-nfsd function it calls) stores into a field of an
// inode or writes its content.
func mutatesInode(c *Ctx, f *ssa.Function, d int) bool {
	if f == nil {
		return false
	}
	if f == c.V.InodeWrite || f == c.V.Resize {
		return true
	}
	if f == c.V.WriteInode || f == c.V.MkFattr {
		return false // logging the inode / reading its attributes changes nothing in it
	}
	if !IsRepoFunc(f) || f.Blocks == nil || d > 6 {
		return false
	}
	if v, ok := inodeMutMemo[f]; ok {
		return v == 1
	}
	inodeMutMemo[f] = 2
	res := false
	for _, w := range FieldWrites(f) {
		if w.Type == c.V.Inode {
			res = true
		}
	}
	if !res {
		for _, b := range f.Blocks {
			for _, in := range b.Instrs {
				if cal := staticCallee(in); cal != nil && cal != f && mutatesInode(c, cal, d+1) {
					res = true
				}
			}
		}
	}
	if res {
		inodeMutMemo[f] = 1
	}
	return res
}

// ruleB18: the attributes a reply carries describe the object as the request
// leaves it.  A snapshot taken before the request's last change of the inode
// (MKDIR's "." and "..", the target of a SYMLINK) reports an older size than
// the very next GETATTR.
func ruleB18(c *Ctx, id string) {
	V, P, R := c.V, c.P, c.R
	R.Rule(id, "reply attributes are taken after the request's last change of the object: in the handlers, nothing that can execute after x.MkFattr() stores into x or hands x to a function that changes an inode", 6)
	if V.MkFattr == nil {
		return
	}
	n := 0
	per := map[string]int{}
	for _, fn := range P.RepoFuncs("nfs") {
		if fn.Blocks == nil {
			continue
		}
		for _, mk := range P.CallsIn(fn, funcIs(V.MkFattr)) {
			x := stripConv(recvOf(mk))
			if x == nil {
				continue
			}
			n++
			R.Analysed[FuncName(fn)] = true
			def, _ := x.(ssa.Instruction)
			var late ssa.Instruction
			seen := map[*ssa.BasicBlock]bool{}
			changes := func(in ssa.Instruction) bool {
				switch y := in.(type) {
				case *ssa.Store:
					if nm, _, base := FieldOf(y.Addr); nm == V.Inode && stripConv(base) == x {
						return true
					}
				case *ssa.Call:
					cal := staticCallee(y)
					if cal == nil || !mutatesInode(c, cal, 0) {
						return false
					}
					for _, a := range fullArgs(y) {
						if stripConv(a) == x {
							return true
						}
					}
				}
				return false
			}
			var scan func(b *ssa.BasicBlock, from int)
			scan = func(b *ssa.BasicBlock, from int) {
				for i := from; i < len(b.Instrs); i++ {
					in := b.Instrs[i]
					if in == def {
						return
					}
					if late == nil && changes(in) {
						late = in
					}
				}
				for _, s := range b.Succs {
					if !seen[s] {
						seen[s] = true
						scan(s, 0)
					}
				}
			}
			for i, in := range mk.Block().Instrs {
				if in == mk {
					scan(mk.Block(), i+1)
				}
			}
			base := FuncName(ownerOf(fn)) + "|attributes taken after the last change"
			per[base]++
			key := base
			if per[base] > 1 {
				key = fmt.Sprintf("%s#%d", base, per[base])
			}
			why := ""
			if late != nil {
				why = "the inode is changed at " + P.Pos(late.Pos()) + " after its attributes were taken for the reply"
			}
			R.Check(late == nil, id, key, P.Pos(mk.Pos()), "nothing changes the inode between the snapshot of its attributes and the end of the function", "no later change", why+": the reply reports a size (and times) older than what the request committed - the client caches attributes that the next GETATTR contradicts")
		}
	}
	R.Check(n >= 6, id, "inventory|attribute snapshots", "?", "the MkFattr calls of the handlers are found", fmt.Sprintf("%d sites", n), fmt.Sprintf("only %d MkFattr sites found", n))
}

// ruleB20: SETATTR sets each attribute from its own part of the request.
// The sattr3 carries, per attribute, a selector (Set_it) and a value; the
// arms of the handler are copies of one another.  A store to Inode.Atime /
// Inode.Mtime lies only under tests of that attribute's selector, and a value
// taken from the request is that attribute's value.
func ruleB20(c *Ctx, id string) {
	V, P, R := c.V, c.P, c.R
	R.Rule(id, "an attribute is set from its own selector and value: every store to Inode.Atime / Inode.Mtime in SETATTR's code is dominated only by tests of New_attributes.<that attribute>.Set_it (among the Set_it tests), and a request-derived value stored is New_attributes.<that attribute>.*", 2)
	sa := c.fn(id, "nfs.(*Nfs).NFSPROC3_SETATTR")
	if sa == nil {
		return
	}
	n := 0
	for _, sc := range scopesOf(sa) {
		for _, w := range FieldWrites(sc.Fn) {
			if w.Type != V.Inode || (w.Field != "Atime" && w.Field != "Mtime") || w.Element {
				continue
			}
			n++
			R.Analysed[FuncName(sc.Fn)] = true
			attr := "." + w.Field + "."
			ok, why := true, ""
			// the selector tests that dominate the store
			for _, br := range branches(sc.Fn) {
				if br.Cond.X == nil {
					continue
				}
				_, path := paramFieldPath(sc.S.resolve(stripConv(br.Cond.X)))
				if !strings.HasSuffix(path, ".Set_it") || !strings.Contains(path, "Atime") && !strings.Contains(path, "Mtime") {
					continue
				}
				dom := edgeDominates(br.Block, br.True, w.Instr.Block()) || edgeDominates(br.Block, br.False, w.Instr.Block())
				if dom && !strings.Contains("."+path, attr) {
					ok, why = false, "the store lies under a test of "+path
				}
			}
			if _, vpath := paramFieldPath(sc.S.resolve(stripConv(w.Val))); vpath != "" && !strings.Contains("."+vpath+".", attr) {
				ok, why = false, "the value stored is "+vpath
			}
			R.Check(ok, id, fmt.Sprintf("NFSPROC3_SETATTR|%s set from its own selector and value#%d", w.Field, n), P.Pos(w.Instr.Pos()), "the selector tested and the value stored belong to the attribute stored", "same attribute", why+": a request that sets the two times in different ways gets the wrong one (the server's clock for a client time, or the unset field 0/0) - stored, logged and reported")
		}
	}
	R.Check(n >= 2, id, "NFSPROC3_SETATTR|time attributes", P.Pos(sa.Pos()), "SETATTR stores the access and modification times", fmt.Sprintf("%d stores", n), "fewer than the two time stores found")
}

// ruleB22: RENAME replaces an existing object only by one of the same kind
// (a directory over a regular file, a symbolic link over a directory must be
// refused and leave both alone).  The unlink of the replaced object lies on the
// side of a comparison of the two objects' kinds where they are equal.
func ruleB22(c *Ctx, id string) {
	V, P, R := c.V, c.P, c.R
	R.Rule(id, "RENAME replaces an object only by one of the same kind: every unlink (doDecLink) in RENAME's code is dominated by the edge 'kind of one inode == kind of another'", 1)
	rn := c.fn(id, "nfs.(*Nfs).NFSPROC3_RENAME")
	if rn == nil || V.DecLink == nil {
		return
	}
	n := 0
	scopes := scopesOf(rn)
	for _, sc := range scopes {
		// the unlink itself (inode.DecLink), wherever in RENAME's code and helpers it is written; the comparison of
		// the kinds is looked for there and, through the call sites, in the enclosing functions up to RENAME
		for _, ci := range P.CallsIn(sc.Fn, funcIs(V.DecLink)) {
			n++
			R.Analysed[FuncName(sc.Fn)] = true
			mk := func(sub Subst) func(Cond) (bool, bool) {
				return func(cd Cond) (bool, bool) {
					if cd.Y == nil {
						return false, false
					}
					n1, f1, b1, _ := loadedFieldS(cd.X, sub)
					n2, f2, b2, _ := loadedFieldS(cd.Y, sub)
					if n1 != V.Inode || n2 != V.Inode || f1 != "Kind" || f2 != "Kind" || b1 == nil || b2 == nil || sub.resolve(stripConv(b1)) == sub.resolve(stripConv(b2)) {
						return false, false
					}
					switch cd.Op {
					case token.EQL:
						return true, true
					case token.NEQ:
						return true, false
					}
					return false, false
				}
			}
			// directly, or through a predicate helper whose good answer is given only on the equal side
			g := guardedUp(scopes, sc, ci.Block(), mk)
			R.Check(g, id, fmt.Sprintf("NFSPROC3_RENAME|replaced object has the kind of the renamed one#%d", n), P.Pos(ci.Pos()), "the unlink of the replaced object lies on the side where the two kinds are equal", "kinds compared, equal side", "an object can be replaced by one of another kind (the comparison covers one direction only, or is gone): RENAME of a directory onto a regular file succeeds, the file is freed")
		}
	}
	R.Check(n > 0, id, "NFSPROC3_RENAME|unlinks what it replaces", P.Pos(rn.Pos()), "RENAME unlinks a replaced target", fmt.Sprintf("%d sites", n), "no call that reaches inode.DecLink in RENAME's code")
}
