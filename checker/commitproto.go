package main

import (
	"fmt"
	"sort"

	"golang.org/x/tools/go/ssa"
)

// The commit protocol, explored path by path (E10) from the functions through
// which a transaction of the full server reaches a durability point of the
// journal.  Nothing is anchored by name below the exported terminators: the
// entries are found from the durability calls, so the funnel may be one
// function with a flag, two specialised ones, a helper that is handed the
// journal action as a function literal, or a helper that is handed the
// journal's answer.

type cpEntry struct {
	fn *ssa.Function
	// first offending construct of each kind ("" = none)
	preBad, postBad, relBad, noEpilogue string
	reachedDur                          bool
	noDurPath                           bool            // a returning path without any durability call
	noFlushPath                         bool            // a returning path that did not flush the log
	wait                                map[string]bool // values of CommitWait's flag seen: "true", "false", "?"
	exceeded                            bool
}

type cpRefused struct { // per jrnl.CommitWait call site
	call                    ssa.Instruction
	holder                  *ssa.Function
	drops, undo, pub, order string // first offending path ("" = holds)
	seen                    bool
}

type commitProto struct {
	entries  []*cpEntry
	byFn     map[*ssa.Function]*cpEntry
	durSeen  map[ssa.Instruction]bool       // durability call sites reached from an entry
	visited  map[*ssa.Function]bool         // functions walked from an entry
	refused  map[ssa.Instruction]*cpRefused // per CommitWait call
	paSites  map[ssa.Instruction]bool       // PostAbort calls met, true = only ever with a refused commit behind them
	durCalls []ssa.Instruction              // all durability call sites in server packages (sorted)
	reach    map[*ssa.Function]bool         // functions from which a durability call is reachable inside their package
}

func samePkgCallees(fn *ssa.Function) []*ssa.Function {
	var out []*ssa.Function
	for _, b := range fn.Blocks {
		for _, in := range b.Instrs {
			if ci, ok := in.(ssa.CallInstruction); ok {
				if g := ci.Common().StaticCallee(); g != nil && g.Blocks != nil && funcPkg(g) == funcPkg(fn) {
					out = append(out, g)
				}
			}
			if mc, ok := in.(*ssa.MakeClosure); ok {
				if g, ok := mc.Fn.(*ssa.Function); ok {
					out = append(out, g)
				}
			}
		}
	}
	out = append(out, fn.AnonFuncs...)
	return out
}

func commitProtocol(c *Ctx) *commitProto {
	if c.cp != nil {
		return c.cp
	}
	V, P := c.V, c.P
	cp := &commitProto{byFn: map[*ssa.Function]*cpEntry{}, durSeen: map[ssa.Instruction]bool{}, visited: map[*ssa.Function]bool{},
		refused: map[ssa.Instruction]*cpRefused{}, paSites: map[ssa.Instruction]bool{}, reach: map[*ssa.Function]bool{}}
	c.cp = cp
	dur := funcIs(V.JrnlCommitWait, V.LogFlush, V.LogCommitWait)
	isDur := func(in ssa.Instruction) bool {
		cal := staticCallee(in)
		return cal != nil && dur(cal)
	}
	var server []*ssa.Function
	for _, fn := range P.RepoFuncs() {
		if inServerPkg(fn) {
			server = append(server, fn)
		}
	}
	holders := map[*ssa.Function]bool{}
	for _, fn := range server {
		for _, call := range P.CallsIn(fn, dur) {
			cp.durCalls = append(cp.durCalls, call)
			holders[fn] = true
			if staticCallee(call) == V.JrnlCommitWait {
				cp.refused[call] = &cpRefused{call: call, holder: fn}
			}
		}
	}
	// functions that reach a durability call without leaving their package
	for h := range holders {
		cp.reach[h] = true
	}
	for changed := true; changed; {
		changed = false
		for _, fn := range server {
			if cp.reach[fn] {
				continue
			}
			for _, g := range samePkgCallees(fn) {
				if cp.reach[g] {
					cp.reach[fn] = true
					changed = true
					break
				}
			}
		}
	}
	// entries: the outermost such functions - exported, or not called from their own package
	for _, fn := range server {
		if !cp.reach[fn] || fn.Parent() != nil {
			continue
		}
		exported := fn.Object() != nil && fn.Object().Exported()
		called := false
		for _, s := range staticSites[fn] {
			if funcPkg(s.Parent()) == funcPkg(fn) {
				called = true
			}
		}
		if exported || !called {
			e := &cpEntry{fn: fn, wait: map[string]bool{}}
			cp.entries = append(cp.entries, e)
			cp.byFn[fn] = e
		}
	}
	sort.Slice(cp.entries, func(i, j int) bool { return FuncName(cp.entries[i].fn) < FuncName(cp.entries[j].fn) })

	pre := P.NewAlways(callTo(V.PreCommit))
	post := P.NewAlways(callTo(V.PostCommit))
	rel := P.NewAlways(callTo(V.releaseInodes))
	pa := P.NewAlways(callTo(V.PostAbort))
	inv := invalidates(c)
	var flush func(ssa.Instruction) bool
	if wf := P.Func(jrnlPath + "/wal.(*Walog).Flush"); wf != nil {
		flush = P.NewAlways(callTo(wf)).Instr
	}
	durIdx := map[ssa.Instruction]int{}
	for i, d := range cp.durCalls {
		durIdx[d] = i
	}
	// outcome of the journal commits on this path: "refused" (every CommitWait behind us answered false),
	// "ok" (known true), "?" (not tested)
	outcome := func(st *PXState, d ssa.Instruction) string {
		v, isV := d.(ssa.Value)
		if !isV {
			return "?"
		}
		r, ok := st.regs[v]
		switch {
		case ok && r.known && r.k == 0:
			return "refused"
		case ok && (r.nz || (r.known && r.k != 0)):
			return "ok"
		}
		return "?"
	}
	for _, e := range cp.entries {
		e := e
		px := NewPX()
		px.MaxDepth = 7
		px.Follow = func(st *PXState, call *ssa.Call, h *ssa.Function) bool {
			if !IsRepoFunc(h) || funcPkg(h) != funcPkg(e.fn) {
				return false
			}
			if cp.reach[h] {
				return true
			}
			// a helper that is handed the journal's answer ("committed(ok)"), or the journal action itself as a
			// function literal ("finish(func() bool { return CommitWait(wait) }, ...)")
			for _, a := range call.Call.Args {
				if in, ok := px.Root(st, a).(ssa.Instruction); ok && isDur(in) {
					return true
				}
				switch av := a.(type) {
				case *ssa.MakeClosure:
					if lf, ok := av.Fn.(*ssa.Function); ok && cp.reach[lf] {
						return true
					}
				case *ssa.Function:
					if cp.reach[av] {
						return true
					}
				case *ssa.Parameter:
					if px.Cur != nil {
						if pc, bound := px.Cur.fargs[av]; bound && cp.reach[pc.fn] {
							return true
						}
					}
				}
			}
			return false
		}
		where := func(in ssa.Instruction) string { return P.Pos(in.Pos()) }
		px.OnCall = func(st *PXState, call ssa.CallInstruction) {
			in := ssa.Instruction(call)
			cp.visited[in.Parent()] = true
			// a call that is walked into is judged by what happens inside, not by its summary
			if cv, ok := call.(*ssa.Call); ok && !isDur(in) {
				if f, _ := closureCallee(cv); f != nil && f.Synthetic == "" {
					return
				}
				if pm, isP := cv.Call.Value.(*ssa.Parameter); isP && px.Cur != nil {
					if _, bound := px.Cur.fargs[pm]; bound {
						return
					}
				}
				if h := cv.Call.StaticCallee(); h != nil && h.Blocks != nil && !isDur(in) {
					if px.Follow(st, cv, h) || (px.FollowHelpers && isPrivateHelper(h)) {
						return
					}
				}
			}
			if pre.Instr(in) {
				st.Flags["pre"] = true
			}
			if isDur(in) {
				cp.durSeen[in] = true
				e.reachedDur = true
				if !st.Flags["pre"] && e.preBad == "" {
					e.preBad = where(in)
				}
				if (st.Flags["rel"] || st.Flags["post"]) && e.relBad == "" {
					e.relBad = where(in)
				}
				st.Flags["dur"] = true
				st.Flags[fmt.Sprintf("dc:%d", durIdx[in])] = true
				if staticCallee(in) == V.JrnlCommitWait {
					v := px.Eval(px.Cur, st, argN(in, 0))
					switch {
					case v.known && v.k != 0, v.nz:
						e.wait["true"] = true
					case v.known:
						e.wait["false"] = true
					default:
						e.wait["?"] = true
					}
				}
			}
			if flush != nil && flush(in) {
				st.Flags["flush"] = true
			}
			if inv(in) {
				st.Flags["inv"] = true
			}
			if rel.Instr(in) {
				if !st.Flags["inv"] {
					st.Flags["relNoInv"] = true
				}
				st.Flags["rel"] = true
			}
			if post.Instr(in) {
				st.Flags["post"] = true
			}
			if callTo(V.PostAbort)(in) || pa.Instr(in) {
				st.Flags["pa"] = true
				if callTo(V.PostAbort)(in) {
					// behind a refused commit only?
					okHere := false
					for i, d := range cp.durCalls {
						if st.Flags[fmt.Sprintf("dc:%d", i)] && staticCallee(d) == V.JrnlCommitWait && outcome(st, d) == "refused" {
							okHere = true
						}
					}
					if prev, met := cp.paSites[in]; met {
						cp.paSites[in] = prev && okHere
					} else {
						cp.paSites[in] = okHere
					}
				}
			}
		}
		px.OnReturn = func(st *PXState, fr *pxFrame, r *ssa.Return) {
			at := where(r)
			if !st.Flags["dur"] {
				e.noDurPath = true
				return
			}
			if !st.Flags["flush"] {
				e.noFlushPath = true
			}
			if !st.Flags["post"] && !st.Flags["pa"] && e.noEpilogue == "" {
				e.noEpilogue = at
			}
			mayCommit := false
			for i, d := range cp.durCalls {
				if !st.Flags[fmt.Sprintf("dc:%d", i)] {
					continue
				}
				if staticCallee(d) != V.JrnlCommitWait {
					mayCommit = true // a flush: nothing to refuse
					continue
				}
				rf := cp.refused[d]
				rf.seen = true
				oc := outcome(st, d)
				if oc != "refused" {
					mayCommit = true
				}
				if oc == "ok" {
					continue
				}
				// the journal may have refused: the transaction is undone like an abort
				note := func(dst *string, bad bool) {
					if bad && *dst == "" {
						*dst = fmt.Sprintf("path from %s returning at %s", FuncName(e.fn), at)
						if oc == "?" {
							*dst += " never tests the journal's answer"
						}
					}
				}
				note(&rf.drops, !st.Flags["inv"])
				note(&rf.undo, !st.Flags["pa"])
				note(&rf.pub, st.Flags["post"])
				note(&rf.order, st.Flags["relNoInv"])
			}
			if mayCommit && !st.Flags["post"] && e.postBad == "" {
				e.postBad = at
			}
		}
		px.Run(e.fn)
		cp.visited[e.fn] = true
		e.exceeded = px.Exceeded
	}
	// what was explored, for the evidence
	var ents []map[string]interface{}
	for _, e := range cp.entries {
		var ws []string
		for w := range e.wait {
			ws = append(ws, w)
		}
		sort.Strings(ws)
		ents = append(ents, map[string]interface{}{"terminator": FuncName(e.fn), "reaches_durability": e.reachedDur, "commitwait_flag_values": ws, "path_budget_exceeded": e.exceeded})
	}
	var walked []string
	for f := range cp.visited {
		walked = append(walked, FuncName(f))
	}
	sort.Strings(walked)
	c.R.Extra["commit_protocol"] = map[string]interface{}{"terminators": ents, "durability_call_sites": len(cp.durCalls), "functions_walked": walked}
	return cp
}
