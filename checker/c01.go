package main

import (
	"fmt"
	"go/token"
	"go/types"
	"sort"
	"strings"

	"golang.org/x/tools/go/ssa"
)

func init() {
	props["C01"] = func(c *Ctx) {
		c.R.Expl = "Structural necessary conditions of crash atomicity/durability given a correct journal: (R1) every success reply of a state-holding handler is preceded by a synchronous commit whose result steers the status; (R2) one commit funnel that writes the bitmaps (PreCommit) before the durability point; (R3) allocation bookkeeping complete and of the right polarity; (R4) no raw disk access behind the journal after recovery; (R5) format order; (R6) multi-transaction frees persist their progress in the freeing transaction."
		c.R.NotDec = "the WAL protocol (dependency), equality of the recovered state with a prefix, behaviour at particular crash points."
		ruleR2(c, "C01.R2")
		ruleR3(c, "C01.R3")
		ruleR4(c, "C01.R4")
		ruleR5(c, "C01.R5")
		ruleR6(c, "C01.R6")
		ruleR1(c, "C01.R1")
		ruleW1(c, "C01.R7")
		ruleU2(c, "C01.R8")
		ruleU1(c, "C01.R9")
		ruleDiskWrapper(c, "C01.R10")
		ruleNullBlock(c, "C01.R11")
		ruleBlindBlock(c, "C01.R12")
		ruleShrinkReserve(c, "C01.R13")
		ruleShortWrite(c, "C01.R14")
		ruleK5(c, "C01.R15")
		ruleOkResults(c, "C01.R16")
		// an operation is one transaction: a crash between two commits of one request shows it in part
		ruleT10(c, "C01.R19")
		ruleObjGranularity(c, "C01.R20")
		ruleNullSource(c, "C01.R17")
		ruleRefused(c, "C01.R18")
	}
}

func inServerPkg(fn *ssa.Function) bool {
	r := relPkg(fn)
	for _, p := range serverPkgs {
		if p == r {
			return true
		}
	}
	return false
}

// ---------------------------------------------------------------- R2

// ruleR2: single commit funnel; PreCommit before and PostCommit after the
// durability point.
func ruleR2(c *Ctx, id string) {
	V, P, R := c.V, c.P, c.R
	R.Rule(id, "the journal's durability points are reached only through the commit terminators of fstxn; on every path of each of them the allocator bitmaps are written (PreCommit) before the durability point, PostCommit runs after it unless the journal refused the commit, and no lock is released or free published before it; Commit/CommitData wait for stable storage, CommitUnstable does not", 12)
	dur := funcIs(V.JrnlCommitWait, V.LogFlush, V.LogCommitWait)
	cp := commitProtocol(c)
	home := funcPkg(V.Commit)
	for _, fn := range P.RepoFuncs() {
		rp := relPkg(fn)
		if strings.HasPrefix(rp, "cmd/") {
			continue
		}
		R.Analysed[FuncName(fn)] = true
		for _, call := range P.CallsIn(fn, dur) {
			cal := P.Callees(call)[0]
			if sc := staticCallee(call); sc != nil {
				cal = sc // (the method behind a method value)
			}
			key := fmt.Sprintf("%s|calls %s", FuncName(fn), FuncName(cal))
			if inServerPkg(fn) {
				okFn := funcPkg(fn) == home && cp.durSeen[call]
				R.Check(okFn, id, key, P.Pos(call.Pos()), "durability point called only from the commit funnel (a function of fstxn reached from its commit terminators)", "inside the funnel", "a commit outside fstxn's terminators bypasses PreCommit: pointers would be committed without their bitmap bits")
			} else {
				R.Pass(id, key, P.Pos(call.Pos()), "durability call site outside the full server", "owned by C17/C18 (simple, kvs)")
			}
		}
	}
	for _, e := range cp.entries {
		f := e.fn
		if e.exceeded {
			R.Undecided(id, FuncName(f)+"|paths", P.Pos(f.Pos()), "every path of the terminator is explored", "path budget exceeded")
			continue
		}
		if !e.reachedDur {
			R.Fail(id, FuncName(f)+"|durability", P.Pos(f.Pos()), "the terminator reaches a durability point", "no path of it reaches CommitWait/Flush")
			continue
		}
		R.Check(e.preBad == "", id, FuncName(f)+"|PreCommit before durability", P.Pos(f.Pos()), "AllocTxn.PreCommit (bitmap bits) on every path before the durability point", "holds on every explored path", "a path reaches the durability point at "+e.preBad+" without PreCommit: allocated blocks/inodes are committed without their bitmap bits")
		R.Check(e.postBad == "", id, FuncName(f)+"|PostCommit after durability", P.Pos(f.Pos()), "AllocTxn.PostCommit on every path after the durability point (unless the journal refused the commit)", "holds on every explored path", "the path returning at "+e.postBad+" may have committed and runs no PostCommit: freed numbers never return to the in-memory allocator")
		R.Check(e.relBad == "", id, FuncName(f)+"|release after durability", P.Pos(f.Pos()), "locks are released and frees published only after the durability point", "no release/PostCommit precedes it on any explored path", "locks released or frees published before the commit point at "+e.relBad)
	}
	// the wait flag: Commit/CommitData reach jrnl.CommitWait with true, CommitUnstable with false, on every path
	want := map[*ssa.Function]bool{V.Commit: true, V.CommitData: true, V.CommitUnstable: false}
	for f, w := range want {
		if f == nil {
			continue
		}
		e := cp.byFn[f]
		ok := e != nil && !e.exceeded && !e.noDurPath && len(e.wait) == 1 && e.wait[fmt.Sprint(w)]
		found := "not a commit terminator"
		if e != nil {
			var vs []string
			for v := range e.wait {
				vs = append(vs, v)
			}
			sort.Strings(vs)
			found = fmt.Sprintf("wait values %v, path without commit=%v", vs, e.noDurPath)
		}
		R.Check(ok, id, FuncName(f)+"|wait constant", P.Pos(f.Pos()), fmt.Sprintf("%s reaches jrnl.CommitWait with wait=%v on every path", FuncName(f), w), "constant on every explored path", fmt.Sprintf("expected wait=%v, found %s", w, found))
	}
}

// ---------------------------------------------------------------- R3

func ruleR3(c *Ctx, id string) {
	V, P, R := c.V, c.P, c.R
	R.Rule(id, "allocation bookkeeping: AllocNum only in AllocINum/AllocBlock with the result recorded unless null; the four lists have fixed writers; PreCommit writes all four lists with the matching bitmap and polarity; FreeNum only in PostCommit (free lists) and PostAbort (alloc lists)", 28)
	lists := map[string]*ssa.Function{"allocInums": V.AllocINum, "allocBnums": V.AllocBlock, "freeInums": V.FreeINum, "freeBnums": V.FreeBlock}
	allocBegin := P.Func("alloctxn.Begin")
	// (a) who may call AllocNum / FreeNum
	for _, fn := range P.RepoFuncs() {
		if strings.HasPrefix(relPkg(fn), "cmd/") {
			continue
		}
		for _, call := range P.CallsIn(fn, funcIs(V.AllocNum)) {
			ok := fn == V.AllocINum || fn == V.AllocBlock
			R.Check(ok, id, FuncName(fn)+"|calls AllocNum", P.Pos(call.Pos()), "alloc.AllocNum is called only by AllocINum/AllocBlock (which record the number)", "recording wrapper", "an allocation that is not recorded in the transaction is never written to the bitmap nor returned on abort")
		}
		for _, call := range P.CallsIn(fn, funcIs(V.FreeNum)) {
			ok := actsFor(P, fn, funcIs(V.PostCommit, V.PostAbort), 0)
			R.Check(ok, id, FuncName(ownerOf(fn))+"|calls FreeNum", P.Pos(call.Pos()), "alloc.FreeNum is called only by PostCommit/PostAbort", "commit/abort epilogue", "a number returned to the in-memory allocator before its transaction commits can be reused while the old owner is still on disk")
		}
	}
	// (b) result recorded on every non-null path
	for _, pr := range []struct {
		f    *ssa.Function
		list string
	}{{V.AllocINum, "allocInums"}, {V.AllocBlock, "allocBnums"}} {
		if pr.f == nil {
			continue
		}
		for _, call := range P.CallsIn(pr.f, funcIs(V.AllocNum)) {
			cv := call.(*ssa.Call)
			cl := fwdClosure([]ssa.Value{cv}, false)
			isRec := func(in ssa.Instruction) bool {
				st, ok := in.(*ssa.Store)
				if !ok {
					return false
				}
				n, f, _ := FieldOf(st.Addr)
				return n == V.AllocTxn && f == pr.list && cl[st.Val]
			}
			ok := MustAfterE(pr.f, isRec, nil, cmpZeroEdge(pr.f, cl))(call)
			R.Check(ok, id, FuncName(pr.f)+"|records result in "+pr.list, P.Pos(call.Pos()), "every path on which the allocator returned a non-null number appends it to "+pr.list, "append of the result on all non-null paths", "a path returns an allocated number without recording it: its bitmap bit is never written (crash: block owned by a file but free on disk) and it is not returned on abort")
			// the recorded value must also be what is returned
			retOK := true
			for _, b := range pr.f.Blocks {
				if r, ok := b.Instrs[len(b.Instrs)-1].(*ssa.Return); ok {
					for _, res := range r.Results {
						if _, isC := res.(*ssa.Const); isC {
							continue
						}
						if !cl[res] {
							retOK = false
						}
					}
				}
			}
			R.Check(retOK, id, FuncName(pr.f)+"|returns the recorded number", P.Pos(call.Pos()), "the number returned is the one recorded", "same value", "returned number differs from the recorded one")
		}
	}
	// (c) writers of the four lists
	for _, fn := range P.RepoFuncs() {
		for _, w := range FieldWrites(fn) {
			if w.Type != V.AllocTxn {
				continue
			}
			owner, isList := lists[w.Field]
			if !isList {
				continue
			}
			ok := fn == owner || fn == allocBegin
			R.Check(ok, id, FuncName(fn)+"|writes "+w.Field, P.Pos(w.Instr.Pos()), "list "+w.Field+" is written only by its recording function (and initialised by Begin)", "owner", "a foreign writer can drop or forge bookkeeping entries")
			if fn == owner {
				// must be an append that keeps the old contents
				app := false
				if call, ok := w.Val.(*ssa.Call); ok {
					if bi, ok := call.Call.Value.(*ssa.Builtin); ok && bi.Name() == "append" {
						if n, f, _, _ := loadedField(call.Call.Args[0]); n == V.AllocTxn && f == w.Field {
							app = true
						}
					}
				}
				R.Check(app, id, FuncName(fn)+"|appends to "+w.Field, P.Pos(w.Instr.Pos()), "the store is list = append(list, x)", "append to the same list", "the store does not extend the same list: earlier entries are lost")
			}
		}
	}
	// FreeINum / FreeBlock must record on every (non-null) path
	if V.FreeINum != nil {
		isRec := func(in ssa.Instruction) bool {
			st, ok := in.(*ssa.Store)
			if !ok {
				return false
			}
			n, f, _ := FieldOf(st.Addr)
			return n == V.AllocTxn && f == "freeInums"
		}
		ok := MustAfter(V.FreeINum, isRec, nil)(V.FreeINum.Blocks[0].Instrs[0]) || isRec(V.FreeINum.Blocks[0].Instrs[0])
		R.Check(ok, id, "alloctxn.(*AllocTxn).FreeINum|records on every path", P.Pos(V.FreeINum.Pos()), "FreeINum appends its argument to freeInums on every path", "must-follow", "a freed inode number is not recorded on some path: its bit stays set for ever")
	}
	// (d) PreCommit: four WriteBits with matching bitmap start and polarity
	if V.PreCommit != nil && V.OverWrite != nil {
		wantStart := map[string]string{"allocInums": "BitmapInodeStart", "freeInums": "BitmapInodeStart", "allocBnums": "BitmapBlockStart", "freeBnums": "BitmapBlockStart"}
		wantPol := map[string]bool{"allocInums": true, "allocBnums": true, "freeInums": false, "freeBnums": false}
		seen := map[string]int{}
		pcw, _ := preCommitWrites(c)
		for _, w := range pcw {
			sc, call, f := w.sc, w.call, w.list
			if w.typ != V.AllocTxn {
				R.Fail(id, "alloctxn.(*AllocTxn).PreCommit|WriteBits arg", P.Pos(call.Pos()), "WriteBits is given one of the four lists", "first argument is not a load of an AllocTxn list")
				continue
			}
			seen[f]++
			start, pol, polOK := w.start, w.pol, w.polOK
			ok := start == wantStart[f] && polOK && pol == wantPol[f]
			// executed on every path of PreCommit: in its own body, and the helper call in PreCommit's
			thisCall := ssa.Instruction(call)
			always := MustAfter(sc.Fn, func(in ssa.Instruction) bool { return in == thisCall }, nil)(sc.Fn.Blocks[0].Instrs[0])
			if sc.Via != nil {
				via := ssa.Instruction(sc.Via)
				vf := sc.Via.Parent()
				always = always && MustAfter(vf, func(in ssa.Instruction) bool { return in == via }, nil)(vf.Blocks[0].Instrs[0])
			}
			R.Check(ok && always, id, "alloctxn.(*AllocTxn).PreCommit|WriteBits("+f+")", P.Pos(call.Pos()), fmt.Sprintf("list %s is written to the bitmap at %s with polarity %v on every path", f, wantStart[f], wantPol[f]), "bitmap, polarity and all-paths agree", fmt.Sprintf("found start=%s polarity=%v(const=%v) on-all-paths=%v", start, pol, polOK, always))
		}
		for f := range wantStart {
			if seen[f] != 1 {
				R.Fail(id, "alloctxn.(*AllocTxn).PreCommit|WriteBits("+f+") count", P.Pos(V.PreCommit.Pos()), "each list is written by exactly one WriteBits call", fmt.Sprintf("list %s is written %d times", f, seen[f]))
			}
		}
		rulePreCommitOrder(c, id)
		ruleWriteBits(c, id)
	}
	// (e) PostCommit frees the free lists, PostAbort the alloc lists, on the right allocator
	type exp struct{ list, alloc string }
	for f, exps := range map[*ssa.Function][]exp{
		V.PostCommit: {{"freeInums", "Ialloc"}, {"freeBnums", "Balloc"}},
		V.PostAbort:  {{"allocInums", "Ialloc"}, {"allocBnums", "Balloc"}},
	} {
		if f == nil {
			continue
		}
		got := map[exp]bool{}
		for _, sc := range scopesOf(f) {
			for _, call := range P.CallsIn(sc.Fn, funcIs(V.FreeNum)) {
				_, af, _, _ := loadedFieldS(recvOf(call), sc.S)
				_, lf, _, elem := loadedFieldS(argN(call, 0), sc.S)
				e := exp{lf, af}
				okPair := false
				for _, w := range exps {
					if w == e && elem {
						okPair = true
					}
				}
				got[e] = true
				R.Check(okPair, id, fmt.Sprintf("%s|FreeNum(%s<-%s)", FuncName(f), af, lf), P.Pos(call.Pos()), "FreeNum is applied to elements of the matching list on the matching allocator", "matches the table", "wrong list or allocator: numbers are returned to the wrong pool or at the wrong event")
			}
		}
		for _, w := range exps {
			if !got[w] {
				R.Fail(id, fmt.Sprintf("%s|FreeNum(%s<-%s) present", FuncName(f), w.alloc, w.list), P.Pos(f.Pos()), "every element of "+w.list+" is returned to "+w.alloc, "no such FreeNum loop")
			}
		}
	}
}

// ---------------------------------------------------------------- R4

func isDiskIface(t types.Type) bool {
	n, ok := types.Unalias(t).(*types.Named)
	if !ok || n.Obj().Pkg() == nil {
		return false
	}
	if n.Obj().Name() != "Disk" {
		return false
	}
	_, isI := n.Underlying().(*types.Interface)
	return isI && strings.HasSuffix(n.Obj().Pkg().Path(), "/disk")
}

// rawDiskOp: in is a call of a disk.Disk method, or of buf.WriteDirect.
func rawDiskOp(in ssa.Instruction) (string, bool) {
	c := callCommon(in)
	if c == nil {
		return "", false
	}
	if c.IsInvoke() && isDiskIface(c.Value.Type()) {
		switch c.Method.Name() {
		case "Read", "ReadTo":
			return "read", true
		case "Write":
			return "write", true
		case "Barrier":
			return "barrier", true
		}
		return "", false
	}
	if f := c.StaticCallee(); f != nil && f.Name() == "WriteDirect" && strings.HasSuffix(funcPkg(f).Path(), "/buf") {
		return "write", true
	}
	return "", false
}

func ruleR4(c *Ctx, id string) {
	V, P, R := c.V, c.P, c.R
	R.Rule(id, "nothing reads or writes the disk behind the journal: raw disk.Disk accesses in go-nfsd occur only in constructors, writes only on the format path (guarded by 'root inode absent'), reads only before the log is recovered", 3)
	// raw sites
	type site struct {
		fn   *ssa.Function
		in   ssa.Instruction
		kind string
	}
	var sites []site
	rawFns := map[*ssa.Function]map[string]bool{}
	for _, fn := range P.RepoFuncs() {
		rp := relPkg(fn)
		if strings.HasPrefix(rp, "cmd/") || rp == "util/timed_disk" {
			continue
		}
		for _, b := range fn.Blocks {
			for _, in := range b.Instrs {
				if k, ok := rawDiskOp(in); ok && k != "barrier" {
					sites = append(sites, site{fn, in, k})
					if rawFns[fn] == nil {
						rawFns[fn] = map[string]bool{}
					}
					rawFns[fn][k] = true
				}
			}
		}
	}
	// functions reachable from request handlers / background goroutines
	var roots []*ssa.Function
	roots = append(roots, V.NfsEntries...)
	roots = append(roots, V.SimpleEntries...)
	roots = append(roots, goRoots(P)...)
	for _, m := range kvsAPI(P) {
		roots = append(roots, m)
	}
	serving := P.Reach(roots, func(f *ssa.Function) bool { return !IsRepoFunc(f) })
	// constructors: functions calling obj.MkLog
	// (directly, or through a helper that always does)
	mkAlways := P.NewAlways(callTo(V.MkLog))
	mkInstrs := func(fn *ssa.Function) []ssa.Instruction {
		var out []ssa.Instruction
		for _, b := range fn.Blocks {
			for _, in := range b.Instrs {
				if _, ok := in.(*ssa.Call); ok && mkAlways.Instr(in) {
					out = append(out, in)
				}
			}
		}
		return out
	}
	var ctors []*ssa.Function
	for _, fn := range P.RepoFuncs() {
		if strings.HasPrefix(relPkg(fn), "cmd/") {
			continue
		}
		if len(mkInstrs(fn)) > 0 {
			ctors = append(ctors, fn)
		}
	}
	R.Extra["constructors"] = names(ctors)
	for _, s := range sites {
		key := fmt.Sprintf("%s|raw %s", FuncName(s.fn), s.kind)
		if serving[s.fn] {
			R.Fail(id, key+"|serving", P.Pos(s.in.Pos()), "no raw disk access is reachable from a handler or background goroutine", "reachable from the serving path: it bypasses the log (reads miss committed data, writes are not atomic)")
			continue
		}
		// every constructor call chain to this site
		decided := false
		for _, k := range ctors {
			mk := mkInstrs(k)
			for _, b := range k.Blocks {
				for _, in := range b.Instrs {
					if _, ok := in.(*ssa.Call); !ok {
						continue
					}
					reaches := false
					if in == s.in {
						reaches = true
					}
					for _, cal := range P.Callees(in) {
						if cal == s.fn || P.Reach([]*ssa.Function{cal}, func(f *ssa.Function) bool { return !IsRepoFunc(f) })[s.fn] {
							reaches = true
						}
					}
					if !reaches {
						continue
					}
					decided = true
					after := false
					for _, m := range mk {
						if reachableFrom(m, in) {
							after = true
						}
					}
					ck := fmt.Sprintf("%s|raw %s|via %s", FuncName(s.fn), s.kind, FuncName(k))
					if !after {
						R.PassNT(id, ck, P.Pos(in.Pos()), "raw access in a constructor before obj.MkLog", "no path from MkLog to this call")
						continue
					}
					if s.kind == "write" {
						R.Check(onFormatBranch(c, in), id, ck, P.Pos(in.Pos()), "raw write after recovery only on the branch guarded by 'root inode Kind == 0' (fresh disk)", "dominated by the Kind==0 branch", "raw write after recovery outside the format branch: it bypasses the log")
					} else {
						R.Fail(id, ck, P.Pos(in.Pos()), "file-system state is read through the log (obj.Log.Load / ReadBuf) once obj.MkLog has recovered it", "raw disk read after obj.MkLog: committed but not yet installed transactions are invisible to this read")
					}
				}
			}
		}
		if !decided {
			// unreachable from constructors and from serving: helper (e.g. tests, tools)
			callers := P.CallersOf(s.fn)
			R.Check(len(callers) == 0, id, key+"|unclassified", P.Pos(s.in.Pos()), "every raw access is classified by a constructor path", "dead code: no callers", "raw access reached from a function that is neither a constructor nor the serving path")
		}
	}
}

func names(fs []*ssa.Function) []string {
	var out []string
	for _, f := range fs {
		out = append(out, FuncName(f))
	}
	return out
}

// onFormatBranch: the instruction is dominated by the true edge of a test
// "<inode>.Kind == 0".
func onFormatBranch(c *Ctx, in ssa.Instruction) bool {
	fn := in.Parent()
	for _, b := range fn.Blocks {
		ifi, ok := b.Instrs[len(b.Instrs)-1].(*ssa.If)
		if !ok {
			continue
		}
		isFresh := func(v ssa.Value) bool {
			bo, ok := v.(*ssa.BinOp)
			if !ok || bo.Op != token.EQL {
				return false
			}
			n, f, _, _ := loadedField(bo.X)
			z, isz := constInt(bo.Y)
			return n == c.V.Inode && f == "Kind" && isz && z == 0
		}
		okCond := isFresh(ifi.Cond)
		if !okCond {
			// the test made by a helper and handed back as one of its results
			cv := stripConv(ifi.Cond)
			idx := 0
			var hc *ssa.Call
			if ex, isE := cv.(*ssa.Extract); isE {
				hc, _ = ex.Tuple.(*ssa.Call)
				idx = ex.Index
			} else {
				hc, _ = cv.(*ssa.Call)
			}
			if hc != nil && staticCallee(hc) != nil && IsRepoFunc(staticCallee(hc)) && staticCallee(hc).Blocks != nil {
				h := staticCallee(hc)
				n, all := 0, true
				for _, hb := range h.Blocks {
					if r, isR := hb.Instrs[len(hb.Instrs)-1].(*ssa.Return); isR {
						n++
						if idx >= len(r.Results) || !isFresh(stripConv(r.Results[idx])) {
							all = false
						}
					}
				}
				okCond = all && n > 0
			}
		}
		if !okCond {
			continue
		}
		t := b.Succs[0]
		if len(t.Preds) == 1 && t.Dominates(in.Block()) {
			return true
		}
	}
	return false
}

// goRoots: functions started by go statements inside go-nfsd server packages.
func goRoots(P *Program) []*ssa.Function {
	var out []*ssa.Function
	V := resolveVocabCached(P)
	var roots []*ssa.Function
	roots = append(roots, V.NfsEntries...)
	roots = append(roots, V.SimpleEntries...)
	for _, s := range []string{"nfs.MakeNfs", "simple.MakeNfs", "simple.Recover", "simple.Mkfs", "kvs.MkKVS"} {
		if f := P.Func(s); f != nil {
			roots = append(roots, f)
		}
	}
	server := P.Reach(roots, func(f *ssa.Function) bool { return !IsRepoFunc(f) })
	for _, fn := range P.RepoFuncs() {
		rp := relPkg(fn)
		if strings.HasPrefix(rp, "cmd/") || !server[fn] {
			continue
		}
		for _, b := range fn.Blocks {
			for _, in := range b.Instrs {
				if g, ok := in.(*ssa.Go); ok {
					out = append(out, P.Callees(g)...)
				}
			}
		}
	}
	return out
}

func kvsAPI(P *Program) []*ssa.Function {
	var out []*ssa.Function
	n := P.Named("kvs", "KVS")
	if n == nil {
		return nil
	}
	ms := P.Prog.MethodSets.MethodSet(types.NewPointer(n))
	for i := 0; i < ms.Len(); i++ {
		if f := P.Prog.MethodValue(ms.At(i)); f != nil && f.Object() != nil && f.Object().Exported() {
			out = append(out, f)
		}
	}
	return out
}

// ---------------------------------------------------------------- R6

func ruleR6(c *Ctx, id string) {
	V, P, R := c.V, c.P, c.R
	R.Rule(id, "large frees are self-contained transactions: each DoShrink iteration begins its own transaction, shrinks and commits it; Inode.Shrink persists its progress marker (WriteInode) on every path", 4)
	do := c.fn(id, "shrinker.(*ShrinkerSt).DoShrink")
	if do == nil || V.Shrink == nil {
		return
	}
	R.Analysed[FuncName(do)] = true
	// the loop body may live in a private helper called from DoShrink: look in every scope
	type site struct {
		sc Scope
		s  ssa.Instruction
	}
	var shr []site
	for _, sc := range scopesOf(do) {
		for _, s := range P.CallsIn(sc.Fn, funcIs(V.Shrink)) {
			shr = append(shr, site{sc, s})
		}
	}
	if len(shr) == 0 {
		R.Fail(id, "shrinker.DoShrink|Shrink", P.Pos(do.Pos()), "DoShrink calls Inode.Shrink", "no call found")
	}
	// the instruction of DoShrink itself through which the site executes
	outer := func(st site) ssa.Instruction {
		sc := st.sc
		in := st.s
		for sc.Via != nil && sc.Fn != do {
			in = sc.Via
			found := false
			for _, o := range scopesOf(do) {
				if o.Fn == sc.Via.Parent() {
					sc, found = o, true
					break
				}
			}
			if !found {
				break
			}
		}
		return in
	}
	for _, st := range shr {
		g, s := st.sc.Fn, st.s
		begins := P.CallsIn(g, funcIs(V.Begin))
		mb := MustBefore(g, callTo(V.Begin))
		inLoop := reachableFrom(s, s)
		okBegin := mb(s) && len(begins) > 0 && (!inLoop || sameLoop(begins[0], s))
		R.Check(okBegin, id, "shrinker.DoShrink|Begin per iteration", P.Pos(s.Pos()), "each Shrink runs in a transaction begun in the same loop iteration", "Begin precedes Shrink inside the loop body", "Shrink does not run in its own fresh transaction")
		commit := P.NewAlways(callTo(V.Commit))
		okCommit := MustAfter(g, commit.Instr, nil)(s)
		if !okCommit && g != do {
			okCommit = MustAfter(do, commit.Instr, nil)(outer(st))
		}
		R.Check(okCommit, id, "shrinker.DoShrink|Commit after Shrink", P.Pos(s.Pos()), "every path after Shrink commits synchronously before the next iteration or return", "must-follow", "a shrink step is not committed on some path")
		// the transaction passed to Shrink is the one begun
		okTxn := false
		if len(begins) > 0 {
			cl := fwdClosure([]ssa.Value{begins[0].(*ssa.Call)}, true)
			okTxn = cl[argN(s, 0)]
		}
		R.Check(okTxn, id, "shrinker.DoShrink|Shrink uses the begun txn", P.Pos(s.Pos()), "Shrink is given the allocation transaction of the FsTxn begun in this iteration", "value flow", "Shrink runs on a different transaction than the one committed")
	}
	// the loop runs until Shrink reports that nothing is left (or the commit failed / the shrinker was told to stop)
	for _, st := range shr {
		scv := st.s.(*ssa.Call)
		at := outer(st)
		// carries: v is Shrink's result, directly or as the i-th result of the helper that returns it
		carries := func(v ssa.Value) bool {
			if v == ssa.Value(scv) {
				return true
			}
			ex, ok := v.(*ssa.Extract)
			var hc *ssa.Call
			idx := 0
			if ok {
				hc, _ = ex.Tuple.(*ssa.Call)
				idx = ex.Index
			} else {
				hc, _ = v.(*ssa.Call)
			}
			if hc == nil || staticCallee(hc) != st.sc.Fn || st.sc.Fn == do {
				return false
			}
			n := 0
			for _, b := range st.sc.Fn.Blocks {
				if r, ok := b.Instrs[len(b.Instrs)-1].(*ssa.Return); ok {
					if idx >= len(r.Results) || stripConv(r.Results[idx]) != ssa.Value(scv) {
						return false
					}
					n++
				}
			}
			return n > 0
		}
		okLoop := false
		loopIn := func(fn *ssa.Function, at ssa.Instruction, carries func(ssa.Value) bool) {
			for _, br := range branches(fn) {
				if br.Cond.Op != token.ILLEGAL {
					continue
				}
				var cands []ssa.Value
				if phi, ok := br.Cond.X.(*ssa.Phi); ok {
					cands = phi.Edges
				} else {
					cands = []ssa.Value{br.Cond.X} // the result tested directly ("if !more { return }")
				}
				for _, e := range cands {
					if carries(e) {
						// true side stays in the loop (reaches the Shrink call again)
						if len(br.True.Instrs) > 0 && (reachableFrom(br.True.Instrs[0], at) || br.True == at.Block()) {
							okLoop = true
						}
					}
				}
			}
		}
		loopIn(do, at, carries)
		if !okLoop && st.sc.Fn != do {
			// the whole loop lives in the helper
			loopIn(st.sc.Fn, st.s, func(v ssa.Value) bool { return v == ssa.Value(scv) })
		}
		R.Check(okLoop, id, "shrinker.DoShrink|loops while Shrink reports more", P.Pos(st.s.Pos()), "the loop condition is the result of Inode.Shrink: freeing continues until the inode is no longer shrinking", "loop condition carries Shrink's result", "DoShrink stops although blocks remain to be freed: the rest of a large file is never reclaimed (until the inode number is reused)")
	}
	// Shrink ends with WriteInode on every path
	wi := callTo(V.WriteInode)
	entry := V.Shrink.Blocks[0].Instrs[0]
	R.Check(MustAfter(V.Shrink, wi, nil)(entry), id, "inode.(*Inode).Shrink|WriteInode on every path", P.Pos(V.Shrink.Pos()), "the progress marker ShrinkSize is written through in the same transaction as the frees", "WriteInode on every path to return", "a path returns from Shrink without WriteInode: after a crash the freed blocks are freed again (double free) or leaked")
	// and no FreeBlock after the last WriteInode
	late := false
	for _, w := range P.CallsIn(V.Shrink, funcIs(V.WriteInode)) {
		for _, b := range V.Shrink.Blocks {
			for _, in := range b.Instrs {
				if st, ok := in.(*ssa.Store); ok {
					if n, f, _ := FieldOf(st.Addr); n == V.Inode && f == "ShrinkSize" && reachableFrom(w, in) && !MustAfter(V.Shrink, wi, nil)(in) {
						late = true
					}
				}
			}
		}
	}
	R.Check(!late, id, "inode.(*Inode).Shrink|no progress after write-through", P.Pos(V.Shrink.Pos()), "no ShrinkSize update after the last WriteInode", "none", "ShrinkSize changes after it was written through")
}

func sameLoop(a, b ssa.Instruction) bool {
	// both in a cycle together: b reachable from a and a reachable from b
	return reachableFrom(a, b) && reachableFrom(b, a)
}

// funnelBody: the function that holds the durability call of funnel f: f
// itself, or the private helper / closure of f that the body was moved into.
func funnelBody(c *Ctx, f *ssa.Function, dur func(*ssa.Function) bool) Scope {
	if f == nil {
		return Scope{}
	}
	for _, sc := range scopesOf(f) {
		if len(c.P.CallsIn(sc.Fn, dur)) > 0 {
			return sc
		}
	}
	return Scope{Fn: f, S: Subst{}}
}

// topInstr: the statement of the owner function (first scope) in whose execution
// instruction in of scope sc runs: in itself, or the call of the helper chain.
func topInstr(scopes []Scope, sc Scope, in ssa.Instruction) ssa.Instruction {
	for i := 0; i < 4; i++ {
		if sc.Via == nil {
			return in
		}
		in = sc.Via
		found := false
		for _, s2 := range scopes {
			if s2.Fn == sc.Via.Parent() {
				sc, found = s2, true
				break
			}
		}
		if !found {
			return in
		}
	}
	return in
}

// rulePreCommitOrder: a number allocated and given back by the same
// transaction (indbmap returns an index block it could not use; an inode
// allocated and then freed by a failing create) is on both lists: the freed bit
// must be the last one written.
func rulePreCommitOrder(c *Ctx, id string) {
	V, P, R := c.V, c.P, c.R
	if V.PreCommit == nil || V.OverWrite == nil {
		return
	}
	at := map[string]ssa.Instruction{} // list -> the statement of PreCommit that writes it
	pcw, pcScopes := preCommitWrites(c)
	for _, w := range pcw {
		if w.list != "" {
			at[w.list] = topInstr(pcScopes, w.sc, w.call)
		}
	}
	// a number allocated and given back by the same transaction (indbmap returns an index block it could not
	// use; an inode allocated and then freed by a failing create) is on both lists: the freed bit must be
	// the last one written
	for _, pr := range [][2]string{{"allocInums", "freeInums"}, {"allocBnums", "freeBnums"}} {
		a, f := at[pr[0]], at[pr[1]]
		if a == nil || f == nil {
			continue // reported above
		}
		key := "alloctxn.(*AllocTxn).PreCommit|" + pr[0] + " written before " + pr[1]
		var ok bool
		if a.Parent() == f.Parent() {
			ok = a != f && MustBefore(a.Parent(), func(in ssa.Instruction) bool { return in == a })(f) && !reachableFrom(f, a)
		} else {
			R.Undecided(id, key, P.Pos(f.Pos()), "the two writes are ordered", "the writes of the two lists are in different helpers that are not statements of one function")
			continue
		}
		R.Check(ok, id, key, P.Pos(f.Pos()), "the bits of "+pr[0]+" are written before the bits of "+pr[1]+": a number on both lists ends up free on disk, as it does in memory", "must-precede, never after", "the allocated bits are written after (or not always before) the freed bits: a number allocated and given back in the same transaction stays set in the on-disk bitmap while the in-memory allocator hands it out again - after a restart it is lost")
	}
}
