package main

import (
	"fmt"
	"go/token"
	"go/types"
	"strings"

	"golang.org/x/tools/go/ssa"
)

func init() {
	props["C15"] = func(c *Ctx) {
		c.R.Expl = "The parts of the disk layout that hold by construction for every disk size: (K1) the region starts form a cumulative chain (each start = previous start + the field that sizes the previous region; data region = [DataStart, MaxBnum) with MaxBnum = the disk size); (K2) layout constants agree (log size, inode table vs. inode bitmap, inode size vs. block size); (K3) mkfs marks exactly the range the run-time assertion accepts, with the same strictness, refuses sizes it cannot format, and reserves the null and root inode; (K4) the block bitmap covers the disk by the x/k+1 form."
		c.R.NotDec = "that the whole data region can be filled through normal operations (allocator and journal behaviour); mkfs markings written in a form other than the two recognised bit loops (reported as undecided)."
		ruleK1(c, "C15.K1")
		ruleK2(c, "C15.K2")
		ruleK3(c, "C15.K3")
		ruleK4(c, "C15.K4")
		ruleK5(c, "C15.K5")
		ruleK6(c, "C15.K6")
		ruleK7(c, "C15.K7")
		ruleNlinkWriters(c, "C15.K8")
		// fully usable: every free block can be had (no refusal while the allocator has numbers)
		ruleAllocRefusal(c, "C15.K9")
		// what an aborted transaction held goes back to the allocator it came from (or the data region cannot be
		// filled again until a restart), and the bitmap bits reach the disk with the object that owns the blocks
		// (a format cut between the two leaves data blocks marked for good)
		ruleR3(c, "C15.K10")
		ruleR2(c, "C15.K11")
	}
}

type bitLoop struct {
	slice ssa.Value // the block being marked
	init  ssa.Value // first bit
	bound ssa.Value // one past the last bit
	store ssa.Instruction
	sub   Subst           // the parameters of the helper that holds the loop, as seen by the analysed function
	at    ssa.Instruction // the instruction of the analysed function through which the loop runs (the store, or the call of the helper that holds the loop)
}

// bitLoops finds loops of the form  for bn := A; bn < B; bn++ { S[bn/8] |= 1 << (bn%8) }.
func bitLoops(top *ssa.Function) []bitLoop {
	var out []bitLoop
	for _, sc := range scopesOf(top) {
		if sc.Via != nil && sc.Via.Parent() != top {
			continue // one level of helper only
		}
		out = append(out, bitLoopsIn(sc)...)
	}
	return out
}

func bitLoopsIn(sc Scope) []bitLoop {
	var out []bitLoop
	fn := sc.Fn
	for _, b := range fn.Blocks {
		for _, in := range b.Instrs {
			st, ok := in.(*ssa.Store)
			if !ok {
				continue
			}
			ia, ok := st.Addr.(*ssa.IndexAddr)
			if !ok {
				continue
			}
			or, ok := st.Val.(*ssa.BinOp)
			if !ok || or.Op != token.OR {
				continue
			}
			// byte index and bit may be computed by a small pure helper ("byte, bit := bitPos(bn)")
			idxV, idxS := viaPure(ia.Index, sc.S)
			q, ok := idxV.(*ssa.BinOp)
			if !ok || q.Op != token.QUO {
				continue
			}
			if k, isk := constInt(q.Y); !isk || k != 8 {
				continue
			}
			// the bit number: the loop variable, possibly handed to a helper / closure as an argument
			phi, ok := idxS.resolve(q.X).(*ssa.Phi)
			if !ok || len(phi.Edges) != 2 {
				continue
			}
			// value = old | 1 << (phi % 8), old = load of the same element
			ld, ok := or.X.(*ssa.UnOp)
			if !ok {
				continue
			}
			ia2, ok := ld.X.(*ssa.IndexAddr)
			if !ok || ia2.X != ia.X || ia2.Index != ia.Index {
				continue
			}
			sh, ok := or.Y.(*ssa.BinOp)
			if !ok || sh.Op != token.SHL {
				continue
			}
			one, is1 := constInt(sh.X)
			remV, remS := viaPure(sh.Y, sc.S)
			rem, ok := remV.(*ssa.BinOp)
			if !ok || !is1 || one != 1 || rem.Op != token.REM || remS.resolve(rem.X) != ssa.Value(phi) {
				continue
			}
			if k, isk := constInt(rem.Y); !isk || k != 8 {
				continue
			}
			// phi = [init, phi+1]
			var init ssa.Value
			inc := false
			for _, e := range phi.Edges {
				if add, ok := e.(*ssa.BinOp); ok && add.Op == token.ADD && add.X == ssa.Value(phi) {
					if k, isk := constInt(add.Y); isk && k == 1 {
						inc = true
						continue
					}
				}
				init = e
			}
			if !inc || init == nil {
				continue
			}
			// bound from the loop head's condition
			var bound ssa.Value
			if ifi, ok := phi.Block().Instrs[len(phi.Block().Instrs)-1].(*ssa.If); ok {
				if cmp, ok := ifi.Cond.(*ssa.BinOp); ok && cmp.Op == token.LSS && cmp.X == ssa.Value(phi) {
					bound = cmp.Y
				}
			}
			if bound == nil {
				// rotated form (for bn := range N): pre-test init < N before the body, bottom test bn+1 < N
				var inc ssa.Value
				for _, e := range phi.Edges {
					if add, ok := e.(*ssa.BinOp); ok && add.Op == token.ADD && add.X == ssa.Value(phi) {
						inc = add
					}
				}
				if ifi, ok := phi.Block().Instrs[len(phi.Block().Instrs)-1].(*ssa.If); ok && inc != nil {
					if cmp, ok := ifi.Cond.(*ssa.BinOp); ok && cmp.Op == token.LSS && cmp.X == inc && phi.Block().Succs[0] == phi.Block() {
						cand := cmp.Y
						pre := false
						for _, br := range branches(phi.Block().Parent()) {
							if br.True != phi.Block() || br.Cond.Op != token.LSS || br.Cond.Y != cand {
								continue
							}
							a, oka := constInt(br.Cond.X)
							b, okb := constInt(init)
							if !oka || !okb || a != b {
								continue
							}
							only := true
							for _, p := range phi.Block().Preds {
								if p != br.Block && p != phi.Block() {
									only = false
								}
							}
							pre = only
						}
						// the body block is entered from the pre-test or from itself only
						if pre {
							bound = cand
						}
					}
				}
			}
			if bound == nil {
				continue
			}
			at := ssa.Instruction(in)
			if sc.Via != nil {
				at = sc.Via
			}
			out = append(out, bitLoop{slice: resultOf(sc.S.resolve(ia.X)), init: sc.S.resolve(init), bound: sc.S.resolve(bound), store: in, sub: sc.S, at: at})
		}
	}
	return out
}

// ruleK6: mkfs marks bits [0, n) of the first bitmap block and bits
// [m % NBITBLOCK, NBITBLOCK) of bitmap block m / NBITBLOCK, and writes those
// two blocks where the bitmap lives.  With the refusal guards of K3 (n <
// NBITBLOCK, n <= m, m < NBlockBitmap * NBITBLOCK) and K4 this marks exactly
// the blocks outside [DataStart, MaxBnum) for every accepted disk size: the
// statement holds by the form of the code, no size is enumerated.
func ruleK6(c *Ctx, id string) {
	P, R := c.P, c.R
	R.Rule(id, "mkfs bit marking by construction: one loop sets bits [0, n) of the block written at BitmapBlockStart(); one loop sets bits [m % NBITBLOCK, NBITBLOCK) of the block written at m / NBITBLOCK + BitmapBlockStart(), which is a fresh block exactly when it is not the first bitmap block", 1)
	mark := c.fn(id, "nfs.markAlloc")
	if mark == nil {
		return
	}
	nbit := constOfPkg(P, jrnlPath+"/common", "NBITBLOCK")
	loops := bitLoops(mark)
	if len(loops) != 2 {
		R.Undecided(id, "nfs.markAlloc|bit loops", P.Pos(mark.Pos()), "the two bit-marking loops have the recognised form (for bn := A; bn < B; bn++ { blk[bn/8] |= 1 << (bn%8) }, in markAlloc or a helper it calls)", fmt.Sprintf("%d loops of that form found: which bits this mkfs marks is not decided (a byte-wise or otherwise rewritten marking has to be re-confirmed by hand and the rule extended)", len(loops)))
		return
	}
	var nP, mP *ssa.Parameter
	if len(mark.Params) == 3 {
		nP, mP = mark.Params[1], mark.Params[2] // markAlloc(super, n, m)
	}
	var l1, l2 *bitLoop
	for i := range loops {
		if k, isk := constInt(loops[i].init); isk && k == 0 {
			l1 = &loops[i]
		} else {
			l2 = &loops[i]
		}
	}
	if l1 == nil || l2 == nil || nP == nil || mP == nil {
		R.Fail(id, "nfs.markAlloc|bit loops", P.Pos(mark.Pos()), "one loop starts at bit 0, the other at m % NBITBLOCK", "the loops do not have these starting points: blocks at the start of the disk or beyond its end are left allocatable")
		return
	}
	ok1 := stripConv(l1.bound) == ssa.Value(nP)
	R.Check(ok1, id, "nfs.markAlloc|head loop marks [0, n)", P.Pos(l1.store.Pos()), "the first loop sets exactly bits 0 .. n-1 (log, bitmaps and inode table)", "bounds 0 and n", "the head of the block bitmap is marked with other bounds than [0, n): a metadata block is left free or a data block is lost")
	okInit := false
	if rem, ok := stripConv(l2.init).(*ssa.BinOp); ok && rem.Op == token.REM && l2.sub.resolve(rem.X) == ssa.Value(mP) {
		if k, isk := constInt(rem.Y); isk && k == nbit {
			okInit = true
		}
	}
	kb, iskb := constInt(l2.bound)
	R.Check(okInit && iskb && kb == nbit, id, "nfs.markAlloc|tail loop marks [m % NBITBLOCK, NBITBLOCK)", P.Pos(l2.store.Pos()), "the second loop sets exactly the bits from the disk size to the end of its bitmap block", "bounds m % NBITBLOCK and NBITBLOCK", "the tail of the block bitmap is marked with other bounds: a block beyond the disk is allocatable, or the last data blocks are lost")
	// where the two blocks are written
	var w1, w2 ssa.Instruction
	for _, b := range mark.Blocks {
		for _, in := range b.Instrs {
			if k, ok := rawDiskOp(in); ok && k == "write" {
				data := resultOf(callCommon(in).Args[1])
				if data == stripConv(l1.slice) {
					w1 = in
				}
				if data == stripConv(l2.slice) {
					w2 = in
				}
			}
		}
	}
	isStart := func(v ssa.Value) bool {
		cl, ok := resultOf(v).(*ssa.Call)
		return ok && staticCallee(cl) != nil && staticCallee(cl).Name() == "BitmapBlockStart"
	}
	okW1 := w1 != nil && isStart(callCommon(w1).Args[0]) && reachableFrom(l1.at, w1)
	R.Check(okW1, id, "nfs.markAlloc|head block written at BitmapBlockStart()", P.Pos(mark.Pos()), "the block marked by the first loop is written to the first bitmap block, after the loop", "address and order", "the head marks are written elsewhere or before they are made")
	okW2 := false
	var blkno ssa.Value
	if w2 != nil && reachableFrom(l2.at, w2) {
		blkno = resultOf(callCommon(w2).Args[0])
		if add, ok := blkno.(*ssa.BinOp); ok && add.Op == token.ADD {
			for _, pr := range [][2]ssa.Value{{add.X, add.Y}, {add.Y, add.X}} {
				if q, ok := stripConv(pr[0]).(*ssa.BinOp); ok && q.Op == token.QUO && l2.sub.resolve(q.X) == ssa.Value(mP) {
					if k, isk := constInt(q.Y); isk && k == nbit && isStart(pr[1]) {
						okW2 = true
					}
				}
			}
		}
	}
	R.Check(okW2, id, "nfs.markAlloc|tail block written at m / NBITBLOCK + BitmapBlockStart()", P.Pos(mark.Pos()), "the block marked by the second loop is written to the bitmap block that holds bit m, after the loop", "address and order", "the tail marks are written to another block")
	// the tail block is the head block unless it lies beyond the first bitmap block
	okPhi := false
	if phi, ok := l2.slice.(*ssa.Phi); ok && len(phi.Edges) == 2 && okW2 {
		for i, e := range phi.Edges {
			other := phi.Edges[1-i]
			if resultOf(l2.sub.resolve(e)) == l1.slice {
				// the other edge: fresh block, entered only when blkno > BitmapBlockStart()
				if sl, ok := other.(*ssa.Slice); ok {
					if _, isAlloc := sl.X.(*ssa.Alloc); isAlloc {
						fresh := phi.Block().Preds[1-i]
						okPhi = guardedBy(phi.Block().Parent(), fresh, func(cd Cond) (bool, bool) {
							if cd.X == nil || cd.Y == nil {
								return false, false
							}
							op, a, b := cd.Op, cd.X, cd.Y
							if isStart(a) && stripConv(b) == blkno {
								op, a, b = flipOp(op), b, a
							}
							if stripConv(a) != blkno || !isStart(b) {
								return false, false
							}
							switch op {
							case token.GTR, token.NEQ: // blkno > start: fresh block on the true edge
								return true, true
							case token.LEQ, token.EQL: // blkno <= start: fresh block on the false edge
								return true, false
							}
							return false, false
						})
					}
				}
			}
		}
	}
	R.Check(okPhi, id, "nfs.markAlloc|tail block shares the head block when they coincide", P.Pos(l2.store.Pos()), "the tail loop marks the head block itself when the disk size lies in the first bitmap block, and a fresh block only otherwise", "phi of the head block and a fresh block under blkno > BitmapBlockStart()", "for small disks the tail write replaces the head marks (metadata blocks become allocatable), or for large ones the head block is rewritten")
}

// ruleK5: the in-memory allocators are built from the bitmap region they
// allocate from: blocks from [BitmapBlockStart, +NBlockBitmap), inodes from
// [BitmapInodeStart, +NInodeBitmap), and are stored in the matching fields.
func ruleK5(c *Ctx, id string) {
	P, R := c.P, c.R
	R.Rule(id, "allocators cover their whole bitmap region: MkFsState builds Balloc from readBitmap(BitmapBlockStart(), NBlockBitmap) and Ialloc from readBitmap(BitmapInodeStart(), NInodeBitmap), each given whole to alloc.MkAlloc", 4)
	mk := c.fn(id, "fstxn.MkFsState")
	rb := c.fn(id, "fstxn.readBitmap")
	if mk == nil || rb == nil {
		return
	}
	R.Analysed[FuncName(mk)] = true
	want := map[string][2]string{"Balloc": {"BitmapBlockStart", "NBlockBitmap"}, "Ialloc": {"BitmapInodeStart", "NInodeBitmap"}}
	seen := map[string]bool{}
	for _, w := range FieldWrites(mk) {
		wv, ok := want[w.Field]
		if !ok || w.Type.Obj().Name() != "FsState" {
			continue
		}
		seen[w.Field] = true
		start, length := "", ""
		for v := range bwdAll(w.Val) {
			cl, isC := v.(*ssa.Call)
			if !isC || staticCallee(cl) != rb {
				continue
			}
			if sc, ok := stripConv(cl.Call.Args[1]).(*ssa.Call); ok && staticCallee(sc) != nil {
				start = staticCallee(sc).Name()
			}
			_, length, _, _ = loadedField(cl.Call.Args[2])
		}
		// the allocator is given all of what was read: no re-slicing between readBitmap and MkAlloc
		for v := range bwdAll(w.Val) {
			cl, isC := v.(*ssa.Call)
			if !isC || staticCallee(cl) == nil || staticCallee(cl).Name() != "MkAlloc" || len(cl.Call.Args) != 1 {
				continue
			}
			cut := ""
			if sl := cutOnTheWay(cl.Call.Args[0], map[ssa.Value]bool{}); sl != nil {
				cut = P.Pos(sl.Pos())
			}
			R.Check(cut == "", id, "fstxn.MkFsState|"+w.Field+" covers all of the bitmap read", P.Pos(cl.Pos()), "alloc.MkAlloc is given the whole slice readBitmap returned", "no re-slicing on the way", "the bitmap is cut ("+cut+") before the allocator is built from it: numbers beyond the cut are free on disk but can never be allocated (a bound in bytes rounds a bit count down)")
		}
		R.Check(start == wv[0] && length == wv[1], id, "fstxn.MkFsState|"+w.Field+" from its own bitmap", P.Pos(w.Instr.Pos()), fmt.Sprintf("%s is built from readBitmap(%s(), %s)", w.Field, wv[0], wv[1]), "start and length agree", fmt.Sprintf("%s is built from readBitmap(%s(), %s): the allocator knows only part of (or another) bitmap: blocks beyond it can never be allocated, or foreign bits are handed out", w.Field, start, length))
	}
	for f := range want {
		if !seen[f] {
			R.Fail(id, "fstxn.MkFsState|"+f+" set", P.Pos(mk.Pos()), "MkFsState sets "+f, "no store found")
		}
	}
	// readBitmap reads len consecutive blocks from start through the log
	okLoop := false
	for _, b := range rb.Blocks {
		for _, in := range b.Instrs {
			if cl, ok := in.(*ssa.Call); ok && staticCallee(cl) != nil && staticCallee(cl).Name() == "Load" && reachableFrom(in, in) {
				okLoop = true
			}
		}
	}
	R.Check(okLoop, id, "fstxn.readBitmap|reads every block of the region through the log", P.Pos(rb.Pos()), "readBitmap loads in a loop over the region", "log.Load in a cycle", "the bitmap is not read in full / not through the log")
	// ... and each turn of the loop reads the next block: block number start + i with i = 0, 1, ... < len (or a block
	// number stepped from start to start + len)
	{
		okAddr, why := false, "no log.Load of addr.MkAddr(<block>, 0) in the loop"
		var startP, lenP *ssa.Parameter
		for _, pm := range rb.Params {
			if bt, isB := pm.Type().Underlying().(*types.Basic); isB && bt.Info()&types.IsInteger != 0 {
				if startP == nil {
					startP = pm
				} else if lenP == nil {
					lenP = pm
				}
			}
		}
		lv := findLoopVar(rb, 1)
		for _, sc := range scopesOf(rb) {
			for _, b := range sc.Fn.Blocks {
				for _, in := range b.Instrs {
					cl, ok := in.(*ssa.Call)
					if !ok || staticCallee(cl) == nil || staticCallee(cl).Name() != "Load" {
						continue
					}
					ac, isA := sc.S.resolve(stripConv(argN(cl, 0))).(*ssa.Call)
					if !isA || staticCallee(ac) == nil || staticCallee(ac).Name() != "MkAddr" || len(ac.Call.Args) < 2 {
						continue
					}
					if off, isk := constInt(stripConv(ac.Call.Args[1])); !isk || off != 0 {
						why = "the block is not read from its first bit"
						continue
					}
					if lv == nil || startP == nil || lenP == nil {
						why = "no counter stepped by one / start and length parameters not found"
						continue
					}
					blk := sc.S.resolve(stripConv(ac.Call.Args[0]))
					adv, nb := lv.alwaysAdvances()
					// form 1: start + i, i from 0, i < len
					form1 := false
					if add, isB := blk.(*ssa.BinOp); isB && add.Op == token.ADD {
						x, y := sc.S.resolve(stripConv(add.X)), sc.S.resolve(stripConv(add.Y))
						if (x == ssa.Value(startP) && lv.is(y)) || (y == ssa.Value(startP) && lv.is(x)) {
							form1 = true
						}
					}
					// form 2: the block number itself is the counter, from start
					form2 := lv.is(blk)
					if !form1 && !form2 {
						why = "the block read does not advance with the loop (it is not start + counter)"
						continue
					}
					// initial value and bound of the counter
					initOK, boundOK := false, false
					if lv.phi != nil {
						for i, e := range lv.phi.Edges {
							if lv.phi.Block().Dominates(lv.phi.Block().Preds[i]) {
								continue
							}
							if form1 {
								k, isk := constInt(stripConv(e))
								initOK = isk && k == 0
							} else {
								initOK = stripConv(e) == ssa.Value(startP)
							}
						}
					}
					for _, br := range branches(rb) {
						if br.Cond.X == nil || br.Cond.Y == nil {
							continue
						}
						op, x, y := br.Cond.Op, stripConv(br.Cond.X), stripConv(br.Cond.Y)
						if lv.is(y) {
							op, x, y = flipOp(op), y, x
						}
						if !lv.is(x) || !(op == token.LSS || op == token.GEQ) {
							continue
						}
						if form1 && y == ssa.Value(lenP) {
							boundOK = true
						}
						if form2 {
							if add, isB := y.(*ssa.BinOp); isB && add.Op == token.ADD {
								ax, ay := stripConv(add.X), stripConv(add.Y)
								if (ax == ssa.Value(startP) && ay == ssa.Value(lenP)) || (ay == ssa.Value(startP) && ax == ssa.Value(lenP)) {
									boundOK = true
								}
							}
						}
					}
					if adv && nb > 0 && initOK && boundOK {
						okAddr = true
					} else {
						why = fmt.Sprintf("counter advances on every turn=%v, starts at the beginning=%v, bounded by the length=%v", adv && nb > 0, initOK, boundOK)
					}
				}
			}
		}
		// ... and the blocks are put together in that order: if the result is built with append, the bytes read in
		// a turn go behind what was read before (append(acc, data...), acc being the loop-carried result)
		for _, sc := range scopesOf(rb) {
			for _, b := range sc.Fn.Blocks {
				for _, in := range b.Instrs {
					cl, isC := in.(*ssa.Call)
					if !isC {
						continue
					}
					bi, isB := cl.Call.Value.(*ssa.Builtin)
					if !isB || bi.Name() != "append" || len(cl.Call.Args) != 2 || !reachableFrom(in, in) {
						continue
					}
					// the accumulator: a value that the append's own result flows back into (phi) or a cell
					acc := stripConv(cl.Call.Args[0])
					isAcc := false
					if ph, isP := acc.(*ssa.Phi); isP {
						for _, e := range ph.Edges {
							if stripConv(e) == ssa.Value(cl) {
								isAcc = true
							}
						}
					}
					if ld, isL := acc.(*ssa.UnOp); isL && ld.Op == token.MUL {
						for _, st := range cellStores(ld.X) {
							if stripConv(st.Val) == ssa.Value(cl) {
								isAcc = true
							}
						}
					}
					R.Check(isAcc, id, "fstxn.readBitmap|blocks appended in the order read", P.Pos(in.Pos()), "append(result so far, block just read ...)", "first operand is the loop-carried result", "the block just read is put in front of what was read before: on a disk with more than one bitmap block the allocator sees the bitmap blocks in reverse order - it hands out blocks that are in use")
				}
			}
		}
		R.Check(okAddr, id, "fstxn.readBitmap|block i of the region is read in turn i", P.Pos(rb.Pos()), "the block loaded in a turn of the loop is start + i for i = 0 .. len-1", "address advances with the counter", why+": the allocator is built from copies of one bitmap block (or from a shifted region) - on a disk with more than one bitmap block it refuses free blocks and hands out blocks that are in use or beyond the end of the disk")
	}
}

// accessorForm: fn returns  prev() + conv(field)  or  conv(field).
func accessorForm(fn *ssa.Function) (prev string, field string, ok bool) {
	for _, b := range fn.Blocks {
		r, isR := b.Instrs[len(b.Instrs)-1].(*ssa.Return)
		if !isR || len(r.Results) != 1 {
			continue
		}
		v := stripConv(r.Results[0])
		if bo, isB := v.(*ssa.BinOp); isB && bo.Op == token.ADD {
			var call *ssa.Call
			var other ssa.Value
			if cl, ok := stripConv(bo.X).(*ssa.Call); ok {
				call, other = cl, bo.Y
			} else if cl, ok := stripConv(bo.Y).(*ssa.Call); ok {
				call, other = cl, bo.X
			}
			if call == nil || staticCallee(call) == nil {
				return "", "", false
			}
			_, fl, base, _ := loadedField(other)
			if fl == "" || base != ssa.Value(fn.Params[0]) || recvOf(call) != ssa.Value(fn.Params[0]) {
				return "", "", false
			}
			return staticCallee(call).Name(), fl, true
		}
		_, fl, base, _ := loadedField(v)
		if fl != "" && base == ssa.Value(fn.Params[0]) {
			return "", fl, true
		}
	}
	return "", "", false
}

// flatStores: the values a constructor stores into the fields of the object it
// builds, by field name, with by-value sub-structs flattened - whether the
// sub-struct is filled in place, assigned as a composite literal or returned
// by a private helper ("fixed: mkFixedRegions()").
func flatStores(mk *ssa.Function, typeName string) map[string]ssa.Value {
	out := map[string]ssa.Value{}
	var expand func(v ssa.Value, d int)
	expand = func(v ssa.Value, d int) {
		if d > 3 || v == nil {
			return
		}
		v = stripConv(v)
		switch x := v.(type) {
		case *ssa.UnOp:
			if al, ok := x.X.(*ssa.Alloc); ok && x.Op == token.MUL {
				for _, r := range refs(al) {
					if fa, ok := r.(*ssa.FieldAddr); ok {
						for _, r2 := range refs(fa) {
							if st, ok := r2.(*ssa.Store); ok && st.Addr == ssa.Value(fa) {
								if _, isS := st.Val.Type().Underlying().(*types.Struct); isS {
									expand(st.Val, d+1)
								} else {
									out[fieldNameAt(fa)] = st.Val
								}
							}
						}
					}
				}
			}
		case *ssa.Call:
			if cal := staticCallee(x); cal != nil && IsRepoFunc(cal) && cal.Blocks != nil {
				for _, rs := range returnSources(cal, 0) {
					expand(rs.Val, d+1)
				}
			}
		}
	}
	for _, w := range FieldWrites(mk) {
		if w.Val == nil {
			continue
		}
		if _, isS := w.Val.Type().Underlying().(*types.Struct); isS {
			if w.Type.Obj().Name() == typeName {
				expand(w.Val, 0)
			}
			continue
		}
		if w.Type.Obj().Name() == typeName || isGroupingStruct(w.Type) {
			out[w.Field] = w.Val
		}
	}
	return out
}

func ruleK1(c *Ctx, id string) {
	P, R := c.P, c.R
	R.Rule(id, "regions are laid out cumulatively: BitmapBlockStart = nLog; BitmapInodeStart = BitmapBlockStart + NBlockBitmap; InodeStart = BitmapInodeStart + NInodeBitmap; DataStart = InodeStart + nInodeBlk; MaxBnum = Maxaddr = disk size", 6)
	want := []struct{ fn, prev, field string }{
		{"BitmapBlockStart", "", "nLog"},
		{"BitmapInodeStart", "BitmapBlockStart", "NBlockBitmap"},
		{"InodeStart", "BitmapInodeStart", "NInodeBitmap"},
		{"DataStart", "InodeStart", "nInodeBlk"},
		{"MaxBnum", "", "Maxaddr"},
	}
	for _, w := range want {
		f := c.fn(id, "super.(*FsSuper)."+w.fn)
		if f == nil {
			continue
		}
		R.Analysed[FuncName(f)] = true
		// what the accessor computes, in normal form (helpers inlined, + sorted)
		wantSym := "field(recv." + w.field + ")"
		if w.prev != "" {
			wantSym = "(+ call:" + w.prev + "(recv) field(recv." + w.field + "))"
		}
		got, n := "", 0
		okAll := true
		for _, b := range f.Blocks {
			if r, isR := b.Instrs[len(b.Instrs)-1].(*ssa.Return); isR && len(r.Results) == 1 {
				n++
				got = symOf(f, r.Results[0])
				if got != wantSym {
					okAll = false
				}
			}
		}
		R.Check(okAll && n > 0, id, "super."+w.fn+"|chain link", P.Pos(f.Pos()), fmt.Sprintf("%s() = %s + %s", w.fn, orNone(w.prev), w.field), "matches", fmt.Sprintf("computes %s: regions overlap or leave a gap for every disk size", got))
	}
	// MkFsSuper: nLog = LOGSIZE, Maxaddr = Size = d.Size(), NInodeBitmap = NINODEBITMAP
	mk := c.fn(id, "super.MkFsSuper")
	if mk == nil {
		return
	}
	R.Analysed[FuncName(mk)] = true
	stores := flatStores(mk, "FsSuper")
	noRecv := &symCtx{}
	isSize := func(v ssa.Value) bool {
		if v == nil {
			return false
		}
		return strings.HasPrefix(sym(noRecv, v, Subst{}, 0), "invoke:Size(")
	}
	R.Check(isSize(stores["Maxaddr"]) && isSize(stores["Size"]), id, "super.MkFsSuper|Maxaddr = Size = disk size", P.Pos(mk.Pos()), "the data region ends at the disk size", "both fields are d.Size()", "the file system believes the disk is larger or smaller than it is")
	logsize := constOfPkg(P, jrnlPath+"/common", "LOGSIZE")
	k, isk := int64(-1), false
	if v := stores["nLog"]; v != nil {
		if _, err := fmt.Sscanf(sym(noRecv, v, Subst{}, 0), "%d", &k); err == nil {
			isk = true
		}
	}
	R.Check(isk && k == logsize, id, "super.MkFsSuper|nLog = LOGSIZE", P.Pos(mk.Pos()), fmt.Sprintf("the bitmap starts right after the journal's %d blocks", logsize), "constant", fmt.Sprintf("nLog=%d, LOGSIZE=%d: the bitmap overlaps the journal or leaves a hole", k, logsize))
}

func orNone(s string) string {
	if s == "" {
		return "0"
	}
	return s + "()"
}

func constOfPkg(P *Program, pkg, name string) int64 {
	pk := P.Pkg(pkg)
	if pk == nil {
		return -1
	}
	o := pk.Types.Scope().Lookup(name)
	if o == nil {
		return -1
	}
	k, ok := constValInt(o)
	if !ok {
		return -1
	}
	return k
}

func ruleK2(c *Ctx, id string) {
	P, R := c.P, c.R
	R.Rule(id, "layout constants agree: common.LOGSIZE = wal.LOGDISKBLOCKS; INODESZ * INODEBLK = block size; inode-table slots = inode-bitmap bits; Inum2Addr uses INODEBLK and INODESZ*8; NInode = nInodeBlk * INODEBLK", 5)
	cm := jrnlPath + "/common"
	logsize := constOfPkg(P, cm, "LOGSIZE")
	waldisk := constOfPkg(P, jrnlPath+"/wal", "LOGDISKBLOCKS")
	inodesz := constOfPkg(P, cm, "INODESZ")
	inodeblk := constOfPkg(P, cm, "INODEBLK")
	nbitblock := constOfPkg(P, cm, "NBITBLOCK")
	ninodebitmap := constOfPkg(P, cm, "NINODEBITMAP")
	blocksize := nbitblock / 8
	R.Check(logsize == waldisk && logsize > 0, id, "LOGSIZE = wal.LOGDISKBLOCKS", "?", "the file system skips exactly the blocks the journal owns", fmt.Sprintf("%d = %d", logsize, waldisk), fmt.Sprintf("LOGSIZE=%d, LOGDISKBLOCKS=%d", logsize, waldisk))
	R.Check(inodesz*inodeblk == blocksize, id, "INODESZ * INODEBLK = BlockSize", "?", "inodes tile a block exactly", fmt.Sprintf("%d*%d = %d", inodesz, inodeblk, blocksize), "inodes straddle blocks")
	// nInodeBlk stored by MkFsSuper
	mk := P.Func("super.MkFsSuper")
	var ninodeblk int64 = -1
	if mk != nil {
		if v := flatStores(mk, "FsSuper")["nInodeBlk"]; v != nil {
			ninodeblk, _ = constInt(stripConv(v))
		}
		for _, w := range FieldWrites(mk) {
			if w.Field == "NInodeBitmap" {
				k, _ := constInt(w.Val)
				R.Check(k == ninodebitmap, id, "NInodeBitmap = NINODEBITMAP", P.Pos(w.Instr.Pos()), "the inode bitmap has the configured number of blocks", "constant", "inode bitmap size drift")
			}
		}
	}
	R.Check(ninodeblk*inodeblk == ninodebitmap*nbitblock && ninodeblk > 0, id, "inode slots = inode bitmap bits", "?", "nInodeBlk * INODEBLK = NINODEBITMAP * NBITBLOCK: one bitmap bit per inode slot, so the allocator's range equals NInode()", fmt.Sprintf("%d*%d = %d*%d", ninodeblk, inodeblk, ninodebitmap, nbitblock), fmt.Sprintf("%d*%d != %d*%d: the allocator hands out inode numbers without a slot, or slots are unusable", ninodeblk, inodeblk, ninodebitmap, nbitblock))
	// NInode() = nInodeBlk * INODEBLK ; Inum2Addr = MkAddr(InodeStart + inum/INODEBLK, (inum%INODEBLK)*INODESZ*8)
	ni := c.fn(id, "super.(*FsSuper).NInode")
	if ni != nil {
		ok := false
		for _, b := range ni.Blocks {
			if r, isR := b.Instrs[len(b.Instrs)-1].(*ssa.Return); isR {
				if bo, isB := stripConv(r.Results[0]).(*ssa.BinOp); isB && bo.Op == token.MUL {
					_, fl, _, _ := loadedField(bo.X)
					k, isk := constInt(bo.Y)
					ok = fl == "nInodeBlk" && isk && k == inodeblk
				}
			}
		}
		R.Check(ok, id, "super.NInode = nInodeBlk * INODEBLK", P.Pos(ni.Pos()), "the number of inodes is the number of slots of the inode table", "matches", "NInode() disagrees with the inode table size")
	}
	ia := c.fn(id, "super.(*FsSuper).Inum2Addr")
	if ia != nil {
		// normal forms of the two arguments of addr.MkAddr
		wantBlk := fmt.Sprintf("(+ (/ param:inum %d) call:InodeStart(recv))", inodeblk)
		wantOff := fmt.Sprintf("(* %d (%% param:inum %d))", inodesz*8, inodeblk)
		gotBlk, gotOff := "", ""
		for _, b := range ia.Blocks {
			for _, in := range b.Instrs {
				if cal := staticCallee(in); cal != nil && cal.Name() == "MkAddr" {
					cc := callCommon(in)
					gotBlk, gotOff = symOf(ia, cc.Args[0]), symOf(ia, cc.Args[1])
				}
			}
		}
		// the inode number parameter may have any name
		if len(ia.Params) > 1 {
			gotBlk = strings.ReplaceAll(gotBlk, "param:"+ia.Params[1].Name(), "param:inum")
			gotOff = strings.ReplaceAll(gotOff, "param:"+ia.Params[1].Name(), "param:inum")
		}
		R.Check(gotBlk == wantBlk && gotOff == wantOff, id, "super.Inum2Addr layout", P.Pos(ia.Pos()), "inode i lives in block InodeStart + i/INODEBLK at bit offset (i%INODEBLK)*INODESZ*8", "normal forms agree", fmt.Sprintf("computes block %s, offset %s", gotBlk, gotOff))
	}
}

func ruleK3(c *Ctx, id string) {
	V, P, R := c.V, c.P, c.R
	R.Rule(id, "format and assertion use the same range: makeFs marks [0,DataStart) and [MaxBnum, ...) through markAlloc(super, DataStart(), MaxBnum()); AssertValidBlock rejects < DataStart() and >= MaxBnum(); markAlloc refuses configurations it cannot format; the two reserved inode bits are NULLINUM and ROOTINUM; every bitmap write of mkfs is unconditional", 7)
	mkfs := c.fn(id, "nfs.makeFs")
	mark := c.fn(id, "nfs.markAlloc")
	if mkfs == nil || mark == nil || V.AssertValidBlock == nil {
		return
	}
	for _, call := range P.CallsIn(mkfs, funcIs(mark)) {
		n1, n2 := "", ""
		if cl, ok := stripConv(argN(call, 1)).(*ssa.Call); ok && staticCallee(cl) != nil {
			n1 = staticCallee(cl).Name()
		}
		if cl, ok := stripConv(argN(call, 2)).(*ssa.Call); ok && staticCallee(cl) != nil {
			n2 = staticCallee(cl).Name()
		}
		R.Check(n1 == "DataStart" && n2 == "MaxBnum", id, "nfs.makeFs|markAlloc(DataStart, MaxBnum)", P.Pos(call.Pos()), "mkfs marks everything outside [DataStart(), MaxBnum()) as used", "accessor identity", fmt.Sprintf("markAlloc(%s, %s): blocks of the metadata regions (or beyond the disk) are allocatable, or data blocks are unusable", n1, n2))
	}
	// AssertValidBlock strictness
	a := V.AssertValidBlock
	var lo, hi string
	// the comparisons may sit in a predicate helper ("in range?") called by the assertion; a comparison that
	// accepts (leads to 'in range' / no panic) is read through its negation
	for _, sc := range scopesOf(a) {
		for _, br := range branches(sc.Fn) {
			if br.Cond.X == nil || br.Cond.Y == nil {
				continue
			}
			cl, ok := stripConv(br.Cond.Y).(*ssa.Call)
			if !ok || staticCallee(cl) == nil {
				continue
			}
			// does the true side reject?  (reaches a panic, or returns constant false from a predicate)
			rejects := func(b *ssa.BasicBlock) bool {
				seen := map[*ssa.BasicBlock]bool{}
				var walk func(b *ssa.BasicBlock, d int) bool
				walk = func(b *ssa.BasicBlock, d int) bool {
					if seen[b] || d > 3 {
						return false
					}
					seen[b] = true
					if isPanicExit(b) {
						return true
					}
					if r, isR := b.Instrs[len(b.Instrs)-1].(*ssa.Return); isR && len(r.Results) == 1 {
						if bv, isb := constBool(r.Results[0]); isb {
							return !bv
						}
					}
					if len(b.Succs) == 1 {
						return walk(b.Succs[0], d+1)
					}
					return false
				}
				return walk(b, 0)
			}
			op := br.Cond.Op
			if !rejects(br.True) && rejects(br.False) {
				op = negOp(op)
			}
			switch staticCallee(cl).Name() {
			case "DataStart":
				lo = op.String()
			case "MaxBnum":
				hi = op.String()
			}
		}
	}
	R.Check(lo == "<" && hi == ">=", id, "alloctxn.AssertValidBlock|range [DataStart, MaxBnum)", P.Pos(a.Pos()), "a non-null block number is rejected iff it is < DataStart() or >= MaxBnum()", "strictness matches the format range", fmt.Sprintf("found blkno %s DataStart, blkno %s MaxBnum: the assertion accepts a metadata block or rejects a data block", lo, hi))
	// markAlloc refuses impossible configurations: panics on m < n and n >= NBITBLOCK (the tests may sit in a
	// predicate helper whose answer - a flag or an error value - markAlloc turns into the panic)
	var conds []string
	var collect func(fn *ssa.Function, refuses func(b *ssa.BasicBlock) bool, pname func(p *ssa.Parameter) string, depth int)
	collect = func(fn *ssa.Function, refuses func(b *ssa.BasicBlock) bool, pname func(p *ssa.Parameter) string, depth int) {
		for _, br := range branches(fn) {
			br := br
			// one side must lead to the refusal: the true side of the refusing test, or the false side of the accepting
			// one ("if !(n < K && ...) { panic }" branches on n < K)
			toRefusal := func(start *ssa.BasicBlock) bool {
				leads := false
				seen := map[*ssa.BasicBlock]bool{}
				var walk func(b *ssa.BasicBlock, d int)
				walk = func(b *ssa.BasicBlock, d int) {
					if seen[b] || d > 4 {
						return
					}
					seen[b] = true
					if refuses(b) {
						leads = true
					}
					for _, s := range b.Succs {
						if _, isIf := b.Instrs[len(b.Instrs)-1].(*ssa.If); isIf && b != br.Block {
							continue // only straight to the refusal, not through further tests
						}
						walk(s, d+1)
					}
				}
				walk(start, 0)
				return leads
			}
			tP, fP := toRefusal(br.True), toRefusal(br.False)
			if tP == fP {
				continue
			}
			// the answer of a predicate helper: "if bad(n, m) { panic }", "if check(n, m) != nil { panic }"
			if depth < 2 {
				var hc *ssa.Call
				refuseOn := "" // which answer of the helper refuses: "true", "false", "nonnil", "nil"
				if br.Cond.Op == token.ILLEGAL && br.Cond.X != nil {
					if cl, ok := stripConv(br.Cond.X).(*ssa.Call); ok {
						hc, refuseOn = cl, map[bool]string{true: "true", false: "false"}[tP]
					}
				} else if (br.Cond.Op == token.NEQ || br.Cond.Op == token.EQL) && br.Cond.X != nil && br.Cond.Y != nil {
					x, y := br.Cond.X, br.Cond.Y
					if isNilConst(x) {
						x, y = y, x
					}
					if cl, ok := stripConv(x).(*ssa.Call); ok && isNilConst(y) {
						nonnilSide := (br.Cond.Op == token.NEQ) == tP
						hc, refuseOn = cl, map[bool]string{true: "nonnil", false: "nil"}[nonnilSide]
					}
				}
				if hc != nil && staticCallee(hc) != nil && isPrivateHelper(staticCallee(hc)) && staticCallee(hc).Blocks != nil {
					h := staticCallee(hc)
					hname := func(p *ssa.Parameter) string {
						for i, q := range h.Params {
							if q == p && i < len(hc.Call.Args) {
								if ap, ok := stripConv(hc.Call.Args[i]).(*ssa.Parameter); ok {
									return pname(ap)
								}
							}
						}
						return "?"
					}
					hrefuses := func(b *ssa.BasicBlock) bool {
						r, isR := b.Instrs[len(b.Instrs)-1].(*ssa.Return)
						if !isR || len(r.Results) != 1 {
							return false
						}
						v := r.Results[0]
						switch refuseOn {
						case "true", "false":
							bv, isb := constBool(v)
							return isb && bv == (refuseOn == "true")
						case "nonnil":
							if _, isPhi := v.(*ssa.Phi); isPhi {
								return false
							}
							return !isNilConst(v)
						case "nil":
							return isNilConst(v)
						}
						return false
					}
					collect(h, hrefuses, hname, depth+1)
					continue
				}
			}
			if br.Cond.X == nil || br.Cond.Y == nil {
				continue
			}
			px, _ := stripConv(br.Cond.X).(*ssa.Parameter)
			py, _ := stripConv(br.Cond.Y).(*ssa.Parameter)
			op := br.Cond.Op
			if fP {
				op = negOp(op)
			}
			if px != nil && py != nil {
				conds = append(conds, pname(px)+op.String()+pname(py), pname(py)+flipOp(op).String()+pname(px))
			} else if px != nil {
				conds = append(conds, pname(px)+op.String()+"K")
			}
		}
	}
	collect(mark, isPanicExit, func(p *ssa.Parameter) string {
		if len(mark.Params) > 2 && p == mark.Params[1] {
			return "n"
		}
		if len(mark.Params) > 2 && p == mark.Params[2] {
			return "m"
		}
		return "?"
	}, 0)
	has := func(s string) bool {
		for _, x := range conds {
			if x == s {
				return true
			}
		}
		return false
	}
	R.Check(has("m<n") && has("n>=K") && has("m>=K"), id, "nfs.markAlloc|refuses what it cannot format", P.Pos(mark.Pos()), "markAlloc panics on m < n, n >= NBITBLOCK and m >= bitmap capacity", "guards: "+strings.Join(conds, " "), "a disk size the formatter cannot handle is accepted silently (guards found: "+strings.Join(conds, " ")+")")
	// reserved inodes: blk2[0] |= 1<<0 ; 1<<1, written at BitmapInodeStart
	nullinum := constOfPkg(P, jrnlPath+"/common", "NULLINUM")
	rootinum := constOfPkg(P, jrnlPath+"/common", "ROOTINUM")
	// constant bit numbers set in some block: S[c] |= 1 << k (bit 8c+k), or S[n/8] |= 1 << (n%8) with n a constant
	// handed to a helper / closure
	bits := map[int64]bool{}
	for _, sc := range scopesOf(mark) {
		for _, b := range sc.Fn.Blocks {
			for _, in := range b.Instrs {
				bo, ok := in.(*ssa.BinOp)
				if !ok || bo.Op != token.OR {
					continue
				}
				if k, isk := constInt(sc.S.resolve(bo.Y)); isk {
					idx := int64(0)
					if ld, ok := bo.X.(*ssa.UnOp); ok {
						if ia, ok := ld.X.(*ssa.IndexAddr); ok {
							if i, isi := constInt(sc.S.resolve(ia.Index)); isi {
								idx = i
							}
						}
					}
					for bit := int64(0); bit < 8; bit++ {
						if k == 1<<uint(bit) {
							bits[8*idx+bit] = true
						}
					}
					continue
				}
				if sh, ok := bo.Y.(*ssa.BinOp); ok && sh.Op == token.SHL {
					one, is1 := constInt(sh.X)
					rem, isR := sh.Y.(*ssa.BinOp)
					if !is1 || one != 1 || !isR || rem.Op != token.REM {
						continue
					}
					if n, isn := constInt(sc.S.resolve(rem.X)); isn {
						bits[n] = true
					}
				}
			}
		}
	}
	wroteAtInodeBitmap := false
	for _, b := range mark.Blocks {
		for _, in := range b.Instrs {
			if k, ok := rawDiskOp(in); ok && k == "write" {
				if cl, ok := resultOf(callCommon(in).Args[0]).(*ssa.Call); ok && staticCallee(cl) != nil && staticCallee(cl).Name() == "BitmapInodeStart" {
					wroteAtInodeBitmap = true
				}
			}
		}
	}
	nw := 0
	for _, b := range mark.Blocks {
		for _, in := range b.Instrs {
			if k, ok := rawDiskOp(in); ok && k == "write" {
				nw++
				this := in
				always := MustAfter(mark, func(x ssa.Instruction) bool { return x == this }, nil)(mark.Blocks[0].Instrs[0])
				R.Check(always, id, fmt.Sprintf("nfs.markAlloc|bitmap write#%d on every path", nw), P.Pos(in.Pos()), "each of mkfs's bitmap writes (head of the block bitmap, tail beyond the disk size, reserved inodes) happens on every non-panicking path", "must-follow from entry", "a bitmap write is skipped for some disk sizes: bits beyond the disk (or the reserved ones) stay free and the allocator hands out a block that does not exist")
			}
		}
	}
	R.Check(bits[nullinum] && bits[rootinum] && wroteAtInodeBitmap, id, "nfs.markAlloc|reserved inodes", P.Pos(mark.Pos()), fmt.Sprintf("inode bits %d (null) and %d (root) are set in the block written at BitmapInodeStart()", nullinum, rootinum), "constant bit positions", "a reserved inode is left allocatable: the allocator hands out the root (CREATE then waits on its own lock) or inode 0")
}

func ruleK4(c *Ctx, id string) {
	P, R := c.P, c.R
	R.Rule(id, "the block bitmap covers the disk: NBlockBitmap = Size / NBITBLOCK + 1 (syntactic form x/k + 1 on the disk size), hence NBlockBitmap * NBITBLOCK > Size for every size", 1)
	mk := c.fn(id, "super.MkFsSuper")
	if mk == nil {
		return
	}
	nbitblock := constOfPkg(P, jrnlPath+"/common", "NBITBLOCK")
	for _, w := range FieldWrites(mk) {
		if w.Field != "NBlockBitmap" {
			continue
		}
		// normal form (+ c (/ d.Size() NBITBLOCK)) with c >= 1
		form := sym(&symCtx{}, w.Val, Subst{}, 0)
		ok := false
		var cst int64
		var divisor int64
		var inner string
		if n, err := fmt.Sscanf(form, "(+ %d (/ %s %d))", &cst, &inner, &divisor); err == nil && n == 3 {
			ok = cst >= 1 && divisor == nbitblock && strings.HasPrefix(inner, "invoke:Size(")
		}
		if ok {
			R.PassNT(id, "super.MkFsSuper|NBlockBitmap = Size/NBITBLOCK + 1", P.Pos(w.Instr.Pos()), "bitmap capacity exceeds the disk size for every size", "form x/k + c, c >= 1, on d.Size() and NBITBLOCK")
		} else {
			R.Undecided(id, "super.MkFsSuper|NBlockBitmap form", P.Pos(w.Instr.Pos()), "NBlockBitmap has the form Size/NBITBLOCK + 1", "other form: coverage of the disk by the bitmap cannot be decided structurally")
		}
	}
}

// ruleK7: the bits PreCommit writes for an allocated / freed number are the
// bits mkfs and the allocators mean: bit n of the bitmap that starts at the
// region's first block (C01.R3's WriteBits clauses, reported here because a
// wrong block index shows only on disks with more than one bitmap block).
func ruleK7(c *Ctx, id string) {
	c.R.Rule(id, "run-time bitmap writes address bit n of the bitmap region: WriteBits writes one bit at addr.MkBitAddr(start, n) with value 1 << (n % 8) (complemented for frees); PreCommit writes the allocated bits before the freed bits", 6)
	if c.V.PreCommit == nil || c.V.OverWrite == nil {
		return
	}
	ruleWriteBits(c, id)
	rulePreCommitOrder(c, id)
}

// cutOnTheWay: following v back through conversions, phis and local cells (the
// same slice value under other names), the first re-slicing with a bound.
func cutOnTheWay(v ssa.Value, seen map[ssa.Value]bool) *ssa.Slice {
	v = stripConv(v)
	if v == nil || seen[v] {
		return nil
	}
	seen[v] = true
	switch x := v.(type) {
	case *ssa.Slice:
		if x.Low != nil || x.High != nil {
			return x
		}
		return cutOnTheWay(x.X, seen)
	case *ssa.Phi:
		for _, e := range x.Edges {
			if sl := cutOnTheWay(e, seen); sl != nil {
				return sl
			}
		}
	case *ssa.UnOp:
		if x.Op == token.MUL {
			if al, ok := x.X.(*ssa.Alloc); ok {
				for _, r := range refs(al) {
					if st, ok := r.(*ssa.Store); ok && st.Addr == ssa.Value(al) {
						if sl := cutOnTheWay(st.Val, seen); sl != nil {
							return sl
						}
					}
				}
			}
		}
	}
	return nil
}

// viaPure: v is a result of a small pure helper (sym.go): the expression the
// helper returns there, with the helper's parameters bound to the arguments.
func viaPure(v ssa.Value, sub Subst) (ssa.Value, Subst) {
	v = stripConv(v)
	var cl *ssa.Call
	idx := 0
	switch x := v.(type) {
	case *ssa.Extract:
		cl, _ = x.Tuple.(*ssa.Call)
		idx = x.Index
	case *ssa.Call:
		cl = x
	}
	if cl == nil {
		return v, sub
	}
	cal := staticCallee(cl)
	if cal == nil || !pureHelper(cal) {
		return v, sub
	}
	s2 := Subst{}
	for k, a := range sub {
		s2[k] = a
	}
	for i, p := range cal.Params {
		if i < len(cl.Call.Args) {
			s2[p] = sub.resolve(cl.Call.Args[i])
		}
	}
	blk := cal.Blocks[0]
	if r, ok := blk.Instrs[len(blk.Instrs)-1].(*ssa.Return); ok && idx < len(r.Results) {
		return stripConv(r.Results[idx]), s2
	}
	return v, sub
}

// resultOf: v seen through the results of private helpers that have a single
// return: the value the helper returns at that position (conversions and
// single-assignment cells removed).
func resultOf(v ssa.Value) ssa.Value {
	for i := 0; i < 4; i++ {
		v = stripConv(v)
		var cl *ssa.Call
		idx := 0
		switch x := v.(type) {
		case *ssa.Extract:
			cl, _ = x.Tuple.(*ssa.Call)
			idx = x.Index
		case *ssa.Call:
			cl = x
		}
		if cl == nil {
			return v
		}
		cal := staticCallee(cl)
		if cal == nil || !IsRepoFunc(cal) || !isPrivateHelper(cal) || cal.Blocks == nil {
			return v
		}
		var ret *ssa.Return
		n := 0
		for _, b := range cal.Blocks {
			if r, ok := b.Instrs[len(b.Instrs)-1].(*ssa.Return); ok {
				ret = r
				n++
			}
		}
		if n != 1 || idx >= len(ret.Results) {
			return v
		}
		v = ret.Results[idx]
	}
	return stripConv(v)
}

// ruleNlinkWriters: "the whole data region can be freed again" needs every
// object to die when its last name goes: a link count that some other code
// raises keeps the object - and its blocks - for ever.  The writers of Nlink
// are an inventory (the first clause of C04.S3; the balance of the directory
// adjustments stays with C04.S3).
func ruleNlinkWriters(c *Ctx, id string) {
	V, P, R := c.V, c.P, c.R
	R.Rule(id, "link counts have fixed writers: Inode.Nlink is stored only by InitInode, DecLink, Decode and the parent adjustments of doCreate/doRemove/RENAME", 5)
	doCreate := c.fn(id, "nfs.(*Nfs).doCreate")
	doRemove := c.fn(id, "nfs.(*Nfs).doRemove")
	ren := c.fn(id, "nfs.(*Nfs).NFSPROC3_RENAME")
	if doCreate == nil || doRemove == nil || ren == nil {
		return
	}
	for _, fn := range P.RepoFuncs("nfs", "inode", "dir", "fstxn", "shrinker", "alloctxn", "cache") {
		for _, w := range FieldWrites(fn) {
			if w.Type != V.Inode || w.Field != "Nlink" {
				continue
			}
			o := ownerOf(fn)
			isW := func(f *ssa.Function) bool {
				return f == V.InitInode || f == V.DecLink || f == V.Decode || f == doCreate || f == doRemove || f == ren
			}
			// the writer itself, the function its closure belongs to, or the one caller of a private helper
			allowed := isW(fn) || isW(o) || (fn.Parent() != nil && isW(fn.Parent()))
			R.Analysed[FuncName(o)] = true
			R.Check(allowed, id, FuncName(fn)+"|writes Nlink", P.Pos(w.Instr.Pos()), "Nlink is written only by InitInode (=1), DecLink (-1), Decode and the directory-parent adjustments of doCreate/doRemove/RENAME", "known writer", "a new writer of the link count: an object whose count is raised here is not freed when its last name is removed - its inode and blocks can never be allocated again")
		}
	}
}
