package main

import (
	"fmt"
	"go/token"
	"go/types"
	"sort"
	"strings"

	"golang.org/x/tools/go/ssa"
)

func init() {
	props["C07"] = func(c *Ctx) {
		c.R.Expl = "Structural conditions of the unstable-write contract: (U1) in WRITE the stability level reported in the reply is the value the commit call was chosen by, and the asynchronous commit is reachable only where that value is neither FILE_SYNC nor DATA_SYNC; CommitUnstable has no other caller; (U2) COMMIT reports success only after CommitFh, which flushes the journal unconditionally; (U3) WRITE and COMMIT return a write verifier that comes from a per-instance field set only at construction from a source that differs between instances; (U4) when unstable writes are disabled the level is upgraded to FILE_SYNC before the dispatch; (U7) WRITE reports success only on paths where the result of the commit it chose - asynchronous or not - was tested and true."
		c.R.NotDec = "that the data survives (journal, trusted) and that loss is a suffix (journal's group-commit order)."
		ruleU1(c, "C07.U1")
		ruleU2(c, "C07.U2")
		ruleU3(c, "C07.U3")
		ruleW1(c, "C07.U4")
		ruleM6(c, "C07.U5")
		ruleR2(c, "C07.U6")
		ruleU7(c, "C07.U7")
		ruleU8(c, "C07.U8")
		// a transaction the journal refuses makes it forget how far COMMIT must flush (as U5): Shrink must keep its
		// transaction within the log, counting the bitmap blocks of the commit
		ruleShrinkReserve(c, "C07.U9")
		ruleU10(c, "C07.U10")
		ruleObjGranularity(c, "C07.U11")
	}
}

// stableLoads: loads of the cell args.Stable in WRITE.
func isStableLoad(v ssa.Value) bool {
	_, path := paramFieldPath(v)
	return path == "Stable"
}

func ruleU1(c *Ctx, id string) {
	V, P, R := c.V, c.P, c.R
	R.Rule(id, "stability dispatch in WRITE: Committed is the dispatched level; CommitUnstable only on the arm where the level is neither FILE_SYNC nor DATA_SYNC; upgrade to FILE_SYNC under !Unstable precedes the dispatch; CommitUnstable is called only by WRITE", 4)
	w := c.fn(id, "nfs.(*Nfs).NFSPROC3_WRITE")
	if w == nil {
		return
	}
	R.Analysed[FuncName(w)] = true
	for _, cs := range P.CallersOf(V.CommitUnstable) {
		if !IsRepoFunc(cs.Caller) {
			continue
		}
		if terminatorOf(V, cs.Caller) == V.CommitUnstable && cs.Caller.Synthetic != "" {
			// CommitUnstable taken as a function value ("(*fstxn.FsTxn).CommitUnstable"): whoever mentions the
			// value, or reads the package-level table it was put in, is the user
			for _, u := range funcValueUsers(P, cs.Caller) {
				ow := ownerOf(u.Parent())
				R.Check(ow == w, id, FuncName(ow)+"|calls CommitUnstable", P.Pos(u.Pos()), "the asynchronous commit is used only by WRITE", "WRITE", "a procedure other than WRITE acknowledges without durability")
			}
			continue
		}
		ow := ownerOf(cs.Caller)
		R.Check(ow == w, id, FuncName(ow)+"|calls CommitUnstable", P.Pos(cs.Instr.Pos()), "the asynchronous commit is used only by WRITE", "WRITE", "a procedure other than WRITE acknowledges without durability")
	}
	constOf := func(name string) int64 {
		if o := P.Pkg("nfstypes").Types.Scope().Lookup(name); o != nil {
			k, _ := constValInt(o)
			return k
		}
		return -1
	}
	fileSync, dataSync := constOf("FILE_SYNC"), constOf("DATA_SYNC")
	wScopes := scopesOf(w)
	notLevelM := func(level int64) CondMatcherX {
		return func(sub Subst) func(Cond) (bool, bool) {
			return func(cd Cond) (bool, bool) {
				if cd.Op != token.EQL && cd.Op != token.NEQ || cd.X == nil || cd.Y == nil {
					return false, false
				}
				a, b := sub.resolve(stripConv(cd.X)), sub.resolve(stripConv(cd.Y))
				if !isStableLoad(a) {
					a, b = b, a
				}
				k, isk := constInt(b)
				if !isStableLoad(a) || !isk || k != level {
					return false, false
				}
				return true, cd.Op == token.NEQ
			}
		}
	}
	// the same knowledge from a table: "commit, listed := table[args.Stable]; if !listed" - the level is none of the
	// table's keys, when the table is a package-level map that only its initialiser fills
	notLevelT := func(level int64) CondMatcherX {
		return func(sub Subst) func(Cond) (bool, bool) {
			return func(cd Cond) (bool, bool) {
				if cd.Op != token.ILLEGAL || cd.X == nil {
					return false, false
				}
				ex, isE := sub.resolve(stripConv(cd.X)).(*ssa.Extract)
				if !isE || ex.Index != 1 {
					return false, false
				}
				lk, isL := ex.Tuple.(*ssa.Lookup)
				if !isL || !lk.CommaOk || !isStableLoad(sub.resolve(stripConv(lk.Index))) {
					return false, false
				}
				ld, isLd := stripConv(lk.X).(*ssa.UnOp)
				if !isLd || ld.Op != token.MUL {
					return false, false
				}
				g, isG := ld.X.(*ssa.Global)
				if !isG {
					return false, false
				}
				ents, okT := constTable(P, g)
				if !okT {
					return false, false
				}
				for _, e := range ents {
					if e.key == level {
						return true, false // on the 'not listed' side the level is not this key
					}
				}
				return false, false
			}
		}
	}
	notLevel := func(scopes []Scope, sc Scope, at *ssa.BasicBlock, level int64) bool {
		return guardedUp(scopes, sc, at, notLevelM(level)) || guardedUp(scopes, sc, at, notLevelT(level))
	}
	// the statements of WRITE through which a commit of the transaction runs
	var dispatch []ssa.Instruction
	nUnstable := 0
	for _, sc := range wScopes {
		for _, call := range P.CallsIn(sc.Fn, func(f *ssa.Function) bool { return V.Terminators[f] == "commit" }) {
			dispatch = append(dispatch, topInstr(wScopes, sc, call))
		}
		for _, call := range P.CallsIn(sc.Fn, funcIs(V.CommitUnstable)) {
			if c2, isC := call.(*ssa.Call); isC && staticCallee(c2) == nil && len(P.Callees(call)) > 1 {
				continue // one of several commits chosen as a function value: followed below
			}
			nUnstable++
			ok := notLevel(wScopes, sc, call.Block(), fileSync) && notLevel(wScopes, sc, call.Block(), dataSync)
			R.Check(ok, id, "NFSPROC3_WRITE|CommitUnstable only when neither FILE_SYNC nor DATA_SYNC", P.Pos(call.Pos()), "the asynchronous commit is dominated by args.Stable != FILE_SYNC and args.Stable != DATA_SYNC", "both guards dominate", "a write requested with stable semantics is acknowledged after an asynchronous commit")
		}
		// the commit chosen as a function value and called once ("commit(op)")
		for _, b := range sc.Fn.Blocks {
			for _, in := range b.Instrs {
				call, isC := in.(*ssa.Call)
				if !isC || staticCallee(call) != nil || call.Call.IsInvoke() || terminatorThunkCallee(c, call) == nil {
					continue
				}
				dispatch = append(dispatch, topInstr(wScopes, sc, call))
				// every way the asynchronous commit can become the value called
				var walk func(v ssa.Value, at *ssa.BasicBlock, seen map[ssa.Value]bool)
				walk = func(v ssa.Value, at *ssa.BasicBlock, seen map[ssa.Value]bool) {
					v = stripConv(v)
					if seen[v] {
						return
					}
					seen[v] = true
					switch x := v.(type) {
					case *ssa.Phi:
						for i, e := range x.Edges {
							walk(e, x.Block().Preds[i], seen)
						}
					case *ssa.Function:
						if terminatorOf(V, x) == V.CommitUnstable {
							nUnstable++
							ok := notLevel(wScopes, sc, at, fileSync) && notLevel(wScopes, sc, at, dataSync)
							R.Check(ok, id, "NFSPROC3_WRITE|CommitUnstable only when neither FILE_SYNC nor DATA_SYNC", P.Pos(call.Pos()), "the asynchronous commit becomes the function called only where args.Stable is neither FILE_SYNC nor DATA_SYNC", "both guards dominate", "a write requested with stable semantics is acknowledged after an asynchronous commit")
						}
					case *ssa.MakeClosure:
						// a method value bound to the transaction ("commit = op.CommitUnstable")
						if f, isF := x.Fn.(*ssa.Function); isF {
							if tf := terminatorOf(V, f); tf == nil {
								R.Undecided(id, "NFSPROC3_WRITE|commit chosen", P.Pos(call.Pos()), "the function called is a terminator chosen by the stability level", "a closure that is not a bound terminator")
							} else if tf == V.CommitUnstable {
								nUnstable++
								ok := notLevel(wScopes, sc, at, fileSync) && notLevel(wScopes, sc, at, dataSync)
								R.Check(ok, id, "NFSPROC3_WRITE|CommitUnstable only when neither FILE_SYNC nor DATA_SYNC", P.Pos(call.Pos()), "the asynchronous commit becomes the function called only where args.Stable is neither FILE_SYNC nor DATA_SYNC", "both guards dominate", "a write requested with stable semantics is acknowledged after an asynchronous commit")
							}
						}
					case *ssa.Extract:
						lk, isL := x.Tuple.(*ssa.Lookup)
						if !isL {
							R.Undecided(id, "NFSPROC3_WRITE|commit chosen", P.Pos(call.Pos()), "the function called is a terminator chosen by the stability level", "unrecognised source of the function value")
							return
						}
						walk(lk, at, seen)
					case *ssa.Lookup:
						okT := false
						if ld, isLd := stripConv(x.X).(*ssa.UnOp); isLd && ld.Op == token.MUL && isStableLoad(sc.S.resolve(stripConv(x.Index))) {
							if g, isG := ld.X.(*ssa.Global); isG {
								if ents, okc := constTable(P, g); okc {
									okT = true
									// the table serves each level at least as strongly as asked
									for _, e := range ents {
										tf := terminatorOf(V, funcOf(e.val))
										okE := tf != nil && V.Terminators[tf] == "commit"
										switch e.key {
										case fileSync:
											okE = okE && tf == V.Commit
										case dataSync:
											okE = okE && (tf == V.Commit || tf == V.CommitData)
										}
										if tf == V.CommitUnstable {
											nUnstable++
										}
										R.Check(okE, id, fmt.Sprintf("NFSPROC3_WRITE|table entry for level %d", e.key), P.Pos(call.Pos()), "the commit listed for a stability level is at least that strong (FILE_SYNC: Commit; DATA_SYNC: Commit or CommitData)", "entry agrees", "a write requested with stable semantics is acknowledged after a weaker commit")
									}
								}
							}
						}
						if !okT {
							R.Undecided(id, "NFSPROC3_WRITE|commit chosen", P.Pos(call.Pos()), "the function called is looked up by args.Stable in a package-level table that only its initialiser fills", "table or key not recognised")
						}
					default:
						R.Undecided(id, "NFSPROC3_WRITE|commit chosen", P.Pos(call.Pos()), "the function called is a terminator chosen by the stability level", "unrecognised source of the function value")
					}
				}
				walk(call.Call.Value, call.Block(), map[ssa.Value]bool{})
			}
		}
	}
	// the level reported
	nst := 0
	for _, b := range w.Blocks {
		for _, in := range b.Instrs {
			st, ok := in.(*ssa.Store)
			if !ok || fieldPath(st.Addr) == "" || !strings.HasSuffix(fieldPath(st.Addr), "Committed") {
				continue
			}
			nst++
			if isStableLoad(st.Val) {
				// no store to args.Stable between the dispatch and here, except the upgrade that precedes the dispatch
				okNoStore := true
				for _, b2 := range w.Blocks {
					for _, in2 := range b2.Instrs {
						if s2, ok := in2.(*ssa.Store); ok {
							if _, p := paramFieldPath(s2.Addr); p == "Stable" {
								for _, call := range dispatch {
									if reachableFrom(call, in2) && reachableFrom(in2, in) {
										okNoStore = false
									}
								}
							}
						}
					}
				}
				R.Check(okNoStore, id, "NFSPROC3_WRITE|Committed is the dispatched level", P.Pos(in.Pos()), "reply.Committed = args.Stable, the same cell the commit call was selected by, not modified in between", "same cell, no intervening store", "the level reported is changed after the commit was chosen")
			} else if k, isk := constInt(st.Val); isk && k == fileSync {
				sync := NewAlwaysInstr(P, func(in ssa.Instruction) bool {
					cal := staticCallee(in)
					return cal == V.Commit || cal == V.CommitData
				})
				R.Check(MustBefore(w, sync)(in) && nUnstable == 0, id, "NFSPROC3_WRITE|constant FILE_SYNC only after a synchronous commit", P.Pos(in.Pos()), "a constant FILE_SYNC reply is preceded on every path by a synchronous commit", "must-precede", "FILE_SYNC is reported although the commit may have been asynchronous")
			} else {
				R.Fail(id, "NFSPROC3_WRITE|Committed source", P.Pos(in.Pos()), "reply.Committed is args.Stable or a constant justified by the commit performed", "unrecognised source of the reported level")
			}
		}
	}
	if nst == 0 {
		R.Fail(id, "NFSPROC3_WRITE|Committed stored", P.Pos(w.Pos()), "WRITE reports the committed level", "no store to Resok.Committed")
	}
	// U4: upgrade under !Unstable precedes the dispatch
	var upg *ssa.Store
	for _, b := range w.Blocks {
		for _, in := range b.Instrs {
			if st, ok := in.(*ssa.Store); ok {
				if _, p := paramFieldPath(st.Addr); p == "Stable" {
					if k, isk := constInt(st.Val); isk && k == fileSync {
						upg = st
					}
				}
			}
		}
	}
	if upg == nil {
		R.Fail(id, "NFSPROC3_WRITE|upgrade when unstable is disabled", P.Pos(w.Pos()), "args.Stable = FILE_SYNC under !nfs.Unstable", "no such store: with unstable writes disabled, UNSTABLE requests are still committed asynchronously")
	} else {
		g := guardedBy(w, upg.Block(), func(cd Cond) (bool, bool) {
			if cd.Op != token.ILLEGAL {
				return false, false
			}
			n, fl, _, _ := loadedField(cd.X)
			if n == V.Nfs && fl == "Unstable" {
				return true, false
			}
			return false, false
		})
		before := true
		for _, call := range dispatch {
			if !reachableFrom(upg, call) || reachableFrom(call, upg) {
				before = false
			}
		}
		// every path with Unstable == false passes the store before the dispatch:
		// the store block is the sole successor on that edge and rejoins before any commit
		soleEdge := len(upg.Block().Preds) == 1
		R.Check(g && before && soleEdge, id, "NFSPROC3_WRITE|upgrade when unstable is disabled", P.Pos(upg.Pos()), "the upgrade store sits on the Unstable==false edge and precedes every commit call", "guarded, precedes the dispatch", "the upgrade is not applied on every !Unstable path before the dispatch")
	}
}

func ruleU2(c *Ctx, id string) {
	V, P, R := c.V, c.P, c.R
	R.Rule(id, "COMMIT flushes before success: NFSPROC3_COMMIT's success status is set only on the true side of CommitFh, and CommitFh reaches the journal's flush unconditionally on every path", 3)
	cm := c.fn(id, "nfs.(*Nfs).NFSPROC3_COMMIT")
	walFlush := c.fn(id, jrnlPath+"/wal.(*Walog).Flush")
	if cm == nil || walFlush == nil || V.CommitFh == nil {
		return
	}
	R.Analysed[FuncName(cm)] = true
	flush := P.NewAlways(callTo(walFlush))
	flushes := flush.Func(V.CommitFh)
	if e := commitProtocol(c).byFn[V.CommitFh]; !flushes && e != nil {
		// the flush is a journal action handed to a helper as a function literal: explored path by path
		flushes = !e.exceeded && e.reachedDur && !e.noDurPath && !e.noFlushPath
	}
	R.Check(flushes, id, "fstxn.CommitFh|always flushes the log", P.Pos(V.CommitFh.Pos()), "every path of CommitFh reaches wal.Flush (through obj.Log.Flush), independently of whether the committing transaction has dirty buffers", "always-performs summary through obj.Log.Flush", "COMMIT's transaction is read-only, so a commit path that flushes only when there are dirty buffers (jrnl.CommitWait) acknowledges COMMIT without flushing earlier unstable writes")
	calls := P.CallsIn(cm, funcIs(V.CommitFh))
	R.Check(len(calls) == 1, id, "NFSPROC3_COMMIT|calls CommitFh", P.Pos(cm.Pos()), "COMMIT ends its transaction with CommitFh", "one call", "COMMIT does not flush")
	for _, call := range calls {
		cv := call.(*ssa.Call)
		// OK status stores only on the true edge
		for _, b := range cm.Blocks {
			for _, in := range b.Instrs {
				st, ok := in.(*ssa.Store)
				if !ok || !strings.HasSuffix(fieldPath(st.Addr), "Status") {
					continue
				}
				if k, isk := constInt(st.Val); isk && k == 0 {
					tEdge := boolEdge(cm, cv, true)
					dom := false
					for _, pb := range cm.Blocks {
						for _, s := range pb.Succs {
							if tEdge(pb, s) && len(s.Preds) == 1 && s.Dominates(b) {
								dom = true
							}
						}
					}
					R.Check(dom, id, "NFSPROC3_COMMIT|OK only when the flush succeeded", P.Pos(in.Pos()), "NFS3_OK is stored only under CommitFh() == true", "dominated by the true edge", "COMMIT reports success without a successful flush")
				}
			}
		}
	}
	// every success end state of COMMIT ended its transaction through CommitFh: a plain Commit of this
	// read-only transaction does not flush anything (typestate end states)
	t := c.tsPreamble(id)
	nOK, bad := 0, ""
	for _, sn := range t.Snaps {
		if sn.Entry != cm.Name() {
			continue
		}
		if cls, _ := statusClass(sn); cls != "ok" {
			continue
		}
		nOK++
		via := ""
		if len(sn.G.Order) > 0 {
			via = sn.G.Txns[sn.G.Order[len(sn.G.Order)-1]].Via
		}
		if via != V.CommitFh.Name() {
			bad = fmt.Sprintf("a success reply at %s ends its transaction through %q", P.Pos(sn.Ret.Pos()), via)
		}
	}
	R.Check(nOK > 0 && bad == "", id, "NFSPROC3_COMMIT|every success path flushes", P.Pos(cm.Pos()), "every success end state of COMMIT terminated its transaction with CommitFh (the flushing terminator), whatever the arguments", fmt.Sprintf("%d success end states, all through CommitFh", nOK), bad+": COMMIT (e.g. with count 0 = 'to the end of the file') answers OK with the unchanged verifier while earlier unstable writes are still only in memory")
}

func ruleU3(c *Ctx, id string) {
	V, P, R := c.V, c.P, c.R
	R.Rule(id, "write verifier: WRITE and COMMIT store Resok.Verf on their success paths from a field of the Nfs object that is written only during construction, from a source that differs between server instances (time / random)", 2)
	var roots []*ssa.Function
	roots = append(roots, V.NfsEntries...)
	roots = append(roots, goRoots(P)...)
	serving := P.Reach(roots, func(f *ssa.Function) bool { return !IsRepoFunc(f) })
	for _, spec := range []string{"nfs.(*Nfs).NFSPROC3_WRITE", "nfs.(*Nfs).NFSPROC3_COMMIT"} {
		fn := c.fn(id, spec)
		if fn == nil {
			continue
		}
		var vst []*ssa.Store
		for _, b := range fn.Blocks {
			for _, in := range b.Instrs {
				if st, ok := in.(*ssa.Store); ok && strings.HasSuffix(fieldPath(st.Addr), "Resok.Verf") {
					vst = append(vst, st)
				}
			}
		}
		key := fn.Name() + "|"
		if len(vst) == 0 {
			R.Fail(id, key+"Verf assigned", P.Pos(fn.Pos()), "the reply carries a write verifier", "Resok.Verf is never assigned: it is all zeros in every server instance, so a client cannot detect that unstable data was lost by a restart")
			continue
		}
		// every OK-status store is accompanied by a Verf store on the same path
		okAll := true
		for _, b := range fn.Blocks {
			for _, in := range b.Instrs {
				st, ok := in.(*ssa.Store)
				if !ok || !strings.HasSuffix(fieldPath(st.Addr), "Status") || strings.Contains(fieldPath(st.Addr), "Resok") {
					continue
				}
				if k, isk := constInt(st.Val); isk && k == 0 {
					isV := func(x ssa.Instruction) bool {
						s2, ok := x.(*ssa.Store)
						return ok && strings.HasSuffix(fieldPath(s2.Addr), "Resok.Verf")
					}
					if !MustAfter(fn, isV, nil)(in) && !MustBefore(fn, isV)(in) {
						okAll = false
					}
				}
			}
		}
		R.Check(okAll, id, key+"Verf on every success path", P.Pos(vst[0].Pos()), "every path that stores NFS3_OK also stores Resok.Verf", "paired on every path", "a success reply without verifier")
		// provenance
		for i, st := range vst {
			n, fl, _, _ := loadedField(st.Val)
			if n != V.Nfs {
				R.Fail(id, fmt.Sprintf("%sVerf#%d from the server instance", key, i+1), P.Pos(st.Pos()), "the verifier is a field of the Nfs object", "the verifier does not come from per-instance state (constant or per-request value)")
				continue
			}
			okW, src, coarse, stale := true, "", "", ""
			for _, f2 := range P.RepoFuncs("nfs") {
				for _, w := range FieldWrites(f2) {
					if w.Type == V.Nfs && w.Field == fl {
						if serving[f2] {
							okW = false
						}
						if w.Val != nil {
							vals := bwdAll(w.Val)
							// an array filled by a library routine (binary.LittleEndian.PutUint64(verf[:], x), rand.Read(verf[:]))
							// takes its value from that call: follow the call and its arguments
							for v := range bwdAll(w.Val) {
								var arr ssa.Value
								if ld, isL := v.(*ssa.UnOp); isL && ld.Op == token.MUL {
									arr = ld.X
								}
								if _, isA := v.(*ssa.Alloc); isA {
									arr = v
								}
								if arr == nil {
									continue
								}
								for _, r := range refs(arr) {
									sl, isS := r.(*ssa.Slice)
									if !isS {
										continue
									}
									for _, r2 := range refs(sl) {
										cl, isC := r2.(*ssa.Call)
										if !isC {
											continue
										}
										g := staticCallee(cl)
										if g == nil || funcPkg(g) == nil {
											continue
										}
										switch funcPkg(g).Path() {
										case "encoding/binary", "crypto/rand", "math/rand":
											vals[cl] = true
											for _, a := range cl.Call.Args {
												for v2 := range bwdAll(a) {
													vals[v2] = true
												}
											}
										}
									}
								}
							}
							for v := range vals {
								if cl, ok := v.(*ssa.Call); ok {
									if cal := staticCallee(cl); cal != nil && funcPkg(cal) != nil {
										pp := funcPkg(cal).Path()
										// sources fine enough to differ between two instances started in quick succession
										if pp == "time" && cal.Name() == "UnixNano" {
											// the clock must be read for this instance: time.Now() on the way, not a time kept in a
											// package-level variable (one value per process, shared by every instance made in it)
											isNow := func(f *ssa.Function) bool {
												return f != nil && f.Name() == "Now" && funcPkg(f) != nil && funcPkg(f).Path() == "time"
											}
											if okN, nn := derivesOnlyFrom(cl.Call.Args[0], isNow, 0); okN && nn > 0 {
												src = pp + "." + cal.Name()
											} else {
												stale = "time.UnixNano of a value that is not read from the clock here (a package-level variable?)"
											}
										} else if pp == "math/rand" || pp == "crypto/rand" {
											src = pp + "." + cal.Name()
										} else if pp == "time" && (cal.Name() == "Unix" || cal.Name() == "UnixMilli" || cal.Name() == "UnixMicro") {
											coarse = cal.Name()
										}
									}
								}
							}
						}
					}
				}
			}
			// and every instance gets one: the constructor stores the field on every path (also when it finds an
			// existing file system on the disk)
			if ctor := P.Func("nfs.MakeNfs"); ctor != nil {
				field := fl
				isSt := func(in ssa.Instruction) bool {
					st, ok := in.(*ssa.Store)
					if !ok {
						return false
					}
					n2, f2, _ := FieldOf(st.Addr)
					return n2 == V.Nfs && f2 == field
				}
				R.Check(P.NewAlways(isSt).Func(ctor), id, fmt.Sprintf("%sVerf#%d set in every instance", key, i+1), P.Pos(ctor.Pos()), "MakeNfs stores Nfs."+fl+" on every path", "always-performs summary", "a path through MakeNfs (e.g. recovery of an existing file system) leaves the verifier zero: every restarted instance announces the same verifier and a client cannot detect that its unstable data was lost")
			}
			R.Check(okW && src != "" && coarse == "" && stale == "", id, fmt.Sprintf("%sVerf#%d per-instance provenance", key, i+1), P.Pos(st.Pos()), "Nfs."+fl+" is written only during construction, from a nanosecond clock or a random source", "constructor-only writer; source "+src, "the verifier is the same in every instance, changes while serving, or comes from a coarse clock (time."+coarse+"): two instances started in quick succession share it and a client cannot detect lost unstable data")
		}
	}
}

// bwdAll: backward closure through all value-producing instructions (bounded).
func bwdAll(v ssa.Value) map[ssa.Value]bool {
	seen := map[ssa.Value]bool{}
	var walk func(v ssa.Value, d int)
	walk = func(v ssa.Value, d int) {
		if v == nil || seen[v] || d > 20 {
			return
		}
		seen[v] = true
		if in, ok := v.(ssa.Instruction); ok {
			for _, op := range in.Operands(nil) {
				if *op != nil {
					walk(*op, d+1)
				}
			}
		}
		// results of go-nfsd helpers: look into what they return
		if cl, ok := v.(*ssa.Call); ok {
			if cal := staticCallee(cl); cal != nil && IsRepoFunc(cal) && d < 12 {
				for _, b := range cal.Blocks {
					if r, ok := b.Instrs[len(b.Instrs)-1].(*ssa.Return); ok {
						for _, res := range r.Results {
							walk(res, d+4)
						}
					}
				}
			}
		}
		// loads from local cells: follow the stores into the cell
		if u, ok := v.(*ssa.UnOp); ok && u.Op == token.MUL {
			root := u.X
			for {
				if ia, ok := root.(*ssa.IndexAddr); ok {
					root = ia.X
					continue
				}
				if fa, ok := root.(*ssa.FieldAddr); ok {
					root = fa.X
					continue
				}
				break
			}
			if al, ok := root.(*ssa.Alloc); ok {
				for _, r := range refs(al) {
					walk(valueOf(r), d+1)
				}
			}
		}
		if al, ok := v.(*ssa.Alloc); ok {
			for _, r := range refs(al) {
				switch x := r.(type) {
				case *ssa.Store:
					walk(x.Val, d+1)
				case *ssa.IndexAddr:
					for _, r2 := range refs(x) {
						if st, ok := r2.(*ssa.Store); ok {
							walk(st.Val, d+1)
						}
					}
				case *ssa.FieldAddr:
					for _, r2 := range refs(x) {
						if st, ok := r2.(*ssa.Store); ok {
							walk(st.Val, d+1)
						}
					}
				}
			}
		}
	}
	walk(v, 0)
	return seen
}

func valueOf(in ssa.Instruction) ssa.Value {
	if st, ok := in.(*ssa.Store); ok {
		return st.Val
	}
	if v, ok := in.(ssa.Value); ok {
		return v
	}
	return nil
}

type tableEntry struct {
	key int64
	val ssa.Value
}

func funcOf(v ssa.Value) *ssa.Function {
	switch x := stripConv(v).(type) {
	case *ssa.Function:
		return x
	case *ssa.MakeClosure:
		f, _ := x.Fn.(*ssa.Function)
		return f
	}
	return nil
}

// constTable: g is a package-level map with constant integer keys that is
// built by the package initialiser and never stored to or updated afterwards.
func constTable(P *Program, g *ssa.Global) ([]tableEntry, bool) {
	if g.Pkg == nil {
		return nil, false
	}
	init := g.Pkg.Func("init")
	if init == nil {
		return nil, false
	}
	var mk ssa.Value
	nStore := 0
	for _, b := range init.Blocks {
		for _, in := range b.Instrs {
			if st, ok := in.(*ssa.Store); ok && st.Addr == ssa.Value(g) {
				nStore++
				mk = st.Val
			}
		}
	}
	if nStore != 1 {
		return nil, false
	}
	if _, isM := mk.(*ssa.MakeMap); !isM {
		return nil, false
	}
	var out []tableEntry
	for _, b := range init.Blocks {
		for _, in := range b.Instrs {
			if mu, ok := in.(*ssa.MapUpdate); ok && mu.Map == mk {
				k, isk := constInt(stripConv(mu.Key))
				if !isk {
					return nil, false
				}
				out = append(out, tableEntry{k, mu.Value})
			}
		}
	}
	// nobody else writes it
	for _, fn := range P.RepoFuncs() {
		for _, b := range fn.Blocks {
			for _, in := range b.Instrs {
				switch x := in.(type) {
				case *ssa.Store:
					if x.Addr == ssa.Value(g) {
						return nil, false
					}
				case *ssa.MapUpdate:
					if ld, ok := stripConv(x.Map).(*ssa.UnOp); ok && ld.Op == token.MUL && ld.X == ssa.Value(g) {
						return nil, false
					}
				case *ssa.Call:
					for _, a := range x.Call.Args {
						if a == ssa.Value(g) {
							return nil, false // its address is handed out
						}
						if ld, ok := stripConv(a).(*ssa.UnOp); ok && ld.Op == token.MUL && ld.X == ssa.Value(g) {
							if bi, isB := x.Call.Value.(*ssa.Builtin); !isB || (bi.Name() != "len") {
								return nil, false // the map itself is handed to someone who may update it
							}
						}
					}
				}
			}
		}
	}
	return out, true
}

// funcValueUsers: the instructions (outside package initialisers) that mention
// function f as a value, or that read a package-level variable whose
// initialiser mentions it.
func funcValueUsers(P *Program, f *ssa.Function) []ssa.Instruction {
	var out []ssa.Instruction
	globals := map[*ssa.Global]bool{}
	mentions := func(in ssa.Instruction) bool {
		for _, op := range in.Operands(nil) {
			if *op == ssa.Value(f) {
				return true
			}
		}
		return false
	}
	var all []*ssa.Function
	all = append(all, P.RepoFuncs()...)
	for _, pkg := range P.Prog.AllPackages() {
		if pkg.Pkg != nil && strings.HasPrefix(pkg.Pkg.Path(), modPath) {
			if ini := pkg.Func("init"); ini != nil {
				all = append(all, ini)
			}
		}
	}
	for _, fn := range all {
		isInit := fn.Name() == "init" && fn.Synthetic != ""
		for _, b := range fn.Blocks {
			for _, in := range b.Instrs {
				if !mentions(in) {
					continue
				}
				if !isInit {
					out = append(out, in)
					continue
				}
				// put in a table by the initialiser: every package-level variable stored in this initialiser
				for _, b2 := range fn.Blocks {
					for _, in2 := range b2.Instrs {
						if st, ok := in2.(*ssa.Store); ok {
							if g, isG := st.Addr.(*ssa.Global); isG {
								if mu, isMU := in.(*ssa.MapUpdate); isMU && st.Val == mu.Map {
									globals[g] = true
								}
							}
						}
					}
				}
			}
		}
	}
	if len(globals) > 0 {
		for _, fn := range P.RepoFuncs() {
			for _, b := range fn.Blocks {
				for _, in := range b.Instrs {
					for _, op := range in.Operands(nil) {
						if g, isG := (*op).(*ssa.Global); isG && globals[g] {
							out = append(out, in)
						}
					}
				}
			}
		}
	}
	return out
}

// ruleU7: an UNSTABLE write is "readable immediately" only if its transaction
// was accepted by the journal: CommitUnstable answers false when the journal
// refuses the transaction, and the transaction is then undone.  WRITE must not
// acknowledge such a write.  (C01.R1 leaves the asynchronous arm to C07.)
func ruleU7(c *Ctx, id string) {
	R, P := c.R, c.P
	R.Rule(id, "an unstable write is acknowledged only if its commit was accepted: on every path of WRITE that returns a success status after CommitUnstable, the result of that call was tested and is true", 1)
	t := c.tsPreamble(id)
	type agg struct {
		ok  bool
		why string
		pos string
		n   int
	}
	res := map[string]*agg{}
	for _, sn := range t.Snaps {
		if !isProc(c, sn.Entry) || len(sn.G.Order) == 0 {
			continue
		}
		last := sn.G.Order[len(sn.G.Order)-1]
		ts := sn.G.Txns[last]
		if ts.St != "committed" || ts.Via != "CommitUnstable" {
			continue
		}
		cls, sv := statusClass(sn)
		if cls != "ok" && cls != "?" {
			continue
		}
		key := fmt.Sprintf("%s|return#%d|unstable commit accepted", sn.Entry, retOrdinal(sn.Ret))
		a := res[key]
		if a == nil {
			a = &agg{ok: true, pos: P.Pos(sn.Ret.Pos())}
			res[key] = a
		}
		a.n++
		switch {
		case cls == "?":
			a.ok, a.why = false, "status value "+sv+" cannot be classified"
		case ts.CommitRes != "true":
			a.ok, a.why = false, "success status on a path where the result of CommitUnstable is "+ts.CommitRes
		}
	}
	var keys []string
	for k := range res {
		keys = append(keys, k)
	}
	sort.Strings(keys)
	for _, k := range keys {
		a := res[k]
		R.Check(a.ok, id, k, a.pos, "success after an asynchronous commit only when the journal accepted it", fmt.Sprintf("%d abstract end states, all with the result tested true", a.n), a.why+": the journal refused the transaction (it was undone), yet the client is told its data was written - it is not readable, and a later COMMIT succeeds")
	}
}

// ruleU8: the dispatch of WRITE compares the level by name; a client asks for
// it by number.  The names must have the numbers of RFC 1813 (stable_how:
// UNSTABLE = 0, DATA_SYNC = 1, FILE_SYNC = 2), or a level asked for on the wire
// is served - and reported back - as another one.  (C16.X2 compares every
// constant with the RFC text; this is the part C07 rests on.)
func ruleU8(c *Ctx, id string) {
	P, R := c.P, c.R
	R.Rule(id, "the stability levels have their wire values: UNSTABLE = 0, DATA_SYNC = 1, FILE_SYNC = 2", 3)
	pk := P.Pkg("nfstypes")
	if pk == nil {
		R.Unresolved(id, "nfstypes")
		return
	}
	for name, want := range map[string]int64{"UNSTABLE": 0, "DATA_SYNC": 1, "FILE_SYNC": 2} {
		o := pk.Types.Scope().Lookup(name)
		if o == nil {
			R.Fail(id, "nfstypes."+name, "?", "the constant exists", "no such constant")
			continue
		}
		k, ok := constValInt(o)
		R.Check(ok && k == want, id, "nfstypes."+name, P.Pos(o.Pos()), fmt.Sprintf("%s = %d as in RFC 1813", name, want), fmt.Sprintf("value %d", k), fmt.Sprintf("%s has the value %d: a write asked for with stable = %d on the wire is committed - and acknowledged - at another level than the client asked for", name, k, want))
	}
}

// ruleU10: a client detects the loss of unstable data by comparing verifiers;
// two server instances must not share one.  U3 decides where the verifier comes
// from (the nanosecond clock, or a random source); this rule decides that the
// bytes keep what the source gives: byte i of the verifier is a window of the
// source value selected by a shift that depends on i.  Arithmetic on the way
// (byte(now>>8 * i) for byte(now >> (8*i))) makes every byte a function of the
// same eight bits: 256 possible verifiers, one restart in 256 undetectable.
// Recognised: verf[i] = byte(src >> (8*i)) in any spelling of 8*i; the loop that
// shifts the value down by 8 per byte; unrolled stores with distinct constant
// shifts; the array filled by encoding/binary or a random source.
func ruleU10(c *Ctx, id string) {
	P, R := c.P, c.R
	R.Rule(id, "the verifier keeps the resolution of its source: every byte stored into a Writeverf3 in package nfs is a window of the source value selected by a shift that depends on the byte's index (or the array is filled by encoding/binary / a random source)", 1)
	vt := P.Named("nfstypes", "Writeverf3")
	if vt == nil {
		R.Unresolved(id, "nfstypes.Writeverf3")
		return
	}
	isVerfArr := func(v ssa.Value) bool {
		t := v.Type()
		if p, ok := t.Underlying().(*types.Pointer); ok {
			t = p.Elem()
		}
		n, _ := t.(*types.Named)
		return n == vt
	}
	n := 0
	for _, fn := range P.RepoFuncs("nfs") {
		type byteStore struct {
			st  *ssa.Store
			idx ssa.Value
		}
		var stores []byteStore
		filledBy := ""
		for _, b := range fn.Blocks {
			for _, in := range b.Instrs {
				if st, ok := in.(*ssa.Store); ok {
					if ia, ok := st.Addr.(*ssa.IndexAddr); ok && isVerfArr(ia.X) {
						stores = append(stores, byteStore{st, ia.Index})
					}
				}
				if call, ok := in.(*ssa.Call); ok {
					for _, a := range call.Call.Args {
						if sl, ok := stripConv(a).(*ssa.Slice); ok && isVerfArr(sl.X) {
							if g := staticCallee(call); g != nil && funcPkg(g) != nil {
								switch funcPkg(g).Path() {
								case "encoding/binary", "crypto/rand", "math/rand":
									filledBy = funcPkg(g).Path() + "." + g.Name()
								}
							}
						}
					}
				}
			}
		}
		if filledBy != "" {
			n++
			R.Analysed[FuncName(fn)] = true
			R.Pass(id, FuncName(fn)+"|verifier filled by a library routine", P.Pos(fn.Pos()), "the whole array is written by "+filledBy, filledBy)
		}
		// the index-dependent shift
		dependsOn := func(v, idx ssa.Value) bool {
			for x := range bwdAll(v) {
				if x == idx || stripConv(x) == stripConv(idx) {
					return true
				}
			}
			return false
		}
		constShifts := map[int64]bool{}
		for i, bs := range stores {
			n++
			R.Analysed[FuncName(fn)] = true
			key := fmt.Sprintf("%s|verifier byte store#%d", FuncName(fn), i+1)
			v := stripConv(bs.st.Val)
			ok, why := false, ""
			switch x := v.(type) {
			case *ssa.BinOp:
				if x.Op == token.SHR {
					if k, isk := constInt(x.Y); isk {
						// an unrolled store: distinct multiples of 8
						if k%8 == 0 && !constShifts[k] {
							constShifts[k] = true
							ok = true
						} else {
							why = fmt.Sprintf("shift by the constant %d (not a fresh multiple of 8)", k)
						}
					} else if dependsOn(x.Y, bs.idx) {
						ok = true
						// ... for every byte: the index runs from 0 to the length of the array, and the store lies on the
						// side of the loop test where the index is below it
						alen := int64(-1)
						if at, isA := vt.Underlying().(*types.Array); isA {
							alen = at.Len()
						}
						covers := false
						if ph, isP := stripConv(bs.idx).(*ssa.Phi); isP {
							init0, step1 := false, false
							for _, e := range ph.Edges {
								if k, isk := constInt(e); isk && k == 0 {
									init0 = true
								}
								if bo, isB := stripConv(e).(*ssa.BinOp); isB && bo.Op == token.ADD && stripConv(bo.X) == ssa.Value(ph) {
									if k, isk := constInt(bo.Y); isk && k == 1 {
										step1 = true
									}
								}
							}
							for _, br := range branches(fn) {
								if br.Cond.X == nil || br.Cond.Y == nil {
									continue
								}
								op, a, b := br.Cond.Op, br.Cond.X, br.Cond.Y
								if stripConv(b) == ssa.Value(ph) {
									op, a, b = flipOp(op), b, a
								}
								k, isk := constIntDeep(b)
								if stripConv(a) != ssa.Value(ph) || !isk {
									continue
								}
								side := br.True
								if op == token.GEQ {
									side = br.False
								}
								if (op == token.LSS || op == token.GEQ) && k == alen && (side == bs.st.Block() || side.Dominates(bs.st.Block())) {
									covers = init0 && step1
								}
							}
						}
						// "for i := range verf": go/ssa's rotated form - the index is <counter>+1, the counter starts at -1
						if inc, isB := stripConv(bs.idx).(*ssa.BinOp); isB && !covers && inc.Op == token.ADD {
							if ph, isP := stripConv(inc.X).(*ssa.Phi); isP {
								one, isk1 := constInt(inc.Y)
								initM1, back := false, false
								for _, e := range ph.Edges {
									if k, isk := constInt(e); isk && k == -1 {
										initM1 = true
									}
									if e == ssa.Value(inc) {
										back = true
									}
								}
								for _, br := range branches(fn) {
									if br.Cond.X == nil || br.Cond.Y == nil || stripConv(br.Cond.X) != ssa.Value(inc) || br.Cond.Op != token.LSS {
										continue
									}
									if k, isk := constIntDeep(br.Cond.Y); isk && k == alen && (br.True == bs.st.Block() || br.True.Dominates(bs.st.Block())) {
										covers = isk1 && one == 1 && initM1 && back
									}
								}
							}
						}
						if !covers {
							ok = false
							why = fmt.Sprintf("the loop does not store all %d bytes (index from 0, step 1, while index < %d)", alen, alen)
						}
					} else {
						why = "the shift amount does not depend on the byte's index"
					}
				} else {
					why = fmt.Sprintf("the byte is the result of %s, not of a shift of the source: every byte depends on the same low bits", x.Op)
				}
			case *ssa.Phi:
				// now >>= 8 per round
				for _, e := range x.Edges {
					if bo, isB := stripConv(e).(*ssa.BinOp); isB && bo.Op == token.SHR && stripConv(bo.X) == ssa.Value(x) {
						if k, isk := constInt(bo.Y); isk && k == 8 {
							ok = true
						}
					}
				}
				if !ok {
					why = "loop-carried value that is not shifted down by 8 per byte"
				}
			default:
				if k, isk := constInt(bs.idx); isk && k == 0 && !constShifts[0] {
					// verf[0] = byte(src)
					constShifts[0] = true
					ok = true
				} else {
					why = "unrecognised form " + symOf(fn, v)
				}
			}
			if ok {
				R.Pass(id, key, P.Pos(bs.st.Pos()), "the byte is a window of the source selected by its index", symOf(fn, v))
			} else if strings.HasPrefix(why, "unrecognised") {
				R.Undecided(id, key, P.Pos(bs.st.Pos()), "the byte is a window of the source selected by its index", why)
			} else {
				R.Fail(id, key, P.Pos(bs.st.Pos()), "the byte is a window of the source selected by its index", why+": the verifier takes far fewer values than its source - two server instances share one with noticeable probability, and a client that wrote UNSTABLE before the restart sees its COMMIT succeed with a matching verifier although the data is gone")
			}
		}
	}
	if n == 0 {
		R.Undecided(id, "nfs|verifier bytes", "?", "the code that fills the verifier is found", "no byte store into a Writeverf3 and no library fill found in package nfs")
	}
}
