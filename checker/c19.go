package main

import (
	"fmt"
	"go/ast"
	"go/token"
	"go/types"
	"sort"
	"strings"

	"golang.org/x/tools/go/ssa"
)

func init() {
	props["C19"] = func(c *Ctx) {
		c.R.Expl = "Each advertised limit equals the largest value its enforcement predicate accepts, and every path that sets the quantity is under such a predicate: (M1) PATHCONF name_max vs. the length tests of AddName/RemName and the 128-byte entry; (M2) FSINFO wtmax vs. the count test of WRITE; (M3) every store to the file size reachable from a handler is dominated by a comparison with MaxFileSize(), the value advertised as maxfilesize; (M4) refusals abort (C09.A1)."
		c.R.NotDec = "that requests at the limit behave normally end to end (e.g. whether a write of wtmax bytes fits the journal is arithmetic on journal occupancy)."
		ruleM1(c, "C19.M1")
		ruleM2(c, "C19.M2")
		ruleM3(c, "C19.M3")
		ruleA1(c, "C19.M4")
		ruleW2(c, "C19.M5")
		ruleM6(c, "C19.M6")
		ruleM7(c, "C19.M7")
		ruleV3(c, "C19.M8")
		ruleM9(c, "C19.M9")
		// what the server announces must get past the decoder
		ruleXdrBounds(c, "C19.M10", "args")
		// a request within the announced limits is carried out in full: the allocating primitives say "none"
		// only when the allocator has none
		ruleAllocRefusal(c, "C19.M11")
		// a name of every admitted length (0..name_max) comes back from the directory as it went in
		ruleW3(c, "C19.M12")
	}
}

// ruleAllocRefusal: AllocBlock and AllocINum hand on what the in-memory
// allocator answered.  A "safety net" that answers "no block" for another
// reason (the log is getting full, a quota) turns a request that the announced
// limits admit into a short write that is reported as a success, or into
// NOSPC on a disk with free space: wtmax already sets the log room aside.
func ruleAllocRefusal(c *Ctx, id string) {
	V, P, R := c.V, c.P, c.R
	R.Rule(id, "allocation is refused only when the allocator refuses: every value AllocBlock / AllocINum return is the number alloc.AllocNum answered; a constant 'none' is returned only on the side where that answer was 0", 2)
	for _, f := range []*ssa.Function{V.AllocBlock, V.AllocINum} {
		if f == nil || V.AllocNum == nil {
			continue
		}
		R.Analysed[FuncName(f)] = true
		var anum []ssa.Value
		for _, sc := range scopesOf(f) {
			for _, ci := range P.CallsIn(sc.Fn, funcIs(V.AllocNum)) {
				if v, ok := ci.(ssa.Value); ok {
					anum = append(anum, v)
				}
			}
		}
		fromAlloc := func(v ssa.Value) bool {
			for s := range bwdAll(v) {
				for _, a := range anum {
					if s == a {
						return true
					}
				}
			}
			return false
		}
		ok, why, n := true, "", 0
		for _, rs := range returnSources(f, 0) {
			n++
			v := stripConv(rs.Val)
			if k, isk := constInt(v); isk {
				g := k == 0 && guardedBy(f, rs.From, func(cd Cond) (bool, bool) {
					if cd.Y == nil {
						return false, false
					}
					x, y, op := stripConv(cd.X), stripConv(cd.Y), cd.Op
					if _, isC := x.(*ssa.Const); isC {
						x, y = y, x
					}
					kk, isk2 := constInt(y)
					if !isk2 || kk != 0 || !fromAlloc(x) {
						return false, false
					}
					switch op {
					case token.EQL:
						return true, true
					case token.NEQ:
						return true, false
					}
					return false, false
				})
				if !g {
					ok, why = false, fmt.Sprintf("the constant %d is returned on a path where the allocator was not asked or had answered a number", k)
				}
				continue
			}
			if !fromAlloc(v) {
				ok, why = false, "a value that is not the allocator's answer is returned"
			}
		}
		R.Check(ok && n > 0 && len(anum) > 0, id, FuncName(f)+"|answers what the allocator answered", P.Pos(f.Pos()), "every result is alloc.AllocNum's answer (0 = none only when the allocator said so)", fmt.Sprintf("%d return sources, %d allocator calls", n, len(anum)), why+": a request within the announced limits gets 'no space' (or a short write reported as OK) although the disk has room")
	}
}

// acceptsUpTo: fn rejects (returns a failing constant) when <quantity> OP K;
// returns the largest accepted value.
func acceptedMax(op token.Token, k int64) (int64, bool) {
	switch op {
	case token.GEQ: // q >= k rejected
		return k - 1, true
	case token.GTR:
		return k, true
	}
	return 0, false
}

func storedConst(fn *ssa.Function, suffix string) (int64, token.Pos, ssa.Value, bool) {
	// the handler itself, or a function literal written inside it (the body handed to a "with the inode locked" helper)
	for _, f := range lexicalFamily(fn) {
		for _, b := range f.Blocks {
			for _, in := range b.Instrs {
				if st, ok := in.(*ssa.Store); ok && strings.HasSuffix(fieldPath(st.Addr), suffix) {
					k, isk := constIntDeep(st.Val)
					return k, st.Pos(), st.Val, isk
				}
			}
		}
	}
	return 0, token.NoPos, nil, false
}

func ruleM1(c *Ctx, id string) {
	P, R := c.P, c.R
	R.Rule(id, "name length: PATHCONF.Name_max equals the largest length AddName and RemName accept, and 16 + that length fits the directory entry", 3)
	pc := c.fn(id, "nfs.(*Nfs).NFSPROC3_PATHCONF")
	if pc == nil {
		return
	}
	adv, pos, _, ok := storedConst(pc, "Name_max")
	if !ok {
		R.Undecided(id, "PATHCONF|Name_max", P.Pos(pc.Pos()), "Name_max is a constant", "not a constant store")
		return
	}
	direntsz := constOfPkg(P, "dir", "DIRENTSZ")
	R.Check(16+adv <= direntsz, id, "PATHCONF|advertised name fits the entry", P.Pos(pos), fmt.Sprintf("16 + name_max(%d) <= DIRENTSZ(%d)", adv, direntsz), "constant arithmetic", "a name of the advertised length cannot be stored")
	for _, spec := range []string{"dir.AddName", "dir.RemName"} {
		fn := c.fn(id, spec)
		if fn == nil {
			continue
		}
		R.Analysed[FuncName(fn)] = true
		found := false
		for _, br := range branches(fn) {
			if br.Cond.X == nil || br.Cond.Y == nil {
				continue
			}
			cl, isC := stripConv(br.Cond.X).(*ssa.Call)
			if !isC {
				continue
			}
			bi, isB := cl.Call.Value.(*ssa.Builtin)
			if !isB || bi.Name() != "len" {
				continue
			}
			k, isk := constIntDeep(br.Cond.Y)
			if !isk {
				continue
			}
			// read the test as "rejects when ...": the side that goes straight to 'return false' is the refusing one
			rop := br.Cond.Op
			if tR, fR := straightToFalse(br.True), straightToFalse(br.False); fR && !tR {
				rop = negOp(rop) // "if len <= MAX { go on } else { refuse }" refuses len > MAX
			}
			mx, okm := acceptedMax(rop, k)
			if !okm {
				continue
			}
			found = true
			// the side that refuses must say so: a length test whose "too long" side answers true accepts every name
			refusing := br.True
			if rop != br.Cond.Op {
				refusing = br.False
			}
			if straightToBool(refusing, true) {
				R.Fail(id, spec+"|the length test refuses", P.Pos(br.Block.Instrs[len(br.Block.Instrs)-1].Pos()), "the side of the length test on which the name is too long answers false", fmt.Sprintf("the side len %s %d answers true: a name longer than name_max (%d) is reported as stored (removed) although nothing was written", rop, k, adv))
			}
			R.Check(mx == adv, id, spec+"|accepts names up to the advertised length", P.Pos(br.Block.Instrs[len(br.Block.Instrs)-1].Pos()), fmt.Sprintf("the length test accepts exactly len <= name_max (%d)", adv), fmt.Sprintf("rejects len %s %d", br.Cond.Op, k), fmt.Sprintf("rejects len %s %d, i.e. accepts up to %d, but PATHCONF advertises %d: a name of the advertised length is refused (or a longer one accepted)", br.Cond.Op, k, mx, adv))
		}
		if !found {
			R.Fail(id, spec+"|length test", P.Pos(fn.Pos()), "the function bounds the name length", "no length test: names longer than the entry are encoded")
		}
	}
	// every other comparison with the named limit treats it as inclusive, too (decoders, clamps, callers)
	var maxObj types.Object
	if dp := P.Pkg("dir"); dp != nil && dp.Types != nil {
		maxObj = dp.Types.Scope().Lookup("MAXNAMELEN")
	}
	if maxObj == nil {
		return
	}
	for _, pk := range P.Pkgs {
		if pk.TypesInfo == nil {
			continue
		}
		for _, file := range pk.Syntax {
			if strings.HasSuffix(P.Fset.Position(file.Pos()).Filename, "_test.go") {
				continue
			}
			var encl string
			ast.Inspect(file, func(nd ast.Node) bool {
				if fd, ok := nd.(*ast.FuncDecl); ok {
					encl = fd.Name.Name
				}
				be, ok := nd.(*ast.BinaryExpr)
				if !ok {
					return true
				}
				isMax := func(e ast.Expr) bool {
					for {
						if p, ok := e.(*ast.ParenExpr); ok {
							e = p.X
							continue
						}
						if cl, ok := e.(*ast.CallExpr); ok && len(cl.Args) == 1 {
							if tv, ok := pk.TypesInfo.Types[cl.Fun]; ok && tv.IsType() {
								e = cl.Args[0]
								continue
							}
						}
						break
					}
					switch x := e.(type) {
					case *ast.Ident:
						return pk.TypesInfo.Uses[x] == maxObj
					case *ast.SelectorExpr:
						return pk.TypesInfo.Uses[x.Sel] == maxObj
					}
					return false
				}
				op := be.Op
				other := be.X
				switch {
				case isMax(be.Y):
				case isMax(be.X):
					op = flipOp(op)
					other = be.Y
				default:
					return true
				}
				// only comparisons of a length: len(x), or a variable assigned from a decoded integer (GetInt)
				isLen := func(e ast.Expr) bool {
					for {
						if p, ok := e.(*ast.ParenExpr); ok {
							e = p.X
							continue
						}
						if cl, ok := e.(*ast.CallExpr); ok && len(cl.Args) == 1 {
							if tv, ok := pk.TypesInfo.Types[cl.Fun]; ok && tv.IsType() {
								e = cl.Args[0]
								continue
							}
							if id, ok := cl.Fun.(*ast.Ident); ok && id.Name == "len" {
								return true
							}
						}
						break
					}
					id, ok := e.(*ast.Ident)
					if !ok {
						return false
					}
					obj := pk.TypesInfo.ObjectOf(id)
					found := false
					isGetInt := func(e ast.Expr) bool {
						if cl, ok := e.(*ast.CallExpr); ok {
							if se, ok := cl.Fun.(*ast.SelectorExpr); ok && se.Sel.Name == "GetInt" {
								return true
							}
						}
						return false
					}
					ast.Inspect(file, func(n2 ast.Node) bool {
						if vs, ok := n2.(*ast.ValueSpec); ok && len(vs.Names) == len(vs.Values) {
							for i, nm := range vs.Names {
								if pk.TypesInfo.ObjectOf(nm) == obj && isGetInt(vs.Values[i]) {
									found = true
								}
							}
							return true
						}
						as, ok := n2.(*ast.AssignStmt)
						if !ok || len(as.Lhs) != len(as.Rhs) {
							return true
						}
						for i, l := range as.Lhs {
							li, ok := l.(*ast.Ident)
							if !ok || pk.TypesInfo.ObjectOf(li) != obj {
								continue
							}
							if cl, ok := as.Rhs[i].(*ast.CallExpr); ok {
								if se, ok := cl.Fun.(*ast.SelectorExpr); ok && se.Sel.Name == "GetInt" {
									found = true
								}
							}
						}
						return true
					})
					return found
				}
				if !isLen(other) {
					return true
				}
				switch op {
				case token.GTR, token.LEQ, token.EQL, token.NEQ:
					R.Pass(id, relPkgPath(pk.PkgPath)+"."+encl+"|MAXNAMELEN inclusive", P.Pos(be.Pos()), "a length is compared with the limit as len > MAXNAMELEN / len <= MAXNAMELEN", "inclusive")
				case token.GEQ, token.LSS:
					R.Fail(id, relPkgPath(pk.PkgPath)+"."+encl+"|MAXNAMELEN inclusive", P.Pos(be.Pos()), "a length is compared with the limit as len > MAXNAMELEN / len <= MAXNAMELEN", fmt.Sprintf("the comparison is 'x %s MAXNAMELEN': the advertised maximum itself is treated as too long here (a name of exactly name_max bytes is cut or refused on this path)", op))
				}
				return true
			})
		}
	}
}

func relPkgPath(p string) string {
	return strings.TrimPrefix(strings.TrimPrefix(p, modPath), "/")
}

func ruleM2(c *Ctx, id string) {
	P, R := c.P, c.R
	R.Rule(id, "transfer size: FSINFO.Wtmax equals the largest Count that NFSPROC3_WRITE accepts", 1)
	fi := c.fn(id, "nfs.(*Nfs).NFSPROC3_FSINFO")
	w := c.fn(id, "nfs.(*Nfs).NFSPROC3_WRITE")
	if fi == nil || w == nil {
		return
	}
	adv, pos, _, ok := storedConst(fi, "Wtmax")
	if !ok {
		R.Undecided(id, "FSINFO|Wtmax", P.Pos(fi.Pos()), "Wtmax is a constant", "not a constant store")
		return
	}
	found := false
	var wBranches []Branch
	for _, sc := range scopesOf(w) {
		wBranches = append(wBranches, branches(sc.Fn)...)
	}
	for _, br := range wBranches {
		if br.Cond.X == nil || br.Cond.Y == nil {
			continue
		}
		if _, path := paramFieldPath(br.Cond.X); path != "Count" {
			continue
		}
		k, isk := constIntDeep(br.Cond.Y)
		if !isk {
			continue
		}
		mx, okm := acceptedMax(br.Cond.Op, k)
		if !okm {
			continue
		}
		found = true
		R.Check(mx == adv, id, "NFSPROC3_WRITE|accepts counts up to the advertised wtmax", P.Pos(pos), fmt.Sprintf("WRITE accepts exactly Count <= wtmax (%d)", adv), "agrees", fmt.Sprintf("WRITE rejects Count %s %d (accepts up to %d) but FSINFO advertises wtmax = %d: a write of the advertised maximum is refused", br.Cond.Op, k, mx, adv))
	}
	if !found {
		R.Fail(id, "NFSPROC3_WRITE|count test", P.Pos(w.Pos()), "WRITE bounds its count", "no comparison of args.Count with a constant")
	}
	// a write of wtmax bytes must fit in the log together with what it dirties besides its data: one more data block
	// when the range is not block-aligned, the inode's block, up to three index blocks (the indirect block, or the
	// doubly indirect root with two second-level blocks when the range crosses from one into the next), and two blocks
	// of the block bitmap (the allocations may straddle a bitmap-block boundary): 7 blocks
	if lb := constOfPkg(P, jrnlPath+"/jrnl", "LogBlocks"); lb > 0 {
		const overhead = 7
		blocks := (adv + 4095) / 4096
		R.Check(blocks+overhead <= lb, id, "FSINFO|a write of wtmax fits in the log", P.Pos(pos), fmt.Sprintf("wtmax is %d blocks; with the %d blocks of meta-data one WRITE can dirty that is at most the %d blocks of the log", blocks, overhead, lb), "wtmax/4096 + 7 <= LogBlocks", fmt.Sprintf("wtmax = %d blocks leaves only %d of the %d log blocks for the inode, index and bitmap blocks and the unaligned extra block (7 in the worst case): an unaligned write of the announced size that crosses an index block and a bitmap-block boundary is refused by the journal (SERVERFAULT), and the refused commit makes the next COMMIT unsound", blocks, lb-blocks, lb))
	}
	// the quantity that was bounded is the quantity written
	if c.V.InodeWrite != nil {
		var wcalls []ssa.Instruction
		for _, sc := range scopesOf(w) {
			wcalls = append(wcalls, P.CallsIn(sc.Fn, funcIs(c.V.InodeWrite))...)
		}
		for _, call := range wcalls {
			cnt := argN(call, 2) // Write(atxn, offset, count, data): receiver is operand 0 of the call's args
			if cc := callCommon(call); cc != nil && len(cc.Args) >= 5 {
				cnt = cc.Args[3]
			}
			isCount := false
			v := cnt
			for {
				if _, path := paramFieldPath(v); path == "Count" {
					isCount = true
					break
				}
				if cv, ok := v.(*ssa.Convert); ok {
					v = cv.X
					continue
				}
				break
			}
			R.Check(isCount, id, "NFSPROC3_WRITE|writes the bounded count", P.Pos(call.Pos()), "the byte count handed to Inode.Write is the request's Count, the field the wtmax test bounds", "args.Count", "the limit is tested on one quantity (Count) and another one is written (e.g. len(Data)): a request with a small count and a large opaque body writes more than wtmax")
		}
	}
}

func ruleM3(c *Ctx, id string) {
	V, P, R := c.V, c.P, c.R
	R.Rule(id, "file size: every store to Inode.Size reachable from a handler is dominated (in the function or in every caller) by a comparison of the new size with inode.MaxFileSize(), which is also the value advertised as FSINFO.Maxfilesize", 3)
	maxfs := c.fn(id, "inode.MaxFileSize")
	fi := c.fn(id, "nfs.(*Nfs).NFSPROC3_FSINFO")
	if maxfs == nil || fi == nil {
		return
	}
	_, pos, val, _ := storedConst(fi, "Maxfilesize")
	advOK := false
	if val != nil {
		if cl, ok := stripConv(val).(*ssa.Call); ok && staticCallee(cl) == maxfs {
			advOK = true
		}
	}
	R.Check(advOK, id, "FSINFO|Maxfilesize is MaxFileSize()", P.Pos(pos), "the advertised maximum is the function the enforcement compares with", "same function", "advertised and enforced maximum are computed differently")
	isMax := func(v ssa.Value) bool {
		cl, ok := stripConv(v).(*ssa.Call)
		return ok && staticCallee(cl) == maxfs
	}
	// guard: "X > MaxFileSize()" false edge / "X <= MaxFileSize()" true edge where X involves val
	var guardOn func(fn *ssa.Function, at *ssa.BasicBlock, related func(ssa.Value) bool) bool
	guardOn = func(fn *ssa.Function, at *ssa.BasicBlock, related func(ssa.Value) bool) bool {
		// the comparison made by a private predicate helper ("does it fit?") whose answer is tested here
		for _, br := range branches(fn) {
			if br.Cond.Op != token.ILLEGAL {
				continue
			}
			hc, ok := br.Cond.X.(*ssa.Call)
			if !ok {
				continue
			}
			h := staticCallee(hc)
			if h == nil || !isPrivateHelper(h) || h.Blocks == nil || h == fn {
				continue
			}
			for _, cls := range []struct {
				want bool
				succ *ssa.BasicBlock
			}{{true, br.True}, {false, br.False}} {
				if !edgeDominates(br.Block, cls.succ, at) {
					continue
				}
				// every return of h that can give this answer is guarded inside h, on an expression over
				// parameters whose arguments here cover what the stored value depends on
				relH := func(v ssa.Value) bool {
					for x := range bwdArith(stripConv(v)) {
						if pm, isP := x.(*ssa.Parameter); isP {
							for i, q := range h.Params {
								if q == pm && i < len(hc.Call.Args) && related(hc.Call.Args[i]) {
									return true
								}
							}
						}
					}
					// or jointly: the sum of the arguments
					var sum []ssa.Value
					for x := range bwdArith(stripConv(v)) {
						if pm, isP := x.(*ssa.Parameter); isP {
							for i, q := range h.Params {
								if q == pm && i < len(hc.Call.Args) {
									sum = append(sum, hc.Call.Args[i])
								}
							}
						}
					}
					return relatedAll(related, sum)
				}
				all, n := true, 0
				for _, hb := range h.Blocks {
					r, isR := hb.Instrs[len(hb.Instrs)-1].(*ssa.Return)
					if !isR || len(r.Results) != 1 {
						continue
					}
					if bv, isb := constBool(r.Results[0]); isb && bv != cls.want {
						continue
					}
					n++
					if !guardOn(h, hb, relH) {
						all = false
					}
				}
				if all && n > 0 {
					return true
				}
			}
		}
		return guardedBy(fn, at, func(cd Cond) (bool, bool) {
			if cd.X == nil || cd.Y == nil {
				return false, false
			}
			op, a, b := cd.Op, cd.X, cd.Y
			if isMax(a) {
				op, a, b = flipOp(op), b, a
			}
			if !isMax(b) || !related(a) {
				return false, false
			}
			switch op {
			case token.GTR:
				return true, false
			case token.LEQ:
				return true, true
			}
			return false, false
		})
	}
	var roots []*ssa.Function
	roots = append(roots, V.NfsProcs...)
	reach := P.Reach(roots, func(f *ssa.Function) bool { return !IsRepoFunc(f) })
	for _, fn := range P.RepoFuncs("inode", "nfs", "dir", "fstxn", "shrinker") {
		if !reach[fn] || fn == V.Decode {
			continue
		}
		for _, w := range FieldWrites(fn) {
			if w.Type != V.Inode || w.Field != "Size" || w.Element {
				continue
			}
			R.Analysed[FuncName(fn)] = true
			key := FuncName(fn) + "|store to Size"
			nv := stripConv(w.Val)
			if k, isk := constInt(nv); isk && k == 0 {
				R.Pass(id, key, P.Pos(w.Instr.Pos()), "size set to 0", "constant")
				continue
			}
			// related: the compared expression depends on every parameter the stored value depends on
			leaves := map[ssa.Value]bool{}
			for x := range bwdArith(nv) {
				if _, isP := x.(*ssa.Parameter); isP {
					leaves[x] = true
				}
			}
			related := func(v ssa.Value) bool {
				got := map[ssa.Value]bool{}
				for x := range bwdArith(stripConv(v)) {
					if _, isP := x.(*ssa.Parameter); isP {
						got[x] = true
					}
				}
				if len(leaves) == 0 {
					return false
				}
				for p := range leaves {
					if !got[p] {
						return false
					}
				}
				return true
			}
			if guardOn(fn, w.Instr.Block(), related) {
				R.PassNT(id, key, P.Pos(w.Instr.Pos()), "the new size is compared with MaxFileSize() before it is stored", "guard dominates in "+FuncName(fn))
				continue
			}
			// otherwise every caller must guard the argument it passes
			pm, _ := nv.(*ssa.Parameter)
			okCallers := pm != nil
			why := ""
			if pm != nil {
				idx := -1
				for i, p := range fn.Params {
					if p == pm {
						idx = i
					}
				}
				n := 0
				for _, cs := range P.CallersOf(fn) {
					if !IsRepoFunc(cs.Caller) {
						continue
					}
					n++
					arg := stripConv(callCommon(cs.Instr).Args[idx])
					if k, isk := constInt(arg); isk && k == 0 {
						continue
					}
					rel := func(v ssa.Value) bool {
						sv := stripConv(v)
						return sv == arg || sameParamField(sv, arg) || sameParamField(v, callCommon(cs.Instr).Args[idx])
					}
					if !guardOn(cs.Caller, cs.Instr.Block(), rel) {
						okCallers = false
						why = FuncName(cs.Caller)
					}
				}
				if n == 0 {
					okCallers = false
				}
			}
			R.Check(okCallers, id, key, P.Pos(w.Instr.Pos()), "the new size is compared with MaxFileSize() in the function or in every caller", "every caller guards the size it passes", "the size is stored without a bound (unguarded caller "+why+"): SETATTR can set a size the server cannot read back (bmap beyond the double-indirect range panics)")
		}
	}
}

// relatedAll: the values vs together cover what related demands (related is a
// predicate on one expression: offer it each value; a set covers when some
// value does - the coarse version used for predicate helpers).
func relatedAll(related func(ssa.Value) bool, vs []ssa.Value) bool {
	for _, v := range vs {
		if related(v) {
			return true
		}
	}
	return false
}

// ruleM6: a transaction whose size is chosen by the client must be known to
// fit in the log before it is begun.  A transaction the journal refuses is not
// only answered SERVERFAULT: go-journal forgets, on a refused commit, how far
// NFSPROC3_COMMIT has to flush, and unstable data acknowledged by the next
// COMMIT is lost by a crash (D39, the unbounded SYMLINK target).  Every
// Inode.Write in a handler (or in a helper it calls) whose byte count comes
// from the request - a count field, or the length of a request field - is
// dominated by a comparison of that same quantity with a constant that does
// not exceed the advertised wtmax.
func ruleM6(c *Ctx, id string) {
	V, P, R := c.V, c.P, c.R
	R.Rule(id, "request-sized transactions fit in the log: every Inode.Write reached from a handler with a byte count taken from the request (a count field or the length of a request field) is dominated by a comparison of that quantity with a constant <= wtmax; every Inode.Read (it fills holes) gets such a count only bounded the same way or clamped", 3)
	fi := c.fn(id, "nfs.(*Nfs).NFSPROC3_FSINFO")
	if fi == nil || V.InodeWrite == nil {
		return
	}
	wtmax, _, _, ok := storedConst(fi, "Wtmax")
	if !ok {
		R.Undecided(id, "FSINFO|Wtmax", P.Pos(fi.Pos()), "Wtmax is a constant", "not a constant store")
		return
	}
	// the request quantity v stands for: "Count"-like field path, or len of a field path
	qkey := func(v ssa.Value, sub Subst, req *ssa.Parameter) string {
		v = sub.resolve(stripConv(v))
		for i := 0; i < 4; i++ {
			cv, isC := v.(*ssa.Convert)
			if !isC {
				break
			}
			v = sub.resolve(stripConv(cv.X))
		}
		if cl, ok := v.(*ssa.Call); ok {
			if bi, isB := cl.Call.Value.(*ssa.Builtin); isB && bi.Name() == "len" && len(cl.Call.Args) == 1 {
				a := sub.resolve(stripConv(cl.Call.Args[0]))
				if cv, isC := a.(*ssa.Convert); isC { // []byte(string)
					a = sub.resolve(stripConv(cv.X))
				}
				if pm, path := canonPath(a, sub); pm == req && path != "" {
					return "len:" + path
				}
			}
			return ""
		}
		if pm, path := canonPath(v, sub); pm == req && path != "" {
			return path
		}
		return ""
	}
	n := 0
	for _, h := range V.NfsProcs {
		req := requestParam(h)
		if req == nil {
			continue
		}
		hsc := scopesOf(h)
		for _, sc := range hsc {
			for _, call := range P.CallsIn(sc.Fn, funcIs(V.InodeWrite)) {
				cc := callCommon(call)
				if cc == nil || len(cc.Args) < 5 {
					continue
				}
				q := qkey(cc.Args[3], sc.S, req)
				if q == "" {
					continue // not sized by the request (a constant, an encoder's output)
				}
				n++
				R.Analysed[FuncName(h)] = true
				g := guardedUp(hsc, sc, call.Block(), func(sub Subst) func(Cond) (bool, bool) {
					return func(cd Cond) (bool, bool) {
						if cd.X == nil || cd.Y == nil {
							return false, false
						}
						op, a, b := cd.Op, cd.X, cd.Y
						if _, isk := constIntDeep(a); isk {
							op, a, b = flipOp(op), b, a
						}
						k, isk := constIntDeep(b)
						if !isk || k > wtmax || qkey(a, sub, req) != q {
							return false, false
						}
						switch op {
						case token.GTR:
							return true, false
						case token.LEQ:
							return true, true
						case token.GEQ:
							return k-1 <= wtmax, false
						case token.LSS:
							return k-1 <= wtmax, true
						}
						return false, false
					}
				})
				R.Check(g, id, fmt.Sprintf("%s|Write sized by %s is bounded", h.Name(), q), P.Pos(call.Pos()), fmt.Sprintf("the request quantity %s is compared with a constant <= wtmax (%d) before the write", q, wtmax), "guard dominates", fmt.Sprintf("the client chooses how many bytes (%s) one transaction writes and nothing bounds it: a request larger than the log is refused by the journal, and after a refused commit COMMIT flushes nothing and still answers OK - acknowledged unstable data is lost by a crash", q))
			}
		}
	}
	if n == 0 {
		R.Fail(id, "handlers|request-sized writes", "", "WRITE and SYMLINK write a client-chosen number of bytes", "no Inode.Write with a request-derived count found in the handlers")
	}
	// READ: Inode.Read fills the holes it passes (it allocates and links a block per hole): a count taken from the
	// request sizes a transaction too.  The count may be refused above a constant, or clamped: every way the
	// request's own quantity reaches the call passes the side of a comparison on which it is <= a constant <= wtmax.
	if V.InodeRead == nil {
		return
	}
	bound := func(q string, req *ssa.Parameter) CondMatcherX {
		return func(sub Subst) func(Cond) (bool, bool) {
			return func(cd Cond) (bool, bool) {
				if cd.X == nil || cd.Y == nil {
					return false, false
				}
				op, a, b := cd.Op, cd.X, cd.Y
				if _, isk := constIntDeep(a); isk {
					op, a, b = flipOp(op), b, a
				}
				k, isk := constIntDeep(sub.resolve(b))
				if !isk || k > wtmax || qkey(a, sub, req) != q {
					return false, false
				}
				switch op {
				case token.GTR:
					return true, false
				case token.LEQ:
					return true, true
				case token.GEQ:
					return k-1 <= wtmax, false
				case token.LSS:
					return k-1 <= wtmax, true
				}
				return false, false
			}
		}
	}
	nr := 0
	for _, h := range V.NfsProcs {
		req := requestParam(h)
		if req == nil {
			continue
		}
		hsc := scopesOf(h)
		scopeOf := func(fn *ssa.Function) *Scope {
			for i := range hsc {
				if hsc[i].Fn == fn {
					return &hsc[i]
				}
			}
			return nil
		}
		for _, sc := range hsc {
			for _, call := range P.CallsIn(sc.Fn, funcIs(V.InodeRead)) {
				cc := callCommon(call)
				if cc == nil || len(cc.Args) < 4 {
					continue
				}
				// the ways the count can be the request's own quantity
				type leaf struct {
					q        string
					ok       bool
					from, to *ssa.BasicBlock
				}
				var leaves []leaf
				seen := map[ssa.Value]bool{}
				var walk func(v ssa.Value, cur Scope, from, to *ssa.BasicBlock, d int)
				walk = func(v ssa.Value, cur Scope, from, to *ssa.BasicBlock, d int) {
					rv := cur.S.resolve(stripConv(v))
					if rv == nil || d > 8 {
						return
					}
					// the value may live in an enclosing scope
					if in, isI := rv.(ssa.Instruction); isI && in.Parent() != cur.Fn {
						if s2 := scopeOf(in.Parent()); s2 != nil {
							from, to = nil, nil
							if cur.Via != nil && cur.Via.Parent() == s2.Fn {
								from, to = cur.Via.Block(), cur.Via.Block()
							}
							cur = *s2
						}
					}
					if ph, isP := rv.(*ssa.Phi); isP {
						if seen[rv] {
							return
						}
						seen[rv] = true
						for i, e := range ph.Edges {
							walk(e, cur, ph.Block().Preds[i], ph.Block(), d+1)
						}
						return
					}
					if cl, isC := rv.(*ssa.Call); isC {
						if g := staticCallee(cl); g != nil && g.Name() == "Min" && len(cl.Call.Args) == 2 {
							for i, a := range cl.Call.Args {
								if k, isk := constIntDeep(cur.S.resolve(a)); isk && k <= wtmax {
									// min(q, K): the request's quantity is clamped
									if q := qkey(cl.Call.Args[1-i], cur.S, req); q != "" {
										leaves = append(leaves, leaf{q: q, ok: true})
									}
									return
								}
							}
							// no bounding constant: the smaller of two values is at most each of them - judge both
							for _, a := range cl.Call.Args {
								walk(a, cur, from, to, d+1)
							}
							return
						}
					}
					q := qkey(rv, cur.S, req)
					if q == "" {
						return
					}
					lf := leaf{q: q, from: from, to: to}
					if from != nil && to != nil && from != to {
						lf.ok = edgeGuardedX(cur.Fn, from, to, bound(q, req), cur.S, 0)
					} else {
						at := call.Block()
						if from != nil {
							at = from
						}
						lf.ok = guardedUp(hsc, cur, at, bound(q, req))
					}
					leaves = append(leaves, lf)
				}
				walk(cc.Args[3], sc, nil, nil, 0)
				byQ := map[string]bool{}
				for _, lf := range leaves {
					if prev, had := byQ[lf.q]; had {
						byQ[lf.q] = prev && lf.ok
					} else {
						byQ[lf.q] = lf.ok
					}
				}
				for _, q := range keysOf2(byQ) {
					nr++
					R.Analysed[FuncName(h)] = true
					R.Check(byQ[q], id, fmt.Sprintf("%s|Read sized by %s is bounded", h.Name(), q), P.Pos(call.Pos()), fmt.Sprintf("the request quantity %s reaches Inode.Read only where it is <= a constant <= wtmax (%d): refused above it, or clamped", q, wtmax), "guarded on every way", fmt.Sprintf("the client chooses how many bytes (%s) one READ covers and nothing bounds it: Inode.Read allocates a block for every hole it passes, so a READ over a large hole is a transaction larger than the log - the journal refuses it, and after a refused commit COMMIT flushes nothing and still answers OK: acknowledged unstable data is lost by a crash", q))
				}
			}
		}
	}
	if nr == 0 {
		R.Fail(id, "handlers|request-sized reads", "", "READ reads a client-chosen number of bytes", "no Inode.Read with a request-derived count found in the handlers")
	}
}

func keysOf2(m map[string]bool) []string {
	var out []string
	for k := range m {
		out = append(out, k)
	}
	sort.Strings(out)
	return out
}

// ruleM7: the maximum file size the server announces (and enforces) must not
// exceed what the block map can address: NDIRECT direct blocks, NBLKBLK through
// the indirect block, NBLKBLK^2 through the doubly indirect one.  A larger
// limit lets SETATTR/WRITE reach a logical block for which indbmap indexes past
// the end of an index block (panic).  MaxFileSize() is a constant of the
// program: it is folded by evalClosed, whatever way it is written.
func ruleM7(c *Ctx, id string) {
	P, R := c.P, c.R
	R.Rule(id, "the announced maximum file size is addressable: MaxFileSize() (folded as a constant) <= (NDIRECT + NBLKBLK + NBLKBLK^2) * BlockSize, the range bmap can map", 1)
	mf := c.fn(id, "inode.MaxFileSize")
	if mf == nil {
		return
	}
	nd := constOfPkg(P, "inode", "NDIRECT")
	nb := constOfPkg(P, "inode", "NBLKBLK")
	bs := constOfPkg(P, "github.com/goose-lang/primitive/disk", "BlockSize")
	if nd <= 0 || nb <= 0 || bs <= 0 {
		R.Undecided(id, "inode.MaxFileSize|addressable", P.Pos(mf.Pos()), "the constants NDIRECT, NBLKBLK and BlockSize are known", "a constant is missing")
		return
	}
	budget := 100000
	v, ok := evalClosed(mf, nil, &budget, 0)
	if !ok {
		R.Undecided(id, "inode.MaxFileSize|addressable", P.Pos(mf.Pos()), "MaxFileSize() can be folded to a constant", "the function is not a closed integer computation (or the folding budget ran out)")
		return
	}
	limit := uint64(nd+nb+nb*nb) * uint64(bs)
	R.Check(v <= limit && v > 0, id, "inode.MaxFileSize|addressable", P.Pos(mf.Pos()), fmt.Sprintf("MaxFileSize() = %d bytes <= %d bytes = (NDIRECT + NBLKBLK + NBLKBLK^2) * BlockSize", v, limit), "folded constant within the block map's range", fmt.Sprintf("MaxFileSize() = %d exceeds the %d bytes the block map can address: a request in the last announced block makes indbmap index past the end of an index block - the server panics", v, limit))
}

// straightToFalse: from b a return of the constant false is reached without
// passing another test.
func straightToFalse(b *ssa.BasicBlock) bool { return straightToBool(b, false) }

// straightToBool: the block goes (through jumps only) to a return of the
// constant want, directly or as the phi edge of a shared return block.
func straightToBool(b *ssa.BasicBlock, want bool) bool {
	for i := 0; i < 4 && b != nil; i++ {
		switch x := b.Instrs[len(b.Instrs)-1].(type) {
		case *ssa.Return:
			for _, r := range x.Results {
				if bv, isb := constBool(r); isb && bv == want {
					return true
				}
				// a shared return fed by a phi: the value coming from b's chain is not known here
			}
			return false
		case *ssa.Jump:
			nb := b.Succs[0]
			// a shared return block whose phi takes the constant along this edge
			if r, ok := nb.Instrs[len(nb.Instrs)-1].(*ssa.Return); ok {
				for _, res := range r.Results {
					if ph, isP := res.(*ssa.Phi); isP && ph.Block() == nb {
						for j, p := range nb.Preds {
							if p == b {
								if bv, isb := constBool(ph.Edges[j]); isb && bv == want {
									return true
								}
							}
						}
					}
				}
			}
			b = nb
		default:
			return false
		}
	}
	return false
}

// ruleM9: a refusal decided is a refusal returned.  When a handler's status
// variable takes an error constant on a path (the request exceeds a limit, the
// object has the wrong kind, ...), no later assignment on that path may turn
// the reply into a success: the rest of the request would take effect and be
// acknowledged although it was found unacceptable.
func ruleM9(c *Ctx, id string) {
	R, P := c.R, c.P
	R.Rule(id, "a refusal decided is a refusal returned: on no path of a handler is a success status returned after its status variable took an error constant", 20)
	t := c.tsPreamble(id)
	type agg struct {
		ok  bool
		why string
		pos string
		n   int
	}
	res := map[string]*agg{}
	for _, sn := range t.Snaps {
		if !isProc(c, sn.Entry) {
			continue
		}
		cls, _ := statusClass(sn)
		key := fmt.Sprintf("%s|return#%d|%s", sn.Entry, retOrdinal(sn.Ret), cls)
		a := res[key]
		if a == nil {
			a = &agg{ok: true, pos: P.Pos(sn.Ret.Pos())}
			res[key] = a
		}
		a.n++
		if cls != "ok" {
			continue
		}
		if rf, had := sn.G.Cells["$refusal"]; had {
			a.ok = false
			a.why = fmt.Sprintf("the status variable took the error %d at %s, and the reply is NFS3_OK", rf.I, rf.Src)
		}
	}
	var keys []string
	for k := range res {
		keys = append(keys, k)
	}
	sort.Strings(keys)
	for _, k := range keys {
		a := res[k]
		R.Check(a.ok, id, k, a.pos, "no success reply on a path on which an error status was decided", fmt.Sprintf("%d abstract end states", a.n), a.why+": a request found unacceptable (too big, wrong kind, ...) is carried out in part and acknowledged")
	}
}
