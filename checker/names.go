package main

import (
	"go/token"
	"go/types"
	"strings"

	"golang.org/x/tools/go/ssa"
)

// requestParam: the request argument of an NFS handler (the parameter whose
// type is a struct declared in nfstypes), independent of its name.
func requestParam(fn *ssa.Function) *ssa.Parameter {
	for _, p := range fn.Params {
		if n, ok := types.Unalias(p.Type()).(*types.Named); ok && n.Obj().Pkg() != nil && n.Obj().Pkg().Name() == "nfstypes" {
			if _, isS := n.Underlying().(*types.Struct); isS {
				return p
			}
		}
	}
	return nil
}

// funcParam: the (last) parameter of function type.
func funcParam(fn *ssa.Function) *ssa.Parameter {
	var out *ssa.Parameter
	for _, p := range fn.Params {
		if _, ok := p.Type().Underlying().(*types.Signature); ok {
			out = p
		}
	}
	return out
}

// stepPhi: the loop variable of a scan loop: a phi with a back edge carrying
// phi + step (step > 0 constant).  Returns the phi and the step.
func stepPhi(fn *ssa.Function, step int64) *ssa.Phi {
	for _, b := range fn.Blocks {
		for _, in := range b.Instrs {
			phi, ok := in.(*ssa.Phi)
			if !ok {
				continue
			}
			for i, e := range phi.Edges {
				if !phi.Block().Dominates(phi.Block().Preds[i]) {
					continue
				}
				if add, ok := e.(*ssa.BinOp); ok && add.Op == token.ADD && add.X == ssa.Value(phi) {
					if k, isk := constInt(add.Y); isk && (step == 0 && k > 0 || k == step) {
						return phi
					}
				}
			}
		}
	}
	return nil
}

// loopVar: the offset variable of a scan loop, as an SSA register (a phi
// stepped on the back edges) or, when a local closure assigns it ("advance :=
// func() { off = off + DIRENTSZ }"), as the cell that holds it.
type loopVar struct {
	fn    *ssa.Function
	phi   *ssa.Phi
	cell  *ssa.Alloc
	steps map[ssa.Instruction]bool // cell form: the statements of fn that advance the variable (a store, or the call of a closure that does on every path)
}

func findLoopVar(fn *ssa.Function, step int64) *loopVar {
	if phi := stepPhi(fn, step); phi != nil {
		return &loopVar{fn: fn, phi: phi}
	}
	isStep := func(st *ssa.Store, cellOf func(ssa.Value) ssa.Value, cell ssa.Value) bool {
		if cellOf(st.Addr) != cell {
			return false
		}
		add, ok := st.Val.(*ssa.BinOp)
		if !ok || add.Op != token.ADD {
			return false
		}
		ld, ok := add.X.(*ssa.UnOp)
		if !ok || ld.Op != token.MUL || cellOf(ld.X) != cell {
			return false
		}
		k, isk := constInt(add.Y)
		return isk && (step == 0 && k > 0 || k == step)
	}
	for _, b := range fn.Blocks {
		for _, in := range b.Instrs {
			al, ok := in.(*ssa.Alloc)
			if !ok {
				continue
			}
			if bt, isB := derefType(al.Type()).Underlying().(*types.Basic); !isB || bt.Info()&types.IsInteger == 0 {
				continue
			}
			lv := &loopVar{fn: fn, cell: al, steps: map[ssa.Instruction]bool{}}
			self := func(v ssa.Value) ssa.Value { return v }
			for _, b2 := range fn.Blocks {
				for _, in2 := range b2.Instrs {
					switch x := in2.(type) {
					case *ssa.Store:
						if isStep(x, self, al) {
							lv.steps[x] = true
						}
					case *ssa.Call:
						cf, binds := closureCallee(x)
						if cf == nil || cf.Blocks == nil {
							continue
						}
						cellOf := func(v ssa.Value) ssa.Value {
							if fv, isF := v.(*ssa.FreeVar); isF {
								for i, q := range cf.FreeVars {
									if q == fv && i < len(binds) {
										return binds[i]
									}
								}
							}
							return v
						}
						is := func(y ssa.Instruction) bool {
							st, isS := y.(*ssa.Store)
							return isS && isStep(st, cellOf, al)
						}
						entry := cf.Blocks[0].Instrs[0]
						if is(entry) || MustAfter(cf, is, nil)(entry) {
							lv.steps[x] = true
						}
					}
				}
			}
			if len(lv.steps) > 0 {
				return lv
			}
		}
	}
	return nil
}

// is: v denotes the current value of the loop variable.
func (lv *loopVar) is(v ssa.Value) bool {
	if lv.phi != nil {
		return v == ssa.Value(lv.phi)
	}
	ld, ok := v.(*ssa.UnOp)
	return ok && ld.Op == token.MUL && ld.X == ssa.Value(lv.cell)
}

func (lv *loopVar) pos() token.Pos {
	if lv.phi != nil {
		return lv.phi.Pos()
	}
	return lv.cell.Pos()
}

// alwaysAdvances: every way round the loop advances the variable by a positive
// constant; returns also the number of advancing sites.
func (lv *loopVar) alwaysAdvances() (bool, int) {
	if lv.phi != nil {
		ok, n := true, 0
		for i, e := range lv.phi.Edges {
			pred := lv.phi.Block().Preds[i]
			if !lv.phi.Block().Dominates(pred) {
				continue // entry edge
			}
			n++
			bo, isB := e.(*ssa.BinOp)
			if !isB || bo.Op != token.ADD || bo.X != ssa.Value(lv.phi) {
				ok = false
				continue
			}
			if k, isk := constInt(bo.Y); !isk || k <= 0 {
				ok = false
			}
		}
		return ok && n > 0, n
	}
	// cell form: without the blocks that advance, no cycle is left among the blocks of the function
	stepBlk := map[*ssa.BasicBlock]bool{}
	for in := range lv.steps {
		stepBlk[in.Block()] = true
	}
	// every other store to the cell must precede the loop (an initialisation): not inside a cycle
	for _, r := range refs(lv.cell) {
		if st, ok := r.(*ssa.Store); ok && st.Addr == ssa.Value(lv.cell) && !lv.steps[st] && reachableFrom(st, st) {
			return false, len(lv.steps)
		}
	}
	color := map[*ssa.BasicBlock]int{}
	var cyc bool
	var dfs func(b *ssa.BasicBlock)
	dfs = func(b *ssa.BasicBlock) {
		color[b] = 1
		for _, s := range b.Succs {
			if stepBlk[s] {
				continue
			}
			switch color[s] {
			case 0:
				dfs(s)
			case 1:
				cyc = true
			}
		}
		color[b] = 2
	}
	for _, b := range lv.fn.Blocks {
		if color[b] == 0 && !stepBlk[b] {
			dfs(b)
		}
	}
	return !cyc, len(lv.steps)
}

// bareKey: a function name without its receiver type: "(*fstxn.FsTxn).dropInodes"
// and "fstxn.dropInodes" are the same helper once an unexported method is
// turned into a plain function (or the reverse).  A "|suffix" is kept.
func bareKey(k string) string {
	name, rest := k, ""
	if i := strings.Index(k, "|"); i >= 0 {
		name, rest = k[:i], k[i:]
	}
	if strings.HasPrefix(name, "(") {
		if j := strings.Index(name, ")."); j > 0 {
			recv := strings.TrimPrefix(name[1:j], "*")
			pkg := recv
			if d := strings.LastIndex(recv, "."); d >= 0 {
				pkg = recv[:d]
			}
			name = pkg + "." + name[j+2:]
		}
	}
	return name + rest
}

// byFunc looks key up in a table keyed by function names, accepting the other
// spelling (method / plain function) of an unexported helper.
func byFunc[T any](m map[string]T, key string) (T, bool) {
	if v, ok := m[key]; ok {
		return v, true
	}
	bk := bareKey(key)
	for k, v := range m {
		if bareKey(k) == bk {
			return v, true
		}
	}
	var zero T
	return zero, false
}
