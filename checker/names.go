package main

import (
	"go/token"
	"go/types"

	"golang.org/x/tools/go/ssa"
)

// requestParam: the request argument of an NFS handler (the parameter whose
// type is a struct declared in nfstypes), independent of its name.
func requestParam(fn *ssa.Function) *ssa.Parameter {
	for _, p := range fn.Params {
		if n, ok := types.Unalias(p.Type()).(*types.Named); ok && n.Obj().Pkg() != nil && n.Obj().Pkg().Name() == "nfstypes" {
			if _, isS := n.Underlying().(*types.Struct); isS {
				return p
			}
		}
	}
	return nil
}

// funcParam: the (last) parameter of function type.
func funcParam(fn *ssa.Function) *ssa.Parameter {
	var out *ssa.Parameter
	for _, p := range fn.Params {
		if _, ok := p.Type().Underlying().(*types.Signature); ok {
			out = p
		}
	}
	return out
}

// stepPhi: the loop variable of a scan loop: a phi with a back edge carrying
// phi + step (step > 0 constant).  Returns the phi and the step.
func stepPhi(fn *ssa.Function, step int64) *ssa.Phi {
	for _, b := range fn.Blocks {
		for _, in := range b.Instrs {
			phi, ok := in.(*ssa.Phi)
			if !ok {
				continue
			}
			for i, e := range phi.Edges {
				if !phi.Block().Dominates(phi.Block().Preds[i]) {
					continue
				}
				if add, ok := e.(*ssa.BinOp); ok && add.Op == token.ADD && add.X == ssa.Value(phi) {
					if k, isk := constInt(add.Y); isk && (step == 0 && k > 0 || k == step) {
						return phi
					}
				}
			}
		}
	}
	return nil
}
