package main

import (
	"fmt"
	"go/token"
	"go/types"

	"golang.org/x/tools/go/ssa"
)

func init() {
	props["C04"] = func(c *Ctx) {
		c.R.Expl = "Co-update disciplines that keep the on-disk structure well-formed, decided on every path: (S1) pointers, bitmap bits and inodes change in one transaction through the commit funnel with complete bookkeeping (C01.R2/R3); (S2) a new inode is named before success, a removed name is followed by the unlink of the inode that name denoted (or by its re-insertion under the new name), and no inode is unlinked without its name being removed; (S3) link-count balance: what creating a sub-directory adds to the parent, every way of removing a directory from a parent takes away; (S4) a directory is unlinked only if empty; (S5) pointer-producing and pointer-consuming primitives assert the data-region range."
		c.R.NotDec = "the invariant itself on any concrete state; offsets inside directory or indirect blocks; mkfs bit arithmetic (C15)."
		ruleR2(c, "C04.S1a")
		ruleR3(c, "C04.S1b")
		ruleS2(c, "C04.S2")
		ruleS3(c, "C04.S3")
		ruleS4(c, "C04.S4")
		ruleS5(c, "C04.S5")
		ruleR6(c, "C04.S1c")
		ruleW1(c, "C04.S1d")
		ruleT3(c, "C04.S6")
		ruleKind(c, "C04.S7")
		ruleSlot(c, "C04.S8")
		ruleV7(c, "C04.S9")
		ruleF10(c, "C04.S10")
		ruleT1(c, "C04.S11")
		ruleA1(c, "C04.S12")
		ruleK5(c, "C04.S13")
		// names are unique only if the name cache that answers every lookup holds all of them
		ruleW2(c, "C04.S14")
		// an entry that could not be written (".", "..", the new name of a RENAME) must not be taken for written
		ruleOkResults(c, "C04.S15")
		ruleNullSource(c, "C04.S16")
		// names stay unique: a create goes ahead only when the lookup under the lock found nothing
		ruleT12(c, "C04.S17")
		ruleSelfRename(c, "C04.S18")
		ruleDoneMeansWritten(c, "C04.S19")
		ruleB22(c, "C04.S20")
	}
}

// cutEdges: is target unreachable from the entry of fn once the given edges
// are removed?  (every path to target takes one of the edges)
func everyPathTakes(fn *ssa.Function, target *ssa.BasicBlock, edges ...func(from, to *ssa.BasicBlock) bool) bool {
	seen := map[*ssa.BasicBlock]bool{}
	work := []*ssa.BasicBlock{fn.Blocks[0]}
	for len(work) > 0 {
		b := work[len(work)-1]
		work = work[:len(work)-1]
		if seen[b] {
			continue
		}
		seen[b] = true
		if b == target {
			return false
		}
		for _, s := range b.Succs {
			cut := false
			for _, e := range edges {
				if e(b, s) {
					cut = true
				}
			}
			if !cut {
				work = append(work, s)
			}
		}
	}
	return true
}

// condEdge: edge predicate for comparisons matched by m (returns applies,
// polarity) as in guardedBy.
func condEdge(fn *ssa.Function, m func(Cond) (bool, bool)) func(from, to *ssa.BasicBlock) bool {
	type edge struct{ f, t *ssa.BasicBlock }
	set := map[edge]bool{}
	for _, br := range branches(fn) {
		ok, pol := m(br.Cond)
		if !ok {
			continue
		}
		if pol {
			set[edge{br.Block, br.True}] = true
		} else {
			set[edge{br.Block, br.False}] = true
		}
	}
	return func(from, to *ssa.BasicBlock) bool { return set[edge{from, to}] }
}

func ruleS2(c *Ctx, id string) {
	V, P, R := c.V, c.P, c.R
	R.Rule(id, "name and link co-update: doCreate succeeds only after AddName of the new inode's number; a successful RemName is followed by doDecLink of the inode that name denoted (doRemove, RENAME over a target) or by AddName of the same number (RENAME); doDecLink is preceded by the RemName of a name of that inode or is an unwind of a failed create", 6)
	addName := c.fn(id, "dir.AddName")
	remName := c.fn(id, "dir.RemName")
	lookup := c.fn(id, "dir.LookupName")
	doCreate := c.fn(id, "nfs.(*Nfs).doCreate")
	doRemove := c.fn(id, "nfs.(*Nfs).doRemove")
	ren := c.fn(id, "nfs.(*Nfs).NFSPROC3_RENAME")
	getAlloc := c.fn(id, "nfs.(*Nfs).getAlloc")
	getInodesLocked := c.fn(id, "nfs.(*Nfs).getInodesLocked")
	if addName == nil || remName == nil || V.DecLink == nil || doCreate == nil || doRemove == nil || ren == nil || getAlloc == nil || lookup == nil || getInodesLocked == nil {
		return
	}
	R.Analysed[FuncName(doCreate)] = true
	R.Analysed[FuncName(doRemove)] = true
	R.Analysed[FuncName(ren)] = true
	createUnwindBad, createExplored := "", false
	// (a) doCreate: the store err = NFS3_OK (success) is dominated by AddName(dip, op, ip.Inum, name) == true
	adds := P.CallsIn(doCreate, funcIs(addName))
	R.Check(len(adds) == 1, id, "nfs.doCreate|one AddName", P.Pos(doCreate.Pos()), "doCreate adds exactly one name", "one call", fmt.Sprintf("%d AddName calls", len(adds)))
	if len(adds) == 1 {
		ac := adds[0].(*ssa.Call)
		// number added is the Inum of the inode returned by getAlloc
		n, fl, base, _ := loadedField(ac.Call.Args[2])
		fromAlloc := false
		if n == V.Inode && fl == "Inum" && base != nil {
			for v := range bwdSources(base) {
				if cl, ok := v.(*ssa.Call); ok && staticCallee(cl) == getAlloc {
					fromAlloc = true
				}
			}
		}
		R.Check(fromAlloc, id, "nfs.doCreate|names the allocated inode", P.Pos(ac.Pos()), "the number entered in the directory is the Inum of the inode just allocated", "value flow from getAlloc", "the directory entry names another inode than the one created")
		// success = a return whose status result may be NFS3_OK: explored path by path (the status may live in
		// a cell that local closures assign)
		tEdge := boolEdge(doCreate, ac, true)
		px := NewPX()
		px.OnEdge = func(st *PXState, from, to *ssa.BasicBlock) {
			if from.Parent() == doCreate && tEdge(from, to) {
				st.Flags["added"] = true
			}
		}
		px.OnCall = func(st *PXState, call ssa.CallInstruction) {
			if c2, ok := call.(*ssa.Call); ok && unlinkOf(c, c2) != nil {
				st.Flags["dec"] = true
			}
		}
		nOK, badAdd := 0, ""
		px.OnReturn = func(st *PXState, fr *pxFrame, r *ssa.Return) {
			for _, res := range r.Results {
				if !isNamedStatus(res.Type()) {
					continue
				}
				v := px.Eval(fr, st, res)
				if v.MayBeZero() {
					nOK++
					if !st.Flags["added"] {
						badAdd = P.Pos(r.Pos())
					}
					if st.Flags["dec"] {
						createUnwindBad = P.Pos(r.Pos())
					}
				}
			}
		}
		px.Run(doCreate)
		createExplored = !px.Exceeded
		if px.Exceeded {
			R.Undecided(id, "nfs.doCreate|success only after AddName", P.Pos(ac.Pos()), "the paths of doCreate can be enumerated", "path budget exceeded")
		} else {
			R.Check(badAdd == "" && nOK > 0, id, "nfs.doCreate|success only after AddName", P.Pos(ac.Pos()), "a return with status NFS3_OK is reached only under AddName(...) == true", fmt.Sprintf("every path that may report success (%d) took the true edge", nOK), "a create can succeed without a directory entry (return at "+badAdd+"): an allocated inode that no name reaches")
		}
	}
	// (b) doRemove: RemName true => doDecLink(op, inodes[0]) with inodes from getInodesLocked(dfh, name)
	for _, rc := range P.CallsIn(doRemove, funcIs(remName)) {
		rcv := rc.(*ssa.Call)
		isDec := func(in ssa.Instruction) bool {
			ipv := unlinkOf(c, in)
			if ipv == nil {
				return false
			}
			u, ok := stripConv(ipv).(*ssa.UnOp)
			if !ok {
				return false
			}
			ia, ok := u.X.(*ssa.IndexAddr)
			if !ok {
				return false
			}
			k, isk := constInt(ia.Index)
			return isk && k == 0
		}
		ok := MustAfterE(doRemove, isDec, nil, boolEdge(doRemove, rcv, false))(rc)
		// same name as looked up
		sameName := false
		for _, gl := range P.CallsIn(doRemove, funcIs(getInodesLocked)) {
			if stripConv(nameArg(gl)) == stripConv(rcv.Call.Args[2]) {
				sameName = true
			}
		}
		R.Check(ok && sameName, id, "nfs.doRemove|RemName then unlink of the named inode", P.Pos(rc.Pos()), "after a successful RemName(name) every path unlinks inodes[0], the inode getInodesLocked resolved for that name", "must-follow on the ok edge; same name", "a name is removed without unlinking its inode (inode leaked) or another inode is unlinked")
	}
	// RENAME: RemName(dipto, To.Name) => doDecLink(op, to); RemName(dipfrom, From.Name) => AddName(dipto, op, frominum, To.Name)
	for _, rc := range P.CallsIn(ren, funcIs(remName)) {
		rcv := rc.(*ssa.Call)
		_, path := paramFieldPath(rcv.Call.Args[2])
		switch path {
		case "To.Name":
			ok := MustAfterE(ren, func(in ssa.Instruction) bool { return unlinkOf(c, in) != nil }, nil, boolEdge(ren, rcv, false))(rc)
			R.Check(ok, id, "NFSPROC3_RENAME|RemName(To.Name) then unlink of the replaced inode", P.Pos(rc.Pos()), "after the target name is removed every path unlinks the replaced inode", "must-follow on the ok edge", "the replaced object keeps its inode and blocks for ever")
		case "From.Name":
			isAdd := func(in ssa.Instruction) bool {
				if !callTo(addName)(in) {
					return false
				}
				_, p2 := paramFieldPath(callCommon(in).Args[3])
				if p2 != "To.Name" {
					return false
				}
				// the number added is the number looked up for From.Name
				for v := range bwdSources(callCommon(in).Args[2]) {
					if ex, ok := v.(*ssa.Extract); ok && ex.Index == 0 {
						if lc, ok := ex.Tuple.(*ssa.Call); ok && staticCallee(lc) == lookup {
							if _, p3 := paramFieldPath(lc.Call.Args[2]); p3 == "From.Name" {
								return true
							}
						}
					}
				}
				return false
			}
			abort := NewAlwaysInstr(P, callTo(V.Abort)) // Abort itself, or errRet and the like
			ok := MustAfterE(ren, func(in ssa.Instruction) bool { return isAdd(in) || abort(in) }, nil, nil)(rc)
			present := false
			for _, b := range ren.Blocks {
				for _, in := range b.Instrs {
					if isAdd(in) {
						present = true
					}
				}
			}
			R.Check(ok && present, id, "NFSPROC3_RENAME|RemName(From.Name) then AddName(To.Name) of the same inode", P.Pos(rc.Pos()), "after the source name is removed every path adds the number that name denoted under the target name (or aborts)", "must-follow; number from LookupName(From.Name)", "the renamed object loses its only name, or another object appears under the new name")
		default:
			R.Fail(id, "NFSPROC3_RENAME|RemName of an unexpected name", P.Pos(rc.Pos()), "RENAME removes only its source and target names", "name "+path)
		}
	}
	// (c) every place that drops a link of an inode (Inode.DecLink itself, or a helper such as doDecLink that does
	// so for the inode it is handed)
	for _, fn := range P.RepoFuncs("nfs") {
		if fn.Blocks == nil || isUnlinkHelper(c, fn) {
			continue
		}
		for _, b := range fn.Blocks {
			for _, in := range b.Instrs {
				if unlinkOf(c, in) == nil {
					continue
				}
				key := FuncName(ownerOf(fn)) + "|doDecLink justified"
				own := ownerOf(fn)
				if partOf(fn, doCreate) {
					own = doCreate
					key = FuncName(doCreate) + "|doDecLink justified"
				}
				switch own {
				case doCreate:
					// unwind: every path on which the unlink ran reports an error (path exploration of (a))
					R.Check(createExplored && createUnwindBad == "", id, key+"|unwind", P.Pos(in.Pos()), "in doCreate the unlink is an unwind: every path after it reports an error", "error status follows on every explored path", "a created inode is unlinked on a path that may report success (return at "+createUnwindBad+")")
				default:
					R.Check(MustBefore(fn, callTo(remName))(in), id, key, P.Pos(in.Pos()), "an inode is unlinked only after a name of it was removed in the same function", "RemName precedes on every path", "link count dropped without removing a name: a name pointing to a freed inode")
				}
			}
		}
	}
}

func ruleS3(c *Ctx, id string) {
	V, P, R := c.V, c.P, c.R
	R.Rule(id, "link-count balance across inverse operations: all writers of Nlink are known; what creating a sub-directory adds to the parent's count, every way of taking a directory out of a parent takes away, and a cross-directory move rewrites '..'", 6)
	doCreate := c.fn(id, "nfs.(*Nfs).doCreate")
	doRemove := c.fn(id, "nfs.(*Nfs).doRemove")
	ren := c.fn(id, "nfs.(*Nfs).NFSPROC3_RENAME")
	if doCreate == nil || doRemove == nil || ren == nil {
		return
	}
	type nl struct {
		fn    *ssa.Function
		in    ssa.Instruction
		delta int64 // +1 / -1 / 0 (= constant assignment)
		base  ssa.Value
	}
	var writes []nl
	for _, fn := range P.RepoFuncs("nfs", "inode", "dir", "fstxn", "shrinker") {
		for _, w := range FieldWrites(fn) {
			if w.Type != V.Inode || w.Field != "Nlink" {
				continue
			}
			d := int64(0)
			if bo, ok := w.Val.(*ssa.BinOp); ok {
				if k, isk := constInt(bo.Y); isk && k == 1 {
					if bo.Op == token.ADD {
						d = 1
					} else if bo.Op == token.SUB {
						d = -1
					}
				}
			}
			writes = append(writes, nl{fn, w.Instr, d, stripConv(w.Base)})
			allowed := fn == V.InitInode || fn == V.DecLink || fn == V.Decode || fn == doCreate || fn == doRemove || fn == ren
			R.Check(allowed, id, FuncName(fn)+"|writes Nlink", P.Pos(w.Instr.Pos()), "Nlink is written only by InitInode (=1), DecLink (-1), Decode and the directory-parent adjustments of doCreate/doRemove/RENAME", "known writer", "a new writer of the link count")
		}
	}
	// does doCreate add a parent link for sub-directories?
	parentInc := false
	for _, w := range writes {
		if w.fn == doCreate && w.delta == 1 {
			parentInc = true
			g := guardedBy(doCreate, w.in.Block(), func(cd Cond) (bool, bool) {
				k, isk := constInt(cd.Y)
				if _, isP := stripConv(cd.X).(*ssa.Parameter); isP && isk && k == 2 && cd.Op == token.EQL {
					return true, true
				}
				return false, false
			})
			R.Check(g, id, "nfs.doCreate|parent link only for directories", P.Pos(w.in.Pos()), "the parent's count is incremented only when a directory is created (for its '..')", "guarded by kind == NF3DIR", "every create inflates the parent's link count")
		}
	}
	if !parentInc {
		R.Pass(id, "nfs.doCreate|no parent link", P.Pos(doCreate.Pos()), "creating a sub-directory does not touch the parent's count: nothing to balance", "no increment")
		return
	}
	// doRemove: decrement of the parent (inodes[1]) when the object (inodes[0]) is a directory
	dec := false
	for _, w := range writes {
		if w.fn == doRemove && w.delta == -1 {
			dec = true
			// followed by WriteInode (also C10.W1)
		}
	}
	R.Check(dec, id, "nfs.doRemove|parent link dropped with the sub-directory", P.Pos(doRemove.Pos()), "removing a directory decrements the parent's Nlink in the same transaction", "decrement present", "RMDIR never gives back the link MKDIR added: a directory that ever had a sub-directory is never freed (inode and blocks leaked)")
	// ... and on every path on which the object unlinked is a directory (whichever procedure asked)
	if dec {
		for _, call := range unlinkCalls(c, doRemove) {
			obj := stripConv(unlinkOf(c, call))
			notDir := condEdge(doRemove, func(cd Cond) (bool, bool) {
				n, fl, base, _ := loadedField(cd.X)
				k, isk := constInt(cd.Y)
				if n == V.Inode && fl == "Kind" && base == obj && isk && k == 2 {
					if cd.Op == token.EQL {
						return true, false
					}
					if cd.Op == token.NEQ {
						return true, true
					}
				}
				return false, false
			})
			var cuts []func(from, to *ssa.BasicBlock) bool
			cuts = append(cuts, notDir)
			for _, w := range writes {
				if w.fn != doRemove || w.delta != -1 {
					continue
				}
				wb := w.in.Block()
				parent := w.base
				cuts = append(cuts, func(from, to *ssa.BasicBlock) bool { return to == wb })
				// the defensive floor: never drop the parent's own link
				cuts = append(cuts, condEdge(doRemove, func(cd Cond) (bool, bool) {
					n, fl, base, _ := loadedField(cd.X)
					k, isk := constInt(cd.Y)
					if n != V.Inode || fl != "Nlink" || base != parent || !isk || k != 1 {
						return false, false
					}
					switch cd.Op {
					case token.GTR:
						return true, false
					case token.LEQ:
						return true, true
					}
					return false, false
				}))
			}
			R.Check(everyPathTakes(doRemove, call.Block(), cuts...), id, "nfs.doRemove|parent link dropped whenever the object is a directory", P.Pos(call.Pos()), "every path to the unlink of the object passes the parent's decrement, or 'object is not a directory', or the floor test on the parent's count", "no path avoids all three", "a directory can be removed (e.g. through REMOVE rather than RMDIR) without giving back the parent's link for its '..': the parent is never freed")
		}
	}
	// RENAME replacing a directory / moving a directory between parents
	decRen, incRen := false, false
	for _, w := range writes {
		if w.fn == ren && w.delta == -1 {
			decRen = true
		}
		if w.fn == ren && w.delta == 1 {
			incRen = true
		}
	}
	R.Check(decRen, id, "NFSPROC3_RENAME|replaced directory: parent link dropped", P.Pos(ren.Pos()), "RENAME over an existing (empty) directory decrements the target parent's Nlink", "decrement present", "RENAME of a directory over an empty directory removes a sub-directory from the target parent without dropping the parent's link for it: the parent can never be freed")
	R.Check(decRen && incRen, id, "NFSPROC3_RENAME|moved directory: links and '..' follow", P.Pos(ren.Pos()), "a cross-directory RENAME of a directory moves the '..' link: source parent -1, target parent +1, '..' entry rewritten", "adjustments present", "a directory moved to another parent keeps '..' pointing to the old parent and both parents' link counts are wrong")
}

func ruleS4(c *Ctx, id string) {
	V, P, R := c.V, c.P, c.R
	R.Rule(id, "a directory is unlinked only if it is empty: every path to the name removal passes 'object is not a directory' or IsDirEmpty(object) == true", 3)
	isEmpty := c.fn(id, "dir.IsDirEmpty")
	remName := c.fn(id, "dir.RemName")
	doRemove := c.fn(id, "nfs.(*Nfs).doRemove")
	ren := c.fn(id, "nfs.(*Nfs).NFSPROC3_RENAME")
	if isEmpty == nil || remName == nil || doRemove == nil || ren == nil {
		return
	}
	// the edges of fn (seen under sub) on which the object is known not to be a directory, or to be empty; the test
	// may be made by a private helper whose answer (status OK / true) fn branches on
	var edgesFor func(fn *ssa.Function, sub Subst, obj func(ssa.Value) bool, depth int) []func(from, to *ssa.BasicBlock) bool
	edgesFor = func(fn *ssa.Function, sub Subst, obj func(ssa.Value) bool, depth int) []func(from, to *ssa.BasicBlock) bool {
		notDir := condEdge(fn, func(cd Cond) (bool, bool) {
			if cd.X == nil || cd.Y == nil {
				return false, false
			}
			n, fl, base, _ := loadedFieldS(cd.X, sub)
			k, isk := constInt(cd.Y)
			if n == V.Inode && fl == "Kind" && base != nil && obj(sub.resolve(stripConv(base))) && isk && k == 2 {
				if cd.Op == token.EQL {
					return true, false
				}
				if cd.Op == token.NEQ {
					return true, true
				}
			}
			return false, false
		})
		empty := condEdge(fn, func(cd Cond) (bool, bool) {
			if cd.Op != token.ILLEGAL {
				return false, false
			}
			ec, ok := cd.X.(*ssa.Call)
			if ok && staticCallee(ec) == isEmpty && obj(sub.resolve(stripConv(ec.Call.Args[0]))) {
				return true, true
			}
			return false, false
		})
		out := []func(from, to *ssa.BasicBlock) bool{notDir, empty}
		if depth < 2 {
			out = append(out, helperClassEdge(fn, sub, func(h *ssa.Function, hs Subst, ret *ssa.BasicBlock) bool {
				return everyPathTakes(h, ret, edgesFor(h, hs, obj, depth+1)...)
			}))
		}
		return out
	}
	check := func(fn *ssa.Function, call ssa.Instruction, obj func(ssa.Value) bool, key string) {
		R.Check(everyPathTakes(fn, call.Block(), edgesFor(fn, Subst{}, obj, 0)...), id, key, P.Pos(call.Pos()), "every path to the removal passes Kind != NF3DIR of the object, or IsDirEmpty(object) == true", "no path avoids both edges", "a non-empty directory can be unlinked (through REMOVE, or RENAME over it): its whole subtree is orphaned")
	}
	// IsDirEmpty looks at every entry after "." and "..": its scan starts at 2*DIRENTSZ and advances by DIRENTSZ
	{
		direntsz := constOfPkg(P, "dir", "DIRENTSZ")
		okStart, okStep := false, true
		nback := 0
		for _, b := range isEmpty.Blocks {
			for _, in := range b.Instrs {
				phi, ok := in.(*ssa.Phi)
				if !ok || phi != stepPhi(isEmpty, direntsz) {
					continue
				}
				for i, e := range phi.Edges {
					if !phi.Block().Dominates(phi.Block().Preds[i]) {
						if k, isk := constInt(e); isk && k == 2*direntsz {
							okStart = true
						}
						continue
					}
					nback++
					add, isA := e.(*ssa.BinOp)
					if !isA || add.Op != token.ADD || add.X != ssa.Value(phi) {
						okStep = false
						continue
					}
					if k, isk := constInt(add.Y); !isk || k != direntsz {
						okStep = false
					}
				}
			}
		}
		// ... and answers "empty" only when the scan ran off the end: a free slot does not end it
		m := scanModelOf(c, isEmpty)
		if _, bound := scanBound(c, isEmpty); bound == nil && m != nil {
			// the slot loop is held by a private iterator, the body is a function literal: explored path by path
			okB, why, n := m.trueOnlyAtEnd()
			R.Check(okB && n > 0, id, "dir.IsDirEmpty|empty only at the end of the scan", P.Pos(isEmpty.Pos()), "IsDirEmpty returns true only on paths that left the slot loop through its bound test (offset < size false)", fmt.Sprintf("%d returning paths explored", n), why+": a free slot (entries are removed in place, later ones stay behind it) makes a directory with live entries look empty; RMDIR / RENAME over it orphans them")
			if m.loop.Fn != isEmpty {
				var st int64
				isk := false
				if sv := m.start(); sv != nil {
					st, isk = constIntDeep(sv)
				}
				adv, nb := m.off.alwaysAdvances()
				okStart, okStep, nback = isk && st == 2*direntsz, adv, nb
			}
		} else if bound != nil {
			okB, why, n := trueOnlyViaBound(isEmpty, bound)
			R.Check(okB && n > 0, id, "dir.IsDirEmpty|empty only at the end of the scan", P.Pos(isEmpty.Pos()), "IsDirEmpty returns true only through the scan loop's own bound test (offset < size false)", "constants; true only via the bound test", why+": a free slot (entries are removed in place, later ones stay behind it) makes a directory with live entries look empty; RMDIR / RENAME over it orphans them")
		} else {
			R.Undecided(id, "dir.IsDirEmpty|empty only at the end of the scan", P.Pos(isEmpty.Pos()), "the scan loop tests offset < directory size", "no such test found")
		}
		R.Check(okStart && okStep && nback > 0, id, "dir.IsDirEmpty|scans every entry after . and ..", P.Pos(isEmpty.Pos()), "the emptiness scan starts at offset 2*DIRENTSZ and advances by DIRENTSZ", "constants agree", "the emptiness test skips real entries (or stops short): a directory with entries is taken for empty and unlinked")
	}
	for _, rc := range P.CallsIn(doRemove, funcIs(remName)) {
		// object = inodes[0]
		obj := func(v ssa.Value) bool {
			u, ok := v.(*ssa.UnOp)
			if !ok {
				return false
			}
			ia, ok := u.X.(*ssa.IndexAddr)
			if !ok {
				return false
			}
			k, isk := constInt(ia.Index)
			return isk && k == 0
		}
		check(doRemove, rc, obj, "nfs.doRemove|object empty or not a directory")
	}
	for _, rc := range P.CallsIn(ren, funcIs(remName)) {
		if _, path := paramFieldPath(callCommon(rc).Args[2]); path != "To.Name" {
			continue
		}
		// object = 'to' (the value passed to doDecLink after it)
		var toVal ssa.Value
		for _, dc := range unlinkCalls(c, ren) {
			if reachableFrom(rc, dc) {
				toVal = stripConv(unlinkOf(c, dc))
			}
		}
		obj := func(v ssa.Value) bool {
			return toVal != nil && (v == toVal || bwdSources(toVal)[v] || bwdSources(v)[toVal])
		}
		check(ren, rc, obj, "NFSPROC3_RENAME|replaced object empty or not a directory")
	}
}

func ruleS5(c *Ctx, id string) {
	V, P, R := c.V, c.P, c.R
	R.Rule(id, "range assertion on pointer-producing and pointer-consuming primitives: AllocBlock asserts its result; ReadBlock and FreeBlock assert their argument before use; indbmap/indshrink assert pointers read from indirect blocks", 5)
	assert := V.AssertValidBlock
	if assert == nil {
		return
	}
	asserts := func(v ssa.Value) func(ssa.Instruction) bool {
		return func(in ssa.Instruction) bool {
			return callTo(assert)(in) && stripConv(argN(in, 0)) == stripConv(v)
		}
	}
	if f := V.AllocBlock; f != nil {
		for _, call := range P.CallsIn(f, funcIs(V.AllocNum)) {
			cl := fwdClosure([]ssa.Value{call.(*ssa.Call)}, false)
			ok := MustAfter(f, func(in ssa.Instruction) bool {
				return callTo(assert)(in) && cl[argN(in, 0)]
			}, nil)(call)
			R.Check(ok, id, "alloctxn.AllocBlock|asserts its result", P.Pos(call.Pos()), "every number handed out by the block allocator is range-checked", "must-follow", "a block outside the data region can be handed out silently (bitmap corruption goes unnoticed)")
		}
	}
	for _, f := range []*ssa.Function{V.ReadBlock, V.FreeBlock} {
		if f == nil {
			continue
		}
		var param ssa.Value = f.Params[1]
		n := 0
		for _, b := range f.Blocks {
			for _, in := range b.Instrs {
				cal := staticCallee(in)
				if cal == nil || cal == assert || cal.Name() == "DPrintf" {
					continue
				}
				uses := false
				for _, a := range callCommon(in).Args {
					if stripConv(a) == param {
						uses = true
					}
				}
				if !uses {
					continue
				}
				n++
				R.Check(MustBefore(f, asserts(param))(in), id, fmt.Sprintf("%s|asserts before use#%d", FuncName(f), n), P.Pos(in.Pos()), "the block number is range-checked before it is used", "must-precede", "a pointer outside the data region is dereferenced / freed")
			}
		}
	}
	for _, spec := range []string{"inode.(*Inode).indbmap", "inode.(*Inode).indshrink"} {
		f := c.fn(id, spec)
		if f == nil {
			continue
		}
		for i, g := range P.CallsIn(f, funcIs(V.BnumGet)) {
			gv := g.(*ssa.Call)
			// the pointer read is asserted, or handed to the recursion that asserts (ReadBlock at entry)
			ok := false
			for _, b := range f.Blocks {
				for _, in := range b.Instrs {
					if callTo(assert)(in) && stripConv(argN(in, 0)) == ssa.Value(gv) {
						ok = true
					}
					if cal := staticCallee(in); cal == f {
						for _, a := range callCommon(in).Args {
							if stripConv(a) == ssa.Value(gv) {
								// recursion: root parameter is passed to ReadBlock (asserting) before use
								ok = ok || len(P.CallsIn(f, funcIs(V.ReadBlock))) > 0
							}
						}
					}
				}
			}
			R.Check(ok, id, fmt.Sprintf("%s|pointer read from disk asserted#%d", FuncName(f), i+1), P.Pos(g.Pos()), "a pointer read from an indirect block is range-checked before it is followed", "AssertValidBlock or asserting recursion", "an on-disk pointer is followed unchecked")
		}
	}
}

// okEdge: a CFG edge (From -> To) along which a status result NFS3_OK flows
// into a return (From == To for a constant returned directly).
type okEdge struct{ From, To *ssa.BasicBlock }

func okSources(fn *ssa.Function) []*ssa.BasicBlock {
	var out []*ssa.BasicBlock
	for _, e := range okEdges(fn) {
		out = append(out, e.From)
	}
	return out
}

func okEdges(fn *ssa.Function) []okEdge {
	var out []okEdge
	var walk func(v ssa.Value, e okEdge, d int)
	walk = func(v ssa.Value, e okEdge, d int) {
		if d > 6 {
			return
		}
		if k, isk := constInt(v); isk {
			if k == 0 {
				out = append(out, e)
			}
			return
		}
		if phi, ok := v.(*ssa.Phi); ok {
			for i, x := range phi.Edges {
				// the edge into the return's own join tells which path delivers the
				// value; inner (loop-carried) phis keep that attribution
				if d == 0 || phi.Block() == e.From {
					walk(x, okEdge{phi.Block().Preds[i], phi.Block()}, d+1)
				} else {
					walk(x, e, d+1)
				}
			}
			return
		}
		// unknown value: may be OK unless this point is dominated by v != NFS3_OK ...
		notOK := func(cd Cond) (bool, bool) {
			if cd.X == nil || cd.Y == nil || stripConv(cd.X) != stripConv(v) {
				return false, false
			}
			if k, isk := constInt(cd.Y); !isk || k != 0 {
				return false, false
			}
			if cd.Op == token.NEQ {
				return true, true
			}
			if cd.Op == token.EQL {
				return true, false
			}
			return false, false
		}
		// ... or the edge itself is the "v != NFS3_OK" side of the test that ends its block
		if e.From != e.To {
			for _, br := range branches(fn) {
				if br.Block != e.From {
					continue
				}
				if ok, pol := notOK(br.Cond); ok {
					succ := br.False
					if pol {
						succ = br.True
					}
					if succ == e.To && br.True != br.False {
						return
					}
				}
			}
		}
		if guardedBy(fn, e.From, func(cd Cond) (bool, bool) {
			if cd.X == nil || cd.Y == nil || stripConv(cd.X) != stripConv(v) {
				return false, false
			}
			if k, isk := constInt(cd.Y); !isk || k != 0 {
				return false, false
			}
			if cd.Op == token.NEQ {
				return true, true
			}
			if cd.Op == token.EQL {
				return true, false
			}
			return false, false
		}) {
			return
		}
		out = append(out, e)
	}
	for _, b := range fn.Blocks {
		if r, ok := b.Instrs[len(b.Instrs)-1].(*ssa.Return); ok {
			for _, res := range r.Results {
				if isNamedStatus(res.Type()) {
					walk(res, okEdge{b, b}, 0)
				}
			}
		}
	}
	return out
}

// helperClassEdge: the edges of fn on which the answer of a private helper is
// "fine" (status NFS3_OK, or true), provided ok holds for every return of the
// helper that gives that answer (ok is told the helper, the substitution of its
// parameters and the block of the return).
func helperClassEdge(fn *ssa.Function, sub Subst, ok func(h *ssa.Function, hs Subst, ret *ssa.BasicBlock) bool) func(from, to *ssa.BasicBlock) bool {
	type edge struct{ f, t *ssa.BasicBlock }
	set := map[edge]bool{}
	tupleOf := func(v ssa.Value) (*ssa.Call, int) {
		v = stripConv(v)
		if ex, isE := v.(*ssa.Extract); isE {
			if c, isC := ex.Tuple.(*ssa.Call); isC {
				return c, ex.Index
			}
			return nil, 0
		}
		c, _ := v.(*ssa.Call)
		return c, 0
	}
	for _, br := range branches(fn) {
		var call *ssa.Call
		idx, class := 0, 0
		var succ *ssa.BasicBlock
		switch {
		case br.Cond.Op == token.ILLEGAL:
			call, idx = tupleOf(br.Cond.X)
			class, succ = 1, br.True
		case br.Cond.Op == token.EQL || br.Cond.Op == token.NEQ:
			c, i := tupleOf(br.Cond.X)
			k, isk := constInt(br.Cond.Y)
			if c != nil && isk && k == 0 && isNamedStatus(stripConv(br.Cond.X).Type()) {
				call, idx, class = c, i, 2
				succ = br.True
				if br.Cond.Op == token.NEQ {
					succ = br.False
				}
			}
		}
		if call == nil || br.True == br.False {
			continue
		}
		h := staticCallee(call)
		if h == nil || !IsRepoFunc(h) || h.Blocks == nil || h == fn || !(isPrivateHelper(h) || h.Parent() != nil) {
			continue
		}
		hs := Subst{}
		for k, v := range sub {
			hs[k] = v
		}
		for i, p := range h.Params {
			if i < len(call.Call.Args) {
				hs[p] = sub.resolve(call.Call.Args[i])
			}
		}
		all, n := true, 0
		for _, b := range h.Blocks {
			r, isR := b.Instrs[len(b.Instrs)-1].(*ssa.Return)
			if !isR || idx >= len(r.Results) {
				continue
			}
			res := r.Results[idx]
			in := true
			if bv, isb := constBool(res); isb {
				in = class == 1 && bv
			} else if k, isk := constInt(res); isk {
				in = class == 2 && k == 0
			}
			if !in {
				continue
			}
			n++
			if _, isC := res.(*ssa.Const); !isC || !ok(h, hs, b) {
				all = false
			}
		}
		if all && n > 0 {
			set[edge{br.Block, succ}] = true
		}
	}
	return func(from, to *ssa.BasicBlock) bool { return set[edge{from, to}] }
}

// inodeArg: the (first) argument of type *inode.Inode of a call; nameArg: the
// first argument of type Filename3.  Found by type, so that a helper may be a
// method or a plain function with its state passed explicitly.
func inodeArg(in ssa.Instruction) ssa.Value {
	cc := callCommon(in)
	if cc == nil {
		return nil
	}
	for _, a := range cc.Args {
		if isInodePtr(a.Type()) {
			return a
		}
	}
	return nil
}

func nameArg(in ssa.Instruction) ssa.Value {
	cc := callCommon(in)
	if cc == nil {
		return nil
	}
	for _, a := range cc.Args {
		if n, ok := types.Unalias(a.Type()).(*types.Named); ok && n.Obj().Name() == "Filename3" {
			return a
		}
	}
	return nil
}

// unlinkOf: in drops one link of an inode - a call of Inode.DecLink, or of a
// go-nfsd helper (doDecLink) that calls DecLink on every path for an inode
// parameter; returns that inode (nil if in is no such call).
func unlinkOf(c *Ctx, in ssa.Instruction) ssa.Value {
	call, ok := in.(*ssa.Call)
	if !ok {
		return nil
	}
	cal := staticCallee(call)
	if cal == nil {
		return nil
	}
	if cal == c.V.DecLink {
		return recvOf(call)
	}
	if i := unlinkParam(c, cal, 0); i >= 0 && i < len(call.Call.Args) {
		return call.Call.Args[i]
	}
	return nil
}

var unlinkMemo = map[*ssa.Function]int{}

// unlinkParam: the index of the inode parameter of helper f on which f always
// performs DecLink (-1: f is not an unlink helper).
func unlinkParam(c *Ctx, f *ssa.Function, d int) int {
	if v, ok := unlinkMemo[f]; ok {
		return v - 1
	}
	unlinkMemo[f] = 0
	res := -1
	if IsRepoFunc(f) && f.Blocks != nil && d < 2 && relPkg(f) == "nfs" {
		for i, p := range f.Params {
			if !isInodePtr(p.Type()) {
				continue
			}
			pv := ssa.Value(p)
			is := func(in ssa.Instruction) bool {
				cl, ok := in.(*ssa.Call)
				if !ok || staticCallee(cl) == nil {
					return false
				}
				if staticCallee(cl) == c.V.DecLink {
					return stripConv(recvOf(cl)) == pv
				}
				if j := unlinkParam(c, staticCallee(cl), d+1); j >= 0 && j < len(cl.Call.Args) {
					return stripConv(cl.Call.Args[j]) == pv
				}
				return false
			}
			entry := f.Blocks[0].Instrs[0]
			if is(entry) || MustAfter(f, is, nil)(entry) {
				res = i
			}
		}
	}
	unlinkMemo[f] = res + 1
	return res
}

func isUnlinkHelper(c *Ctx, f *ssa.Function) bool { return unlinkParam(c, f, 0) >= 0 }

func unlinkCalls(c *Ctx, fn *ssa.Function) []ssa.Instruction {
	var out []ssa.Instruction
	for _, b := range fn.Blocks {
		for _, in := range b.Instrs {
			if unlinkOf(c, in) != nil {
				out = append(out, in)
			}
		}
	}
	return out
}

// ruleSelfRename: RENAME x -> x names one object twice.  Past the lookups the
// handler treats "the target exists" as "another object is replaced": it
// removes the target name and unlinks its inode - the very file being renamed.
// So RENAME needs a way out, before any directory update, on the side where
// the two looked-up numbers are equal; this rule walks from that side of the
// comparison along the branches whose outcome is a constant on this path (the
// flags the handler sets: done = true) and demands a return with no
// RemName / AddName / unlink on the way.
func ruleSelfRename(c *Ctx, id string) {
	V, P, R := c.V, c.P, c.R
	R.Rule(id, "RENAME of a name onto itself changes nothing: the side of the comparison of the two looked-up inode numbers on which they are equal reaches a return without a directory update or an unlink", 1)
	ren := c.fn(id, "nfs.(*Nfs).NFSPROC3_RENAME")
	lookup := c.fn(id, "dir.LookupName")
	addName := c.fn(id, "dir.AddName")
	remName := c.fn(id, "dir.RemName")
	if ren == nil || lookup == nil || addName == nil || remName == nil {
		return
	}
	fromLookup := func(v ssa.Value) bool {
		seen := map[ssa.Value]bool{}
		var w func(v ssa.Value, d int) bool
		w = func(v ssa.Value, d int) bool {
			v = stripConv(v)
			if v == nil || seen[v] || d > 8 {
				return false
			}
			seen[v] = true
			switch x := v.(type) {
			case *ssa.Extract:
				if cl, ok := x.Tuple.(*ssa.Call); ok && x.Index == 0 && staticCallee(cl) == lookup {
					return true
				}
			case *ssa.Phi:
				for _, e := range x.Edges {
					if w(e, d+1) {
						return true
					}
				}
			case *ssa.UnOp:
				if x.Op == token.MUL {
					for _, st := range cellStores(x.X) {
						if w(st.Val, d+1) {
							return true
						}
					}
				}
			}
			return false
		}
		return w(v, 0)
	}
	isUpdate := func(in ssa.Instruction) bool {
		g := staticCallee(in)
		return g != nil && (g == addName || g == remName || g == V.DecLink || (V.DecLink != nil && g.Name() == "doDecLink"))
	}
	// the comparison may be made by a predicate ("sameEntry(dipfrom, dipto, frominum, toinum)"): a private
	// helper that answers true only where two of its parameters - handed the two looked-up numbers - are equal
	predWrongSide := false
	predEqual := func(call *ssa.Call) bool {
		h := staticCallee(call)
		if h == nil || !isPrivateHelper(h) || h.Blocks == nil || h.Signature.Results().Len() != 1 {
			return false
		}
		var pi, pj *ssa.Parameter
		var eq *ssa.BinOp
		for _, b := range h.Blocks {
			for _, in := range b.Instrs {
				bo, ok := in.(*ssa.BinOp)
				if !ok || bo.Op != token.EQL {
					continue
				}
				x, okx := stripConv(bo.X).(*ssa.Parameter)
				y, oky := stripConv(bo.Y).(*ssa.Parameter)
				if okx && oky && isInumType(x.Type()) && isInumType(y.Type()) {
					pi, pj, eq = x, y, bo
				}
			}
		}
		if eq == nil {
			return false
		}
		idx := func(pm *ssa.Parameter) int {
			for i, q := range h.Params {
				if q == pm {
					return i
				}
			}
			return -1
		}
		args := fullArgs(call)
		i, j := idx(pi), idx(pj)
		if i < 0 || j < 0 || i >= len(args) || j >= len(args) || !fromLookup(args[i]) || !fromLookup(args[j]) {
			return false
		}
		// true only where the two are equal
		isEq := func(Subst) func(Cond) (bool, bool) {
			return func(cd Cond) (bool, bool) {
				if cd.Op == token.EQL && ((stripConv(cd.X) == ssa.Value(pi) && stripConv(cd.Y) == ssa.Value(pj)) || (stripConv(cd.X) == ssa.Value(pj) && stripConv(cd.Y) == ssa.Value(pi))) {
					return true, true
				}
				return false, false
			}
		}
		ok := true
		seen := map[ssa.Value]bool{}
		var walk func(v ssa.Value, from, to *ssa.BasicBlock, d int)
		walk = func(v ssa.Value, from, to *ssa.BasicBlock, d int) {
			if ph, isP := v.(*ssa.Phi); isP && d < 6 {
				if seen[ph] {
					return
				}
				seen[ph] = true
				for k, e := range ph.Edges {
					walk(e, ph.Block().Preds[k], ph.Block(), d+1)
				}
				return
			}
			if v == ssa.Value(eq) {
				return
			}
			if bv, isb := constBool(v); isb {
				if bv && (from == nil || !edgeGuardedX(h, from, to, isEq, nil, 0)) {
					ok = false
				}
				return
			}
			ok = false
		}
		for _, b := range h.Blocks {
			if r, isR := b.Instrs[len(b.Instrs)-1].(*ssa.Return); isR {
				walk(r.Results[0], nil, nil, 0)
			}
		}
		// ... and the comparison of the numbers is not confined to the side where two directory inodes differ
		if guardedBy(h, eq.Block(), func(cd Cond) (bool, bool) {
			if (cd.Op != token.EQL && cd.Op != token.NEQ) || cd.X == nil || cd.Y == nil {
				return false, false
			}
			if derefNamed(cd.X.Type()) != V.Inode || derefNamed(cd.Y.Type()) != V.Inode || isNilConst(cd.X) || isNilConst(cd.Y) {
				return false, false
			}
			return true, cd.Op == token.NEQ
		}) {
			predWrongSide = true
		}
		return ok
	}
	n := 0
	for _, br := range branches(ren) {
		viaPred := false
		if br.Cond.Op == token.ILLEGAL && br.Cond.X != nil {
			if cl, isC := br.Cond.X.(*ssa.Call); isC && predEqual(cl) {
				viaPred = true
			}
		}
		if !viaPred {
			if (br.Cond.Op != token.EQL && br.Cond.Op != token.NEQ) || br.Cond.X == nil || br.Cond.Y == nil {
				continue
			}
			if !isInumType(br.Cond.X.Type()) || !fromLookup(br.Cond.X) || !fromLookup(br.Cond.Y) {
				continue
			}
		}
		n++
		side := br.True
		if br.Cond.Op == token.NEQ {
			side = br.False
		}
		// walk: constants decide the branches
		prev, cur := br.Block, side
		ok, why := false, "no return reached"
		// flags kept in cells (a variable captured by a closure): what this path stored into them, and what a load
		// on this path therefore yields
		cells := map[ssa.Value]bool{}
		loads := map[ssa.Value]bool{}
		for steps := 0; steps < 40 && cur != nil; steps++ {
			bad := false
			for _, in := range cur.Instrs {
				if isUpdate(in) {
					bad = true
				}
				if st, isS := in.(*ssa.Store); isS {
					if bv, isb := constBool(st.Val); isb {
						cells[st.Addr] = bv
					} else {
						delete(cells, st.Addr)
					}
				}
				if ld, isL := in.(*ssa.UnOp); isL && ld.Op == token.MUL {
					if bv, known := cells[ld.X]; known {
						loads[ld] = bv
					}
				}
				if cl, isC := in.(*ssa.Call); isC {
					// a call may change a captured flag: forget what is known unless the callee is outside the server
					if g := staticCallee(cl); g == nil || IsRepoFunc(g) {
						if _, isCommit := in.(*ssa.Call); isCommit && g != nil && g.Parent() == nil && funcPkg(g) != funcPkg(ren) {
							// a function of another package cannot see the handler's locals
						} else {
							cells = map[ssa.Value]bool{}
						}
					}
				}
			}
			if bad {
				why = "a directory update or an unlink lies on the way"
				break
			}
			last := cur.Instrs[len(cur.Instrs)-1]
			switch x := last.(type) {
			case *ssa.Return:
				ok = true
			case *ssa.Jump:
				prev, cur = cur, cur.Succs[0]
				continue
			case *ssa.If:
				cond := x.Cond
				neg := false
				for {
					if u, isU := cond.(*ssa.UnOp); isU && u.Op == token.NOT {
						cond, neg = u.X, !neg
						continue
					}
					break
				}
				var val ssa.Value = cond
				if ph, isP := cond.(*ssa.Phi); isP && ph.Block() == cur {
					for i, p := range cur.Preds {
						if p == prev {
							val = ph.Edges[i]
						}
					}
				}
				bv, isb := constBool(val)
				if lv, known := loads[val]; !isb && known {
					bv, isb = lv, true
				}
				if !isb {
					why = "a branch on the way does not depend on a constant of this path (" + P.Pos(x.Pos()) + ")"
					cur = nil
					continue
				}
				if neg {
					bv = !bv
				}
				if bv {
					prev, cur = cur, cur.Succs[0]
				} else {
					prev, cur = cur, cur.Succs[1]
				}
				continue
			default:
				why = "unexpected end of block"
			}
			break
		}
		// the comparison itself must be reached when source and target are in one directory: it may sit behind a
		// test of the two directory inodes, then on the side where they are the same
		wrongSide := guardedBy(ren, br.Block, func(cd Cond) (bool, bool) {
			if (cd.Op != token.EQL && cd.Op != token.NEQ) || cd.X == nil || cd.Y == nil {
				return false, false
			}
			if derefNamed(cd.X.Type()) != V.Inode || derefNamed(cd.Y.Type()) != V.Inode || isNilConst(cd.X) || isNilConst(cd.Y) {
				return false, false
			}
			return true, cd.Op == token.NEQ
		})
		if wrongSide || (viaPred && predWrongSide) {
			ok, why = false, "the comparison is made only where the two directories differ"
		}
		R.Analysed[FuncName(ren)] = true
		R.Check(ok, id, fmt.Sprintf("NFSPROC3_RENAME|same object: no update#%d", n), P.Pos(br.Block.Instrs[len(br.Block.Instrs)-1].Pos()), "where source and target name the same inode the handler returns without touching the directories", "constant path to a return", why+": RENAME x -> x goes on as if another object were replaced - it removes the target name and unlinks its inode, the very file being renamed: an acknowledged RENAME deletes the file")
	}
	if n == 0 {
		R.Fail(id, "NFSPROC3_RENAME|same object: no update", P.Pos(ren.Pos()), "RENAME compares the inode numbers its two lookups found", "no such comparison: RENAME x -> x is handled like the replacement of another object - it removes the target name and unlinks its inode, the very file being renamed")
	}
}

func isInumType(t types.Type) bool {
	n, ok := types.Unalias(t).(*types.Named)
	if ok && n.Obj().Name() == "Inum" {
		return true
	}
	b, ok := t.Underlying().(*types.Basic)
	return ok && b.Kind() == types.Uint64
}
